// Package deco is a decorator around repository.Headers placed by the harness
// between the real service layer and the real SQL repository: it logs every call,
// can fail or "crash" at the k-th write boundary, and can park the calling
// goroutine for a controlled scheduler.
package deco

import (
	"github.com/bitcoin-sv/block-headers-service/domains"
	"github.com/bitcoin-sv/block-headers-service/internal/chaincfg/chainhash"
	"github.com/bitcoin-sv/block-headers-service/repository"
)

// Crash is the sentinel panic value used for in-process abandonment.
type Crash struct {
	Op    string
	Index int
	After bool
}

// Hooks are called around every repository method.
type Hooks struct {
	// Before is called before the inner method; a non-nil error is returned to the
	// caller instead of performing the call (only honoured for methods that return an error).
	Before func(op string, write bool, arg string) error
	// After is called after the inner method returned.
	After func(op string, write bool, err error)
}

// Headers wraps an inner repository.
type Headers struct {
	Inner repository.Headers
	H     *Hooks
}

// Wrap returns a function suitable for rig.Options.WrapHeaders.
func Wrap(h *Hooks) func(repository.Headers) repository.Headers {
	return func(in repository.Headers) repository.Headers { return &Headers{Inner: in, H: h} }
}

func (d *Headers) before(op string, write bool, arg string) error {
	if d.H != nil && d.H.Before != nil {
		return d.H.Before(op, write, arg)
	}
	return nil
}

func (d *Headers) after(op string, write bool, err error) {
	if d.H != nil && d.H.After != nil {
		d.H.After(op, write, err)
	}
}

// IsWrite reports whether an op name is a write-transaction boundary.
func IsWrite(op string) bool {
	return op == "AddHeaderToDatabase" || op == "UpdateState" || op == "AddMultipleHeadersToDatabase"
}

func (d *Headers) AddHeaderToDatabase(h domains.BlockHeader) error {
	if err := d.before("AddHeaderToDatabase", true, h.Hash.String()); err != nil {
		return err
	}
	err := d.Inner.AddHeaderToDatabase(h)
	d.after("AddHeaderToDatabase", true, err)
	return err
}

func (d *Headers) AddMultipleHeadersToDatabase(hs []domains.BlockHeader) error {
	if err := d.before("AddMultipleHeadersToDatabase", true, ""); err != nil {
		return err
	}
	err := d.Inner.AddMultipleHeadersToDatabase(hs)
	d.after("AddMultipleHeadersToDatabase", true, err)
	return err
}

func (d *Headers) UpdateState(hs []chainhash.Hash, st domains.HeaderState) error {
	if err := d.before("UpdateState", true, st.String()); err != nil {
		return err
	}
	err := d.Inner.UpdateState(hs, st)
	d.after("UpdateState", true, err)
	return err
}

func (d *Headers) GetHeaderByHeight(height int32) (*domains.BlockHeader, error) {
	if err := d.before("GetHeaderByHeight", false, ""); err != nil {
		return nil, err
	}
	r, err := d.Inner.GetHeaderByHeight(height)
	d.after("GetHeaderByHeight", false, err)
	return r, err
}

func (d *Headers) GetHeaderByHeightRange(from int, to int) ([]*domains.BlockHeader, error) {
	if err := d.before("GetHeaderByHeightRange", false, ""); err != nil {
		return nil, err
	}
	r, err := d.Inner.GetHeaderByHeightRange(from, to)
	d.after("GetHeaderByHeightRange", false, err)
	return r, err
}

func (d *Headers) GetLongestChainHeadersFromHeight(height int32) ([]*domains.BlockHeader, error) {
	if err := d.before("GetLongestChainHeadersFromHeight", false, ""); err != nil {
		return nil, err
	}
	r, err := d.Inner.GetLongestChainHeadersFromHeight(height)
	d.after("GetLongestChainHeadersFromHeight", false, err)
	return r, err
}

func (d *Headers) GetStaleChainHeadersBackFrom(hash string) ([]*domains.BlockHeader, error) {
	if err := d.before("GetStaleChainHeadersBackFrom", false, hash); err != nil {
		return nil, err
	}
	r, err := d.Inner.GetStaleChainHeadersBackFrom(hash)
	d.after("GetStaleChainHeadersBackFrom", false, err)
	return r, err
}

func (d *Headers) GetCurrentHeight() (int, error) {
	if err := d.before("GetCurrentHeight", false, ""); err != nil {
		return 0, err
	}
	r, err := d.Inner.GetCurrentHeight()
	d.after("GetCurrentHeight", false, err)
	return r, err
}

func (d *Headers) GetHeadersCount() (int, error) {
	if err := d.before("GetHeadersCount", false, ""); err != nil {
		return 0, err
	}
	r, err := d.Inner.GetHeadersCount()
	d.after("GetHeadersCount", false, err)
	return r, err
}

func (d *Headers) GetHeaderByHash(hash string) (*domains.BlockHeader, error) {
	if err := d.before("GetHeaderByHash", false, hash); err != nil {
		return nil, err
	}
	r, err := d.Inner.GetHeaderByHash(hash)
	d.after("GetHeaderByHash", false, err)
	return r, err
}

func (d *Headers) GetMerkleRootsConfirmations(request []domains.MerkleRootConfirmationRequestItem, maxBlockHeightExcess int) ([]*domains.MerkleRootConfirmation, error) {
	if err := d.before("GetMerkleRootsConfirmations", false, ""); err != nil {
		return nil, err
	}
	r, err := d.Inner.GetMerkleRootsConfirmations(request, maxBlockHeightExcess)
	d.after("GetMerkleRootsConfirmations", false, err)
	return r, err
}

func (d *Headers) GetMerkleRoots(batchSize int, lastEvaluatedKey string) (*domains.MerkleRootsESKPagedResponse, error) {
	if err := d.before("GetMerkleRoots", false, ""); err != nil {
		return nil, err
	}
	r, err := d.Inner.GetMerkleRoots(batchSize, lastEvaluatedKey)
	d.after("GetMerkleRoots", false, err)
	return r, err
}

func (d *Headers) GenesisExists() bool {
	_ = d.before("GenesisExists", false, "")
	r := d.Inner.GenesisExists()
	d.after("GenesisExists", false, nil)
	return r
}

func (d *Headers) GetPreviousHeader(hash string) (*domains.BlockHeader, error) {
	if err := d.before("GetPreviousHeader", false, hash); err != nil {
		return nil, err
	}
	r, err := d.Inner.GetPreviousHeader(hash)
	d.after("GetPreviousHeader", false, err)
	return r, err
}

func (d *Headers) GetTip() (*domains.BlockHeader, error) {
	if err := d.before("GetTip", false, ""); err != nil {
		return nil, err
	}
	r, err := d.Inner.GetTip()
	d.after("GetTip", false, err)
	return r, err
}

func (d *Headers) GetAllTips() ([]*domains.BlockHeader, error) {
	if err := d.before("GetAllTips", false, ""); err != nil {
		return nil, err
	}
	r, err := d.Inner.GetAllTips()
	d.after("GetAllTips", false, err)
	return r, err
}

func (d *Headers) GetAncestorOnHeight(hash string, height int32) (*domains.BlockHeader, error) {
	if err := d.before("GetAncestorOnHeight", false, hash); err != nil {
		return nil, err
	}
	r, err := d.Inner.GetAncestorOnHeight(hash, height)
	d.after("GetAncestorOnHeight", false, err)
	return r, err
}

func (d *Headers) GetChainBetweenTwoHashes(low string, high string) ([]*domains.BlockHeader, error) {
	if err := d.before("GetChainBetweenTwoHashes", false, low); err != nil {
		return nil, err
	}
	r, err := d.Inner.GetChainBetweenTwoHashes(low, high)
	d.after("GetChainBetweenTwoHashes", false, err)
	return r, err
}

func (d *Headers) GetHeadersStartHeight(hashtable []string) (int, error) {
	if err := d.before("GetHeadersStartHeight", false, ""); err != nil {
		return 0, err
	}
	r, err := d.Inner.GetHeadersStartHeight(hashtable)
	d.after("GetHeadersStartHeight", false, err)
	return r, err
}

func (d *Headers) GetHeadersByHeightRange(from int, to int) ([]*domains.BlockHeader, error) {
	if err := d.before("GetHeadersByHeightRange", false, ""); err != nil {
		return nil, err
	}
	r, err := d.Inner.GetHeadersByHeightRange(from, to)
	d.after("GetHeadersByHeightRange", false, err)
	return r, err
}

func (d *Headers) GetHeadersStopHeight(hashStop string) (int, error) {
	if err := d.before("GetHeadersStopHeight", false, hashStop); err != nil {
		return 0, err
	}
	r, err := d.Inner.GetHeadersStopHeight(hashStop)
	d.after("GetHeadersStopHeight", false, err)
	return r, err
}

var _ repository.Headers = (*Headers)(nil)
