// Package mb (model-based) runs header histories through the real stack and the
// reference model in lock step and compares them.
package mb

import (
	"fmt"
	"sort"
	"strings"
	"sync"

	"github.com/bitcoin-sv/block-headers-service/internal/chaincfg"
	"github.com/bitcoin-sv/block-headers-service/internal/chaincfg/chainhash"
	"github.com/bitcoin-sv/block-headers-service/service"
	"github.com/bitcoin-sv/block-headers-service/verifharness/refmodel"
	"github.com/bitcoin-sv/block-headers-service/verifharness/rig"
	"github.com/bitcoin-sv/block-headers-service/verifharness/snap"
)

// Diff is one disagreement between the table and the model.
type Diff struct {
	Hash  string `json:"hash"`
	Field string `json:"field"`
	Want  string `json:"want"`
	Got   string `json:"got"`
}

func (d Diff) String() string {
	return fmt.Sprintf("%s.%s: model %s, store %s", short(d.Hash), d.Field, d.Want, d.Got)
}

func short(h string) string {
	if len(h) > 12 {
		return h[len(h)-12:]
	}
	return h
}

// ExpectRow renders the row the model expects for a node.
func ExpectRow(n *refmodel.Node) snap.Row {
	return snap.Row{
		Hash: n.Hash.String(), Prev: n.Prev.String(), Merkle: n.Merkle.String(),
		Height: int64(n.Height), Version: int64(n.Version), Nonce: int64(n.Nonce),
		Bits: fmt.Sprint(n.Bits), Chainwork: n.Work.String(), CumWork: n.Cum.String(),
		TimeUnix: int64(n.Time), TimeNanos: 0, State: n.State,
	}
}

// CompareTable compares a snapshot with the model: same set of hashes, every field, every label.
// labelsOnly restricts to presence + state.
func CompareTable(m *refmodel.Model, t snap.Headers, labelsOnly bool) []Diff {
	var ds []Diff
	for _, n := range m.Order {
		hs := n.Hash.String()
		r, ok := t[hs]
		if !ok {
			ds = append(ds, Diff{hs, "present", "stored", "missing"})
			continue
		}
		w := ExpectRow(n)
		if r.State != w.State {
			ds = append(ds, Diff{hs, "state", w.State, r.State})
		}
		if labelsOnly {
			continue
		}
		chk := func(f, a, b string) {
			if a != b {
				ds = append(ds, Diff{hs, f, a, b})
			}
		}
		chk("previous_block", w.Prev, r.Prev)
		chk("merkleroot", w.Merkle, r.Merkle)
		chk("height", fmt.Sprint(w.Height), fmt.Sprint(r.Height))
		chk("version", fmt.Sprint(w.Version), fmt.Sprint(r.Version))
		chk("nonce", fmt.Sprint(w.Nonce), fmt.Sprint(r.Nonce))
		chk("bits", w.Bits, r.Bits)
		chk("chainwork", w.Chainwork, r.Chainwork)
		chk("cumulated_work", w.CumWork, r.CumWork)
		chk("timestamp", fmt.Sprintf("%d.%09d", w.TimeUnix, w.TimeNanos), fmt.Sprintf("%d.%09d", r.TimeUnix, r.TimeNanos))
	}
	if len(t) != len(m.Order) {
		for h := range t {
			if hh, ok := refmodel.ParseHash(h); !ok || m.Nodes[hh] == nil {
				ds = append(ds, Diff{h, "present", "absent", "stored"})
			}
		}
	}
	sort.Slice(ds, func(i, j int) bool { return ds[i].Hash+ds[i].Field < ds[j].Hash+ds[j].Field })
	return ds
}

// WantCode maps a model outcome to the Add answer the property expects.
func WantCode(outcome string) string {
	switch outcome {
	case refmodel.Stored:
		return "stored"
	case refmodel.Duplicate:
		return service.HeaderAlreadyExists.String()
	default:
		return service.BlockRejected.String()
	}
}

// ---------------------------------------------------------------------------
// forbidden headers: harness-chosen hashes appended to the network parameters
// once per process, before any service is built.

var (
	forbOnce sync.Once
	forb     []refmodel.Hdr
)

// ForbiddenHeaders returns a fixed set of harness-built headers whose hashes are
// on the forbidden list of the (process-global) main-net parameters: two children
// of genesis, one child of an unknown parent.
func ForbiddenHeaders() []refmodel.Hdr {
	forbOnce.Do(func() {
		g := rig.Genesis().HashOf()
		mk := func(prev refmodel.Hash, i int) refmodel.Hdr {
			h := refmodel.Hdr{Version: 0x20000000, Prev: prev, Time: 1231006505 + uint32(i), Bits: 0x1c00ffff, Nonce: uint32(0xF0000000 + i)}
			for k := range h.Merkle {
				h.Merkle[k] = byte(0xF0 + i)
			}
			return h
		}
		var unk refmodel.Hash
		for k := range unk {
			unk[k] = 0x77
		}
		forb = []refmodel.Hdr{mk(g, 1), mk(g, 2), mk(unk, 3)}
		for _, h := range forb {
			hh := chainhash.Hash(h.HashOf())
			chaincfg.MainNetParams.HeadersToIgnore = append(chaincfg.MainNetParams.HeadersToIgnore, &hh)
		}
	})
	return forb
}

// NewModel creates a model with genesis and the forbidden list installed.
func NewModel() *refmodel.Model {
	m := refmodel.New(rig.Genesis())
	for _, h := range ForbiddenHeaders() {
		m.Forbidden[h.HashOf()] = true
	}
	return m
}

// StepInfo is the result of one lock-step submission.
type StepInfo struct {
	Outcome  string // model outcome
	Node     *refmodel.Node
	Reorg    bool
	Res      rig.AddResult
	PrevBest *refmodel.Node
}

// ViaWire makes Step deliver headers through the wire codec (as a peer does) instead of calling Chains.Add with a
// hand-built domain struct. Set per process by checks that want the P2P ingestion path.
var ViaWire func(h refmodel.Hdr) bool

// Step submits h to the store and then to the model.
func Step(s *rig.Stack, m *refmodel.Model, h refmodel.Hdr) StepInfo {
	si := StepInfo{PrevBest: m.Best()}
	if ViaWire != nil && ViaWire(h) {
		si.Res = s.AddViaWire(h)
	} else {
		si.Res = s.Add(h)
	}
	si.Outcome, si.Node, si.Reorg = m.Submit(h)
	return si
}

// DescribeDiffs renders up to n diffs.
func DescribeDiffs(ds []Diff, n int) string {
	var parts []string
	for i, d := range ds {
		if i >= n {
			parts = append(parts, fmt.Sprintf("… %d more", len(ds)-n))
			break
		}
		parts = append(parts, d.String())
	}
	return strings.Join(parts, "; ")
}
