package mb

import (
	"bytes"
	"encoding/json"
	"fmt"
	"io"

	"github.com/bitcoin-sv/block-headers-service/verifharness/refmodel"
)

// HeaderJSON is the API's header object, numbers kept as json.Number so that no
// precision is lost and out-of-range values are visible.
type HeaderJSON struct {
	Hash      string      `json:"hash"`
	Version   json.Number `json:"version"`
	Prev      string      `json:"prevBlockHash"`
	Merkle    string      `json:"merkleRoot"`
	Timestamp json.Number `json:"creationTimestamp"`
	Bits      json.Number `json:"difficultyTarget"`
	Nonce     json.Number `json:"nonce"`
	Work      json.Number `json:"work"` // string in headers API, number in tips API
}

// StateJSON is the API's header-with-state object.
type StateJSON struct {
	Header    HeaderJSON  `json:"header"`
	State     string      `json:"state"`
	ChainWork json.Number `json:"chainWork"`
	Height    json.Number `json:"height"`
}

// DecodeOne decodes exactly one JSON document into v (UseNumber) and reports
// trailing garbage.
func DecodeOne(b []byte, v any) error {
	d := json.NewDecoder(bytes.NewReader(b))
	d.UseNumber()
	if err := d.Decode(v); err != nil {
		return err
	}
	var extra json.RawMessage
	if err := d.Decode(&extra); err != io.EOF {
		return fmt.Errorf("trailing data after the JSON document")
	}
	return nil
}

// CheckHeaderJSON compares an API header object with the model node; returns "" or a description.
func CheckHeaderJSON(j HeaderJSON, n *refmodel.Node) string {
	chk := func(f, got, want string) string {
		if got != want {
			return fmt.Sprintf("%s: API %q, expected %q", f, got, want)
		}
		return ""
	}
	for _, s := range []string{
		chk("hash", j.Hash, n.Hash.String()),
		chk("version", j.Version.String(), fmt.Sprint(n.Version)),
		chk("prevBlockHash", j.Prev, n.Prev.String()),
		chk("merkleRoot", j.Merkle, n.Merkle.String()),
		chk("creationTimestamp", j.Timestamp.String(), fmt.Sprint(n.Time)),
		chk("difficultyTarget", j.Bits.String(), fmt.Sprint(n.Bits)),
		chk("nonce", j.Nonce.String(), fmt.Sprint(n.Nonce)),
		chk("work", j.Work.String(), n.Work.String()),
	} {
		if s != "" {
			return s
		}
	}
	return ""
}

// CheckStateJSON compares an API header-state object with the model node.
func CheckStateJSON(j StateJSON, n *refmodel.Node) string {
	if s := CheckHeaderJSON(j.Header, n); s != "" {
		return s
	}
	if j.State != n.State {
		return fmt.Sprintf("state: API %q, expected %q", j.State, n.State)
	}
	if j.ChainWork.String() != n.Cum.String() {
		return fmt.Sprintf("chainWork: API %s, expected %s", j.ChainWork, n.Cum)
	}
	if j.Height.String() != fmt.Sprint(n.Height) {
		return fmt.Sprintf("height: API %s, expected %d", j.Height, n.Height)
	}
	return ""
}
