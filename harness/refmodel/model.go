// Package refmodel is an independent reference model of the header tree and of
// the query semantics, written from the property statements (not from the
// implementation). It is used only as an oracle against which the real stack is
// compared. It shares no code with the repository: own serialisation, own
// double-SHA256, own compact-bits/work arithmetic.
package refmodel

import (
	"crypto/sha256"
	"encoding/binary"
	"encoding/hex"
	"math/big"
	"sort"
)

// Hash is a 32-byte hash in internal (little-endian) byte order.
type Hash [32]byte

// String renders the hash the way Bitcoin displays it (byte-reversed hex).
func (h Hash) String() string {
	var r [32]byte
	for i := 0; i < 32; i++ {
		r[i] = h[31-i]
	}
	return hex.EncodeToString(r[:])
}

// ParseHash parses display-order hex.
func ParseHash(s string) (Hash, bool) {
	var h Hash
	b, err := hex.DecodeString(s)
	if err != nil || len(b) != 32 {
		return h, false
	}
	for i := 0; i < 32; i++ {
		h[i] = b[31-i]
	}
	return h, true
}

// Hdr is the 80-byte block header as submitted.
type Hdr struct {
	Version int32
	Prev    Hash
	Merkle  Hash
	Time    uint32 // seconds since the epoch
	Bits    uint32
	Nonce   uint32
}

// Bytes is the 80-byte wire serialisation.
func (h Hdr) Bytes() []byte {
	b := make([]byte, 80)
	binary.LittleEndian.PutUint32(b[0:], uint32(h.Version))
	copy(b[4:], h.Prev[:])
	copy(b[36:], h.Merkle[:])
	binary.LittleEndian.PutUint32(b[68:], h.Time)
	binary.LittleEndian.PutUint32(b[72:], h.Bits)
	binary.LittleEndian.PutUint32(b[76:], h.Nonce)
	return b
}

// Hex is the header as 160 hex characters.
func (h Hdr) Hex() string { return hex.EncodeToString(h.Bytes()) }

// HdrFromHex parses 160 hex characters.
func HdrFromHex(s string) (Hdr, bool) {
	b, err := hex.DecodeString(s)
	if err != nil || len(b) != 80 {
		return Hdr{}, false
	}
	var h Hdr
	h.Version = int32(binary.LittleEndian.Uint32(b[0:]))
	copy(h.Prev[:], b[4:36])
	copy(h.Merkle[:], b[36:68])
	h.Time = binary.LittleEndian.Uint32(b[68:])
	h.Bits = binary.LittleEndian.Uint32(b[72:])
	h.Nonce = binary.LittleEndian.Uint32(b[76:])
	return h, true
}

// HashOf is double SHA-256 of the 80-byte serialisation.
func (h Hdr) HashOf() Hash {
	a := sha256.Sum256(h.Bytes())
	return Hash(sha256.Sum256(a[:]))
}

var (
	two256 = new(big.Int).Exp(big.NewInt(2), big.NewInt(256), nil)
	b256   = big.NewInt(256)
)

// Target decodes compact bits: sign x mantissa x 256^(exponent-3), truncating
// when the exponent is below 3. Written with Exp / Quo only (no shifts).
func Target(bits uint32) *big.Int {
	mant := big.NewInt(int64(bits & 0x007fffff))
	exp := int64(bits >> 24)
	neg := bits&0x00800000 != 0
	var t *big.Int
	if exp >= 3 {
		t = new(big.Int).Mul(mant, new(big.Int).Exp(b256, big.NewInt(exp-3), nil))
	} else {
		t = new(big.Int).Quo(mant, new(big.Int).Exp(b256, big.NewInt(3-exp), nil))
	}
	if neg {
		t.Neg(t)
	}
	return t
}

// Work is floor(2^256/(target+1)), zero for non-positive targets.
func Work(bits uint32) *big.Int {
	t := Target(bits)
	if t.Sign() <= 0 {
		return new(big.Int)
	}
	return new(big.Int).Quo(two256, new(big.Int).Add(t, big.NewInt(1)))
}

// State labels.
const (
	Longest = "LONGEST_CHAIN"
	Stale   = "STALE"
	Orphan  = "ORPHAN"
)

// Outcome of a submission.
const (
	Stored    = "stored"
	Duplicate = "duplicate"
	Forbidden = "forbidden"
)

// Node is one stored header in the model.
type Node struct {
	Hdr
	Hash      Hash
	Height    int32
	Work      *big.Int
	Cum       *big.Int
	Seq       int
	Connected bool // genesis-connected (not orphan)
	Parent    *Node
	State     string
}

// Model is the declarative header tree.
type Model struct {
	Nodes     map[Hash]*Node
	Order     []*Node // arrival order, genesis first
	Genesis   *Node
	Forbidden map[Hash]bool
	best      *Node
}

// New creates a model holding the given genesis header (height 0, connected).
func New(genesis Hdr) *Model {
	g := &Node{Hdr: genesis, Hash: genesis.HashOf(), Height: 0, Work: Work(genesis.Bits), Seq: 0, Connected: true, State: Longest}
	g.Cum = new(big.Int).Set(g.Work)
	m := &Model{Nodes: map[Hash]*Node{g.Hash: g}, Order: []*Node{g}, Genesis: g, Forbidden: map[Hash]bool{}}
	m.best = g
	return m
}

// Clone makes a deep copy (nodes are re-created; big ints shared immutable).
func (m *Model) Clone() *Model {
	c := &Model{Nodes: map[Hash]*Node{}, Forbidden: map[Hash]bool{}}
	for k, v := range m.Forbidden {
		c.Forbidden[k] = v
	}
	for _, n := range m.Order {
		nn := *n
		if n.Parent != nil {
			nn.Parent = c.Nodes[n.Parent.Hash]
		}
		c.Nodes[nn.Hash] = &nn
		c.Order = append(c.Order, &nn)
	}
	c.Genesis = c.Order[0]
	c.best = c.Nodes[m.best.Hash]
	return c
}

// Classify tells what Submit would answer without changing anything.
func (m *Model) Classify(h Hdr) string {
	hash := h.HashOf()
	if _, ok := m.Nodes[hash]; ok {
		return Duplicate
	}
	if m.Forbidden[hash] {
		return Forbidden
	}
	return Stored
}

// Submit applies one submission and relabels the whole tree declaratively.
// It returns the outcome, the node (nil unless stored) and whether the best
// header changed to something other than a child of the previous best
// (a reorganisation).
func (m *Model) Submit(h Hdr) (string, *Node, bool) {
	hash := h.HashOf()
	if _, ok := m.Nodes[hash]; ok {
		return Duplicate, nil, false
	}
	if m.Forbidden[hash] {
		return Forbidden, nil, false
	}
	n := &Node{Hdr: h, Hash: hash, Work: Work(h.Bits), Seq: len(m.Order)}
	p := m.Nodes[h.Prev]
	switch {
	case p == nil:
		n.Height = 1
		n.Cum = new(big.Int).Set(n.Work)
	case !p.Connected:
		n.Parent = p
		n.Height = p.Height + 1
		n.Cum = new(big.Int).Add(p.Cum, n.Work)
	default:
		n.Parent = p
		n.Connected = true
		n.Height = p.Height + 1
		n.Cum = new(big.Int).Add(p.Cum, n.Work)
	}
	m.Nodes[hash] = n
	m.Order = append(m.Order, n)
	prevBest := m.best
	m.Relabel()
	reorg := m.best != prevBest && m.best.Parent != prevBest
	return Stored, n, reorg
}

// Relabel recomputes best and all labels from scratch.
func (m *Model) Relabel() {
	var best *Node
	for _, n := range m.Order { // arrival order: the first maximal one wins ties
		if !n.Connected {
			continue
		}
		if best == nil || n.Cum.Cmp(best.Cum) > 0 {
			best = n
		}
	}
	m.best = best
	on := map[*Node]bool{}
	for x := best; x != nil; x = x.Parent {
		on[x] = true
	}
	for _, n := range m.Order {
		switch {
		case !n.Connected:
			n.State = Orphan
		case on[n]:
			n.State = Longest
		default:
			n.State = Stale
		}
	}
}

// HasLateParent reports an orphan root whose parent hash was stored after it
// (the stored heights of the two are then unrelated).
func (m *Model) HasLateParent(n *Node) bool {
	if n.Parent != nil || n == m.Genesis {
		return false
	}
	_, ok := m.Nodes[n.Prev]
	return ok
}

// Best is the genesis-connected header with the greatest cumulative work, the
// earliest stored among equals.
func (m *Model) Best() *Node { return m.best }

// LongestPath returns genesis..best in ascending height.
func (m *Model) LongestPath() []*Node {
	var p []*Node
	for x := m.best; x != nil; x = x.Parent {
		p = append(p, x)
	}
	for i, j := 0, len(p)-1; i < j; i, j = i+1, j-1 {
		p[i], p[j] = p[j], p[i]
	}
	return p
}

// LongestAt returns the longest-chain node at a height or nil.
func (m *Model) LongestAt(height int64) *Node {
	if height < 0 || height > int64(m.best.Height) {
		return nil
	}
	x := m.best
	for x != nil && int64(x.Height) > height {
		x = x.Parent
	}
	return x
}

// IsAncestor reports whether a is an ancestor of (or equal to) d via parent links.
func IsAncestor(a, d *Node) bool {
	for x := d; x != nil; x = x.Parent {
		if x == a {
			return true
		}
		if x.Height < a.Height {
			return false
		}
	}
	return false
}

// Path returns the strictly-between nodes and the two endpoints of the
// parent-linked path from anc up to desc (anc first), or nil if desc does not
// descend from anc.
func Path(anc, desc *Node) []*Node {
	if !IsAncestor(anc, desc) {
		return nil
	}
	var p []*Node
	for x := desc; x != nil; x = x.Parent {
		p = append(p, x)
		if x == anc {
			break
		}
	}
	for i, j := 0, len(p)-1; i < j; i, j = i+1, j-1 {
		p[i], p[j] = p[j], p[i]
	}
	return p
}

// Tips per the statement: the longest tip plus every leaf of a stale or orphan
// branch (a non-longest header with no non-longest child).
func (m *Model) Tips() []*Node {
	hasNonLongestChild := map[Hash]bool{}
	for _, n := range m.Order {
		if n.State != Longest {
			hasNonLongestChild[n.Prev] = true // by hash: also covers a parent that arrived after its orphan child
		}
	}
	out := []*Node{m.best}
	for _, n := range m.Order {
		if n.State != Longest && !hasNonLongestChild[n.Hash] {
			out = append(out, n)
		}
	}
	return out
}

// CommonAncestor is the highest header strictly below the lowest given height
// that is an ancestor of all given headers; nil if none exists in the store.
func (m *Model) CommonAncestor(ns []*Node) *Node {
	if len(ns) == 0 {
		return nil
	}
	minH := ns[0].Height
	for _, n := range ns {
		if n.Height < minH {
			minH = n.Height
		}
	}
	// candidates: ancestors of ns[0] strictly below minH, from the top
	for x := ns[0]; x != nil; x = x.Parent {
		if x.Height >= minH {
			continue
		}
		ok := true
		for _, n := range ns {
			if !IsAncestor(x, n) {
				ok = false
				break
			}
		}
		if ok {
			return x
		}
	}
	return nil
}

// Merkle verdicts.
const (
	Confirmed      = "CONFIRMED"
	UnableToVerify = "UNABLE_TO_VERIFY"
	Invalid        = "INVALID"
)

// MerkleVerdict: CONFIRMED exactly when the longest-chain header at that height
// carries that root; UNABLE_TO_VERIFY exactly when the height lies above the tip
// by at most excess; INVALID otherwise. merkle is display-order hex (lower case).
func (m *Model) MerkleVerdict(merkle string, height int64, excess int64) (string, string) {
	if n := m.LongestAt(height); n != nil && n.Merkle.String() == merkle {
		return Confirmed, n.Hash.String()
	}
	tip := int64(m.best.Height)
	if height > tip && height-tip <= excess {
		return UnableToVerify, ""
	}
	return Invalid, ""
}

// Worst aggregates verdicts: INVALID > UNABLE_TO_VERIFY > CONFIRMED.
func Worst(vs []string) string {
	w := Confirmed
	for _, v := range vs {
		if v == Invalid {
			return Invalid
		}
		if v == UnableToVerify {
			w = UnableToVerify
		}
	}
	return w
}

// LocatorHeights: tip, then one block at a time for the first entries (10 single
// steps), then doubling steps, ending at genesis.
func LocatorHeights(tip int32) []int32 {
	var hs []int32
	step := int32(1)
	h := tip
	for {
		hs = append(hs, h)
		if h == 0 {
			break
		}
		h -= step
		if h < 0 {
			h = 0
		}
		if len(hs) > 10 {
			step *= 2
		}
	}
	return hs
}

// GetHeaders answers a getheaders(locator, stop): longest-chain headers after
// the highest locator entry on the longest chain (height 0 if none), ascending,
// ending at stop when it lies ahead on the longest chain, at most max; a stop at
// or below the start yields nothing.
func (m *Model) GetHeaders(locator []Hash, stop Hash, max int) []*Node {
	start := int32(0)
	for _, l := range locator {
		if n, ok := m.Nodes[l]; ok && n.State == Longest && n.Height > start {
			start = n.Height
		}
	}
	path := m.LongestPath()
	end := int32(len(path) - 1)
	var zero Hash
	if stop != zero {
		if n, ok := m.Nodes[stop]; ok && n.State == Longest {
			if n.Height <= start {
				return nil
			}
			end = n.Height
		}
	}
	var out []*Node
	for h := start + 1; h <= end && len(out) < max; h++ {
		out = append(out, path[h])
	}
	return out
}

// SortedByHash returns nodes sorted by display hash (for deterministic output).
func SortedByHash(ns []*Node) []*Node {
	c := append([]*Node(nil), ns...)
	sort.Slice(c, func(i, j int) bool { return c[i].Hash.String() < c[j].Hash.String() })
	return c
}
