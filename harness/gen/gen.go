// Package gen holds the seeded generators for header histories.
package gen

import (
	"fmt"
	"math/rand"
	"strings"

	"github.com/bitcoin-sv/block-headers-service/verifharness/refmodel"
)

// Work classes (bits patterns).
var (
	BitsNormal  = uint32(0x1d00ffff) // mainnet-like
	BitsHeavy   = uint32(0x1c00ffff) // 256x the work
	BitsLight   = uint32(0x1d01ffff) // about half the work
	BitsZero    = uint32(0x1d000000) // zero mantissa: zero target
	BitsNeg     = uint32(0x1d80ffff) // sign bit: negative target
	BitsTinyExp = uint32(0x02008000) // exponent < 3, truncating: target 128
	BitsTrunc0  = uint32(0x01003456) // exponent 1: truncates to zero
	BitsHugeExp = uint32(0xff00ffff) // target > 2^256: floor gives zero work
)

// BitsClasses maps a class letter to bits.
var BitsClasses = map[byte]uint32{
	'M': BitsNormal, 'H': BitsHeavy, 'L': BitsLight, 'Z': BitsZero, 'N': BitsNeg, 'T': BitsTinyExp, 'U': BitsTrunc0, 'X': BitsHugeExp,
}

// Opts steer the random generator.
type Opts struct {
	N            int            // number of submissions
	PDup         float64        // probability of re-submitting an earlier header
	PUnknown     float64        // probability that a new header's parent is an unknown hash
	PLate        float64        // probability that a new header is withheld and delivered later (late parent)
	PFork        float64        // probability of attaching to a random earlier header instead of a recent tip
	Classes      string         // work class letters to draw from; 'R' = random uint32
	FieldExtreme bool           // draw versions/nonce/time from the corners of their ranges
	Forbidden    []refmodel.Hdr // pre-built forbidden headers that may be submitted
	PForbidden   float64
	PMerkleDup   float64 // probability that a new header re-uses the merkle root of an earlier one
}

// History is a sequence of submissions in arrival order.
type History struct {
	Hdrs []refmodel.Hdr
}

// Hex renders the history for replay files.
func (h History) Hex() []string {
	out := make([]string, len(h.Hdrs))
	for i, x := range h.Hdrs {
		out[i] = x.Hex()
	}
	return out
}

// FromHex parses a history.
func FromHex(xs []string) (History, error) {
	var h History
	for _, x := range xs {
		hd, ok := refmodel.HdrFromHex(x)
		if !ok {
			return h, fmt.Errorf("bad header hex %q", x)
		}
		h.Hdrs = append(h.Hdrs, hd)
	}
	return h, nil
}

func randHash(rng *rand.Rand) refmodel.Hash {
	var h refmodel.Hash
	rng.Read(h[:])
	return h
}

var versionCorners = []int32{-2147483648, -1, 0, 1, 2, 0x20000000, 2147483647}
var u32Corners = []uint32{0, 1, 0x7fffffff, 0x80000000, 0xfffffffe, 0xffffffff}
var timeCorners = []uint32{0, 1, 86399, 86400, 946684800, 1231006505, 0x7fffffff, 0x80000000, 0xfffffffe, 0xffffffff}

// Fields fills version/time/nonce/merkle of a new header.
func Fields(rng *rand.Rand, h *refmodel.Hdr, extreme bool, counter int) {
	h.Merkle = randHash(rng)
	if extreme && rng.Intn(3) > 0 {
		switch rng.Intn(3) {
		case 0:
			h.Version = versionCorners[rng.Intn(len(versionCorners))]
		default:
			h.Version = int32(rng.Uint32())
		}
		switch rng.Intn(3) {
		case 0:
			h.Nonce = u32Corners[rng.Intn(len(u32Corners))]
		default:
			h.Nonce = rng.Uint32()
		}
		switch rng.Intn(3) {
		case 0:
			h.Time = timeCorners[rng.Intn(len(timeCorners))]
		default:
			h.Time = rng.Uint32()
		}
		return
	}
	h.Version = 0x20000000
	h.Nonce = uint32(counter)
	h.Time = 1231006505 + uint32(counter)*600
}

// CornerBits are encodings at the boundaries of the arithmetic: exponents around 0x20-0x23 (targets around 2^256:
// tiny positive work, or none), exponents 0..4 (truncation), single-bit mantissas, sign bit with zero mantissa, and work values next to 2^32 / 2^64 / 2^128 / 2^192.
var CornerBits = []uint32{
	0x2100ffff, 0x21000001, 0x210000ff, 0x21010000, 0x220000ff, 0x22000001, 0x22000100, 0x2000ffff, 0x207fffff, 0x23000001,
	0x00000000, 0x00800000, 0x00800005, 0x01003456, 0x01000000, 0x02008000, 0x02923456, 0x02000012, 0x03000001, 0x03800001, 0x037fffff,
	0x04000001, 0x04800001, 0x05000001, 0x0900ffff, 0x09010000, 0x097fffff, 0x0a000001, 0x1d008000, 0x1d7fffff, 0x1d800000, 0x1e00ffff,
	// work just below / around 2^32, 2^64, 2^128, 2^192 (sums of two or three such headers cross a machine-word boundary)
	0x1f000001, 0x1f000002, 0x1b000001, 0x1b000002, 0x1b000003, 0x1901ffff, 0x1900ffff, 0x13000001, 0x13000002, 0x0b000001, 0x0b000002,
}

// PickBits draws bits from the class string ('R' = random uint32, 'C' = a corner encoding, 'W' = work next to 2^32/2^64/2^128/2^192).
func PickBits(rng *rand.Rand, classes string) uint32 {
	if classes == "" {
		classes = "M"
	}
	c := classes[rng.Intn(len(classes))]
	if c == 'R' {
		return rng.Uint32()
	}
	if c == 'C' {
		return CornerBits[rng.Intn(len(CornerBits))]
	}
	if c == 'W' { // work next to a machine-word boundary (the last 11 corner encodings)
		return CornerBits[len(CornerBits)-11+rng.Intn(11)]
	}
	return BitsClasses[c]
}

// Random builds a random history on top of the given genesis.
func Random(rng *rand.Rand, genesis refmodel.Hdr, o Opts) History {
	type known struct {
		hdr  refmodel.Hdr
		hash refmodel.Hash
	}
	gh := genesis.HashOf()
	created := []known{} // all created headers (delivered or withheld)
	var withheld []refmodel.Hdr
	var delivered []refmodel.Hdr
	var out History
	lastNew := gh
	counter := 0
	for len(out.Hdrs) < o.N {
		x := rng.Float64()
		if x < o.PDup && len(delivered) > 0 {
			out.Hdrs = append(out.Hdrs, delivered[rng.Intn(len(delivered))])
			continue
		}
		if x < o.PDup+o.PForbidden && len(o.Forbidden) > 0 {
			out.Hdrs = append(out.Hdrs, o.Forbidden[rng.Intn(len(o.Forbidden))])
			continue
		}
		if len(withheld) > 0 && rng.Float64() < 0.35 {
			i := rng.Intn(len(withheld))
			out.Hdrs = append(out.Hdrs, withheld[i])
			delivered = append(delivered, withheld[i])
			withheld = append(withheld[:i], withheld[i+1:]...)
			continue
		}
		counter++
		var h refmodel.Hdr
		y := rng.Float64()
		switch {
		case y < o.PUnknown:
			h.Prev = randHash(rng)
		case y < o.PUnknown+o.PFork && len(created) > 0:
			if rng.Intn(6) == 0 {
				h.Prev = gh
			} else {
				h.Prev = created[rng.Intn(len(created))].hash
			}
		default:
			h.Prev = lastNew
		}
		h.Bits = PickBits(rng, o.Classes)
		Fields(rng, &h, o.FieldExtreme, counter)
		if o.PMerkleDup > 0 && len(created) > 0 && rng.Float64() < o.PMerkleDup {
			h.Merkle = created[rng.Intn(len(created))].hdr.Merkle
		}
		k := known{hdr: h, hash: h.HashOf()}
		created = append(created, k)
		lastNew = k.hash
		if rng.Float64() < o.PLate {
			withheld = append(withheld, h)
			continue
		}
		out.Hdrs = append(out.Hdrs, h)
		delivered = append(delivered, h)
	}
	return out
}

// DeepReorg builds a history whose last submission reorganises the chain over `depth` heights: a common prefix, a
// branch of depth headers (longest first), then a competing branch of depth+1 headers of equal work each, which stays
// stale until its last header overtakes.
func DeepReorg(rng *rand.Rand, genesis refmodel.Hdr, prefix, depth int) History {
	var out History
	counter := 0
	mk := func(prev refmodel.Hash) refmodel.Hdr {
		counter++
		h := refmodel.Hdr{Prev: prev, Bits: BitsNormal}
		Fields(rng, &h, false, counter)
		return h
	}
	p := genesis.HashOf()
	for i := 0; i < prefix; i++ {
		h := mk(p)
		out.Hdrs = append(out.Hdrs, h)
		p = h.HashOf()
	}
	a, b := p, p
	for i := 0; i < depth; i++ {
		h := mk(a)
		out.Hdrs = append(out.Hdrs, h)
		a = h.HashOf()
	}
	for i := 0; i < depth+1; i++ {
		h := mk(b)
		out.Hdrs = append(out.Hdrs, h)
		b = h.HashOf()
	}
	return out
}

// Signature computes the shape signature of a history relative to a model run:
// per submission its relation to earlier submissions and its work class.
func Signature(genesis refmodel.Hdr, h History) (sig string, forks, orphans, dups int) {
	pos := map[refmodel.Hash]int{genesis.HashOf(): 0}
	children := map[refmodel.Hash]int{}
	var sb strings.Builder
	for i, x := range h.Hdrs {
		hash := x.HashOf()
		if p, ok := pos[hash]; ok {
			fmt.Fprintf(&sb, "D%d;", p)
			dups++
			continue
		}
		if p, ok := pos[x.Prev]; ok {
			fmt.Fprintf(&sb, "P%d", p)
			children[x.Prev]++
			if children[x.Prev] == 2 {
				forks++
			}
		} else {
			sb.WriteString("U")
			orphans++
		}
		fmt.Fprintf(&sb, "b%08x;", x.Bits)
		pos[hash] = i + 1
	}
	// late parents: a header whose hash equals the Prev of an earlier submission
	return sb.String(), forks, orphans, dups
}

// Tree describes one bounded-exhaustive tree: Parent[i] in {-1 genesis, -2 unknown, j<i}, Class[i] a class letter.
type Tree struct {
	Parent []int
	Class  []byte
}

// EnumTrees enumerates all trees with exactly n new headers over the class alphabet.
func EnumTrees(n int, classes string, fn func(Tree)) {
	parent := make([]int, n)
	class := make([]byte, n)
	var rec func(i int)
	rec = func(i int) {
		if i == n {
			t := Tree{Parent: append([]int(nil), parent...), Class: append([]byte(nil), class...)}
			fn(t)
			return
		}
		for p := -2; p < i; p++ {
			parent[i] = p
			for c := 0; c < len(classes); c++ {
				class[i] = classes[c]
				rec(i + 1)
			}
		}
	}
	rec(0)
}

// Build materialises a tree into headers (creation order). Deterministic.
func (t Tree) Build(genesis refmodel.Hdr) []refmodel.Hdr {
	gh := genesis.HashOf()
	hs := make([]refmodel.Hdr, len(t.Parent))
	hashes := make([]refmodel.Hash, len(t.Parent))
	for i := range t.Parent {
		var h refmodel.Hdr
		switch t.Parent[i] {
		case -1:
			h.Prev = gh
		case -2:
			for k := range h.Prev {
				h.Prev[k] = byte(0xA0 + i)
			}
		default:
			h.Prev = hashes[t.Parent[i]]
		}
		h.Bits = BitsClasses[t.Class[i]]
		h.Version = 0x20000000
		h.Nonce = uint32(i + 1)
		h.Time = 1231006505 + uint32(i+1)*600
		for k := range h.Merkle {
			h.Merkle[k] = byte(0x10*(i+1) + k%7)
		}
		hs[i] = h
		hashes[i] = h.HashOf()
	}
	return hs
}

// Permutations calls fn with every permutation of 0..n-1.
func Permutations(n int, fn func([]int)) {
	p := make([]int, n)
	for i := range p {
		p[i] = i
	}
	var rec func(k int)
	rec = func(k int) {
		if k == n {
			fn(p)
			return
		}
		for i := k; i < n; i++ {
			p[k], p[i] = p[i], p[k]
			rec(k + 1)
			p[k], p[i] = p[i], p[k]
		}
	}
	rec(0)
}
