// Not a buildable module: this go.mod only keeps `go build ./...` / `go vet ./...` of the harness from
// descending into this directory (the .go file here is overlaid into /repo/transports/p2p).
module verifharness-hooks

go 1.24.0
