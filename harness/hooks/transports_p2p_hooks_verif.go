//go:build verif

// Verification hook (build tag "verif" only, add-only): a thin "peer book" API that
// lets an out-of-package monitor drive the UNMODIFIED admission handlers
// (handleAddPeerMsg / handleDonePeerMsg / handleBanPeerMsg) on a fresh peerState with
// real serverPeers. Nothing here is compiled without the tag.

package p2p

import (
	"net"
	"time"

	"github.com/bitcoin-sv/block-headers-service/config"
	"github.com/bitcoin-sv/block-headers-service/transports/p2p/addrmgr"
	"github.com/bitcoin-sv/block-headers-service/transports/p2p/peer"
	"github.com/rs/zerolog"
)

// VerifPeerBook is a peerState plus the minimal server the three handlers read
// (shutdown flag, logger, ban duration, address manager).
type VerifPeerBook struct {
	s     *server
	state *peerState
}

// VerifPeer wraps a real serverPeer.
type VerifPeer struct{ sp *serverPeer }

// VerifNewPeerBook builds an empty peer book whose bans last banDuration.
func VerifNewPeerBook(banDuration time.Duration, log *zerolog.Logger) *VerifPeerBook {
	noLookup := func(string) ([]net.IP, error) { return nil, nil }
	s := &server{
		chainParams:  config.ActiveNetParams,
		addrManager:  addrmgr.New(noLookup, log),
		wireServices: defaultServices,
		p2pConfig:    &config.P2PConfig{BanDuration: banDuration, UserAgentName: "verif", UserAgentVersion: "0.0.0"},
		log:          log,
	}
	return &VerifPeerBook{s: s, state: &peerState{
		inboundPeers:    make(map[int32]*serverPeer),
		persistentPeers: make(map[int32]*serverPeer),
		outboundPeers:   make(map[int32]*serverPeer),
		banned:          make(map[string]time.Time),
		outboundGroups:  make(map[string]int),
		connectionCount: make(map[string]int),
	}}
}

// NewPeer builds a real serverPeer (as inboundPeerConnected / outboundPeerConnected do,
// minus the message listeners and the connection request) over conn and starts the
// real version handshake on it. For inbound peers the address is conn.RemoteAddr().
// It returns nil if the outbound address cannot be parsed.
func (b *VerifPeerBook) NewPeer(inbound, persistent bool, addr string, conn net.Conn) *VerifPeer {
	sp := newServerPeer(b.s, persistent, b.s.log)
	cfg := newPeerConfig(sp)
	cfg.NewestBlock = nil                   // would need the sync manager
	cfg.Listeners = peer.MessageListeners{} // admission is driven by Add, not by OnVersion
	if inbound {
		sp.Peer = peer.NewInboundPeer(cfg)
	} else {
		p, err := peer.NewOutboundPeer(cfg, addr)
		if err != nil {
			return nil
		}
		sp.Peer = p
	}
	sp.AssociateConnection(conn)
	return &VerifPeer{sp: sp}
}

// Ready tells whether the version handshake has completed in both directions.
func (p *VerifPeer) Ready() bool { return p.sp.VersionKnown() && p.sp.VerAckReceived() }

// Connected reports the peer's Connected() flag.
func (p *VerifPeer) Connected() bool { return p.sp.Connected() }

// ID is the peer id assigned by the handshake.
func (p *VerifPeer) ID() int32 { return p.sp.ID() }

// Add runs the unmodified handleAddPeerMsg.
func (b *VerifPeerBook) Add(p *VerifPeer) bool { return b.s.handleAddPeerMsg(b.state, p.sp) }

// Done disconnects the peer (as the real flow does before donePeers fires) and runs
// the unmodified handleDonePeerMsg.
func (b *VerifPeerBook) Done(p *VerifPeer) {
	p.sp.Disconnect()
	b.s.handleDonePeerMsg(b.state, p.sp)
}

// Ban runs the unmodified handleBanPeerMsg.
func (b *VerifPeerBook) Ban(p *VerifPeer) { b.s.handleBanPeerMsg(b.state, p.sp.Peer) }

// Counts returns copies of the bookkeeping: Count(), per-host, per-group and bans.
func (b *VerifPeerBook) Counts() (total int, perHost map[string]int, perGroup map[string]int, banned map[string]time.Time) {
	perHost, perGroup, banned = map[string]int{}, map[string]int{}, map[string]time.Time{}
	for k, v := range b.state.connectionCount {
		perHost[k] = v
	}
	for k, v := range b.state.outboundGroups {
		perGroup[k] = v
	}
	for k, v := range b.state.banned {
		banned[k] = v
	}
	return b.state.Count(), perHost, perGroup, banned
}
