//go:build c18dev

// vcheck: one binary, one sub-command per property.
package main

import (
	"encoding/json"
	"fmt"
	"os"
	"sort"

	"github.com/bitcoin-sv/block-headers-service/verifharness/checks/c18"
	"github.com/bitcoin-sv/block-headers-service/verifharness/ev"
)

var registry = map[string]func() ev.Spec{"C18": c18.Spec}

func register(id string, f func() ev.Spec) { registry[id] = f }

// subcommands are helper entry points (self-killing children etc.), "vcheck __name args...".
var subcommands = map[string]func([]string){}

func main() {
	if len(os.Args) < 2 {
		ids := make([]string, 0, len(registry))
		for k := range registry {
			ids = append(ids, k)
		}
		sort.Strings(ids)
		fmt.Fprintln(os.Stderr, "usage: vcheck <property> [quick|thorough] | vcheck <property> --replay <file>\nproperties:", ids)
		os.Exit(2)
	}
	id := os.Args[1]
	if sc, ok := subcommands[id]; ok {
		sc(os.Args[2:])
		return
	}
	f, ok := registry[id]
	if !ok {
		fmt.Fprintln(os.Stderr, "unknown property", id)
		os.Exit(2)
	}
	if len(os.Args) >= 4 && os.Args[2] == "--replay" {
		b, err := os.ReadFile(os.Args[3])
		if err != nil {
			fmt.Fprintln(os.Stderr, err)
			os.Exit(2)
		}
		var rep struct {
			Tier   string `json:"tier"`
			Seed   int64  `json:"seed"`
			CaseID string `json:"case_id"`
		}
		if err := json.Unmarshal(b, &rep); err != nil {
			fmt.Fprintln(os.Stderr, err)
			os.Exit(2)
		}
		os.Setenv("VERIF_TIER", rep.Tier)
		os.Setenv("VERIF_SEED", fmt.Sprint(rep.Seed))
		os.Setenv("VCHECK_ONLY", rep.CaseID)
		os.Setenv("VCHECK_INPROC", "1")
	} else if len(os.Args) >= 3 {
		os.Setenv("VERIF_TIER", os.Args[2])
	}
	ev.Main(f())
}
