package main

import "github.com/bitcoin-sv/block-headers-service/verifharness/checks/c20"

func init() { register("C20", c20.Spec) }
