package main

import "github.com/bitcoin-sv/block-headers-service/verifharness/checks/c15"

func init() { register("C15", c15.Spec) }
