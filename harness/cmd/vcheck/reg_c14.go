package main

import "github.com/bitcoin-sv/block-headers-service/verifharness/checks/c14"

func init() { register("C14", c14.Spec) }
