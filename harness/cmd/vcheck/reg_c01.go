package main

import "github.com/bitcoin-sv/block-headers-service/verifharness/checks/c01"

func init() { register("C01", c01.Spec) }
