package main

import "github.com/bitcoin-sv/block-headers-service/verifharness/checks/c16"

func init() { register("C16", c16.Spec) }
