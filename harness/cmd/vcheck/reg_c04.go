package main

import "github.com/bitcoin-sv/block-headers-service/verifharness/checks/c04"

func init() { register("C04", c04.Spec) }
