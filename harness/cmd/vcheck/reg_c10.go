package main

import "github.com/bitcoin-sv/block-headers-service/verifharness/checks/c10"

func init() { register("C10", c10.Spec) }
