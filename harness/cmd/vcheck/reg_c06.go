package main

import (
	"encoding/json"
	"fmt"
	"os"

	"github.com/bitcoin-sv/block-headers-service/verifharness/checks/c06"
	"github.com/bitcoin-sv/block-headers-service/verifharness/p2prig"
)

func init() {
	register("C06", c06.Spec)
	subcommands["__scenario"] = p2prig.ScenarioMain
	// __c06gen <case index> : print the scenario the current VERIF_SEED / VERIF_TIER generates (debug aid)
	subcommands["__c06gen"] = func(args []string) {
		var i int
		fmt.Sscan(args[0], &i)
		b, _ := json.Marshal(c06.GenerateFor(i))
		fmt.Println(string(b))
		os.Exit(0)
	}
}
