package main

import (
	"github.com/bitcoin-sv/block-headers-service/verifharness/checks/c06"
	"github.com/bitcoin-sv/block-headers-service/verifharness/p2prig"
)

func init() {
	register("C06", c06.Spec)
	subcommands["__scenario"] = p2prig.ScenarioMain
}
