package main

import "github.com/bitcoin-sv/block-headers-service/verifharness/checks/c12"

func init() { register("C12", c12.Spec) }
