package main

import "github.com/bitcoin-sv/block-headers-service/verifharness/checks/c13"

func init() { register("C13", c13.Spec) }
