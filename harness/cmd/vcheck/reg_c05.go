package main

import "github.com/bitcoin-sv/block-headers-service/verifharness/checks/c05"

func init() {
	register("C05", c05.Spec)
	subcommands["__c05kill"] = c05.KillChildMain
}
