package main

import "github.com/bitcoin-sv/block-headers-service/verifharness/checks/c08"

func init() { register("C08", c08.Spec) }
