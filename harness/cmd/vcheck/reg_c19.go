package main

import "github.com/bitcoin-sv/block-headers-service/verifharness/checks/c19"

func init() { register("C19", c19.Spec) }
