package main

import (
	"encoding/json"
	"fmt"
	"os"

	"github.com/bitcoin-sv/block-headers-service/verifharness/checks/c07"
	"github.com/bitcoin-sv/block-headers-service/verifharness/ev"
)

func init() {
	register("C07", c07.Spec)
	// __c07gen <case index> : print the scenario the current VERIF_SEED / VERIF_TIER generates (debug aid)
	subcommands["__c07gen"] = func(args []string) {
		var i int
		fmt.Sscan(args[0], &i)
		r := ev.NewDetached("C07")
		b, _ := json.Marshal(c07.Generate(r.Rand(fmt.Sprintf("s/%d", i)), i, r.Thorough()))
		fmt.Println(string(b))
		os.Exit(0)
	}
}
