package main

import "github.com/bitcoin-sv/block-headers-service/verifharness/checks/c07"

func init() { register("C07", c07.Spec) }
