package main

import "github.com/bitcoin-sv/block-headers-service/verifharness/checks/c17"

func init() { register("C17", c17.Spec) }
