package main

import "github.com/bitcoin-sv/block-headers-service/verifharness/checks/c11"

func init() { register("C11", c11.Spec) }
