package main

import "github.com/bitcoin-sv/block-headers-service/verifharness/checks/c09"

func init() { register("C09", c09.Spec) }
