package main

import "github.com/bitcoin-sv/block-headers-service/verifharness/checks/c02"

func init() { register("C02", c02.Spec) }
