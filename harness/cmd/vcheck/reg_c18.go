package main

import "github.com/bitcoin-sv/block-headers-service/verifharness/checks/c18"

func init() { register("C18", c18.Spec) }
