package main

import "github.com/bitcoin-sv/block-headers-service/verifharness/checks/c03"

func init() { register("C03", c03.Spec) }
