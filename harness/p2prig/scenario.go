package p2prig

import (
	"encoding/json"
	"fmt"
	"io"
	"math/rand"
	"net"
	"net/http"
	"os"
	"os/exec"
	"path/filepath"
	"regexp"
	"runtime"
	"runtime/pprof"
	"strconv"
	"strings"
	"sync"
	"sync/atomic"
	"time"

	"github.com/centrifugal/centrifuge"

	"github.com/bitcoin-sv/block-headers-service/config"
	"github.com/bitcoin-sv/block-headers-service/internal/chaincfg"
	"github.com/bitcoin-sv/block-headers-service/internal/chaincfg/chainhash"
	"github.com/bitcoin-sv/block-headers-service/internal/wire"
	"github.com/bitcoin-sv/block-headers-service/notification"
	"github.com/bitcoin-sv/block-headers-service/service"
	"github.com/bitcoin-sv/block-headers-service/transports/p2p"
	peerpkg "github.com/bitcoin-sv/block-headers-service/transports/p2p/peer"
	"github.com/bitcoin-sv/block-headers-service/verifharness/gen"
	"github.com/bitcoin-sv/block-headers-service/verifharness/refmodel"
	"github.com/bitcoin-sv/block-headers-service/verifharness/rig"
	"github.com/bitcoin-sv/block-headers-service/verifharness/snap"
)

// slowPublisher stands in for the centrifuge node: it reads every byte of the payload, before and after a short pause.
type slowPublisher struct {
	x   *runner
	sum atomic.Uint64
	n   atomic.Int64
}

func (p *slowPublisher) Publish(_ string, data []byte, _ ...centrifuge.PublishOption) (centrifuge.PublishResult, error) {
	var a uint64
	for _, b := range data {
		a += uint64(b)
	}
	time.Sleep(150 * time.Microsecond)
	for _, b := range data {
		a += uint64(b)
	}
	p.sum.Add(a)
	p.n.Add(1)
	return centrifuge.PublishResult{}, nil
}

// NodeSpec describes one scripted node of a scenario.
type NodeSpec struct {
	Kind                 string `json:"kind"`               // honest | laggard | forker | forbidden | badcheckpoint
	Lag                  int    `json:"lag,omitempty"`      // laggard: blocks behind the honest tip
	ForkAt               int    `json:"fork_at,omitempty"`  // forker: height of the fork point on the honest chain
	ForkLen              int    `json:"fork_len,omitempty"` // forker: length of its own (lighter) branch
	Cap                  int    `json:"cap,omitempty"`      // reply cap (0 = 2000)
	DisconnectAtMsg      int    `json:"disconnect_at_msg,omitempty"`
	CloseAfterVersion    bool   `json:"close_after_version,omitempty"`     // the first connection is lost after the node's version message, before its verack
	LoseFirstN           int    `json:"lose_first_n,omitempty"`            // the scripted loss (disconnect_at_msg / close_after_version) hits the first n connections, not only the first
	VersionTwice         bool   `json:"version_twice,omitempty"`           // on its first connection(s) the node sends its version message twice and no verack
	UnknownFirst         bool   `json:"unknown_first,omitempty"`           // right after the handshake the node sends a message with a command unknown to the service
	PushOnHandshake      bool   `json:"push_on_handshake,omitempty"`       // unsolicited pushes go out right after the handshake, not after the first getheaders answer
	NotFullNode          bool   `json:"not_full_node,omitempty"`           // the node does not advertise NODE_NETWORK (it is no candidate to sync from)
	RestartOnDrop        bool   `json:"restart_on_drop,omitempty"`         // the scripted loss of the first connection takes every other open connection of the node with it (the node restarts)
	ProtoVer             uint32 `json:"proto_ver,omitempty"`               // protocol version the node reports (0 = 70013); below 70012 there is no sendheaders: new blocks are announced by inv
	IgnoreStop           bool   `json:"ignore_stop,omitempty"`             // answers do not end at the stop hash (all that remain, or the cap)
	SilentFirst          bool   `json:"silent_first,omitempty"`            // the first connection never answers getheaders, later ones do
	OffendOnce           bool   `json:"offend_once,omitempty"`             // forbidden: after it has delivered the forbidden header once the node follows the honest chain
	OthersGoWithOffender bool   `json:"others_go_with_offender,omitempty"` // forbidden: when the connection that delivered the forbidden header ends, the node closes its other connections too (the service then dials the host again at once)
	InvBatch             int    `json:"inv_batch,omitempty"`               // inv announcements of this node list its last n blocks, oldest first (the service may know the earlier ones)
	VersionLag           int    `json:"version_lag,omitempty"`             // the node's version message reports a height this many blocks below its chain: it found blocks while it was being synced from
	DropAfterHeight      int    `json:"drop_after_height,omitempty"`       // the node closes the connection right after the getheaders answer that contains this height
	Silent               bool   `json:"silent,omitempty"`                  // never answers getheaders (stall)
	Inbound              bool   `json:"inbound,omitempty"`                 // node dials the service instead of being dialled
	ForbiddenAt          int    `json:"forbidden_at,omitempty"`            // forbidden: height at which its chain carries the forbidden header
	BadAt                int    `json:"bad_at,omitempty"`                  // badcheckpoint: checkpoint height at which its chain differs
	MaxAccepts           int    `json:"max_accepts,omitempty"`
	MaxLive              int    `json:"max_live,omitempty"`         // at most n simultaneous connections (1 = "a single connection")
	NoDescendants        bool   `json:"no_descendants,omitempty"`   // forbidden: the forbidden header is the last of the node's chain
	ChildFirst           bool   `json:"child_first,omitempty"`      // forbidden (with orphan_forbidden): the node first pushes the forbidden header's child alone, then [forbidden, child]
	ForkBelow            int    `json:"fork_below,omitempty"`       // badcheckpoint: the contradicting branch forks this many blocks BELOW the checkpoint and is pushed unsolicited, one header per message
	OrphanForbidden      bool   `json:"orphan_forbidden,omitempty"` // forbidden: the node follows the honest chain and pushes, unsolicited, a forbidden header whose parent the service does not have
}

// AnnounceSpec is one announcement round after the initial sync.
type AnnounceSpec struct {
	Blocks int    `json:"blocks"`          // honest chain grows by this many blocks first
	Reorg  int    `json:"reorg,omitempty"` // before growing, the honest network reorganises: its last Reorg blocks are replaced by Reorg+1 others (then Blocks more)
	Mode   string `json:"mode"`            // inv | headers | conformant
	Nodes  []int  `json:"nodes,omitempty"` // which nodes announce (indices); empty = honest only. Laggards catch up to the honest tip first.
}

// Scenario is a complete, replayable P2P scenario.
type Scenario struct {
	ID                  string         `json:"id"`
	Seed                int64          `json:"seed"`
	Engine              string         `json:"engine"` // legacy | exp
	DisableCheckpoints  bool           `json:"disable_checkpoints,omitempty"`
	CheckpointHeights   []int32        `json:"checkpoint_heights"`
	HonestLen           int            `json:"honest_len"`
	InitialStore        string         `json:"initial_store"` // genesis | prefix | stale-fork | lighter-fork | tall-stale-fork
	PrefixLen           int            `json:"prefix_len,omitempty"`
	Nodes               []NodeSpec     `json:"nodes"`
	Announce            []AnnounceSpec `json:"announce,omitempty"`
	BanDurationMs       int            `json:"ban_duration_ms,omitempty"`
	WaitReconnect       bool           `json:"wait_reconnect,omitempty"`         // after a scripted disconnect wait until the service dialled again
	Readers             int            `json:"readers,omitempty"`                // C15: concurrent HTTP readers while the scenario runs
	Churn               bool           `json:"churn,omitempty"`                  // C15: nodes disconnect/reconnect while announcing
	SlowConvergeWaitSec int            `json:"slow_converge_wait_sec,omitempty"` // timer-driven convergence (sync-peer rotation): poll this long before the verdict
	BadFirst            bool           `json:"bad_first,omitempty"`              // misbehaving nodes are the only reachable ones until they have been dealt with
	ServeQueries        int            `json:"serve_queries,omitempty"`          // C13: after convergence the honest node asks the service this many getheaders questions over the wire
	HitAndRun           bool           `json:"hit_and_run,omitempty"`            // C07: at the end a host delivers the forbidden header and hangs up at once; a newcomer of that host must be refused (1 h ban)
	ReOffend            bool           `json:"re_offend,omitempty"`              // C07: at the end a host with two connections sends the forbidden header, its ban (ban_duration_ms, seconds) elapses unnoticed, the second connection offends again, and a newcomer of that host must be refused
	AgeHours            int            `json:"age_hours,omitempty"`              // every block (the announced ones too) is this many hours old: with 25+ the service never considers its chain current (it then follows inv announcements of its sync peer only)
	DelayPoints         map[string]int `json:"delay_points,omitempty"`           // milliseconds a goroutine of the default engine pauses at a named delay point of the repository (build tag verif), to widen interleavings
	IdleSec             int            `json:"idle_sec,omitempty"`               // after the initial sync nothing happens for this many seconds (the sync manager's periodic sync-peer check runs every 30 s and judges a quiet peer after three of them)
	DeadWebhook         bool           `json:"dead_webhook,omitempty"`           // a webhook is registered whose target refuses connections (nothing listens there)
	HeldWebhook         bool           `json:"held_webhook,omitempty"`           // a webhook is registered whose endpoint accepts every delivery and answers none of them until the initial sync has been judged
	DropNode0AfterSync  bool           `json:"drop_node0_after_sync,omitempty"`  // C06: node 0 drops all connections after the initial sync and stays unreachable; node 1 (a laggard that catches up) is the honest announcer from then on
}

// losesFirstConnection: the node's first connection is scripted to go away (the service is expected to dial again).
func (ns NodeSpec) losesFirstConnection() bool {
	return ns.DisconnectAtMsg > 0 || ns.DropAfterHeight > 0 || ns.CloseAfterVersion
}

// heldHook is a webhook endpoint that accepts every request and answers none until released.
type heldHook struct {
	ln       net.Listener
	srv      *http.Server
	pending  atomic.Int64
	answered atomic.Int64
	release  chan struct{}
	once     sync.Once
}

func newHeldHook() (*heldHook, error) {
	ln, err := net.Listen("tcp4", "127.0.0.1:0")
	if err != nil {
		return nil, err
	}
	h := &heldHook{ln: ln, release: make(chan struct{})}
	h.srv = &http.Server{Handler: http.HandlerFunc(func(w http.ResponseWriter, rq *http.Request) {
		_, _ = io.Copy(io.Discard, rq.Body)
		h.pending.Add(1)
		<-h.release
		h.pending.Add(-1)
		h.answered.Add(1)
		w.WriteHeader(200)
	})}
	go func() { _ = h.srv.Serve(ln) }()
	return h, nil
}

func (h *heldHook) URL() string { return "http://" + h.ln.Addr().String() + "/hook" }
func (h *heldHook) Release()    { h.once.Do(func() { close(h.release) }) }
func (h *heldHook) Close()      { h.Release(); _ = h.srv.Close() }

// Result is what the scenario child reports.
type Result struct {
	ID         string            `json:"id"`
	Verdict    string            `json:"verdict"` // held | violated | inconclusive
	Sig        string            `json:"sig,omitempty"`
	What       string            `json:"what,omitempty"`
	Counters   map[string]int64  `json:"counters"`
	Events     []Event           `json:"events,omitempty"`
	GetHeaders []GetHeadersShape `json:"getheaders,omitempty"`
	Violations []Finding         `json:"violations,omitempty"`
	Panic      string            `json:"panic,omitempty"`
}

// Finding is one violated expectation inside a scenario.
type Finding struct {
	Sig  string `json:"sig"`
	What string `json:"what"`
}

// GetHeadersShape describes a multi-entry locator the service sent (for C13).
type GetHeadersShape struct {
	Heights []int32 `json:"heights"` // heights of the locator entries in the rig's block tree (-1 unknown)
	OnBest  bool    `json:"on_best"` // every entry lies on one chain of the tree, each an ancestor of the previous
	Tip     int32   `json:"tip"`
}

// World is the materialised block tree of a scenario.
type World struct {
	Honest          []refmodel.Hdr   // honest chain, index i = height i+1 (grows with announcements)
	Chains          [][]refmodel.Hdr // per node best chain
	Forbidden       *refmodel.Hdr
	ForbiddenOrphan *refmodel.Hdr           // forbidden header with an unknown parent (delivered before its parent)
	Height          map[refmodel.Hash]int32 // every block of the tree -> height
	Parent          map[refmodel.Hash]refmodel.Hash
	Work            map[refmodel.Hash]float64 // not used for verdicts
	rng             *rand.Rand
	counter         int
	now             uint32
}

func (w *World) mine(prev refmodel.Hash, bits uint32, t uint32) refmodel.Hdr {
	w.counter++
	h := refmodel.Hdr{Version: 0x20000000, Prev: prev, Bits: bits, Time: t, Nonce: uint32(w.counter)}
	w.rng.Read(h.Merkle[:])
	hash := h.HashOf()
	ph := int32(0)
	if p, ok := w.Height[prev]; ok {
		ph = p
	}
	w.Height[hash] = ph + 1
	w.Parent[hash] = prev
	return h
}

// BuildWorld materialises the honest chain and every node's chain.
func BuildWorld(s *Scenario, genesis refmodel.Hash) *World {
	w := &World{Height: map[refmodel.Hash]int32{genesis: 0}, Parent: map[refmodel.Hash]refmodel.Hash{}, rng: rand.New(rand.NewSource(s.Seed))}
	w.now = uint32(time.Now().Unix()) - 30 - uint32(s.AgeHours)*3600 // tips a few seconds old: far from the 24 h "current" threshold (unless age_hours says otherwise)
	prev := genesis
	for i := 0; i < s.HonestLen; i++ {
		t := w.now - uint32(s.HonestLen-i)
		h := w.mine(prev, gen.BitsHeavy, t)
		w.Honest = append(w.Honest, h)
		prev = h.HashOf()
	}
	for _, ns := range s.Nodes {
		var chain []refmodel.Hdr
		switch ns.Kind {
		case "honest":
			chain = append(chain, w.Honest...)
		case "laggard":
			n := s.HonestLen - ns.Lag
			if n < 0 {
				n = 0
			}
			chain = append(chain, w.Honest[:n]...)
		case "forker":
			chain = append(chain, w.Honest[:ns.ForkAt]...)
			p := genesis
			if ns.ForkAt > 0 {
				p = w.Honest[ns.ForkAt-1].HashOf()
			}
			for i := 0; i < ns.ForkLen; i++ {
				h := w.mine(p, gen.BitsNormal, w.now-uint32(ns.ForkLen-i))
				chain = append(chain, h)
				p = h.HashOf()
			}
		case "forbidden":
			if ns.OrphanForbidden {
				// follows the honest chain a little behind; the forbidden header hangs off a parent nobody has
				n := s.HonestLen - 2
				if n < 1 {
					n = 1
				}
				chain = append(chain, w.Honest[:n]...)
				if w.ForbiddenOrphan == nil {
					var unk refmodel.Hash
					w.rng.Read(unk[:])
					f := w.mine(unk, gen.BitsNormal, w.now-3)
					w.ForbiddenOrphan = &f
				}
				break
			}
			// honest prefix, then the forbidden header at height ForbiddenAt, then a few descendants
			at := ns.ForbiddenAt
			chain = append(chain, w.Honest[:at-1]...)
			p := genesis
			if at > 1 {
				p = w.Honest[at-2].HashOf()
			}
			if w.Forbidden == nil {
				f := w.mine(p, gen.BitsNormal, w.now-5)
				w.Forbidden = &f
			}
			chain = append(chain, *w.Forbidden)
			p = w.Forbidden.HashOf()
			for i := 0; i < 3 && !ns.NoDescendants; i++ {
				h := w.mine(p, gen.BitsNormal, w.now-4+uint32(i))
				chain = append(chain, h)
				p = h.HashOf()
			}
		case "badcheckpoint":
			at := ns.BadAt
			below := ns.ForkBelow
			if below > at-1 {
				below = at - 1
			}
			chain = append(chain, w.Honest[:at-1-below]...)
			p := genesis
			if at-1-below > 0 {
				p = w.Honest[at-2-below].HashOf()
			}
			for i := 0; i < below; i++ { // own blocks below the checkpoint height
				h := w.mine(p, gen.BitsNormal, w.now-30+uint32(i))
				chain = append(chain, h)
				p = h.HashOf()
			}
			nOwn := 5
			if ns.ForkLen > 0 {
				nOwn = ns.ForkLen
			}
			for i := 0; i < nOwn; i++ {
				h := w.mine(p, gen.BitsNormal, w.now-10+uint32(i))
				chain = append(chain, h)
				p = h.HashOf()
			}
		}
		w.Chains = append(w.Chains, chain)
	}
	return w
}

// ExtendHonest mines k more honest blocks.
func (w *World) ExtendHonest(k int, genesis refmodel.Hash) {
	for i := 0; i < k; i++ {
		prev := genesis
		if len(w.Honest) > 0 {
			prev = w.Honest[len(w.Honest)-1].HashOf()
		}
		w.now++
		w.Honest = append(w.Honest, w.mine(prev, gen.BitsHeavy, w.now))
	}
}

// ---------------------------------------------------------------------------

// RunScenarioChild runs `vcheck __scenario <spec.json> <result.json>` as a child process and returns its result.
func RunScenarioChild(scratch string, s *Scenario, watchdog time.Duration) (*Result, string) {
	dir := filepath.Join(scratch, "scn-"+strings.ReplaceAll(s.ID, "/", "_"))
	_ = os.MkdirAll(dir, 0o755)
	defer os.RemoveAll(dir)
	spec := filepath.Join(dir, "spec.json")
	out := filepath.Join(dir, "result.json")
	b, _ := json.Marshal(s)
	_ = os.WriteFile(spec, b, 0o644)
	if d := os.Getenv("VERIF_KEEP_SPECS"); d != "" {
		_ = os.MkdirAll(d, 0o755)
		_ = os.WriteFile(filepath.Join(d, strings.ReplaceAll(s.ID, "/", "_")+".json"), b, 0o644)
	}
	exe, _ := os.Executable()
	logf, _ := os.Create(filepath.Join(dir, "log"))
	cmd := exec.Command(exe, "__scenario", spec, out, dir)
	cmd.Env = append(os.Environ(), "VCHECK_CHILD=", "TMPDIR="+dir)
	if g := os.Getenv("GORACE"); g != "" && !strings.Contains(g, "exitcode=") {
		cmd.Env = append(cmd.Env, "GORACE="+g+" exitcode=0")
	}
	cmd.Stdout, cmd.Stderr = logf, logf
	if err := cmd.Start(); err != nil {
		return nil, "cannot start scenario child: " + err.Error()
	}
	done := make(chan error, 1)
	go func() { done <- cmd.Wait() }()
	var werr error
	select {
	case werr = <-done:
	case <-time.After(watchdog):
		_ = cmd.Process.Signal(sigQuit)
		select {
		case werr = <-done:
		case <-time.After(15 * time.Second):
			_ = cmd.Process.Kill()
			werr = <-done
		}
		logf.Close()
		lb, _ := os.ReadFile(filepath.Join(dir, "log"))
		return &Result{ID: s.ID, Verdict: "inconclusive", What: "scenario child exceeded its watchdog", Counters: map[string]int64{}}, tail(string(lb), 6000)
	}
	logf.Close()
	rb, rerr := os.ReadFile(out)
	if rerr != nil || werr != nil {
		lb, _ := os.ReadFile(filepath.Join(dir, "log"))
		return nil, fmt.Sprintf("scenario child died (%v): %s", werr, tail(string(lb), 8000))
	}
	var res Result
	if err := json.Unmarshal(rb, &res); err != nil {
		return nil, "unreadable scenario result: " + err.Error()
	}
	return &res, ""
}

func tail(s string, n int) string {
	if i := strings.Index(s, "fatal error:"); i >= 0 {
		s = s[i:]
		if len(s) > n {
			return s[:n]
		}
		return s
	}
	if i := strings.Index(s, "panic:"); i >= 0 {
		s = s[i:]
		if len(s) > n {
			return s[:n]
		}
		return s
	}
	if len(s) > n {
		return s[len(s)-n:]
	}
	return s
}

// ScenarioMain is the child entry point.
func ScenarioMain(args []string) {
	b, err := os.ReadFile(args[0])
	if err != nil {
		fmt.Println("cannot read spec:", err)
		os.Exit(3)
	}
	var s Scenario
	if err := json.Unmarshal(b, &s); err != nil {
		fmt.Println("bad spec:", err)
		os.Exit(3)
	}
	res := Execute(&s, args[2])
	rb, _ := json.Marshal(res)
	if err := os.WriteFile(args[1], rb, 0o644); err != nil {
		fmt.Println("cannot write result:", err)
		os.Exit(3)
	}
	os.Exit(0)
}

type runner struct {
	s      *Scenario
	w      *World
	rig    *Rig
	st     *rig.Stack
	eng    Engine
	exp    *Experimental
	res    *Result
	nodes  []*Node
	forbid *chainhash.Hash
	hook   *heldHook
	ann    int // index of the node that plays the honest announcer (0 unless node 0 was dropped for good)
}

func (x *runner) fail(sig, what string) {
	x.res.Violations = append(x.res.Violations, Finding{Sig: sig, What: what})
	if x.res.Verdict != "violated" {
		x.res.Verdict, x.res.Sig, x.res.What = "violated", sig, what
	}
}

func (x *runner) count(k string, n int64) { x.res.Counters[k] += n }

const barrierWatchdog = 60 * time.Second

// Execute runs a scenario in this process (one rig per process).
func Execute(s *Scenario, dir string) (res *Result) {
	res = &Result{ID: s.ID, Verdict: "held", Counters: map[string]int64{}}
	x := &runner{s: s, res: res}
	defer func() {
		if p := recover(); p != nil {
			res.Verdict = "violated"
			res.Sig = "panic-in-scenario"
			res.Panic = fmt.Sprint(p)
			res.What = "panic: " + fmt.Sprint(p)
		}
	}()
	for name, ms := range s.DelayPoints {
		p2p.VerifSetDelay(name, time.Duration(ms)*time.Millisecond)
	}
	x.rig = NewRig()
	genesis := x.rig.Genesis
	x.w = BuildWorld(s, genesis)
	// forbidden hash goes on the network's list before any service is built
	if x.w.Forbidden != nil {
		h := chainhash.Hash(x.w.Forbidden.HashOf())
		x.forbid = &h
		chaincfg.MainNetParams.HeadersToIgnore = append(chaincfg.MainNetParams.HeadersToIgnore, &h)
	}
	if x.w.ForbiddenOrphan != nil {
		h := chainhash.Hash(x.w.ForbiddenOrphan.HashOf())
		chaincfg.MainNetParams.HeadersToIgnore = append(chaincfg.MainNetParams.HeadersToIgnore, &h)
	}
	var cps []Checkpoint
	for _, ch := range s.CheckpointHeights {
		cps = append(cps, Checkpoint{Height: ch, Hash: x.w.Honest[ch-1].HashOf()})
	}
	x.rig.Install(cps)
	defer x.rig.Close()
	if s.Engine == "exp" && len(cps) > 0 {
		// The experimental engine takes its checkpoints from the chain parameters it is given; the package-level list
		// (config.Checkpoints, which a deployment always fills with the main-net values whatever network is configured) is
		// none of its business. Here the two differ, as they do on any network other than main-net.
		far := chainhash.Hash{0xc0, 0xff, 0xee}
		config.Checkpoints = []chaincfg.Checkpoint{{Height: 9000000, Hash: &far}}
		x.count("scenarios_whose_package_level_checkpoint_list_differs_from_the_chain_parameters", 1)
	}
	// nodes
	single := false
	for i, ns := range s.Nodes {
		seed := !ns.Inbound
		if s.BadFirst && s.Engine == "legacy" && ns.Kind != "forbidden" && ns.Kind != "badcheckpoint" {
			seed = false // well-behaved nodes dial in once the misbehaving ones have been dealt with
		}
		n, err := x.rig.AddNode(fmt.Sprintf("n%d-%s", i, ns.Kind), x.w.Chains[i], seed)
		if err != nil {
			res.Verdict, res.What = "inconclusive", "cannot start node: "+err.Error()
			return
		}
		ns := ns
		n.Configure(func(n *Node) {
			if ns.Cap > 0 {
				n.Cap = ns.Cap
			}
			n.DisconnectAtMsg = ns.DisconnectAtMsg
			n.UnknownFirst, n.PushOnHandshake = ns.UnknownFirst, ns.PushOnHandshake
			n.RestartOnDrop = ns.RestartOnDrop
			n.ProtoVer = ns.ProtoVer
			if ns.NotFullNode {
				n.Services = wire.SFNodeBloom
			}
			n.CloseAfterVersion, n.IgnoreStop, n.SilentFirst, n.LoseFirstN, n.VersionTwice = ns.CloseAfterVersion, ns.IgnoreStop, ns.SilentFirst, ns.LoseFirstN, ns.VersionTwice
			n.DropAfterHeight = ns.DropAfterHeight
			n.VersionLag = ns.VersionLag
			n.InvBatch = ns.InvBatch
			if ns.Kind == "forbidden" && !ns.OrphanForbidden && x.w.Forbidden != nil {
				n.MarkHash = x.w.Forbidden.HashOf()
			}
			n.OthersGoWithOffender = ns.OthersGoWithOffender
			if ns.Kind == "forbidden" && ns.OffendOnce && !ns.OrphanForbidden {
				n.RepentAfterHeight = ns.ForbiddenAt
				n.RepentChain = append([]refmodel.Hdr(nil), x.w.Honest...)
			}
			n.Silent = ns.Silent
			n.MaxAccepts = ns.MaxAccepts
			n.MaxLive = ns.MaxLive
			if ns.Kind == "forbidden" && ns.OrphanForbidden {
				m := wire.NewMsgHeaders()
				m.Headers = append(m.Headers, WireHeader(*x.w.ForbiddenOrphan))
				if ns.ChildFirst {
					// first the child alone (parked as an orphan), then the forbidden header followed by that child
					child := x.w.mine(x.w.ForbiddenOrphan.HashOf(), gen.BitsNormal, x.w.now-2)
					c1 := wire.NewMsgHeaders()
					c1.Headers = append(c1.Headers, WireHeader(child))
					m.Headers = append(m.Headers, WireHeader(child))
					n.PushAfterReply, n.PushInfo = c1, "child of the orphan-forbidden header pushed alone"
					n.PushSeq, n.PushSeqInfo = []*wire.MsgHeaders{m}, []string{"orphan-forbidden header pushed unsolicited (followed by its already stored child)"}
				} else {
					n.PushAfterReply, n.PushInfo = m, "orphan-forbidden header pushed unsolicited"
				}
			}
			if ns.Kind == "badcheckpoint" && ns.ForkBelow > 0 {
				// the contradicting branch is announced header by header (each message holds one header)
				start := ns.BadAt - 1 - ns.ForkBelow
				if start < 0 {
					start = 0
				}
				ch := x.w.Chains[i]
				for h := start; h < len(ch); h++ {
					m := wire.NewMsgHeaders()
					m.Headers = append(m.Headers, WireHeader(ch[h]))
					n.PushSeq = append(n.PushSeq, m)
					n.PushSeqInfo = append(n.PushSeqInfo, fmt.Sprintf("1 headers %d..%d", h+1, h+1))
				}
			}
		})
		x.nodes = append(x.nodes, n)
	}
	_ = single
	if s.HeldWebhook {
		h, err := newHeldHook()
		if err != nil {
			res.Verdict, res.What = "inconclusive", "cannot start the webhook endpoint: "+err.Error()
			return
		}
		x.hook = h
		defer h.Close()
	}
	// the stack
	peers := make(map[*peerpkg.Peer]*peerpkg.SyncState)
	st, err := rig.New(rig.Options{Dir: dir, Peers: peers, Config: func(c *config.AppConfig) {
		c.P2P.DisableCheckpoints = s.DisableCheckpoints
		c.P2P.Experimental = s.Engine == "exp"
		if s.BanDurationMs > 0 {
			c.P2P.BanDuration = time.Duration(s.BanDurationMs) * time.Millisecond
		}
		c.HTTP.UseAuth = false
	}, AfterSvc: func(sv *service.Services, c *config.AppConfig) {
		// as cmd/main.go: every stored header is announced on the websocket channel (here over a publisher that
		// reads the payload and takes its time, so that deliveries of consecutive headers overlap)
		lg := *sv.Logger
		sv.Notifier.AddChannel(notification.NewWebsocketChannel(&lg, &slowPublisher{x: x}, c.Websocket))
		if s.DeadWebhook {
			// a registered webhook whose target is gone: every delivery fails with "connection refused"
			if ln, err := net.Listen("tcp4", "127.0.0.1:0"); err == nil {
				dead := "http://" + ln.Addr().String() + "/gone"
				_ = ln.Close()
				sv.Notifier.AddChannel(sv.Webhooks)
				if _, err := sv.Webhooks.CreateWebhook("BEARER", "", "t", dead); err != nil {
					x.count("dead_webhook_registration_failed", 1)
				} else {
					x.count("scenarios_with_a_webhook_whose_target_is_gone", 1)
				}
			}
		}
		if x.hook != nil {
			// as cmd/main.go: the webhooks service is a notification channel; one webhook is registered
			sv.Notifier.AddChannel(sv.Webhooks)
			if _, err := sv.Webhooks.CreateWebhook("", "", "", x.hook.URL()); err != nil {
				x.count("held_webhook_registration_failed", 1)
			}
		}
	}})
	if err != nil {
		res.Verdict, res.What = "inconclusive", "cannot build stack: "+err.Error()
		return
	}
	x.st = st
	defer st.Destroy()
	// initial store
	switch s.InitialStore {
	case "prefix":
		for i := 0; i < s.PrefixLen && i < len(x.w.Honest); i++ {
			st.Add(x.w.Honest[i])
		}
	case "stale-fork", "lighter-fork":
		// honest prefix, then a lighter private branch of 3 blocks (store currently on it),
		// for stale-fork additionally the honest chain 1 block further so the branch is stale
		for i := 0; i < s.PrefixLen && i < len(x.w.Honest); i++ {
			st.Add(x.w.Honest[i])
		}
		p := genesis
		if s.PrefixLen > 0 {
			p = x.w.Honest[s.PrefixLen-1].HashOf()
		}
		for i := 0; i < 3; i++ {
			h := x.w.mine(p, gen.BitsLight, x.w.now-20+uint32(i))
			st.Add(h)
			p = h.HashOf()
		}
		if s.InitialStore == "stale-fork" && s.PrefixLen < len(x.w.Honest) {
			st.Add(x.w.Honest[s.PrefixLen])
		}
	}
	if s.InitialStore == "tall-stale-fork" {
		// the honest chain up to PrefixLen, and a stale fork off PrefixLen-2 made of many light blocks that reaches two blocks
		// ABOVE the honest peer's tip: the tallest stored header is not on the longest chain
		for i := 0; i < s.PrefixLen && i < len(x.w.Honest); i++ {
			st.Add(x.w.Honest[i])
		}
		p := genesis
		if s.PrefixLen > 2 {
			p = x.w.Honest[s.PrefixLen-3].HashOf()
		}
		for i := 0; i < len(x.w.Honest)-s.PrefixLen+4; i++ {
			h := x.w.mine(p, gen.BitsLight, x.w.now-400+uint32(i))
			st.Add(h)
			p = h.HashOf()
		}
	}
	x.count("initial_store_headers", int64(st.Svc.Headers.CountHeaders()))

	stopReaders := x.startReaders()
	defer stopReaders()

	isBad := func(k string) bool { return k == "forbidden" || k == "badcheckpoint" }
	// engine
	switch s.Engine {
	case "legacy":
		l, err := StartLegacy(st, peers)
		if err != nil {
			res.Verdict, res.What = "inconclusive", "cannot start legacy server: "+err.Error()
			return
		}
		x.eng = l
		defer l.Stop()
		for i, ns := range s.Nodes {
			if s.DropNode0AfterSync && i == 1 {
				continue // dials in later, when it lags behind the service's tip (so it is no sync candidate)
			}
			if ns.Inbound && (!s.BadFirst || isBad(ns.Kind)) {
				if _, err := x.nodes[i].DialService("127.0.0.1:"+x.rig.Port, fmt.Sprintf("127.0.0.%d", 10+i)); err != nil {
					res.Verdict, res.What = "inconclusive", "inbound dial failed: "+err.Error()
					return
				}
			}
		}
		if s.BadFirst {
			// wait until every misbehaving node has been connected and dropped (bounded), then open the honest ones
			for i, ns := range s.Nodes {
				if !isBad(ns.Kind) {
					continue
				}
				n := x.nodes[i]
				if !x.waitFor(func() bool { return len(n.Conns()) > 0 }, 40*time.Second) {
					x.count("bad_node_never_connected", 1)
					continue
				}
				_ = x.rig.Quiesce(st, x.eng, barrierWatchdog)
			}
			x.scenarioSpecificChecks("bad-nodes-only")
			for i, ns := range s.Nodes {
				if !isBad(ns.Kind) {
					if _, err := x.nodes[i].DialService("127.0.0.1:"+x.rig.Port, fmt.Sprintf("127.0.0.%d", 10+i)); err != nil {
						res.Verdict, res.What = "inconclusive", "inbound dial failed: "+err.Error()
						return
					}
				}
			}
		}
	case "exp":
		e := NewExperimental(st)
		x.exp, x.eng = e, e
		defer e.Stop()
		// single-outbound-peer design: one node after the other, misbehaving ones first
		order := []int{}
		for i := 1; i < len(s.Nodes); i++ {
			order = append(order, i)
		}
		order = append(order, 0)
		for _, i := range order {
			ns := s.Nodes[i]
			var err error
			if ns.Inbound {
				_, err = e.AcceptInbound(x.nodes[i])
			} else {
				_, err = e.ConnectOutbound(x.nodes[i])
			}
			if err != nil {
				x.count("exp_connect_errors", 1)
			}
			if isBad(ns.Kind) {
				n := x.nodes[i]
				_ = x.rig.Quiesce(st, x.eng, barrierWatchdog)
				if !x.waitFor(func() bool { return len(n.Open()) == 0 }, 10*time.Second) {
					x.count("bad_node_still_connected_after_wait", 1)
				}
			}
		}
	}
	// wait until at least one node has a completed handshake (bounded)
	if !x.waitFor(func() bool {
		for _, n := range x.nodes {
			if len(n.Live()) > 0 {
				return true
			}
		}
		return false
	}, 30*time.Second) {
		for i, ns := range s.Nodes {
			if ns.losesFirstConnection() && x.slotLost(i, ns, 45*time.Second) {
				return
			}
		}
		res.Verdict, res.What = "inconclusive", "no connection was established within the watchdog"
		return
	}
	if x.hook != nil {
		// Deliveries to the registered webhook are accepted and not answered. Storing headers does not depend on their
		// answers: the sync has to come to rest all the same. If it does not, the deliveries are answered; a sync that then
		// runs to completion was waiting for a webhook's answer.
		if err := x.rig.Quiesce(x.st, x.eng, barrierWatchdog); err != nil {
			pending := x.hook.pending.Load()
			tip := x.st.Svc.Headers.GetTip()
			th := int32(-1)
			if tip != nil {
				th = tip.Height
			}
			x.hook.Release()
			if pending > 0 && x.rig.Quiesce(x.st, x.eng, barrierWatchdog) == nil && x.waitFor(x.converged, 30*time.Second) {
				x.fail("sync-waits-for-webhook-answers|"+x.class(), fmt.Sprintf("with %d webhook deliveries accepted and not yet answered the sync did not come to rest within the watchdog (tip at height %d of %d); as soon as the endpoint answered, it ran to completion", pending, th, len(x.w.Honest)))
				return
			}
			res.Verdict, res.What = "inconclusive", "quiescence barrier watchdog fired at: initial sync (webhook deliveries pending)"
			res.Events = x.rig.Log.Tail(40)
			return
		}
		x.count("syncs_at_rest_with_webhook_deliveries_unanswered", 1)
		x.count("webhook_deliveries_unanswered_at_quiescence", x.hook.pending.Load())
	}
	if !x.quiesce("initial sync") {
		return
	}
	// "at least one honest peer stays reachable": the service dials further addresses only when its
	// connection manager's retry timer fires (seconds), so wait until the honest node is connected.
	if s.Nodes[0].Kind == "honest" && !s.Nodes[0].losesFirstConnection() && len(x.nodes[0].Live()) == 0 {
		if !x.waitFor(func() bool { return len(x.nodes[0].Live()) > 0 }, 75*time.Second) {
			res.Verdict, res.What = "inconclusive", "the service did not connect to the honest node within 75 s"
			res.Events = x.rig.Log.Tail(40)
			var sb strings.Builder
			_ = pprof.Lookup("goroutine").WriteTo(&sb, 1)
			res.Panic = sb.String()
			if len(res.Panic) > 60000 {
				res.Panic = res.Panic[:60000]
			}
			return
		}
		x.count("waited_for_honest_connection", 1)
		if !x.quiesce("after honest connection") {
			return
		}
	}
	if s.DropNode0AfterSync && len(x.nodes) > 1 {
		// a peer that lags behind the (now synced) service dials in: it is no candidate to sync from
		if _, err := x.nodes[1].DialService("127.0.0.1:"+x.rig.Port, "127.0.0.11"); err != nil {
			res.Verdict, res.What = "inconclusive", "inbound dial failed: "+err.Error()
			return
		}
		if !x.waitFor(func() bool { return len(x.nodes[1].Live()) > 0 }, 30*time.Second) || !x.quiesce("lagging peer dialled in") {
			if res.Verdict == "held" {
				res.Verdict, res.What = "inconclusive", "the lagging inbound peer did not complete its handshake"
			}
			return
		}
		// the peer the service synced from goes away for good; a peer that lagged behind catches up and carries on
		x.rig.Refuse(x.nodes[0], true)
		x.nodes[0].StopAccepting()
		for _, c := range x.nodes[0].Open() {
			c.Close("scripted: node 0 goes away after the initial sync")
		}
		x.ann = 1
		x.count("node0_dropped_after_sync", 1)
		if !x.quiesce("after node 0 went away") {
			return
		}
	}
	if s.WaitReconnect {
		for i, ns := range s.Nodes {
			if ns.losesFirstConnection() {
				n := x.nodes[i]
				// the service re-dials a dropped outbound peer (immediately or after the retry interval)
				if !x.waitFor(func() bool { return len(n.Conns()) >= 2 && len(n.Live()) > 0 }, 40*time.Second) {
					x.count("reconnect_not_observed", 1)
					if x.slotLost(i, ns, 35*time.Second) {
						return
					}
				} else {
					x.count("reconnects_observed", 1)
				}
			}
		}
		if !x.quiesce("after reconnect") {
			return
		}
	}
	// A single honest peer and nothing scripted to go wrong: what the peer offers has been fetched by now - before anything
	// is announced (announcements would bring the missing blocks in by another path). A few rounds of slack as at the end.
	if len(s.Nodes) == 1 && s.Nodes[0].Kind == "honest" && (!s.Nodes[0].losesFirstConnection() || (s.WaitReconnect && len(x.nodes[0].Conns()) >= 2)) && !s.Nodes[0].Silent && !s.Nodes[0].SilentFirst &&
		s.Nodes[0].VersionLag == 0 && s.SlowConvergeWaitSec == 0 && !s.DropNode0AfterSync && len(x.nodes[0].Live()) > 0 && res.Verdict == "held" {
		for attempt := 0; attempt < 6 && !x.converged(); attempt++ {
			time.Sleep(time.Duration(150*(attempt+1)) * time.Millisecond)
			if !x.quiesce("initial sync, slack round") {
				return
			}
		}
		x.count("initial_syncs_judged_before_any_announcement", 1)
		if !x.converged() {
			tip := x.st.Svc.Headers.GetTip()
			th := int32(-1)
			if tip != nil {
				th = tip.Height
			}
			x.fail("not-converged-before-any-announcement|"+x.class(), fmt.Sprintf("connected to a single honest peer whose best chain has %d blocks, at quiescence (nothing announced yet) the tip is at height %d and is not that chain's tip", len(x.w.Honest), th))
		}
	}
	if x.hook != nil {
		x.hook.Release()
	}
	if s.SlowConvergeWaitSec > 0 && !x.converged() {
		// a scripted peer stalls: if the service picked it to sync from, nothing moves until the periodic sync-peer check
		// drops it. Wait for that BEFORE anything is announced - an announcement made while the service is stuck behind a
		// stalled sync peer and far from current is legitimately ignored (other peers' invs are not followed then), and no
		// later round of this scenario would bring the block again.
		if x.waitFor(x.converged, time.Duration(s.SlowConvergeWaitSec)*time.Second) {
			x.count("slow_initial_convergence_observed", 1)
		}
		if !x.quiesce("after the stall detection") {
			return
		}
	}
	if s.IdleSec > 0 {
		time.Sleep(time.Duration(s.IdleSec) * time.Second)
		x.count("idle_seconds_after_the_initial_sync", int64(s.IdleSec))
		if !x.quiesce("after the idle period") {
			return
		}
	}
	x.scenarioSpecificChecks("after-initial-sync")
	// announcements
	for ai, a := range s.Announce {
		if a.Reorg > 0 && a.Reorg < len(x.w.Honest) {
			x.w.Honest = append([]refmodel.Hdr(nil), x.w.Honest[:len(x.w.Honest)-a.Reorg]...)
			x.w.ExtendHonest(a.Reorg+1, genesis)
			x.count("honest_chain_reorganisations", 1)
		}
		x.w.ExtendHonest(a.Blocks, genesis)
		who := a.Nodes
		if len(who) == 0 || x.ann != 0 {
			who = []int{x.ann}
		}
		x.nodes[x.ann].SetChain(x.w.Honest)
		for _, ni := range who {
			if ni != 0 && (s.Nodes[ni].Kind == "laggard" || s.Nodes[ni].Kind == "honest") {
				x.nodes[ni].SetChain(x.w.Honest) // the laggard caught up and announces the same block
			}
		}
		for _, ni := range who {
			for _, c := range x.nodes[ni].Live() {
				var err error
				switch a.Mode {
				case "inv":
					err = c.AnnounceInv()
				case "headers":
					err = c.AnnounceHeaders()
				default:
					err = c.Announce()
				}
				if err == nil {
					x.count("announcements_"+a.Mode, 1)
					if ni == x.ann {
						x.count("announcements_sent_by_announcer", 1)
					}
				}
			}
		}
		if !x.quiesce(fmt.Sprintf("announcement round %d", ai)) {
			return
		}
	}
	// final honest announcement round (conformant)
	if s.Nodes[0].Kind == "honest" {
		an := x.nodes[x.ann]
		// A peer that dialled in cannot be re-dialled by the service. If the service itself dropped such a peer after it
		// had announced blocks, nothing more will ever happen: that is not "peer unreachable", it is the state to judge.
		droppedInbound := s.Nodes[x.ann].Inbound && len(an.Live()) == 0 && len(an.Conns()) > 0 && x.res.Counters["announcements_sent_by_announcer"] > 0
		if droppedInbound {
			x.count("inbound_announcer_dropped_by_service", 1)
			x.checkConverged()
		} else {
			if len(an.Live()) == 0 {
				// the honest peer stays reachable; the service re-dials on its own timers
				if !x.waitFor(func() bool { return len(an.Live()) > 0 }, 75*time.Second) {
					res.Verdict, res.What = "inconclusive", fmt.Sprintf("the service has no connection to the honest node and did not re-dial it within 75 s (dial attempts so far: %d, refused on the node's behalf: %d)", x.rig.DialCount(), an.RefusedDials())
					res.Events = x.rig.Log.Tail(40)
					if os.Getenv("VERIF_SCN_ALWAYSLOG") != "" {
						res.Events = x.rig.Log.Tail(100000)
						var sb strings.Builder
						_ = pprof.Lookup("goroutine").WriteTo(&sb, 1)
						res.Panic = sb.String()
					}
					return
				}
				x.count("waited_for_honest_connection", 1)
				if !x.quiesce("after honest re-connection") {
					return
				}
			}
			x.w.ExtendHonest(1, genesis)
			an.SetChain(x.w.Honest)
			// an old chain (age_hours): the service follows the inv announcements of its sync peer only, so every peer that
			// has the whole chain announces - in the order of the scenario's last announcement round
			var others []*Node
			if s.AgeHours > 0 && len(s.Announce) > 0 {
				for _, j := range s.Announce[len(s.Announce)-1].Nodes {
					if j != x.ann && j < len(x.nodes) && s.Nodes[j].Kind == "laggard" && s.Nodes[j].Lag == 0 {
						x.nodes[j].SetChain(x.w.Honest)
						others = append(others, x.nodes[j])
					}
				}
			}
			annLive := func() []*Conn {
				var cs []*Conn
				first := len(s.Announce) > 0 && len(s.Announce[len(s.Announce)-1].Nodes) > 0 && s.Announce[len(s.Announce)-1].Nodes[0] != x.ann
				if first {
					for _, o := range others {
						cs = append(cs, o.Live()...)
					}
				}
				cs = append(cs, an.Live()...)
				if !first {
					for _, o := range others {
						cs = append(cs, o.Live()...)
					}
				}
				return cs
			}
			for _, c := range annLive() {
				if c.Announce() == nil {
					x.count("final_round_announcements", 1)
					if c.WantsHeaders() {
						x.count("final_round_by_headers", 1)
					} else {
						x.count("final_round_by_inv", 1)
					}
				}
			}
			if !x.quiesce("final announcement round") {
				return
			}
			// Bounded progress with slack: hand-offs between the service's goroutines (a closed connection's done
			// message, a re-dial) are not visible to the barrier and can lag under load. Before concluding
			// "not converged", give the service a few more rounds: pause, quiesce, and let the honest peer announce
			// its tip once more. A genuine failure to converge persists through every round.
			for attempt := 0; attempt < 6 && !x.converged(); attempt++ {
				x.count("extra_convergence_rounds", 1)
				time.Sleep(time.Duration(150*(attempt+1)) * time.Millisecond)
				if !x.quiesce("extra convergence round") {
					return
				}
				if x.converged() {
					break
				}
				if len(an.Live()) == 0 && !x.waitFor(func() bool { return len(an.Live()) > 0 }, 30*time.Second) {
					break
				}
				// the SAME tip is announced again (no new block: a new block would be new information and could make up
				// for an announcement the service wrongly ignored)
				for _, c := range annLive() {
					c.RewindPeerKnown(int32(len(x.w.Honest) - 1))
					_ = c.Announce()
				}
				if !x.quiesce("extra convergence round") {
					return
				}
			}
			x.checkConverged()
			if s.ServeQueries > 0 && x.res.Verdict == "held" {
				x.serveQueries()
			}
		}
	}
	if s.Engine == "legacy" && s.BanDurationMs >= 60000 && res.Verdict == "held" {
		x.awaitRedialOfRepentantOffender()
	}
	x.scenarioSpecificChecks("end")
	if s.ReOffend && s.Engine == "legacy" && res.Verdict == "held" {
		x.reOffend()
	}
	if s.HitAndRun && s.Engine == "legacy" && res.Verdict == "held" {
		x.hitAndRun()
	}
	x.collectLocators()
	res.Counters["messages_logged"] = x.rig.Log.Messages()
	if os.Getenv("VERIF_SCN_ALWAYSLOG") != "" {
		res.Events = x.rig.Log.Tail(100000)
	}
	if res.Verdict != "held" {
		if os.Getenv("VERIF_SCN_GOROUTINES") != "" {
			var sb strings.Builder
			_ = pprof.Lookup("goroutine").WriteTo(&sb, 2)
			res.Panic = sb.String()
		}
		res.Events = x.rig.Log.Tail(60)
		if os.Getenv("VERIF_SCN_FULLLOG") != "" {
			res.Events = x.rig.Log.Tail(100000)
		}
	}
	return
}

func (x *runner) waitFor(cond func() bool, watchdog time.Duration) bool {
	deadline := time.Now().Add(watchdog)
	for !cond() {
		if time.Now().After(deadline) {
			return false
		}
		time.Sleep(5 * time.Millisecond)
	}
	return true
}

var reGoroutineHdr = regexp.MustCompile(`^goroutine (\d+) \[([a-zA-Z. ]+), (\d+) minutes\]:$`)

// mutexWaiters: goroutines of the service (a function of the repository on the stack) that the runtime reports as waiting
// for a sync.Mutex / sync.RWMutex for a minute or more. The runtime counts from the first garbage collection after the wait
// began, so the figure is a lower bound.
func mutexWaiters() map[string][2]string {
	out := map[string][2]string{}
	buf := make([]byte, 8<<20)
	dump := string(buf[:runtime.Stack(buf, true)])
	if f := os.Getenv("VERIF_DEBUG_DUMP"); f != "" {
		_ = os.WriteFile(f, []byte(dump), 0o644)
	}
	for _, g := range strings.Split(dump, "\n\n") {
		lines := strings.Split(g, "\n")
		m := reGoroutineHdr.FindStringSubmatch(lines[0])
		if m == nil {
			continue
		}
		if mins, _ := strconv.Atoi(m[3]); mins < 1 {
			continue
		}
		if !strings.Contains(g, "sync.(*Mutex).Lock") && !strings.Contains(g, "sync.(*RWMutex).Lock") && !strings.Contains(g, "sync.(*RWMutex).RLock") {
			continue
		}
		for _, l := range lines[1:] {
			if strings.HasPrefix(l, "\t") || !strings.Contains(l, "block-headers-service/") || strings.Contains(l, "verifharness") {
				continue
			}
			if i := strings.LastIndex(l, "("); i > 0 {
				l = l[:i]
			}
			out[m[1]] = [2]string{l[strings.Index(l, "block-headers-service/")+len("block-headers-service/"):], g}
			break
		}
	}
	return out
}

// mutexHang: called when the quiescence barrier (60 s) did not come back. If the same goroutine of the service is found
// waiting for the same mutex in two looks 40 s apart - each time reported by the runtime as waiting for a minute or more -
// it is not load: the barrier goes through the service's message loops, and one of them is stuck behind a lock that nobody
// gives back.
func (x *runner) mutexHang() (site, goroutine string) {
	var first map[string][2]string
	for w := 0; w < 8 && len(first) == 0; w++ {
		runtime.GC()
		first = mutexWaiters()
		if len(first) == 0 {
			time.Sleep(10 * time.Second)
		}
	}
	if len(first) == 0 {
		return "", ""
	}
	time.Sleep(40 * time.Second)
	second := mutexWaiters()
	for id, a := range first {
		if b, ok := second[id]; ok && a[0] == b[0] {
			return b[0], b[1]
		}
	}
	return "", ""
}

// awaitRedialOfRepentantOffender: a host that delivered the forbidden header once and follows the honest chain from then
// on (offend_once) is banned for an hour. The service's connection manager dials it again sooner or later (its address is
// still in the address book) once nothing of that host is connected any more - at once when the host's other connections
// end together with the offender's (others_go_with_offender), which is the case awaited here. That later connection is what the "banned-host-connected" oracle judges, so
// the scenario waits (bounded) until one has been accepted, and says so in the counters when none came.
func (x *runner) awaitRedialOfRepentantOffender() {
	for i, ns := range x.s.Nodes {
		if ns.Kind != "forbidden" || !ns.OffendOnce || ns.OrphanForbidden || !ns.OthersGoWithOffender {
			continue
		}
		n := x.nodes[i]
		offender, closedAt := 0, int64(-1)
		for _, c := range n.Conns() {
			for _, e := range x.nodeEvents(n.Name, c.ID) {
				if offender == 0 && e.Dir == "out" && e.Cmd == "headers" && strings.Contains(e.Info, "[marked]") {
					offender = c.ID
				}
				if c.ID == offender && e.Dir == "close" && closedAt < 0 {
					closedAt = int64(e.Seq)
				}
			}
		}
		if offender == 0 || closedAt < 0 {
			continue
		}
		redialled := func() bool {
			for _, c := range n.Conns() {
				if c.ID <= offender {
					continue
				}
				for _, e := range x.nodeEvents(n.Name, c.ID) {
					if e.Dir == "conn" {
						if int64(e.Seq) >= closedAt && (c.Ready() || c.Dead()) {
							return true
						}
						break
					}
				}
			}
			return false
		}
		if x.waitFor(redialled, 20*time.Second) {
			x.count("repentant_offender_redialled", 1)
			if !x.quiesce("after the re-dial of a banned host") {
				return
			}
		} else {
			x.count("repentant_offender_not_redialled_within_20s", 1)
		}
	}
}

func (x *runner) quiesce(stage string) bool {
	if err := x.rig.Quiesce(x.st, x.eng, barrierWatchdog); err != nil {
		if site, g := x.mutexHang(); site != "" {
			if len(g) > 3000 {
				g = g[:3000]
			}
			x.res.Panic = g
			x.fail("hang|mutex|"+site, fmt.Sprintf("the service stopped answering at: %s; one of its goroutines has been waiting for a mutex in %s ever since (seen twice, 40 s apart, after the 60 s barrier watchdog)", stage, site))
			return false
		}
		x.res.Verdict = "inconclusive"
		x.res.What = "quiescence barrier watchdog fired at: " + stage
		x.res.Events = x.rig.Log.Tail(40)
		return false
	}
	x.count("barriers", 1)
	return true
}

// converged: cheap test used by the slack rounds (tip = honest tip).
func (x *runner) converged() bool {
	tip := x.st.Svc.Headers.GetTip()
	return tip != nil && tip.Hash.String() == x.w.Honest[len(x.w.Honest)-1].HashOf().String()
}

// checkConverged: the store holds every header of the honest chain and the tip is the honest tip.
func (x *runner) checkConverged() {
	if x.s.SlowConvergeWaitSec > 0 {
		want := x.w.Honest[len(x.w.Honest)-1].HashOf().String()
		if x.waitFor(func() bool {
			t := x.st.Svc.Headers.GetTip()
			return t != nil && t.Hash.String() == want
		}, time.Duration(x.s.SlowConvergeWaitSec)*time.Second) {
			x.count("slow_convergence_observed", 1)
		}
		_ = x.rig.Quiesce(x.st, x.eng, barrierWatchdog)
	}
	t, err := snap.TakeHeaders(x.st.DB)
	if err != nil {
		x.res.Verdict, x.res.What = "inconclusive", "snapshot failed: "+err.Error()
		return
	}
	missing := 0
	firstMissing := int32(-1)
	for i, h := range x.w.Honest {
		if _, ok := t[h.HashOf().String()]; !ok {
			missing++
			if firstMissing < 0 {
				firstMissing = int32(i + 1)
			}
		}
	}
	tip := x.st.Svc.Headers.GetTip()
	want := x.w.Honest[len(x.w.Honest)-1].HashOf().String()
	got := "<nil>"
	gh := int32(-1)
	if tip != nil {
		got, gh = tip.Hash.String(), tip.Height
	}
	x.count("stored_headers_at_end", int64(len(t)))
	x.count("dial_attempts", int64(x.rig.DialCount()))
	cls := x.class()
	if missing > 0 {
		x.fail("not-converged|"+cls+"|missing-honest-headers", fmt.Sprintf("at quiescence the store lacks %d of %d headers of the honest peer's best chain (first missing height %d); tip height %d", missing, len(x.w.Honest), firstMissing, gh))
		return
	}
	if got != want {
		x.fail("not-converged|"+cls+"|wrong-tip", fmt.Sprintf("at quiescence the tip is %s (height %d), the greatest-work chain offered ends at %s (height %d)", got, gh, want, len(x.w.Honest)))
		return
	}
	if bad := t.IChain(); bad != "" {
		x.fail("ichain|"+cls, bad)
	}
	x.count("converged", 1)
}

// slotLost: "replaces an outbound connection that closes". Called when no re-dial has been seen for 30-40 s: a service that
// holds no connection at all, knows the node's address and makes no dial attempt for another `more` (the retry interval is
// 5 s) has lost the slot.
func (x *runner) slotLost(i int, ns NodeSpec, more time.Duration) bool {
	n := x.nodes[i]
	anyOpen := func() bool {
		for _, o := range x.nodes {
			if len(o.Open()) > 0 {
				return true
			}
		}
		return false
	}
	cs := n.Conns()
	dials := x.rig.DialCount()
	if x.s.Engine != "legacy" || ns.Inbound || len(cs) == 0 || anyOpen() {
		return false
	}
	if n.RefusedDials() > 0 {
		// the node turned dials away (it accepts a limited number of connections): the service bans an address after 25 failed
		// dials, so "it knows the node's address" cannot be taken for granted
		x.count("slot_oracle_skipped_the_node_refused_dials", 1)
		return false
	}
	if x.waitFor(func() bool { return anyOpen() || x.rig.DialCount() != dials }, more) {
		return false
	}
	x.fail("closed-outbound-connection-not-replaced|"+x.lossClass(ns), fmt.Sprintf("%d outbound connection(s) to the only known node were closed by the remote side (%s); then, for more than 70 s, the service held no connection and made no dial attempt although it knows the node's address", len(cs), x.lossClass(ns)))
	return true
}

// lossClass names the point at which a node's first connection is scripted to go away.
func (x *runner) lossClass(ns NodeSpec) string {
	switch {
	case ns.VersionTwice:
		return "lost-after-two-version-messages"
	case ns.CloseAfterVersion:
		return "lost-after-its-version-before-its-verack"
	case ns.DisconnectAtMsg == 1:
		return "lost-before-its-version"
	case ns.DisconnectAtMsg == 2:
		return "lost-right-after-the-handshake"
	case ns.DisconnectAtMsg > 0:
		return "lost-mid-sync"
	case ns.DropAfterHeight > 0:
		return "lost-after-a-checkpoint-reply"
	}
	return "none"
}

// class is the structural class of the scenario used in signatures.
func (x *runner) class() string {
	s := x.s
	cp := "checkpoints"
	if s.DisableCheckpoints {
		cp = "no-checkpoints"
	}
	peers := "multi-peer"
	if len(s.Nodes) == 1 {
		peers = "single-peer"
	}
	cls := s.Engine + "," + cp + "," + peers
	for _, ns := range s.Nodes {
		if (ns.Kind == "badcheckpoint" || ns.Kind == "forbidden") && ns.MaxLive != 1 && s.Engine == "legacy" {
			return cls + ",bad-host-multi-conn"
		}
	}
	return cls
}

func (x *runner) collectLocators() {
	x.rig.Log.mu.Lock()
	ghs := append([]GetHeadersSeen(nil), x.rig.Log.GetHdr...)
	x.rig.Log.mu.Unlock()
	for _, g := range ghs {
		if len(g.Locator) < 2 {
			x.count("getheaders_single_hash_locator", 1)
			continue
		}
		sh := GetHeadersShape{OnBest: true}
		for i, l := range g.Locator {
			h, ok := x.w.Height[l]
			if !ok {
				h = -1
				// may be a header of the initial private branch: unknown to the tree
				sh.OnBest = false
			}
			sh.Heights = append(sh.Heights, h)
			if i == 0 {
				sh.Tip = h
			}
		}
		// ancestry: each entry must be an ancestor of the previous one
		for i := 1; i < len(g.Locator) && sh.OnBest; i++ {
			cur := g.Locator[i-1]
			for x.w.Height[cur] > x.w.Height[g.Locator[i]] {
				cur = x.w.Parent[cur]
			}
			if cur != g.Locator[i] {
				sh.OnBest = false
			}
		}
		if len(x.res.GetHeaders) < 200 {
			x.res.GetHeaders = append(x.res.GetHeaders, sh)
		}
		x.count("getheaders_multi_entry_locators", 1)
	}
}

// serveQueries (C13, wire level): after convergence the service's longest chain is the honest chain, so the
// expected answer to getheaders(locator, stop) is known from the world alone.
func (x *runner) serveQueries() {
	conns := x.nodes[0].Live()
	if len(conns) == 0 {
		return
	}
	c := conns[0]
	H := x.w.Honest
	tip := int32(len(H))
	hashAt := func(h int32) refmodel.Hash {
		if h == 0 {
			return x.rig.Genesis
		}
		return H[h-1].HashOf()
	}
	rng := rand.New(rand.NewSource(x.s.Seed ^ 0x5eed))
	for q := 0; q < x.s.ServeQueries; q++ {
		var loc []refmodel.Hash
		start := int32(0)
		n := 1 + rng.Intn(4)
		for i := 0; i < n; i++ {
			switch rng.Intn(4) {
			case 0:
				var u refmodel.Hash
				rng.Read(u[:])
				loc = append(loc, u)
			default:
				h := int32(rng.Intn(int(tip) + 1))
				if rng.Intn(3) == 0 && tip > 3 {
					h = tip - int32(rng.Intn(3))
				}
				loc = append(loc, hashAt(h))
				if h > start {
					start = h
				}
			}
		}
		var stop refmodel.Hash
		stopClass := "zero"
		end := tip
		mode := rng.Intn(4)
		if q == 0 && tip > 2000 {
			// the full answer: from genesis, no stop - exactly 2000 headers
			loc, start, mode = []refmodel.Hash{x.rig.Genesis}, 0, 3
		}
		switch mode {
		case 0:
			if start < tip {
				sh := start + 1 + int32(rng.Intn(int(tip-start)))
				stop, end, stopClass = hashAt(sh), sh, "ahead"
			}
		case 1:
			if start > 0 {
				stop, stopClass = hashAt(int32(rng.Intn(int(start)+1))), "at-or-below-start"
				end = start
			}
		case 2:
			rng.Read(stop[:])
			stopClass = "unknown"
		}
		if end-start > 2000 {
			end = start + 2000
		}
		// nothing to send is answered by an empty message or by silence: do not wait long for the latter
		wd := 15 * time.Second
		if end == start {
			wd = 400 * time.Millisecond
		}
		got, ok := c.AskHeaders(loc, stop, wd)
		x.count("wire_getheaders_asked", 1)
		if !ok {
			if end == start {
				x.count("wire_getheaders_no_reply_for_empty_answer", 1) // nothing to send: silence is acceptable
				continue
			}
			if c.Dead() {
				x.fail("served-headers|"+x.s.Engine+"|stop="+stopClass+"|connection-dropped-instead-of-an-answer", fmt.Sprintf("the service dropped the connection of a peer that asked getheaders (start %d, expected %d headers)", start, end-start))
				return
			}
			x.fail("served-headers|"+x.s.Engine+"|stop="+stopClass+"|no-reply", fmt.Sprintf("the service did not answer getheaders (start %d, expected %d headers) within the watchdog", start, end-start))
			return
		}
		x.count("wire_getheaders_answered", 1)
		want := int(end - start)
		if len(got) != want {
			kind := "too-few"
			if len(got) > want {
				kind = "too-many"
			}
			x.fail("served-headers|"+x.s.Engine+"|stop="+stopClass+"|"+kind, fmt.Sprintf("getheaders over the wire (start height %d, stop %s): got %d headers, expected %d", start, stopClass, len(got), want))
			return
		}
		for i := range got {
			if got[i].HashOf() != hashAt(start+1+int32(i)) {
				x.fail("served-headers|"+x.s.Engine+"|stop="+stopClass+"|wrong-header", fmt.Sprintf("getheaders over the wire: header %d of the reply is not the longest-chain header at height %d", i, start+1+int32(i)))
				return
			}
		}
	}
}
