// Package p2prig: scripted Bitcoin-protocol nodes on loopback TCP speaking
// internal/wire, a logical quiescence barrier, and drivers for both sync engines.
package p2prig

import (
	"encoding/binary"
	"errors"
	"fmt"
	"net"
	"sync"
	"sync/atomic"
	"time"

	"github.com/bitcoin-sv/block-headers-service/internal/chaincfg/chainhash"
	"github.com/bitcoin-sv/block-headers-service/internal/wire"
	"github.com/bitcoin-sv/block-headers-service/verifharness/refmodel"
)

const pver = uint32(70013)

// Event is one logged message or connection event with a rig-wide logical sequence number.
type Event struct {
	Seq  int64  `json:"seq"`
	Node string `json:"node"`
	Conn int    `json:"conn"`
	Dir  string `json:"dir"` // "in" (service -> node), "out" (node -> service), "conn", "close"
	Cmd  string `json:"cmd"`
	Info string `json:"info,omitempty"`
	Ms   int64  `json:"ms"` // wall-clock milliseconds since the log was created (diagnosis only, never used by an oracle)
}

// GetHeadersSeen is a getheaders message received by a node (for C13).
type GetHeadersSeen struct {
	Node    string
	Conn    int
	Locator []refmodel.Hash
	Stop    refmodel.Hash
}

// Log is the rig-wide event log.
type Log struct {
	mu     sync.Mutex
	seq    int64
	t0     time.Time
	Events []Event
	GetHdr []GetHeadersSeen
	msgs   int64 // total messages in either direction
	nonpp  int64 // messages other than ping/pong (quiescence counter)
}

func (l *Log) add(e Event) {
	l.mu.Lock()
	if l.t0.IsZero() {
		l.t0 = time.Now()
	}
	e.Ms = time.Since(l.t0).Milliseconds()
	l.seq++
	e.Seq = l.seq
	if len(l.Events) < 20000 {
		l.Events = append(l.Events, e)
	}
	if e.Dir == "in" || e.Dir == "out" {
		l.msgs++
		if e.Cmd != "ping" && e.Cmd != "pong" {
			l.nonpp++
		}
	}
	l.mu.Unlock()
}

// Messages returns the number of messages logged so far.
func (l *Log) Messages() int64 { l.mu.Lock(); defer l.mu.Unlock(); return l.msgs }

// Tail returns the last n events.
func (l *Log) Tail(n int) []Event {
	l.mu.Lock()
	defer l.mu.Unlock()
	if len(l.Events) <= n {
		return append([]Event(nil), l.Events...)
	}
	return append([]Event(nil), l.Events[len(l.Events)-n:]...)
}

// Node is a scripted protocol-conformant node serving one best chain.
type Node struct {
	Name string
	IP   string // fake routable address the service knows it by
	Net  wire.BitcoinNet
	Log  *Log

	mu      sync.Mutex
	genesis refmodel.Hash
	chain   []refmodel.Hdr          // best chain; chain[i] has height i+1
	height  map[refmodel.Hash]int32 // hash -> height on the best chain (genesis -> 0)
	Cap     int                     // max headers per reply
	// scripting knobs
	DisconnectAtMsg   int  // close the FIRST connection when its n-th message arrives (0 = never)
	LoseFirstN        int  // DisconnectAtMsg / CloseAfterVersion apply to the first n connections instead of the first only (0 = 1)
	RestartOnDrop     bool // the scripted loss of a connection (DisconnectAtMsg, DropAfterHeight) takes all of the node's open connections with it: the node restarts
	refusedDials      int  // dials the rig refused on the node's behalf (MaxLive, MaxAccepts)
	HangUpAfterMarked bool // the node closes the connection right after writing the answer that contains MarkHash (hit and run)
	// when the connection that delivered MarkHash ends, every other connection of the node is closed as well (the host
	// goes away and comes back: nothing of it stays connected, so the service's connection manager dials it again)
	OthersGoWithOffender bool
	ProtoVer             uint32 // protocol version the node reports in its version message (0 = 70013); below 70012 the service cannot ask for header announcements
	UnknownFirst         bool   // right after the handshake the node sends a message with a command the service does not know (real nodes do)
	PushOnHandshake      bool   // the unsolicited pushes (PushAfterReply, PushSeq) go out as soon as the handshake is complete instead of after the first getheaders answer
	VersionTwice         bool   // on the first connection(s) the node answers the service's version with its own version message twice (and no verack)
	CloseAfterVersion    bool   // the FIRST connection is lost in the middle of the handshake: the node sends its version message and never a verack
	IgnoreStop           bool   // getheaders answers do not end at the stop hash ("all that remain or at most Cap")
	SilentFirst          bool   // the FIRST connection never answers getheaders; later ones do
	RepentAfterHeight    int    // after the first getheaders answer that contains this height the node switches to RepentChain (it follows the honest chain from then on)
	RepentChain          []refmodel.Hdr
	MarkHash             refmodel.Hash // a getheaders answer that contains the header with this hash is logged with " [marked]"
	VersionLag           int           // the version message reports a height this many blocks below the node's chain (blocks found since)
	InvBatch             int           // inv announcements list the last InvBatch blocks (0/1: the tip only)
	DropAfterHeight      int           // close the connection right after sending the first getheaders answer that contains this height (0 = never)
	droppedAfter         bool
	StallAfterMsg        int              // on every connection: stop answering getheaders after the n-th message (0 = never)
	MaxAccepts           int              // stop accepting after n connections (0 = unlimited)
	MaxLive              int              // at most n simultaneously open connections; further dials are refused by the rig (0 = unlimited)
	Silent               bool             // never answers getheaders (pure stall)
	PushAfterReply       *wire.MsgHeaders // unsolicited headers message pushed right after the first getheaders answer of every connection
	PushInfo             string
	PushSeq              []*wire.MsgHeaders // further unsolicited headers messages pushed after PushAfterReply, one after the other
	PushSeqInfo          []string
	Services             wire.ServiceFlag
	// state
	ln       net.Listener
	conns    []*Conn
	accepted int
	reserved int // connections granted by the rig's dial function and not yet closed (MaxLive accounting)
	closed   bool
	wg       sync.WaitGroup
}

// Conn is one live connection between the service and a node.
type Conn struct {
	ID          int
	node        *Node
	c           net.Conn
	wmu         sync.Mutex
	dialed      bool // node dialed the service (inbound from the service's point of view)
	msgsIn      int32
	sendHdrs    int32 // service asked for headers announcements
	verackSeen  int32
	unknownSent int32
	versionIn   int32
	dead        int32
	sentMarked  int32
	pushed      int32
	peerKnown   int32 // highest height of the node's chain the service is known to have
	lastStart   int32 // range of the last getheaders answer (read loop only)
	lastEnd     int32
	pongs       chan uint64
	hdrReplies  chan *wire.MsgHeaders // headers messages received from the service (the node asked with getheaders)
	handshake   chan struct{}
	hsOnce      sync.Once
}

// NewNode creates a node serving the given chain (headers from height 1).
func NewNode(name, ip string, netw wire.BitcoinNet, genesis refmodel.Hash, chain []refmodel.Hdr, log *Log) *Node {
	n := &Node{Name: name, IP: ip, Net: netw, Log: log, genesis: genesis, Cap: 2000, Services: wire.SFNodeNetwork}
	n.setChainLocked(chain)
	return n
}

func (n *Node) setChainLocked(chain []refmodel.Hdr) {
	// a reorganisation of the node's own chain: what the peer is known to have of it ends at the fork point
	common := 0
	for common < len(chain) && common < len(n.chain) && chain[common] == n.chain[common] {
		common++
	}
	if common < len(n.chain) {
		for _, c := range n.conns {
			if atomic.LoadInt32(&c.peerKnown) > int32(common) {
				atomic.StoreInt32(&c.peerKnown, int32(common))
			}
		}
	}
	n.chain = append([]refmodel.Hdr(nil), chain...)
	n.height = map[refmodel.Hash]int32{n.genesis: 0}
	for i, h := range n.chain {
		n.height[h.HashOf()] = int32(i + 1)
	}
}

// SetChain replaces the node's best chain.
func (n *Node) SetChain(chain []refmodel.Hdr) { n.mu.Lock(); n.setChainLocked(chain); n.mu.Unlock() }

// Chain returns a copy of the best chain.
func (n *Node) Chain() []refmodel.Hdr {
	n.mu.Lock()
	defer n.mu.Unlock()
	return append([]refmodel.Hdr(nil), n.chain...)
}

// Height is the node's best height.
func (n *Node) Height() int32 { n.mu.Lock(); defer n.mu.Unlock(); return int32(len(n.chain)) }

// TipHash is the hash of the node's best block.
func (n *Node) TipHash() refmodel.Hash {
	n.mu.Lock()
	defer n.mu.Unlock()
	if len(n.chain) == 0 {
		return n.genesis
	}
	return n.chain[len(n.chain)-1].HashOf()
}

// Listen starts accepting connections on a loopback port.
func (n *Node) Listen() error {
	ln, err := net.Listen("tcp4", "127.0.0.1:0")
	if err != nil {
		return err
	}
	n.ln = ln
	n.wg.Add(1)
	go func() {
		defer n.wg.Done()
		for {
			c, err := ln.Accept()
			if err != nil {
				return
			}
			n.mu.Lock()
			n.accepted++
			refuse := n.closed || (n.MaxAccepts > 0 && n.accepted > n.MaxAccepts)
			n.mu.Unlock()
			if refuse {
				_ = c.Close()
				continue
			}
			n.serve(c, false)
		}
	}()
	return nil
}

// Addr is the real loopback address of the listener.
func (n *Node) Addr() string { return n.ln.Addr().String() }

// Accepted is the number of connections accepted so far.
func (n *Node) Accepted() int { n.mu.Lock(); defer n.mu.Unlock(); return n.accepted }

// DialService connects the node to the service's listener from the given local IP.
func (n *Node) DialService(serviceAddr, localIP string) (*Conn, error) {
	d := net.Dialer{Timeout: 5 * time.Second}
	if localIP != "" {
		d.LocalAddr = &net.TCPAddr{IP: net.ParseIP(localIP)}
	}
	c, err := d.Dial("tcp4", serviceAddr)
	if err != nil {
		return nil, err
	}
	return n.serve(c, true), nil
}

func (n *Node) serve(c net.Conn, dialed bool) *Conn {
	n.mu.Lock()
	cn := &Conn{ID: len(n.conns) + 1, node: n, c: c, dialed: dialed, pongs: make(chan uint64, 64), hdrReplies: make(chan *wire.MsgHeaders, 16), handshake: make(chan struct{})}
	n.conns = append(n.conns, cn)
	n.mu.Unlock()
	n.Log.add(Event{Node: n.Name, Conn: cn.ID, Dir: "conn", Cmd: map[bool]string{true: "dialed-service", false: "accepted"}[dialed], Info: c.RemoteAddr().String()})
	n.wg.Add(1)
	go func() {
		defer n.wg.Done()
		cn.loop()
	}()
	return cn
}

// Conns returns all connections ever made.
func (n *Node) Conns() []*Conn {
	n.mu.Lock()
	defer n.mu.Unlock()
	return append([]*Conn(nil), n.conns...)
}

// Live returns the connections that are still open and have completed the handshake.
func (n *Node) Live() []*Conn {
	var out []*Conn
	for _, c := range n.Conns() {
		if atomic.LoadInt32(&c.dead) == 0 && c.Ready() {
			out = append(out, c)
		}
	}
	return out
}

// Open returns the connections that are not closed (handshake done or not).
func (n *Node) Open() []*Conn {
	var out []*Conn
	for _, c := range n.Conns() {
		if atomic.LoadInt32(&c.dead) == 0 {
			out = append(out, c)
		}
	}
	return out
}

// Close stops the listener and closes every connection.
func (n *Node) Close() {
	n.mu.Lock()
	n.closed = true
	n.mu.Unlock()
	if n.ln != nil {
		_ = n.ln.Close()
	}
	for _, c := range n.Conns() {
		c.Close("node shutdown")
	}
	n.wg.Wait()
}

// Configure changes the scripting knobs under the node's lock.
func (n *Node) Configure(f func(n *Node)) { n.mu.Lock(); f(n); n.mu.Unlock() }

// AcceptsExhausted reports whether the node has used up its MaxAccepts budget.
func (n *Node) AcceptsExhausted() bool {
	n.mu.Lock()
	defer n.mu.Unlock()
	return n.MaxAccepts > 0 && n.accepted >= n.MaxAccepts
}

// restartIfScripted closes every other open connection of the node as well (RestartOnDrop).
func (n *Node) restartIfScripted(first *Conn) {
	n.mu.Lock()
	all := n.RestartOnDrop
	n.mu.Unlock()
	if !all {
		return
	}
	for _, o := range n.Open() {
		if o != first {
			o.Close("scripted: the node restarts, all its connections go away")
		}
	}
}

func (n *Node) noteRefusedDial() { n.mu.Lock(); n.refusedDials++; n.mu.Unlock() }

// RefusedDials is the number of dials the rig refused on this node's behalf.
func (n *Node) RefusedDials() int { n.mu.Lock(); defer n.mu.Unlock(); return n.refusedDials }

// Reserve grants one more connection if MaxLive allows it.
func (n *Node) Reserve() bool {
	n.mu.Lock()
	defer n.mu.Unlock()
	if n.MaxLive > 0 && n.reserved >= n.MaxLive {
		return false
	}
	n.reserved++
	return true
}

// Unreserve gives a reservation back (dial failed).
func (n *Node) Unreserve() { n.mu.Lock(); n.reserved--; n.mu.Unlock() }

// StopAccepting makes the node refuse further connections.
func (n *Node) StopAccepting() { n.mu.Lock(); n.closed = true; n.mu.Unlock() }

// ---------------------------------------------------------------------------

// Ready reports whether the version handshake has completed.
func (c *Conn) Ready() bool {
	select {
	case <-c.handshake:
		return true
	default:
		return false
	}
}

// Dead reports whether the connection is closed.
func (c *Conn) Dead() bool { return atomic.LoadInt32(&c.dead) != 0 }

// WantsHeaders reports whether the service sent sendheaders on this connection.
func (c *Conn) WantsHeaders() bool { return atomic.LoadInt32(&c.sendHdrs) != 0 }

// MsgsIn is the number of messages received from the service.
func (c *Conn) MsgsIn() int { return int(atomic.LoadInt32(&c.msgsIn)) }

// Close closes the connection.
func (c *Conn) Close(why string) {
	if atomic.CompareAndSwapInt32(&c.dead, 0, 1) {
		_ = c.c.Close()
		// logged before the slot is given back: a connection accepted into that slot then has a later sequence number
		c.node.Log.add(Event{Node: c.node.Name, Conn: c.ID, Dir: "close", Cmd: why})
		if !c.dialed {
			c.node.mu.Lock()
			c.node.reserved--
			c.node.mu.Unlock()
		}
	}
}

func (c *Conn) write(m wire.Message, info string) error {
	c.wmu.Lock()
	defer c.wmu.Unlock()
	if c.Dead() {
		return fmt.Errorf("connection closed")
	}
	_ = c.c.SetWriteDeadline(time.Now().Add(20 * time.Second))
	err := wire.WriteMessage(c.c, m, pver, c.node.Net)
	if err == nil {
		c.node.Log.add(Event{Node: c.node.Name, Conn: c.ID, Dir: "out", Cmd: m.Command(), Info: info})
	}
	return err
}

func (c *Conn) versionMsg() *wire.MsgVersion {
	me := wire.NewNetAddressIPPort(net.ParseIP(c.node.IP), 8333, c.node.Services)
	you := wire.NewNetAddressIPPort(net.ParseIP("127.0.0.1"), 0, 0)
	nonce, _ := wire.RandomUint64()
	// VersionLag: the node found that many blocks after it sent its version message (it reports the height it had then)
	c.node.mu.Lock()
	lag := int32(c.node.VersionLag)
	c.node.mu.Unlock()
	h := c.node.Height() - lag
	if h < 0 {
		h = 0
	}
	v := wire.NewMsgVersion(me, you, nonce, h)
	v.Services = c.node.Services
	v.ProtocolVersion = int32(pver)
	c.node.mu.Lock()
	if c.node.ProtoVer != 0 {
		v.ProtocolVersion = int32(c.node.ProtoVer)
	}
	c.node.mu.Unlock()
	v.UserAgent = "/verif-node:" + c.node.Name + "/"
	return v
}

func (c *Conn) loop() {
	n := c.node
	defer func() {
		n.mu.Lock()
		others := n.OthersGoWithOffender && atomic.LoadInt32(&c.sentMarked) != 0
		n.mu.Unlock()
		if others {
			for _, o := range n.Open() {
				if o != c {
					o.Close("scripted: the host's other connections go away with the offender's")
				}
			}
		}
	}()
	defer c.Close("read loop ended")
	if c.dialed {
		if err := c.write(c.versionMsg(), ""); err != nil {
			return
		}
	}
	first := false
	n.mu.Lock()
	first = len(n.conns) > 0 && n.conns[0] == c
	early := first
	for k := 0; k < n.LoseFirstN && k < len(n.conns); k++ {
		if n.conns[k] == c {
			early = true
		}
	}
	n.mu.Unlock()
	for {
		msg, _, err := wire.ReadMessage(c.c, pver, n.Net)
		if err != nil {
			if c.Dead() {
				return
			}
			if _, ok := err.(*wire.MessageError); ok {
				// unknown / unsupported command: ignore like a real node would
				continue
			}
			return
		}
		cnt := int(atomic.AddInt32(&c.msgsIn, 1))
		info := ""
		if gh, ok := msg.(*wire.MsgGetHeaders); ok {
			info = fmt.Sprintf("locator=%d stop=%s", len(gh.BlockLocatorHashes), refmodel.Hash(gh.HashStop).String()[56:])
		}
		n.Log.add(Event{Node: n.Name, Conn: c.ID, Dir: "in", Cmd: msg.Command(), Info: info})
		n.mu.Lock()
		discAt, stallAfter, silent := n.DisconnectAtMsg, n.StallAfterMsg, n.Silent || (n.SilentFirst && first)
		halfHs := n.CloseAfterVersion && early
		twice := n.VersionTwice && early
		n.mu.Unlock()
		if early && discAt > 0 && cnt >= discAt {
			c.Close(fmt.Sprintf("scripted disconnect at message %d", cnt))
			n.restartIfScripted(c)
			return
		}
		stalled := silent || (stallAfter > 0 && cnt > stallAfter)
		switch m := msg.(type) {
		case *wire.MsgVersion:
			atomic.StoreInt32(&c.versionIn, 1)
			if !c.dialed {
				if err := c.write(c.versionMsg(), ""); err != nil {
					return
				}
			}
			if halfHs {
				c.Close("scripted: connection lost after the node's version message, before its verack")
				return
			}
			if twice && !c.dialed {
				if err := c.write(c.versionMsg(), "second version message instead of a verack"); err != nil {
					return
				}
				continue
			}
			if err := c.write(wire.NewMsgVerAck(), ""); err != nil {
				return
			}
			if c.dialed && atomic.LoadInt32(&c.verackSeen) == 1 {
				c.hsOnce.Do(func() { close(c.handshake) })
				if !c.afterHandshake() {
					return
				}
			}
		case *wire.MsgVerAck:
			atomic.StoreInt32(&c.verackSeen, 1)
			if atomic.LoadInt32(&c.versionIn) == 1 {
				c.hsOnce.Do(func() { close(c.handshake) })
				if !c.afterHandshake() {
					return
				}
			}
		case *wire.MsgPing:
			if err := c.write(wire.NewMsgPong(m.Nonce), ""); err != nil {
				return
			}
		case *wire.MsgPong:
			select {
			case c.pongs <- m.Nonce:
			default:
			}
		case *wire.MsgSendHeaders:
			atomic.StoreInt32(&c.sendHdrs, 1)
		case *wire.MsgHeaders:
			select {
			case c.hdrReplies <- m:
			default:
			}
		case *wire.MsgGetHeaders:
			gs := GetHeadersSeen{Node: n.Name, Conn: c.ID, Stop: refmodel.Hash(m.HashStop)}
			for _, l := range m.BlockLocatorHashes {
				gs.Locator = append(gs.Locator, refmodel.Hash(*l))
			}
			n.Log.mu.Lock()
			if len(n.Log.GetHdr) < 20000 {
				n.Log.GetHdr = append(n.Log.GetHdr, gs)
			}
			n.Log.mu.Unlock()
			if stalled {
				continue
			}
			if err := c.answerGetHeaders(m); err != nil {
				return
			}
			n.mu.Lock()
			if h := int32(n.RepentAfterHeight); h > 0 && c.lastStart < h && h <= c.lastEnd && int(h) <= len(n.chain) {
				n.setChainLocked(n.RepentChain)
				n.RepentAfterHeight = 0
			}
			dropNow := n.DropAfterHeight > 0 && !n.droppedAfter && c.lastStart < int32(n.DropAfterHeight) && int32(n.DropAfterHeight) <= c.lastEnd
			if dropNow {
				n.droppedAfter = true
			}
			n.mu.Unlock()
			if dropNow {
				c.Close(fmt.Sprintf("scripted disconnect right after the reply that contains height %d", n.DropAfterHeight))
				n.restartIfScripted(c)
				return
			}
			if !c.pushNow() {
				return
			}
		default:
			// getaddr, addr, protoconf, inv, headers, … : nothing to do
		}
	}
}

// answerGetHeaders: the headers of the node's best chain after the first locator
// hash it knows (genesis if none), at most Cap, ending at stop.
func (c *Conn) answerGetHeaders(m *wire.MsgGetHeaders) error {
	n := c.node
	n.mu.Lock()
	start := int32(0)
	for _, l := range m.BlockLocatorHashes {
		if h, ok := n.height[refmodel.Hash(*l)]; ok {
			start = h
			break
		}
	}
	end := int32(len(n.chain))
	var zero chainhash.Hash
	if m.HashStop != zero && !n.IgnoreStop {
		if h, ok := n.height[refmodel.Hash(m.HashStop)]; ok {
			end = h
		}
	}
	if end-start > int32(n.Cap) {
		end = start + int32(n.Cap)
	}
	reply := wire.NewMsgHeaders()
	marked := ""
	for h := start + 1; h <= end; h++ {
		reply.Headers = append(reply.Headers, WireHeader(n.chain[h-1]))
		if n.MarkHash != (refmodel.Hash{}) && n.chain[h-1].HashOf() == n.MarkHash {
			marked = " [marked]"
		}
	}
	n.mu.Unlock()
	c.lastStart, c.lastEnd = start, end
	if start > atomic.LoadInt32(&c.peerKnown) {
		atomic.StoreInt32(&c.peerKnown, start)
	}
	if end > atomic.LoadInt32(&c.peerKnown) && len(reply.Headers) > 0 {
		atomic.StoreInt32(&c.peerKnown, end)
	}
	err := c.write(reply, fmt.Sprintf("%d headers %d..%d%s", len(reply.Headers), start+1, end, marked))
	if err == nil && marked != "" {
		atomic.StoreInt32(&c.sentMarked, 1)
		n.mu.Lock()
		hang := n.HangUpAfterMarked
		n.mu.Unlock()
		if hang {
			c.Close("scripted: the node hangs up right after the answer that carries the marked header")
			return errors.New("hung up")
		}
	}
	return err
}

// pushNow sends the node's unsolicited headers messages on this connection (once per connection).
func (c *Conn) pushNow() bool {
	n := c.node
	n.mu.Lock()
	push, pinfo := n.PushAfterReply, n.PushInfo
	seq, seqInfo := n.PushSeq, n.PushSeqInfo
	n.mu.Unlock()
	if (push != nil || len(seq) > 0) && atomic.CompareAndSwapInt32(&c.pushed, 0, 1) {
		if push != nil {
			if err := c.write(push, pinfo); err != nil {
				return false
			}
		}
		for i, m := range seq {
			if err := c.write(m, seqInfo[i]); err != nil {
				return false
			}
		}
	}
	return true
}

// afterHandshake: what a node scripted to speak first does once the handshake is complete.
func (c *Conn) afterHandshake() bool {
	n := c.node
	n.mu.Lock()
	unknown, early := n.UnknownFirst, n.PushOnHandshake
	n.mu.Unlock()
	if unknown && atomic.CompareAndSwapInt32(&c.unknownSent, 0, 1) {
		// a frame with a correct header and checksum and a command this service has no message type for
		payload := []byte{0, 1, 0, 0, 0, 0, 0, 0, 0}
		var hdr [24]byte
		binary.LittleEndian.PutUint32(hdr[0:4], uint32(n.Net))
		copy(hdr[4:16], "sendcmpct")
		binary.LittleEndian.PutUint32(hdr[16:20], uint32(len(payload)))
		sum := chainhash.DoubleHashB(payload)
		copy(hdr[20:24], sum[:4])
		c.wmu.Lock()
		_ = c.c.SetWriteDeadline(time.Now().Add(20 * time.Second))
		_, err := c.c.Write(append(hdr[:], payload...))
		c.wmu.Unlock()
		if err != nil {
			return false
		}
		n.Log.add(Event{Node: n.Name, Conn: c.ID, Dir: "out", Cmd: "sendcmpct", Info: "a command unknown to the service"})
	}
	if early {
		return c.pushNow()
	}
	return true
}

// WireHeader converts a model header to the wire type.
func WireHeader(h refmodel.Hdr) *wire.BlockHeader {
	return &wire.BlockHeader{
		Version:    h.Version,
		PrevBlock:  chainhash.Hash(h.Prev),
		MerkleRoot: chainhash.Hash(h.Merkle),
		Timestamp:  time.Unix(int64(h.Time), 0),
		Bits:       h.Bits,
		Nonce:      h.Nonce,
	}
}

// AnnounceInv announces by inv on this connection: the node's tip, preceded by the InvBatch-1 blocks below it - as a node
// does that batches its announcements; the peer may know the earlier entries.
func (c *Conn) AnnounceInv() error {
	n := c.node
	n.mu.Lock()
	height := len(n.chain)
	k := n.InvBatch
	if k < 1 {
		k = 1
	}
	if k > height {
		k = height
	}
	inv := wire.NewMsgInv()
	var last refmodel.Hash
	if height == 0 {
		last = n.genesis
		hh := chainhash.Hash(last)
		_ = inv.AddInvVect(wire.NewInvVect(wire.InvTypeBlock, &hh))
	}
	for h := height - k + 1; h <= height && h >= 1; h++ {
		last = n.chain[h-1].HashOf()
		hh := chainhash.Hash(last)
		_ = inv.AddInvVect(wire.NewInvVect(wire.InvTypeBlock, &hh))
	}
	n.mu.Unlock()
	return c.write(inv, fmt.Sprintf("%d block(s) ..%s", len(inv.InvList), last.String()[56:]))
}

// AnnounceHeaders announces by headers: everything on the node's best chain above
// what the service is known to have on this connection (BIP130: the announcement
// must connect to something the peer has).
func (c *Conn) AnnounceHeaders() error {
	n := c.node
	n.mu.Lock()
	known := atomic.LoadInt32(&c.peerKnown)
	if int(known) > len(n.chain) {
		known = 0
	}
	msg := wire.NewMsgHeaders()
	// (the reply cap applies to getheaders answers, not to announcements)
	for h := known + 1; h <= int32(len(n.chain)) && len(msg.Headers) < 2000; h++ {
		msg.Headers = append(msg.Headers, WireHeader(n.chain[h-1]))
	}
	top := known + int32(len(msg.Headers))
	n.mu.Unlock()
	if len(msg.Headers) == 0 {
		return nil
	}
	atomic.StoreInt32(&c.peerKnown, top)
	return c.write(msg, fmt.Sprintf("announce %d headers ..%d", len(msg.Headers), top))
}

// Announce announces conformantly: inv until sendheaders was seen, headers after.
func (c *Conn) Announce() error {
	if c.WantsHeaders() {
		return c.AnnounceHeaders()
	}
	return c.AnnounceInv()
}

// RewindPeerKnown lowers what the service is assumed to have of the node's chain (the next headers announcement starts
// right above it again).
func (c *Conn) RewindPeerKnown(h int32) {
	if h < 0 {
		h = 0
	}
	if atomic.LoadInt32(&c.peerKnown) > h {
		atomic.StoreInt32(&c.peerKnown, h)
	}
}

// SetPeerKnown records that the service has the node's chain up to this height (e.g. after sync).
func (c *Conn) SetPeerKnown(h int32) {
	if h > atomic.LoadInt32(&c.peerKnown) {
		atomic.StoreInt32(&c.peerKnown, h)
	}
}

// Ping sends a ping and waits for the matching pong; false on timeout / closed connection.
func (c *Conn) Ping(timeout time.Duration) bool {
	nonce, _ := wire.RandomUint64()
	if err := c.write(wire.NewMsgPing(nonce), ""); err != nil {
		// the socket is already broken: give the read loop a moment to notice and mark the connection dead,
		// so that the caller never sees a half-closed connection as open
		for i := 0; i < 400 && !c.Dead(); i++ {
			time.Sleep(5 * time.Millisecond)
		}
		if !c.Dead() {
			c.Close("write failed")
		}
		return false
	}
	deadline := time.After(timeout)
	tick := time.NewTicker(20 * time.Millisecond)
	defer tick.Stop()
	for {
		select {
		case got := <-c.pongs:
			if got == nonce {
				return true
			}
		case <-tick.C:
		case <-deadline:
			return false
		}
		if c.Dead() {
			return false
		}
	}
}

// AskHeaders sends a getheaders(locator, stop) to the service and waits for its headers reply.
// ok=false when no reply arrived within the watchdog.
func (c *Conn) AskHeaders(locator []refmodel.Hash, stop refmodel.Hash, watchdog time.Duration) ([]refmodel.Hdr, bool) {
	for len(c.hdrReplies) > 0 {
		<-c.hdrReplies
	}
	gh := wire.NewMsgGetHeaders()
	gh.HashStop = chainhash.Hash(stop)
	for i := range locator {
		h := chainhash.Hash(locator[i])
		_ = gh.AddBlockLocatorHash(&h)
	}
	if err := c.write(gh, fmt.Sprintf("node asks: locator=%d", len(locator))); err != nil {
		return nil, false
	}
	select {
	case m := <-c.hdrReplies:
		out := make([]refmodel.Hdr, 0, len(m.Headers))
		for _, h := range m.Headers {
			out = append(out, refmodel.Hdr{Version: h.Version, Prev: refmodel.Hash(h.PrevBlock), Merkle: refmodel.Hash(h.MerkleRoot), Time: uint32(h.Timestamp.Unix()), Bits: h.Bits, Nonce: h.Nonce})
		}
		return out, true
	case <-time.After(watchdog):
		return nil, false
	}
}
