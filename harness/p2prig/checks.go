package p2prig

import (
	"fmt"
	"strings"
	"sync"
	"syscall"
	"time"

	"github.com/bitcoin-sv/block-headers-service/verifharness/refmodel"
	"github.com/bitcoin-sv/block-headers-service/verifharness/snap"
)

var sigQuit = syscall.SIGQUIT

// startReaders launches concurrent HTTP readers against the gin engine (C15); returns a stop function.
func (x *runner) startReaders() func() {
	if x.s.Readers <= 0 || x.st.Engine == nil {
		return func() {}
	}
	stop := make(chan struct{})
	var wg sync.WaitGroup
	var mu sync.Mutex
	total := int64(0)
	bad := map[string]int{}
	paths := []string{"/api/v1/network/peer", "/api/v1/network/peer/count", "/api/v1/chain/tip/longest", "/api/v1/chain/tip", "/api/v1/chain/header/byHeight?height=1&count=3"}
	for i := 0; i < x.s.Readers; i++ {
		wg.Add(1)
		go func(i int) {
			defer wg.Done()
			n := 0
			for {
				select {
				case <-stop:
					mu.Lock()
					total += int64(n)
					mu.Unlock()
					return
				default:
				}
				p := paths[(i+n)%len(paths)]
				w := x.st.HTTP("GET", p, nil, nil)
				if w.Code >= 500 {
					mu.Lock()
					bad[fmt.Sprintf("%s -> %d", strings.SplitN(p, "?", 2)[0], w.Code)]++
					mu.Unlock()
				}
				n++
			}
		}(i)
	}
	return func() {
		close(stop)
		wg.Wait()
		x.count("concurrent_http_reads", total)
		for k, v := range bad {
			x.fail("reader-5xx|"+k, fmt.Sprintf("concurrent reader got %s (%d times)", k, v))
		}
	}
}

// stillConnected decides whether the service still serves this connection, robustly against closes that are
// in flight: a ping proves that everything the node sent has been dispatched, the engine flush proves that it
// has been processed (a Disconnect decided on it has been issued), and only a connection that answers another
// ping after that counts as connected.
func (x *runner) stillConnected(c *Conn) bool {
	if c.Dead() || !c.Ready() {
		return false
	}
	c.Ping(5 * time.Second)
	if !x.eng.Flush(20 * time.Second) {
		// the engine's message loops did not answer: nothing can be said about what they have or have not processed
		x.count("still_connected_probes_without_a_flush", 1)
		return false
	}
	return c.Ping(5*time.Second) && !c.Dead()
}

func (x *runner) nodeEvents(name string, conn int) []Event {
	x.rig.Log.mu.Lock()
	defer x.rig.Log.mu.Unlock()
	var out []Event
	for _, e := range x.rig.Log.Events {
		if e.Node == name && (conn == 0 || e.Conn == conn) {
			out = append(out, e)
		}
	}
	return out
}

// scenarioSpecificChecks holds the C07 containment oracles (forbidden header, checkpoint mismatch,
// checkpoint advance); they are no-ops for scenarios without misbehaving nodes.
func (x *runner) scenarioSpecificChecks(stage string) {
	s := x.s
	cls := x.class()
	// --- forbidden header delivered before its parent ---------------------------------
	if x.w.ForbiddenOrphan != nil {
		fh := x.w.ForbiddenOrphan.HashOf()
		if t, err := snap.TakeHeaders(x.st.DB); err == nil {
			if row, ok := t[fh.String()]; ok {
				x.fail("forbidden-stored|parent-unknown|"+cls, "a forbidden header delivered before its parent is present in the headers table as "+row.State+" ("+stage+")")
			}
		}
		if x.st.Engine != nil {
			for _, p := range []string{"/api/v1/chain/header/", "/api/v1/chain/header/state/"} {
				if w := x.st.HTTP("GET", p+fh.String(), nil, nil); w.Code != 404 {
					x.fail("forbidden-served|parent-unknown|"+cls, fmt.Sprintf("GET %s<forbidden, parent unknown> -> %d", p, w.Code))
				}
			}
		}
		for i, ns := range s.Nodes {
			if ns.Kind != "forbidden" || !ns.OrphanForbidden {
				continue
			}
			n := x.nodes[i]
			for _, c := range n.Conns() {
				pushed := false
				for _, e := range x.nodeEvents(n.Name, c.ID) {
					if e.Dir == "out" && e.Cmd == "headers" && strings.HasPrefix(e.Info, "orphan-forbidden") {
						pushed = true
					}
				}
				if pushed {
					x.count("orphan_forbidden_header_delivered", 1)
					if x.stillConnected(c) {
						x.fail("forbidden-sender-still-connected|parent-unknown|"+cls, fmt.Sprintf("node %s delivered a forbidden header (parent unknown) on connection %d and is still connected at quiescence", n.Name, c.ID))
					}
				}
			}
		}
	}
	// --- forbidden header ------------------------------------------------------
	if x.w.Forbidden != nil {
		fh := x.w.Forbidden.HashOf()
		t, err := snap.TakeHeaders(x.st.DB)
		if err == nil {
			if _, ok := t[fh.String()]; ok {
				x.fail("forbidden-stored|"+cls, "the forbidden header is present in the headers table ("+stage+")")
			}
			// descendants of the forbidden header: only ever ORPHAN
			desc := map[string]bool{fh.String(): true}
			for i, ns := range s.Nodes {
				if ns.Kind != "forbidden" {
					continue
				}
				for _, h := range x.w.Chains[i] {
					if desc[h.Prev.String()] {
						desc[h.HashOf().String()] = true
						if row, ok := t[h.HashOf().String()]; ok {
							x.count("forbidden_descendants_stored", 1)
							if row.State != "ORPHAN" {
								x.fail("forbidden-descendant-not-orphan|"+cls+"|"+row.State, fmt.Sprintf("a descendant of the forbidden header is stored as %s", row.State))
							}
						}
					}
				}
			}
		}
		if x.st.Engine != nil {
			for _, p := range []string{"/api/v1/chain/header/", "/api/v1/chain/header/state/"} {
				w := x.st.HTTP("GET", p+fh.String(), nil, nil)
				if w.Code != 404 {
					x.fail("forbidden-served|"+cls, fmt.Sprintf("GET %s<forbidden> -> %d", p, w.Code))
				}
			}
			x.count("forbidden_hash_http_probes", 2)
		}
		for i, ns := range s.Nodes {
			if ns.Kind != "forbidden" {
				continue
			}
			n := x.nodes[i]
			delivered := false
			for _, c := range n.Conns() {
				evs := x.nodeEvents(n.Name, c.ID)
				sentForbidden := false
				for _, e := range evs {
					if e.Dir == "out" && e.Cmd == "headers" && strings.Contains(e.Info, "[marked]") {
						sentForbidden = true
					}
				}
				if sentForbidden {
					delivered = true
					if x.stillConnected(c) {
						x.fail("forbidden-sender-still-connected|"+cls, fmt.Sprintf("node %s delivered the forbidden header on connection %d and is still connected at quiescence", n.Name, c.ID))
					}
				}
			}
			if delivered {
				x.count("forbidden_header_delivered", 1)
				if s.Engine == "legacy" && stage == "end" {
					// ban observed by effect: with a long ban no later connection of that host may stay admitted
					conns := n.Conns()
					later := 0
					asked := 0
					firstSender := 0
					for _, c := range conns {
						evs := x.nodeEvents(n.Name, c.ID)
						for _, e := range evs {
							if e.Dir == "out" && e.Cmd == "headers" && strings.Contains(e.Info, "[marked]") && firstSender == 0 {
								firstSender = c.ID
							}
						}
					}
					// "later" = accepted after the offender's connection was closed (connections of the same host that were
					// already open when the ban was pronounced stay: the ban is about admission)
					closedAt := int64(-1)
					for _, e := range x.nodeEvents(n.Name, firstSender) {
						if e.Dir == "close" && closedAt < 0 {
							closedAt = int64(e.Seq)
						}
					}
					for _, c := range conns {
						if c.ID <= firstSender || closedAt < 0 {
							continue
						}
						acceptedAt := int64(-1)
						for _, e := range x.nodeEvents(n.Name, c.ID) {
							if e.Dir == "conn" {
								acceptedAt = int64(e.Seq)
								break
							}
						}
						if acceptedAt < closedAt {
							continue
						}
						later++
						for _, e := range x.nodeEvents(n.Name, c.ID) {
							if e.Dir == "in" && e.Cmd == "getheaders" {
								asked++
								break
							}
						}
						// admitted = handshake completed and connection kept; a connection that never completes the
						// handshake or is closed right after it was not admitted
						if s.BanDurationMs >= 60000 && x.stillConnected(c) {
							x.fail("banned-host-connected|"+cls, fmt.Sprintf("a later connection (%d) of the banned host completed the handshake and is still open at quiescence", c.ID))
						}
					}
					x.count("later_connections_of_banned_host", int64(later))
					// (a getheaders may reach a later connection before the admission check runs - the sync manager
					// learns of a peer before the peer book does; recorded, not asserted)
					x.count("banned_host_connections_sent_getheaders_before_admission_check", int64(asked))
					if s.BanDurationMs > 0 && s.BanDurationMs <= 5 && later > 0 {
						x.count("ban_elapsed_scenarios", 1)
						// admitted again = a later connection was sent a getheaders or completed the handshake and stayed open.
						// Judged only when there were several later connections (the first re-dial can arrive within the millisecond).
						admitted := asked
						for _, c := range conns {
							if c.ID > firstSender && c.Ready() && !c.Dead() {
								admitted++
							}
						}
						if admitted == 0 && later >= 4 {
							x.fail("ban-never-elapses|"+cls, fmt.Sprintf("ban duration %d ms elapsed but none of %d later connections of that host was admitted", s.BanDurationMs, later))
						} else if admitted > 0 {
							x.count("ban_elapsed_readmissions", int64(admitted))
						}
					}
				}
			} else {
				x.count("forbidden_node_never_asked", 1)
			}
		}
	}
	// --- checkpoint mismatch -----------------------------------------------------
	// sequence number of the first delivery of each contradicting block (over all nodes and connections)
	firstDelivery := map[refmodel.Hash]int64{}
	for i, ns := range s.Nodes {
		if ns.Kind != "badcheckpoint" {
			continue
		}
		bh := x.w.Chains[i][ns.BadAt-1].HashOf()
		for _, e := range x.nodeEvents(x.nodes[i].Name, 0) {
			if e.Dir == "out" && e.Cmd == "headers" && coversHeight(e.Info, int32(ns.BadAt)) {
				if old, ok := firstDelivery[bh]; !ok || e.Seq < old {
					firstDelivery[bh] = e.Seq
				}
				break
			}
		}
	}
	for i, ns := range s.Nodes {
		if ns.Kind != "badcheckpoint" {
			continue
		}
		n := x.nodes[i]
		for _, c := range n.Conns() {
			evs := x.nodeEvents(n.Name, c.ID)
			offending := -1
			for k, e := range evs {
				if e.Dir == "out" && e.Cmd == "headers" && coversHeight(e.Info, int32(ns.BadAt)) {
					offending = k
					break
				}
			}
			if offending < 0 {
				continue
			}
			x.count("checkpoint_mismatch_delivered", 1)
			// first delivery of this contradicting block to the service, or a re-delivery of one it already stored?
			badHash := x.w.Chains[i][ns.BadAt-1].HashOf()
			kind := "first-delivery"
			if seq, ok := firstDelivery[badHash]; ok && seq < evs[offending].Seq {
				kind = "redelivery"
			}
			x.count("checkpoint_mismatch_"+kind, 1)
			for _, e := range evs[offending+1:] {
				if e.Dir == "in" && e.Cmd == "getheaders" {
					x.fail("checkpoint-mismatch|"+kind+"|further-request|"+cls, fmt.Sprintf("node %s delivered (%s) a header contradicting the checkpoint at height %d and was sent another getheaders afterwards", n.Name, kind, ns.BadAt))
					break
				}
			}
			if x.stillConnected(c) {
				x.fail("checkpoint-mismatch|"+kind+"|still-connected|"+cls, fmt.Sprintf("node %s delivered (%s) a header contradicting the checkpoint at height %d and is still connected at quiescence", n.Name, kind, ns.BadAt))
			}
		}
	}
	// --- no request stops at a checkpoint the service has already passed -----------------------------------------------
	// (any scenario with checkpoints: a getheaders whose first locator entry - the service's tip, or the block it
	// continues from - is at or above the checkpoint whose hash it names as stop is answered with nothing by a peer that
	// honours the stop hash)
	if stage == "end" && len(s.CheckpointHeights) > 0 && !s.DisableCheckpoints && s.Engine == "legacy" {
		x.rig.Log.mu.Lock()
		ghs := append([]GetHeadersSeen(nil), x.rig.Log.GetHdr...)
		x.rig.Log.mu.Unlock()
		cpAt := map[refmodel.Hash]int32{}
		for _, ch := range s.CheckpointHeights {
			if int(ch) >= 1 && int(ch) <= len(x.w.Honest) {
				cpAt[x.w.Honest[ch-1].HashOf()] = ch
			}
		}
		judged := 0
		for _, g := range ghs {
			ch, isCp := cpAt[g.Stop]
			if !isCp || len(g.Locator) == 0 {
				continue
			}
			from, known := x.w.Height[g.Locator[0]]
			if g.Locator[0] == x.rig.Genesis {
				from, known = 0, true
			}
			if !known {
				continue
			}
			judged++
			if from >= ch {
				x.fail("checkpoint-advance|stop-at-a-passed-checkpoint|"+cls, fmt.Sprintf("a getheaders sent to %s continues from height %d and stops at the checkpoint at height %d, which lies at or below it", g.Node, from, ch))
				break
			}
		}
		x.count("getheaders_with_a_checkpoint_stop_judged", int64(judged))
	}
	// --- checkpoint advance (single honest node serving the whole sync) ---------------
	if stage == "end" && len(s.CheckpointHeights) > 0 && len(s.Nodes) == 1 && s.Nodes[0].Kind == "honest" && !s.DisableCheckpoints && s.InitialStore == "genesis" && !s.Nodes[0].losesFirstConnection() {
		// The stop hash of every request follows from what the node has delivered so far (the sync manager sends a request only
		// in reaction to a message it has processed): the first checkpoint above the highest height delivered, and the zero
		// hash (or an announced block) once the last checkpoint has been delivered - also when one message carried the
		// headers of several checkpoints.
		evs := x.nodeEvents(x.nodes[0].Name, 0)
		delivered := int32(0)
		lastCp := s.CheckpointHeights[len(s.CheckpointHeights)-1]
		suffix := func(h refmodel.Hash) string { return h.String()[56:] }
		known := map[string]bool{}
		for _, h := range x.w.Honest {
			known[suffix(h.HashOf())] = true
		}
		nReq, unbounded := 0, false
		announced := map[string]bool{} // blocks the node has announced by inv: a request made for one of them stops there
		for _, e := range evs {
			if e.Dir == "out" && e.Cmd == "inv" {
				if i := strings.LastIndex(e.Info, ".."); i >= 0 {
					announced[e.Info[i+2:]] = true
				}
				continue
			}
			if e.Dir == "out" && e.Cmd == "headers" {
				var n int
				var a, b int32
				if _, err := fmt.Sscanf(e.Info, "%d headers %d..%d", &n, &a, &b); err == nil && n > 0 && b > delivered {
					delivered = b
				} else if _, err := fmt.Sscanf(e.Info, "announce %d headers ..%d", &n, &b); err == nil && n > 0 && b > delivered {
					delivered = b
				}
				continue
			}
			if e.Dir != "in" || e.Cmd != "getheaders" {
				continue
			}
			i := strings.Index(e.Info, "stop=")
			if i < 0 {
				continue
			}
			stop := e.Info[i+5:]
			nReq++
			want, wantH := "00000000", int32(0)
			for _, ch := range s.CheckpointHeights {
				if ch > delivered {
					want, wantH = suffix(x.w.Honest[ch-1].HashOf()), ch
					break
				}
			}
			switch {
			case stop == want:
				if want == "00000000" {
					unbounded = true
				}
			case announced[stop]:
				// a request made for an announced block stops at that block
			case want == "00000000" && known[stop]:
				// after the last checkpoint: a block of the tree
			case want == "00000000":
				x.fail("checkpoint-advance|unknown-stop|"+cls, fmt.Sprintf("getheaders #%d carries a stop hash (..%s) that is neither zero nor a block of the tree", nReq, stop))
			default:
				what := "another hash"
				if stop == "00000000" {
					what = "the zero hash"
				}
				for _, ch := range s.CheckpointHeights {
					if stop == suffix(x.w.Honest[ch-1].HashOf()) {
						what = fmt.Sprintf("the checkpoint at height %d", ch)
					}
				}
				x.fail("checkpoint-advance|wrong-stop|"+cls, fmt.Sprintf("getheaders #%d: headers up to height %d have been delivered, the next checkpoint is at height %d, the request stops at %s", nReq, delivered, wantH, what))
			}
		}
		if nReq > 0 {
			x.count("checkpoint_advance_sequences_checked", 1)
			if s.Nodes[0].IgnoreStop {
				x.count("checkpoint_advance_sequences_with_answers_beyond_the_stop_hash", 1)
			}
			if !unbounded && s.HonestLen > int(lastCp) && int(delivered) < len(x.w.Honest) {
				x.fail("checkpoint-advance|no-unbounded-request|"+cls, fmt.Sprintf("the node's chain has %d blocks, %d have been delivered, the last checkpoint is at height %d, and no request with a zero stop hash was sent", len(x.w.Honest), delivered, lastCp))
			}
		}
	}
}

// coversHeight parses the "N headers a..b" info of a headers reply.
func coversHeight(info string, h int32) bool {
	var n int
	var a, b int32
	if _, err := fmt.Sscanf(info, "%d headers %d..%d", &n, &a, &b); err != nil {
		return false
	}
	return n > 0 && h >= a && h <= b
}

// reOffend: a host the service has never dialled keeps two connections open (it dialled in twice). The first one
// announces the forbidden header and delivers it when asked: banned and disconnected. The ban runs out while nobody of
// that host tries to connect. Then the second connection does the same. The host is banned again: a newcomer of that
// host that dials in right afterwards must not stay connected. "Still banned" is judged only when the verdict comes
// within half the ban duration after the second offence was SENT (else inconclusive); "elapsed" after ban + 0.5 s.
func (x *runner) reOffend() {
	s := x.s
	at := 0
	for _, ns := range s.Nodes {
		if ns.Kind == "forbidden" && !ns.OrphanForbidden {
			at = ns.ForbiddenAt
		}
	}
	if at == 0 || x.w.Forbidden == nil || s.BanDurationMs < 2000 {
		return
	}
	ban := time.Duration(s.BanDurationMs) * time.Millisecond
	chain := append(append([]refmodel.Hdr(nil), x.w.Honest[:at-1]...), *x.w.Forbidden)
	g, err := x.rig.AddNode("re-offender", chain, false)
	if err != nil {
		x.count("reoffend_not_run", 1)
		return
	}
	x.rig.Refuse(g, true)
	const ip = "127.0.0.77"
	addr := "127.0.0.1:" + x.rig.Port
	c1, err1 := g.DialService(addr, ip)
	c2, err2 := g.DialService(addr, ip)
	if err1 != nil || err2 != nil || !x.waitFor(func() bool { return c1.Ready() && c2.Ready() }, 20*time.Second) || !x.quiesce("re-offender connected twice") {
		x.count("reoffend_not_run", 1)
		return
	}
	if c1.AnnounceInv() != nil || !x.quiesce("first offence") {
		x.count("reoffend_not_run", 1)
		return
	}
	if x.stillConnected(c1) {
		x.count("reoffend_first_offence_left_the_sender_connected", 1) // judged by the other oracles
		return
	}
	if !x.stillConnected(c2) {
		x.count("reoffend_second_connection_closed_with_the_first", 1) // nothing left to offend with
		return
	}
	time.Sleep(ban + 500*time.Millisecond)
	t1 := time.Now()
	if c2.AnnounceInv() != nil || !x.quiesce("second offence") {
		x.count("reoffend_not_run", 1)
		return
	}
	c3, err := g.DialService(addr, ip)
	if err != nil {
		x.count("reoffend_newcomer_refused", 1)
		return
	}
	x.waitFor(func() bool { return c3.Ready() || c3.Dead() }, 10*time.Second)
	if !x.quiesce("newcomer of the banned host") {
		return
	}
	still := x.stillConnected(c3)
	dt := time.Since(t1)
	x.count("reoffend_sequences_run", 1)
	switch {
	case dt > ban/2:
		x.count("reoffend_verdict_too_late_to_judge", 1)
	case still:
		x.fail("banned-host-connected|second-offence-after-elapsed-ban|"+x.class(), fmt.Sprintf("a host was banned, the ban (%v) elapsed with no connection attempt of that host, a second connection of the host then delivered the forbidden header again, and %v later a new connection of that host is admitted and stays open", ban, dt))
	default:
		x.count("reoffend_newcomer_refused", 1)
	}
}

// hitAndRun: a host the service has never dialled connects, announces the forbidden header, delivers it when asked and
// hangs up at once - the connection is gone before the sync manager looks at the message. The host is banned all the same:
// a newcomer of that host that dials in afterwards must not stay connected (1 h ban, so no timing enters the verdict).
func (x *runner) hitAndRun() {
	s := x.s
	if !s.HitAndRun || x.w.Forbidden == nil || s.Engine != "legacy" || (s.BanDurationMs > 0 && s.BanDurationMs < 600000) {
		return
	}
	at := 0
	for _, ns := range s.Nodes {
		if ns.Kind == "forbidden" && !ns.OrphanForbidden {
			at = ns.ForbiddenAt
		}
	}
	if at == 0 {
		return
	}
	chain := append(append([]refmodel.Hdr(nil), x.w.Honest[:at-1]...), *x.w.Forbidden)
	g, err := x.rig.AddNode("hit-and-run", chain, false)
	if err != nil {
		x.count("hit_and_run_not_run", 1)
		return
	}
	g.Configure(func(n *Node) { n.MarkHash, n.HangUpAfterMarked = x.w.Forbidden.HashOf(), true })
	x.rig.Refuse(g, true)
	const ip = "127.0.0.78"
	addr := "127.0.0.1:" + x.rig.Port
	c1, err := g.DialService(addr, ip)
	if err != nil || !x.waitFor(func() bool { return c1.Ready() }, 20*time.Second) || !x.quiesce("hit-and-run host connected") {
		x.count("hit_and_run_not_run", 1)
		return
	}
	if c1.AnnounceInv() != nil {
		x.count("hit_and_run_not_run", 1)
		return
	}
	if !x.waitFor(func() bool { return c1.Dead() }, 20*time.Second) {
		x.count("hit_and_run_offender_was_never_asked", 1) // the service did not ask for the announced block: nothing was delivered
		return
	}
	delivered := false
	for _, e := range x.nodeEvents(g.Name, c1.ID) {
		if e.Dir == "out" && e.Cmd == "headers" && strings.Contains(e.Info, "[marked]") {
			delivered = true
		}
	}
	if !delivered || !x.quiesce("after the hit-and-run offence") {
		x.count("hit_and_run_not_run", 1)
		return
	}
	c2, err := g.DialService(addr, ip)
	if err != nil {
		x.count("hit_and_run_newcomer_refused", 1)
		return
	}
	x.waitFor(func() bool { return c2.Ready() || c2.Dead() }, 10*time.Second)
	if !x.quiesce("newcomer of the hit-and-run host") {
		return
	}
	x.count("hit_and_run_sequences_run", 1)
	if x.stillConnected(c2) {
		x.fail("banned-host-connected|offender-hung-up-at-once|"+x.class(), "a host delivered the forbidden header and closed its connection at once; a new connection of that host was admitted afterwards and stays open (the ban lasts 1 h)")
		return
	}
	x.count("hit_and_run_newcomer_refused", 1)
}
