package p2prig

import (
	"errors"
	"fmt"
	"net"
	"os"
	"strings"
	"sync"
	"time"

	"github.com/bitcoin-sv/block-headers-service/config"
	"github.com/bitcoin-sv/block-headers-service/internal/chaincfg"
	"github.com/bitcoin-sv/block-headers-service/internal/chaincfg/chainhash"
	exppeer "github.com/bitcoin-sv/block-headers-service/internal/transports/p2p/peer"
	"github.com/bitcoin-sv/block-headers-service/transports/p2p"
	"github.com/bitcoin-sv/block-headers-service/transports/p2p/p2psync"
	peerpkg "github.com/bitcoin-sv/block-headers-service/transports/p2p/peer"
	"github.com/bitcoin-sv/block-headers-service/verifharness/refmodel"
	"github.com/bitcoin-sv/block-headers-service/verifharness/rig"
	"github.com/rs/zerolog"
)

// Checkpoint in model form.
type Checkpoint struct {
	Height int32
	Hash   refmodel.Hash
}

// Rig owns the scripted nodes and the process-global wiring that points the
// service at them (config.Lookup / config.Dial / chaincfg.MainNetParams).
type Rig struct {
	Log     *Log
	Nodes   []*Node
	Port    string // the service's own listen port (legacy engine)
	Genesis refmodel.Hash

	mu       sync.Mutex
	dialable map[string]*Node // fake "ip" -> node
	seedIPs  []net.IP
	refuse   map[string]bool // fake ips whose dials are refused
	Dials    int
}

// FreePort asks the kernel for a free TCP port.
// FreePort picks a listening port for the service under test BELOW the kernel's ephemeral range (so that no outgoing
// connection of any process on the machine can take it between this probe and the service's own listen), starting at a
// position derived from the process id (concurrent scenario processes start at different positions).
func FreePort() string {
	start := 20000 + (os.Getpid()*7)%12000
	for i := 0; i < 200; i++ {
		p := 20000 + (start-20000+i*13)%12000
		l, err := net.Listen("tcp4", fmt.Sprintf("127.0.0.1:%d", p))
		if err != nil {
			continue
		}
		_ = l.Close()
		if l2, err := net.Listen("tcp4", fmt.Sprintf(":%d", p)); err == nil {
			_ = l2.Close()
			return fmt.Sprint(p)
		}
	}
	l, err := net.Listen("tcp4", "127.0.0.1:0")
	if err != nil {
		return "18999"
	}
	defer l.Close()
	return fmt.Sprint(l.Addr().(*net.TCPAddr).Port)
}

// NewRig creates an empty rig.
func NewRig() *Rig {
	return &Rig{Log: &Log{}, Genesis: rig.Genesis().HashOf(), dialable: map[string]*Node{}, refuse: map[string]bool{}}
}

// AddNode creates, registers and starts a node. seed=true lists its fake IP in the DNS seed answer.
func (r *Rig) AddNode(name string, chain []refmodel.Hdr, seed bool) (*Node, error) {
	r.mu.Lock()
	ip := fmt.Sprintf("50.%d.0.1", len(r.Nodes)+1)
	r.mu.Unlock()
	n := NewNode(name, ip, chaincfg.MainNetParams.Net, r.Genesis, chain, r.Log)
	if err := n.Listen(); err != nil {
		return nil, err
	}
	r.mu.Lock()
	r.Nodes = append(r.Nodes, n)
	r.dialable[ip] = n
	if seed {
		r.seedIPs = append(r.seedIPs, net.ParseIP(ip))
	}
	r.mu.Unlock()
	return n, nil
}

// Refuse makes dials to the node's fake IP fail (connection refused) or succeed again.
// DialCount is the number of dial attempts the service has made so far (refused ones included).
func (r *Rig) DialCount() int { r.mu.Lock(); defer r.mu.Unlock(); return r.Dials }

func (r *Rig) Refuse(n *Node, refuse bool) { r.mu.Lock(); r.refuse[n.IP] = refuse; r.mu.Unlock() }

// Install points the process-global configuration at the rig: DNS seed, lookup, dial,
// default port, checkpoints (both engines), time source. One rig per process.
func (r *Rig) Install(checkpoints []Checkpoint) {
	if r.Port == "" {
		r.Port = FreePort()
	}
	p := &chaincfg.MainNetParams
	p.DefaultPort = r.Port
	p.DNSSeeds = []chaincfg.DNSSeed{{Host: "seed.verif.invalid", HasFiltering: false}}
	var cps []chaincfg.Checkpoint
	for _, c := range checkpoints {
		h := chainhash.Hash(c.Hash)
		cps = append(cps, chaincfg.Checkpoint{Height: c.Height, Hash: &h})
	}
	p.Checkpoints = cps
	config.Checkpoints = cps
	config.ActiveNetParams = p
	nop := zerolog.Nop()
	config.TimeSource = config.NewMedianTime(&nop)
	config.Lookup = func(host string) ([]net.IP, error) {
		r.mu.Lock()
		defer r.mu.Unlock()
		if strings.HasPrefix(host, "seed.verif") {
			return append([]net.IP(nil), r.seedIPs...), nil
		}
		if ip := net.ParseIP(host); ip != nil {
			return []net.IP{ip}, nil
		}
		return nil, errors.New("verif: no such host " + host)
	}
	config.Dial = func(network, addr string, timeout time.Duration) (net.Conn, error) {
		host, _, err := net.SplitHostPort(addr)
		if err != nil {
			return nil, err
		}
		r.mu.Lock()
		r.Dials++
		n := r.dialable[host]
		refused := r.refuse[host]
		r.mu.Unlock()
		if f := os.Getenv("VERIF_DIAL_LOG"); f != "" {
			if fh, err := os.OpenFile(f, os.O_APPEND|os.O_CREATE|os.O_WRONLY, 0o644); err == nil {
				fmt.Fprintf(fh, "%s dial %s known=%v refused=%v\n", time.Now().Format("15:04:05.000"), addr, n != nil, refused)
				fh.Close()
			}
		}
		if n == nil || refused {
			return nil, fmt.Errorf("verif: connection refused (%s)", addr)
		}
		if n.AcceptsExhausted() {
			n.noteRefusedDial()
			return nil, fmt.Errorf("verif: connection refused (%s): node stopped accepting", addr)
		}
		if !n.Reserve() {
			n.noteRefusedDial()
			return nil, fmt.Errorf("verif: connection refused (%s): node accepts at most %d connection(s)", addr, n.MaxLive)
		}
		c, err := net.DialTimeout("tcp4", n.Addr(), timeout)
		if err != nil {
			n.Unreserve()
			return nil, err
		}
		return &spoofConn{Conn: c, remote: &net.TCPAddr{IP: net.ParseIP(host), Port: mustAtoi(r.Port)}}, nil
	}
}

func mustAtoi(s string) int { var n int; fmt.Sscan(s, &n); return n }

// spoofConn reports the fake routable address as its remote address so that the
// service's address bookkeeping (groups, bans) sees distinct hosts.
type spoofConn struct {
	net.Conn
	remote net.Addr
}

func (s *spoofConn) RemoteAddr() net.Addr { return s.remote }

// Close shuts all nodes down.
func (r *Rig) Close() {
	for _, n := range r.Nodes {
		n.Close()
	}
}

// ---------------------------------------------------------------------------
// engines

// Engine is the service side under test.
type Engine interface {
	// Flush is a round trip through the engine's message processing (after it returns,
	// everything the nodes' pongs proved delivered has been processed).
	Flush(timeout time.Duration) bool
	Stop()
}

type legacyServer interface {
	Start() error
	Shutdown() error
	VerifSyncManager() *p2psync.SyncManager
	ConnectedCount() int32
}

// Legacy is the full default P2P server.
type Legacy struct {
	srv   legacyServer
	Peers map[*peerpkg.Peer]*peerpkg.SyncState
}

// StartLegacy builds and starts the real legacy server on the stack's services.
// peers must be the same map that was given to service.NewServices (rig.Options.Peers).
func StartLegacy(st *rig.Stack, peers map[*peerpkg.Peer]*peerpkg.SyncState) (*Legacy, error) {
	srv, err := p2p.NewServer(st.Svc, peers, st.Cfg.P2P, &st.Log)
	if err != nil {
		return nil, err
	}
	l := &Legacy{srv: srv, Peers: peers}
	if err := srv.Start(); err != nil {
		return nil, err
	}
	return l, nil
}

// Flush: a round trip through both single-goroutine message loops of the server. ConnectedCount() is answered by the
// server's peer handler (the goroutine that admits, removes and bans peers); its select picks among the ready channels at
// random, so the question is asked several times - an admission or ban queued before the first question is overtaken by
// all of them only with probability 2^-8. SyncManager.IsCurrent() is answered by the sync manager's goroutine after
// everything queued before it. Each loop feeds the other (admission -> NewPeer, forbidden header -> BanPeer + done), hence
// two rounds.
func (l *Legacy) Flush(timeout time.Duration) bool {
	done := make(chan struct{})
	go func() {
		defer func() { _ = recover() }()
		for round := 0; round < 2; round++ {
			for i := 0; i < 8; i++ {
				l.srv.ConnectedCount()
			}
			l.srv.VerifSyncManager().IsCurrent()
		}
		for i := 0; i < 8; i++ {
			l.srv.ConnectedCount()
		}
		close(done)
	}()
	select {
	case <-done:
		return true
	case <-time.After(timeout):
		return false
	}
}

// Stop shuts the server down (bounded).
func (l *Legacy) Stop() {
	done := make(chan struct{})
	go func() { _ = l.srv.Shutdown(); close(done) }()
	select {
	case <-done:
	case <-time.After(10 * time.Second):
	}
}

// Experimental drives the experimental engine at the Peer level: exactly what
// server.connectPeer does (NewPeer, Connect, StartHeadersSync) over a connection the harness dials.
type Experimental struct {
	mu    sync.Mutex
	peers []*exppeer.Peer
	st    *rig.Stack
}

// NewExperimental creates the driver.
func NewExperimental(st *rig.Stack) *Experimental { return &Experimental{st: st} }

// ConnectOutbound dials a node and runs the engine's connectPeer sequence on the connection.
func (e *Experimental) ConnectOutbound(n *Node) (*exppeer.Peer, error) {
	c, err := net.DialTimeout("tcp4", n.Addr(), 5*time.Second)
	if err != nil {
		return nil, err
	}
	return e.attach(c, false)
}

// AcceptInbound lets a node dial a harness listener and attaches the engine as inbound peer.
func (e *Experimental) AcceptInbound(n *Node) (*exppeer.Peer, error) {
	ln, err := net.Listen("tcp4", "127.0.0.1:0")
	if err != nil {
		return nil, err
	}
	defer ln.Close()
	type res struct {
		c   net.Conn
		err error
	}
	ch := make(chan res, 1)
	go func() { c, err := ln.Accept(); ch <- res{c, err} }()
	if _, err := n.DialService(ln.Addr().String(), ""); err != nil {
		return nil, err
	}
	rs := <-ch
	if rs.err != nil {
		return nil, rs.err
	}
	return e.attach(rs.c, true)
}

func (e *Experimental) attach(c net.Conn, inbound bool) (*exppeer.Peer, error) {
	p, err := exppeer.NewPeer(c, inbound, e.st.Cfg.P2P, e.st.Cfg.P2P.GetNetParams(), e.st.Svc.Headers, e.st.Svc.Chains, &e.st.Log)
	if err != nil {
		return nil, err
	}
	e.mu.Lock()
	e.peers = append(e.peers, p)
	e.mu.Unlock()
	if err := p.Connect(); err != nil {
		return p, err
	}
	if err := p.StartHeadersSync(); err != nil {
		return p, err
	}
	return p, nil
}

// Flush: the experimental peer handles each connection's messages synchronously in its
// read loop (Add included) and answers pings from the same loop, so the nodes' pongs
// already prove processing; nothing more to flush.
func (e *Experimental) Flush(time.Duration) bool { return true }

// Stop disconnects all peers (bounded; Disconnect of an already disconnected peer panics on a closed channel, so recover).
func (e *Experimental) Stop() {
	e.mu.Lock()
	ps := append([]*exppeer.Peer(nil), e.peers...)
	e.mu.Unlock()
	for _, p := range ps {
		done := make(chan struct{})
		go func(p *exppeer.Peer) {
			defer close(done)
			defer func() { _ = recover() }()
			p.Disconnect()
		}(p)
		select {
		case <-done:
		case <-time.After(5 * time.Second):
		}
	}
}

// ---------------------------------------------------------------------------
// quiescence barrier

// ErrInconclusive is returned when a watchdog fired.
var ErrInconclusive = errors.New("quiescence barrier watchdog fired")

// Quiesce establishes logical quiescence: every live connection answers a ping (so
// everything sent before it was dispatched and every reply queued by the service
// has reached the node), the engine's queue is flushed, and two consecutive rounds
// leave every counter (messages logged, stored headers, tip, connections) unchanged.
func (r *Rig) Quiesce(st *rig.Stack, eng Engine, watchdog time.Duration) error {
	deadline := time.Now().Add(watchdog)
	prev := ""
	stable := 0
	for round := 0; ; round++ {
		if time.Now().After(deadline) {
			return ErrInconclusive
		}
		for _, n := range r.Nodes {
			for _, c := range n.Open() {
				if !c.Ready() {
					// handshake in progress: wait for it (bounded), it changes counters anyway
					select {
					case <-c.handshake:
					case <-time.After(200 * time.Millisecond):
					}
					continue
				}
				c.Ping(10 * time.Second)
			}
		}
		if !eng.Flush(20 * time.Second) {
			return ErrInconclusive
		}
		// second ping round: replies queued by the flush reach the nodes
		for _, n := range r.Nodes {
			for _, c := range n.Live() {
				c.Ping(10 * time.Second)
			}
		}
		tip := st.Svc.Headers.GetTip()
		th := ""
		if tip != nil {
			th = tip.Hash.String()
		}
		conns := 0
		for _, n := range r.Nodes {
			conns += len(n.Conns())*1000 + len(n.Open())
		}
		// pings/pongs of this very barrier are counted too, so compare modulo them: use non-ping message count
		sig := fmt.Sprintf("%d|%d|%s|%d", r.Log.nonPing(), st.Svc.Headers.CountHeaders(), th, conns)
		r.Log.add(Event{Node: "-", Dir: "barrier", Cmd: fmt.Sprintf("round %d", round), Info: sig})
		if sig == prev {
			stable++
			if stable >= 2 {
				return nil
			}
		} else {
			stable = 0
			prev = sig
		}
	}
}

func (l *Log) nonPing() int64 { l.mu.Lock(); defer l.mu.Unlock(); return l.nonpp }
