// Package rig builds the real stack exactly as cmd/main.go does (SQLite file ->
// database.Init on the working tree's migrations -> database/sql ->
// database/repository -> service -> gin engine), minus the network listeners.
package rig

import (
	"bytes"
	"crypto/sha256"
	"encoding/binary"
	"fmt"
	"io"
	"net/http"
	"net/http/httptest"
	"os"
	"path/filepath"
	"runtime/debug"
	"sync"
	"time"

	"github.com/bitcoin-sv/block-headers-service/config"
	"github.com/bitcoin-sv/block-headers-service/database"
	sqlrepository "github.com/bitcoin-sv/block-headers-service/database/repository"
	bsql "github.com/bitcoin-sv/block-headers-service/database/sql"
	"github.com/bitcoin-sv/block-headers-service/domains"
	"github.com/bitcoin-sv/block-headers-service/internal/chaincfg"
	"github.com/bitcoin-sv/block-headers-service/internal/chaincfg/chainhash"
	"github.com/bitcoin-sv/block-headers-service/internal/wire"
	"github.com/bitcoin-sv/block-headers-service/repository"
	"github.com/bitcoin-sv/block-headers-service/service"
	"github.com/bitcoin-sv/block-headers-service/transports/http/endpoints"
	httpserver "github.com/bitcoin-sv/block-headers-service/transports/http/server"
	peerpkg "github.com/bitcoin-sv/block-headers-service/transports/p2p/peer"
	"github.com/bitcoin-sv/block-headers-service/verifharness/ev"
	"github.com/bitcoin-sv/block-headers-service/verifharness/refmodel"
	"github.com/gin-gonic/gin"
	"github.com/jmoiron/sqlx"
	"github.com/rs/zerolog"
)

// AdminToken is the admin token rigs are configured with.
const AdminToken = "verif-admin-token-0123456789"

// Options for building a stack.
type Options struct {
	Dir         string                                      // scratch dir for the SQLite file
	Name        string                                      // db file name (default bhs.db)
	Config      func(*config.AppConfig)                     // mutate the default config
	WrapHeaders func(repository.Headers) repository.Headers // decorator (fault injection, scheduler)
	WrapRepos   func(*repository.Repositories)              // general decoration
	AfterSvc    func(*service.Services, *config.AppConfig)  // e.g. add notifier channels
	EngineOpts  []func(*gin.Engine)                         // extra engine configuration (websocket)
	DebugLog    bool                                        // logging.level = debug: the logger has level debug (output discarded) and gin runs in debug mode while the engine is built, as in a default deployment
	NoHTTP      bool
	Peers       map[*peerpkg.Peer]*peerpkg.SyncState // shared with the legacy p2p server (nil if none)
}

// Stack is one running instance of the real stack.
type Stack struct {
	Opt    Options
	Path   string
	Cfg    *config.AppConfig
	DB     *sqlx.DB
	Repos  *repository.Repositories
	Svc    *service.Services
	Engine *gin.Engine
	Log    zerolog.Logger
}

var ginOnce sync.Once

// Genesis returns the mainnet genesis header in model form.
func Genesis() refmodel.Hdr {
	g := chaincfg.MainNetParams.GenesisBlock.Header
	return refmodel.Hdr{
		Version: 1, // createGenesisHeaderBlock stores version 1
		Prev:    refmodel.Hash(g.PrevBlock),
		Merkle:  refmodel.Hash(g.MerkleRoot),
		Time:    uint32(g.Timestamp.Unix()),
		Bits:    g.Bits,
		Nonce:   g.Nonce,
	}
}

// NewConfig returns the default application config pointed at a scratch SQLite file.
func NewConfig(path string) *config.AppConfig {
	cfg := config.GetDefaultAppConfig()
	cfg.Db.Engine = config.DBSQLite
	cfg.Db.SchemaPath = filepath.Join(ev.RepoDir(), "database", "migrations")
	cfg.Db.SQLite.FilePath = path
	cfg.Db.PreparedDb = false
	cfg.HTTP.AuthToken = AdminToken
	cfg.HTTP.UseAuth = true
	cfg.Logging.Level = "disabled"
	return cfg
}

// New builds a stack on a fresh or existing SQLite file.
func New(o Options) (*Stack, error) {
	ginOnce.Do(func() { gin.SetMode(gin.ReleaseMode) })
	if o.Name == "" {
		o.Name = "bhs.db"
	}
	s := &Stack{Opt: o, Path: filepath.Join(o.Dir, o.Name), Log: zerolog.Nop()}
	if o.DebugLog {
		s.Log = zerolog.New(io.Discard).Level(zerolog.DebugLevel)
	}
	if err := s.open(); err != nil {
		return nil, err
	}
	return s, nil
}

func (s *Stack) open() error {
	cfg := NewConfig(s.Path)
	if s.Opt.Config != nil {
		s.Opt.Config(cfg)
	}
	s.Cfg = cfg
	db, err := database.Init(cfg, &s.Log)
	if err != nil {
		return fmt.Errorf("database.Init: %w", err)
	}
	s.DB = db
	store := bsql.NewHeadersDb(db, &s.Log)
	s.Repos = &repository.Repositories{
		Headers:  sqlrepository.NewHeadersRepository(store),
		Tokens:   sqlrepository.NewTokensRepository(store),
		Webhooks: sqlrepository.NewWebhooksRepository(store),
	}
	if s.Opt.WrapHeaders != nil {
		s.Repos.Headers = s.Opt.WrapHeaders(s.Repos.Headers)
	}
	if s.Opt.WrapRepos != nil {
		s.Opt.WrapRepos(s.Repos)
	}
	s.Svc = service.NewServices(service.Dept{
		Repositories: s.Repos,
		Peers:        s.Opt.Peers,
		AdminToken:   cfg.HTTP.AuthToken,
		Logger:       &s.Log,
		Config:       cfg,
	})
	if s.Opt.AfterSvc != nil {
		s.Opt.AfterSvc(s.Svc, cfg)
	}
	if !s.Opt.NoHTTP {
		if s.Opt.DebugLog {
			gin.SetMode(gin.DebugMode)
			defer gin.SetMode(gin.ReleaseMode)
		}
		srv := httpserver.NewHTTPServer(cfg.HTTP, &s.Log)
		srv.ApplyConfiguration(endpoints.SetupRoutes(s.Svc, cfg.HTTP))
		for _, eo := range s.Opt.EngineOpts {
			srv.ApplyConfiguration(httpserver.GinEngineOpt(eo))
		}
		srv.ApplyConfiguration(func(e *gin.Engine) { s.Engine = e })
	}
	return nil
}

// Sibling builds a second set of services and a gin engine over the SAME database handle and repositories, with a
// modified configuration (the way the production binary would have been started with another config). The sibling
// must not be used after the parent was restarted or closed.
func (s *Stack) Sibling(mut func(*config.AppConfig)) *Stack {
	cfg := NewConfig(s.Path)
	if s.Opt.Config != nil {
		s.Opt.Config(cfg)
	}
	if mut != nil {
		mut(cfg)
	}
	sb := &Stack{Opt: s.Opt, Path: s.Path, Cfg: cfg, DB: s.DB, Repos: s.Repos, Log: s.Log}
	sb.Svc = service.NewServices(service.Dept{Repositories: s.Repos, Peers: s.Opt.Peers, AdminToken: cfg.HTTP.AuthToken, Logger: &sb.Log, Config: cfg})
	if !s.Opt.NoHTTP {
		srv := httpserver.NewHTTPServer(cfg.HTTP, &sb.Log)
		srv.ApplyConfiguration(endpoints.SetupRoutes(sb.Svc, cfg.HTTP))
		srv.ApplyConfiguration(func(e *gin.Engine) { sb.Engine = e })
	}
	return sb
}

// Close closes the database handle (no other clean-up, like a process exit).
func (s *Stack) Close() {
	if s.DB != nil {
		_ = s.DB.Close()
		s.DB = nil
	}
}

// Restart closes the handle and runs database.Init again on the same file.
func (s *Stack) Restart() error {
	s.Close()
	return s.open()
}

// Destroy closes and removes the database file.
func (s *Stack) Destroy() {
	s.Close()
	_ = os.Remove(s.Path)
	_ = os.Remove(s.Path + "-journal")
	_ = os.Remove(s.Path + "-wal")
	_ = os.Remove(s.Path + "-shm")
}

// Reset empties the store back to "genesis only" (equivalent to a fresh file; used
// between independent cases to avoid re-running migrations).
func (s *Stack) Reset() error {
	if _, err := s.DB.Exec(`DELETE FROM headers WHERE height <> 0 OR header_state <> 'LONGEST_CHAIN' OR previous_block <> ?`, chainhash.Hash{}.String()); err != nil {
		return err
	}
	if _, err := s.DB.Exec(`UPDATE headers SET header_state='LONGEST_CHAIN' WHERE height = 0`); err != nil {
		return err
	}
	if _, err := s.DB.Exec(`DELETE FROM tokens`); err != nil {
		return err
	}
	_, err := s.DB.Exec(`DELETE FROM webhooks`)
	return err
}

// Source converts a model header into the domain submission type.
func Source(h refmodel.Hdr) domains.BlockHeaderSource {
	return domains.BlockHeaderSource{
		Version:    h.Version,
		PrevBlock:  chainhash.Hash(h.Prev),
		MerkleRoot: chainhash.Hash(h.Merkle),
		Timestamp:  time.Unix(int64(h.Time), 0),
		Bits:       h.Bits,
		Nonce:      h.Nonce,
	}
}

// AddResult is what a submission through Chains.Add produced.
type AddResult struct {
	Header *domains.BlockHeader
	Err    error
	Panic  any
	Stack  string
}

// Code classifies the answer: "stored", one of the AddBlockErrorCode names, or "panic".
func (a AddResult) Code() string {
	if a.Panic != nil {
		return "panic"
	}
	if a.Err == nil {
		return "stored"
	}
	for _, c := range []service.AddBlockErrorCode{service.HeaderAlreadyExists, service.BlockRejected, service.HeaderCreationFail, service.ChainUpdateFail, service.HeaderSaveFail} {
		if c.Is(a.Err) {
			return c.String()
		}
	}
	return "error:" + a.Err.Error()
}

// Add submits through the real Chains.Add, recovering panics.
func (s *Stack) Add(h refmodel.Hdr) (res AddResult) {
	defer func() {
		if p := recover(); p != nil {
			res.Panic = p
			res.Stack = string(debug.Stack())
		}
	}()
	res.Header, res.Err = s.Svc.Chains.Add(Source(h))
	return
}

// HeadersFrame builds, independently of the wire encoder, the bytes of a mainnet `headers` message carrying the given
// headers (24-byte message header, count varint, 80 bytes + zero tx count per header).
func HeadersFrame(hs []refmodel.Hdr) []byte {
	var payload []byte
	n := len(hs)
	switch {
	case n < 0xfd:
		payload = append(payload, byte(n))
	default:
		payload = append(payload, 0xfd, byte(n), byte(n>>8))
	}
	for _, h := range hs {
		payload = append(payload, h.Bytes()...)
		payload = append(payload, 0)
	}
	frame := make([]byte, 24, 24+len(payload))
	binary.LittleEndian.PutUint32(frame[0:], uint32(wire.MainNet))
	copy(frame[4:16], "headers")
	binary.LittleEndian.PutUint32(frame[16:], uint32(len(payload)))
	a := sha256.Sum256(payload)
	b := sha256.Sum256(a[:])
	copy(frame[20:24], b[:4])
	return append(frame, payload...)
}

// AddViaWire submits the header the way a peer delivers it: the bytes of a `headers` message are decoded by the real
// wire codec and the decoded header is converted exactly as the sync engines do before Chains.Add.
func (s *Stack) AddViaWire(h refmodel.Hdr) (res AddResult) {
	defer func() {
		if p := recover(); p != nil {
			res.Panic = p
			res.Stack = string(debug.Stack())
		}
	}()
	msg, _, err := wire.ReadMessage(bytes.NewReader(HeadersFrame([]refmodel.Hdr{h})), 70013, wire.MainNet)
	if err != nil {
		res.Err = fmt.Errorf("wire decode of a well-formed headers frame failed: %w", err)
		return
	}
	mh, ok := msg.(*wire.MsgHeaders)
	if !ok || len(mh.Headers) != 1 {
		res.Err = fmt.Errorf("wire decode of a headers frame returned %T", msg)
		return
	}
	res.Header, res.Err = s.Svc.Chains.Add(domains.BlockHeaderSource(*mh.Headers[0]))
	return
}

// HTTP performs a request against the gin engine in-process.
func (s *Stack) HTTP(method, target string, body []byte, hdr map[string]string) *httptest.ResponseRecorder {
	var rd io.Reader
	if body != nil {
		rd = bytes.NewReader(body)
	}
	req := httptest.NewRequest(method, target, rd)
	for k, v := range hdr {
		req.Header.Set(k, v)
	}
	if body != nil && req.Header.Get("Content-Type") == "" {
		req.Header.Set("Content-Type", "application/json")
	}
	w := httptest.NewRecorder()
	s.Engine.ServeHTTP(w, req)
	return w
}

// Admin returns the admin Authorization header.
func Admin() map[string]string { return map[string]string{"Authorization": "Bearer " + AdminToken} }

// GET with admin credentials.
func (s *Stack) GET(target string) *httptest.ResponseRecorder {
	return s.HTTP(http.MethodGet, target, nil, Admin())
}

// POST with admin credentials.
func (s *Stack) POST(target string, body []byte) *httptest.ResponseRecorder {
	return s.HTTP(http.MethodPost, target, body, Admin())
}
