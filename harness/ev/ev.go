// Package ev is the shared verdict/evidence machinery of the runtime-monitoring
// harness: case bookkeeping, child-process fan-out with crash attribution,
// known-findings matching, replay files, VIOLATION / KNOWN-FINDING output and
// the evidence file.
package ev

import (
	"encoding/gob"
	"encoding/json"
	"fmt"
	"hash/fnv"
	"math/rand"
	"os"
	"os/exec"
	"path/filepath"
	"regexp"
	"runtime"
	"runtime/debug"
	"sort"
	"strconv"
	"strings"
	"sync"
	"sync/atomic"
	"time"
)

// VerifDir is where MANIFEST.json, evidence/, replays/ and known_findings.json live.
func VerifDir() string {
	if d := os.Getenv("VERIF_DIR"); d != "" {
		return d
	}
	return "/verif"
}

// RepoDir is the working tree under test (the module replace target).
func RepoDir() string {
	if d := os.Getenv("VERIF_REPO"); d != "" {
		return d
	}
	return "/repo"
}

// Violation is one observed refutation of the property.
type Violation struct {
	Sig    string `json:"signature"`
	What   string `json:"what"`
	CaseID string `json:"case_id"`
	Detail any    `json:"detail,omitempty"`
}

type finding struct {
	Property  string `json:"property"`
	Status    string `json:"status"`
	Signature string `json:"signature"`
	What      string `json:"what"`
}

// Run collects what one check execution observed.
type Run struct {
	Prop, Tier, Level string
	Seed              int64
	Worker, Workers   int
	Only              string // replay filter: run only this case id
	Scratch           string

	mu           sync.Mutex
	start        time.Time
	evaluations  int64
	distinct     map[uint64]struct{}
	samples      []any
	maxSamples   int
	counters     map[string]int64
	violations   []Violation
	knownHits    map[string]int64
	known        map[string]finding
	inconclusive []string
	assumptions  []string
	rule         string
	exhaustive   bool
	required     map[string]int64
	curFile      *os.File
	isChild      bool
	extra        map[string]any
}

type partial struct {
	Evaluations  int64
	Distinct     []uint64
	Samples      []string // JSON encoded
	Counters     map[string]int64
	Violations   []pViolation
	Inconclusive []string
	Rule         string
	Assumptions  []string
	Required     map[string]int64
	Exhaustive   bool
	ExtraJSON    map[string]string
}

// pViolation is the gob-safe form of a Violation (detail as JSON text).
type pViolation struct {
	Sig, What, CaseID, DetailJSON string
}

func envInt(name string, def int64) int64 {
	if v := os.Getenv(name); v != "" {
		if n, err := strconv.ParseInt(v, 10, 64); err == nil {
			return n
		}
	}
	return def
}

// Tier returns "quick" or "thorough".
func Tier() string {
	t := os.Getenv("VERIF_TIER")
	if t != "thorough" {
		t = "quick"
	}
	return t
}

func newRun(prop, level string) *Run {
	r := &Run{
		Prop: prop, Tier: Tier(), Level: level,
		Seed:       envInt("VERIF_SEED", 1),
		Workers:    1,
		Only:       os.Getenv("VCHECK_ONLY"),
		start:      time.Now(),
		distinct:   map[uint64]struct{}{},
		counters:   map[string]int64{},
		knownHits:  map[string]int64{},
		known:      map[string]finding{},
		required:   map[string]int64{},
		extra:      map[string]any{},
		maxSamples: 4,
	}
	r.loadKnown()
	return r
}

func (r *Run) loadKnown() {
	b, err := os.ReadFile(filepath.Join(VerifDir(), "known_findings.json"))
	if err != nil {
		return
	}
	var f struct {
		Findings []finding `json:"findings"`
	}
	if err := json.Unmarshal(b, &f); err != nil {
		fmt.Fprintf(os.Stderr, "known_findings.json unreadable: %v\n", err)
		os.Exit(2)
	}
	for _, x := range f.Findings {
		if x.Property == r.Prop && x.Status == "known" {
			r.known[x.Signature] = x
		}
	}
}

// NewDetached returns a Run that only serves Rand/Pick/Tier (no evidence, no output).
func NewDetached(prop string) *Run { return newRun(prop, "exploration") }

// IsKnown tells whether a signature is listed as a known (unrepaired) finding.
func (r *Run) IsKnown(sig string) bool { _, ok := r.known[sig]; return ok }

// Thorough is true in the thorough tier.
func (r *Run) Thorough() bool { return r.Tier == "thorough" }

// Pick returns q in the quick tier and t in the thorough tier.
func (r *Run) Pick(q, t int) int {
	if r.Thorough() {
		return t
	}
	return q
}

func h64(s string) uint64 { h := fnv.New64a(); _, _ = h.Write([]byte(s)); return h.Sum64() }

// Rand returns a PRNG that is a pure function of (seed, property, case id).
func (r *Run) Rand(caseID string) *rand.Rand {
	return rand.New(rand.NewSource(int64(h64(fmt.Sprintf("%d|%s|%s", r.Seed, r.Prop, caseID)))))
}

// Mine decides whether this worker executes the case (partitioning + replay filter).
func (r *Run) Mine(caseID string) bool {
	if r.Only != "" {
		return (caseID == r.Only || strings.HasPrefix(r.Only, caseID+"/")) && r.Worker == 0
	}
	if r.Workers <= 1 {
		return true
	}
	return int(h64(caseID)%uint64(r.Workers)) == r.Worker
}

// MineIdx partitions by index (round robin) instead of by hash.
func (r *Run) MineIdx(caseID string, idx int) bool {
	if r.Only != "" {
		return (caseID == r.Only || strings.HasPrefix(r.Only, caseID+"/")) && r.Worker == 0
	}
	if r.Workers <= 1 {
		return true
	}
	return idx%r.Workers == r.Worker
}

// Do runs fn as the case caseID if it belongs to this worker. The case id is
// logged before the call so a process-fatal error is attributed; panics are
// recovered and become violations.
func (r *Run) Do(caseID string, fn func()) {
	if !r.Mine(caseID) {
		return
	}
	r.Exec(caseID, fn)
}

// Exec is Do without the ownership test.
func (r *Run) Exec(caseID string, fn func()) {
	r.mark(caseID)
	// the hang watchdog (one goroutine per process, started with the first case) looks at these two
	seq := hangSeq.Add(1)
	hangCase.Store(&hangInfo{seq: seq, id: caseID, start: time.Now()})
	hangOnce.Do(func() { go r.hangWatch() })
	defer func() {
		// an outer case (a check that nests Exec calls) becomes current again without a fresh start time; good enough for a
		// watchdog that only ever speaks after ten minutes on one mutex
		hangCase.Store(&hangInfo{seq: hangSeq.Add(1), id: "", start: time.Now()})
	}()
	defer func() {
		if p := recover(); p != nil {
			st := string(debug.Stack())
			r.Violate("panic|"+panicSite(st), fmt.Sprintf("panic while executing case: %v", p), caseID, map[string]any{"stack": trimStack(st)})
		}
	}()
	fn()
}

// hangWatch: a case that has not returned after caseWatchdog is looked at through a goroutine dump. Only one situation is
// a verdict: a goroutine that has been waiting for a sync.Mutex / sync.RWMutex for at least mutexStuck minutes with
// code of the repository on its stack - no amount of machine load explains that; it is reported as a hang and the worker
// ends (its other results are kept). Anything else is left running (the parent's worker watchdog makes it inconclusive).
// One goroutine per process that wakes twice a minute and allocates nothing until a case is overdue (C14 measures the
// allocations of single decodes; a goroutine and a timer per case showed up there under load).
const (
	caseWatchdog = 12 * time.Minute
	mutexStuck   = 10 // minutes
)

type hangInfo struct {
	seq   int64
	id    string
	start time.Time
}

var (
	hangSeq  atomic.Int64
	hangCase atomic.Pointer[hangInfo]
	hangOnce sync.Once
)

var reGoroutineHeader = regexp.MustCompile(`^goroutine \d+ \[([a-z A-Z.]+)(?:, (\d+) minutes)?\]:$`)

func (r *Run) hangWatch() {
	tick := time.NewTicker(30 * time.Second)
	defer tick.Stop()
	for range tick.C {
		cur := hangCase.Load()
		if cur == nil || cur.id == "" || time.Since(cur.start) < caseWatchdog {
			continue
		}
		caseID := cur.id
		buf := make([]byte, 16<<20)
		dump := string(buf[:runtime.Stack(buf, true)])
		for _, g := range strings.Split(dump, "\n\n") {
			lines := strings.Split(g, "\n")
			m := reGoroutineHeader.FindStringSubmatch(lines[0])
			if m == nil || m[2] == "" {
				continue
			}
			if mins, _ := strconv.Atoi(m[2]); mins < mutexStuck {
				continue
			}
			if !strings.Contains(g, "sync.(*Mutex).Lock") && !strings.Contains(g, "sync.(*RWMutex).Lock") && !strings.Contains(g, "sync.(*RWMutex).RLock") {
				continue
			}
			site := ""
			for _, l := range lines[1:] {
				if strings.HasPrefix(l, "\t") || !strings.Contains(l, "block-headers-service/") || strings.Contains(l, "verifharness") {
					continue
				}
				if i := strings.LastIndex(l, "("); i > 0 {
					l = l[:i]
				}
				site = l[strings.Index(l, "block-headers-service/")+len("block-headers-service/"):]
				break
			}
			if site == "" {
				continue
			}
			if now := hangCase.Load(); now == nil || now.seq != cur.seq {
				break // the case returned meanwhile
			}
			r.Violate("hang|mutex|"+site, fmt.Sprintf("a goroutine has been waiting for a mutex in %s for %s minutes while executing this case (the case never returned)", site, m[2]), caseID, map[string]any{"goroutine": trimStack(g)})
			if r.isChild {
				r.writePartialAndExit()
			}
			code := r.finish()
			os.Exit(code)
		}
	}
}

func (r *Run) mark(caseID string) {
	if r.curFile != nil {
		b := []byte(caseID)
		if len(b) > 250 {
			b = b[:250]
		}
		buf := make([]byte, 256)
		copy(buf, b)
		_, _ = r.curFile.WriteAt(buf, 0)
	}
}

// panicSite extracts the innermost repository function from a stack trace.
func panicSite(st string) string {
	lines := strings.Split(st, "\n")
	seenPanic := false
	for _, l := range lines {
		if strings.HasPrefix(l, "panic(") {
			seenPanic = true
			continue
		}
		if !seenPanic || strings.HasPrefix(l, "\t") {
			continue
		}
		if strings.Contains(l, "block-headers-service/") && !strings.Contains(l, "verifharness") {
			if i := strings.LastIndex(l, "("); i > 0 {
				l = l[:i]
			}
			if i := strings.Index(l, "block-headers-service/"); i >= 0 {
				l = l[i+len("block-headers-service/"):]
			}
			return l
		}
	}
	return "harness"
}

func trimStack(st string) string {
	if len(st) > 6000 {
		return st[:6000]
	}
	return st
}

// Case records one executed case with its shape signature.
func (r *Run) Case(sig string, nontrivial bool) {
	r.mu.Lock()
	r.evaluations++
	if nontrivial {
		r.distinct[h64(sig)] = struct{}{}
	}
	r.mu.Unlock()
}

// Cases adds n evaluations without signatures (bulk micro-cases).
func (r *Run) Cases(n int64) { r.mu.Lock(); r.evaluations += n; r.mu.Unlock() }

// Distinct records a distinct non-trivial signature without counting an evaluation.
func (r *Run) Distinct(sig string) { r.mu.Lock(); r.distinct[h64(sig)] = struct{}{}; r.mu.Unlock() }

// Sample keeps a few executed cases verbatim for the evidence file.
func (r *Run) Sample(v any) {
	r.mu.Lock()
	if len(r.samples) < r.maxSamples {
		r.samples = append(r.samples, v)
	}
	r.mu.Unlock()
}

// WantSample tells whether another sample would be kept.
func (r *Run) WantSample() bool {
	r.mu.Lock()
	defer r.mu.Unlock()
	return len(r.samples) < r.maxSamples
}

// Count adds to a named monitor-side counter.
func (r *Run) Count(name string, n int64) { r.mu.Lock(); r.counters[name] += n; r.mu.Unlock() }

// Counter reads a counter.
func (r *Run) Counter(name string) int64 { r.mu.Lock(); defer r.mu.Unlock(); return r.counters[name] }

// Require makes the run fail as a broken check unless the counter reaches min.
func (r *Run) Require(name string, min int64) { r.required[name] = min }

// Rule sets the coverage rule text.
func (r *Run) Rule(s string) { r.rule = s }

// Exhaustive marks the run as a complete enumeration of a finite space.
func (r *Run) Exhaustive(b bool) { r.exhaustive = b }

// Assume records an assumption / trusted base entry.
func (r *Run) Assume(s ...string) { r.assumptions = append(r.assumptions, s...) }

// Extra adds a free-form key to the coverage object.
func (r *Run) Extra(k string, v any) { r.mu.Lock(); r.extra[k] = v; r.mu.Unlock() }

// Inconclusive records a case whose verdict could not be decided (watchdog etc.).
func (r *Run) Inconclusive(caseID, why string) {
	r.mu.Lock()
	r.inconclusive = append(r.inconclusive, caseID+": "+why)
	r.mu.Unlock()
}

// Violate records a violation; whether it is a known finding is decided at the end.
func (r *Run) Violate(sig, what, caseID string, detail any) {
	r.mu.Lock()
	defer r.mu.Unlock()
	if len(r.violations) < 400 {
		r.violations = append(r.violations, Violation{Sig: sig, What: what, CaseID: caseID, Detail: detail})
	} else {
		// keep counting by signature, drop detail
		r.violations = append(r.violations, Violation{Sig: sig, What: what, CaseID: caseID})
	}
}

// NumViolations returns the number of violations recorded so far (known or not).
func (r *Run) NumViolations() int { r.mu.Lock(); defer r.mu.Unlock(); return len(r.violations) }

// ---------------------------------------------------------------------------

// Spec describes how a check wants to be executed.
type Spec struct {
	Prop    string
	Level   string // evidence level / MANIFEST category
	Workers int    // 0 or 1: in-process; n>1: n child processes; -1: one per CPU
	Race    bool   // informational: binary is expected to be built with -race
	Timeout time.Duration
	Body    func(r *Run)
	// WorkerEnv: extra environment of worker child i (e.g. a time zone other than UTC for some of them)
	WorkerEnv func(i int) []string
}

// Main executes a check according to its Spec and exits the process.
func Main(s Spec) {
	if os.Getenv("VCHECK_CHILD") != "" {
		childMain(s)
		return
	}
	r := newRun(s.Prop, s.Level)
	scratch, err := mkScratch()
	if err != nil {
		fmt.Fprintln(os.Stderr, "cannot create scratch dir:", err)
		os.Exit(2)
	}
	r.Scratch = scratch
	defer os.RemoveAll(scratch)
	workers := s.Workers
	if workers < 0 {
		workers = runtime.NumCPU()
	}
	if w := envInt("VCHECK_WORKERS", 0); w > 0 && workers > 1 {
		workers = int(w)
	}
	if workers <= 1 && os.Getenv("VCHECK_INPROC") == "" && s.Workers != 0 {
		workers = 1
	}
	code := 0
	if s.Workers == 0 || os.Getenv("VCHECK_INPROC") != "" {
		r.Workers, r.Worker = 1, 0
		s.Body(r)
	} else {
		r.Workers = workers
		r.runChildren(s, workers)
	}
	code = r.finish()
	os.RemoveAll(scratch)
	os.Exit(code)
}

func mkScratch() (string, error) {
	base := "/dev/shm"
	if st, err := os.Stat(base); err != nil || !st.IsDir() {
		base = os.TempDir()
	}
	return os.MkdirTemp(base, "verif-")
}

func childMain(s Spec) {
	r := newRun(s.Prop, s.Level)
	r.isChild = true
	r.Worker = int(envInt("VCHECK_WORKER", 0))
	r.Workers = int(envInt("VCHECK_NWORKERS", 1))
	r.Scratch = os.Getenv("VCHECK_SCRATCH")
	if f, err := os.OpenFile(filepath.Join(r.Scratch, "current"), os.O_CREATE|os.O_RDWR, 0o644); err == nil {
		r.curFile = f
	}
	s.Body(r)
	r.writePartialAndExit()
}

// writePartialAndExit hands this worker's results to the parent and ends the process.
func (r *Run) writePartialAndExit() {
	var pvs []pViolation
	for _, v := range r.violations {
		pv := pViolation{Sig: v.Sig, What: v.What, CaseID: v.CaseID}
		if v.Detail != nil {
			if b, err := json.Marshal(v.Detail); err == nil {
				pv.DetailJSON = string(b)
			}
		}
		pvs = append(pvs, pv)
	}
	p := partial{Evaluations: r.evaluations, Counters: r.counters, Violations: pvs, Inconclusive: r.inconclusive,
		Rule: r.rule, Assumptions: r.assumptions, Required: r.required, Exhaustive: r.exhaustive, ExtraJSON: map[string]string{}}
	for k, v := range r.extra {
		if b, err := json.Marshal(v); err == nil {
			p.ExtraJSON[k] = string(b)
		}
	}
	for k := range r.distinct {
		p.Distinct = append(p.Distinct, k)
	}
	for _, smp := range r.samples {
		b, _ := json.Marshal(smp)
		p.Samples = append(p.Samples, string(b))
	}
	f, err := os.Create(filepath.Join(r.Scratch, "partial.gob.tmp"))
	if err != nil {
		fmt.Fprintln(os.Stderr, "child: cannot write partial:", err)
		os.Exit(3)
	}
	if err := gob.NewEncoder(f).Encode(&p); err != nil {
		fmt.Fprintln(os.Stderr, "child: cannot encode partial:", err)
		os.Exit(3)
	}
	f.Close()
	_ = os.Rename(filepath.Join(r.Scratch, "partial.gob.tmp"), filepath.Join(r.Scratch, "partial.gob"))
	os.Exit(0)
}

func (r *Run) runChildren(s Spec, n int) {
	exe, err := os.Executable()
	if err != nil {
		fmt.Fprintln(os.Stderr, "os.Executable:", err)
		os.Exit(2)
	}
	timeout := s.Timeout
	if timeout == 0 {
		timeout = 3 * time.Hour
	}
	var wg sync.WaitGroup
	for i := 0; i < n; i++ {
		wg.Add(1)
		go func(i int) {
			defer wg.Done()
			dir := filepath.Join(r.Scratch, fmt.Sprintf("w%d", i))
			_ = os.MkdirAll(dir, 0o755)
			logPath := filepath.Join(dir, "log")
			logf, _ := os.Create(logPath)
			cmd := exec.Command(exe, os.Args[1:]...)
			cmd.Env = append(os.Environ(),
				"VCHECK_CHILD=1",
				fmt.Sprintf("VCHECK_WORKER=%d", i),
				fmt.Sprintf("VCHECK_NWORKERS=%d", n),
				"VCHECK_SCRATCH="+dir,
				"TMPDIR="+dir,
				"GORACE=halt_on_error=0 exitcode=0 log_path="+filepath.Join(dir, "race"),
				"GOTRACEBACK=all",
			)
			if s.WorkerEnv != nil {
				cmd.Env = append(cmd.Env, s.WorkerEnv(i)...)
			}
			cmd.Stdout, cmd.Stderr = logf, logf
			if err := cmd.Start(); err != nil {
				r.Violate("harness|cannot start worker", err.Error(), "", nil)
				return
			}
			done := make(chan error, 1)
			go func() { done <- cmd.Wait() }()
			var werr error
			timedOut := false
			select {
			case werr = <-done:
			case <-time.After(timeout):
				timedOut = true
				_ = cmd.Process.Signal(sigQuit)
				select {
				case werr = <-done:
				case <-time.After(20 * time.Second):
					_ = cmd.Process.Kill()
					werr = <-done
				}
			}
			logf.Close()
			r.collectRace(dir)
			pf, perr := os.Open(filepath.Join(dir, "partial.gob"))
			if perr == nil {
				var p partial
				if err := gob.NewDecoder(pf).Decode(&p); err == nil {
					r.merge(&p)
				}
				pf.Close()
			}
			if werr != nil || perr != nil {
				cur, _ := os.ReadFile(filepath.Join(dir, "current"))
				caseID := strings.TrimRight(string(cur), "\x00")
				tail := tailFile(logPath, 12000)
				if timedOut {
					r.Inconclusive(caseID, fmt.Sprintf("worker %d exceeded the watchdog (%s); goroutine dump kept in evidence", i, timeout))
					r.Extra(fmt.Sprintf("watchdog_dump_w%d", i), tail)
					return
				}
				r.Violate("crash|"+crashSite(tail), fmt.Sprintf("worker process died (%v) while executing case %q", werr, caseID), caseID, map[string]any{"log_tail": tail})
			}
		}(i)
	}
	wg.Wait()
}

func tailFile(path string, n int) string {
	b, err := os.ReadFile(path)
	if err != nil {
		return ""
	}
	if len(b) > n {
		// keep the head of a fatal error if there is one
		if i := strings.Index(string(b), "fatal error:"); i >= 0 && len(b)-i > n {
			return string(b[i : i+n])
		}
		if i := strings.Index(string(b), "panic:"); i >= 0 && len(b)-i > n {
			return string(b[i : i+n])
		}
		b = b[len(b)-n:]
	}
	return string(b)
}

// crashSite classifies a crash log: the fatal error text + innermost repo function.
func crashSite(log string) string {
	kind := "exit"
	for _, l := range strings.Split(log, "\n") {
		if strings.HasPrefix(l, "fatal error:") || strings.HasPrefix(l, "panic:") {
			kind = strings.TrimSpace(l)
			if len(kind) > 80 {
				kind = kind[:80]
			}
			break
		}
	}
	site := ""
	for _, l := range strings.Split(log, "\n") {
		if strings.HasPrefix(l, "\t") || !strings.Contains(l, "block-headers-service/") || strings.Contains(l, "verifharness") {
			continue
		}
		if i := strings.LastIndex(l, "("); i > 0 {
			l = l[:i]
		}
		if i := strings.Index(l, "block-headers-service/"); i >= 0 {
			site = l[i+len("block-headers-service/"):]
			break
		}
	}
	return kind + "|" + site
}

func (r *Run) merge(p *partial) {
	r.mu.Lock()
	defer r.mu.Unlock()
	r.evaluations += p.Evaluations
	for _, d := range p.Distinct {
		r.distinct[d] = struct{}{}
	}
	for k, v := range p.Counters {
		r.counters[k] += v
	}
	for _, s := range p.Samples {
		if len(r.samples) < r.maxSamples {
			r.samples = append(r.samples, json.RawMessage(s))
		}
	}
	for _, pv := range p.Violations {
		v := Violation{Sig: pv.Sig, What: pv.What, CaseID: pv.CaseID}
		if pv.DetailJSON != "" {
			v.Detail = json.RawMessage(pv.DetailJSON)
		}
		r.violations = append(r.violations, v)
	}
	r.inconclusive = append(r.inconclusive, p.Inconclusive...)
	if p.Rule != "" {
		r.rule = p.Rule
	}
	if len(p.Assumptions) > 0 {
		r.assumptions = p.Assumptions
	}
	for k, v := range p.Required {
		r.required[k] = v
	}
	if p.Exhaustive {
		r.exhaustive = true
	}
	for k, v := range p.ExtraJSON {
		if _, ok := r.extra[k]; !ok {
			r.extra[k] = json.RawMessage(v)
		}
	}
}

// finish classifies violations, prints the verdict lines, writes evidence and
// returns the exit code.
func (r *Run) finish() int {
	r.mu.Lock()
	defer r.mu.Unlock()
	wall := time.Since(r.start).Seconds()
	bySig := map[string][]Violation{}
	var sigs []string
	for _, v := range r.violations {
		if _, ok := bySig[v.Sig]; !ok {
			sigs = append(sigs, v.Sig)
		}
		bySig[v.Sig] = append(bySig[v.Sig], v)
	}
	sort.Strings(sigs)
	unknown := 0
	_ = os.MkdirAll(filepath.Join(VerifDir(), "replays"), 0o755)
	for _, sig := range sigs {
		vs := bySig[sig]
		if f, ok := r.known[sig]; ok {
			r.knownHits[sig] = int64(len(vs))
			fmt.Printf("KNOWN-FINDING: property=%s %s [signature=%s hits=%d]\n", r.Prop, oneLine(f.What), sig, len(vs))
			continue
		}
		unknown += len(vs)
		v := vs[0]
		path := filepath.Join(VerifDir(), "replays", fmt.Sprintf("%s-%016x.json", r.Prop, h64(sig)))
		rep := map[string]any{
			"property": r.Prop, "tier": r.Tier, "seed": r.Seed,
			"case_id": v.CaseID, "signature": sig, "what": v.What, "detail": v.Detail,
			"occurrences": len(vs),
		}
		b, _ := json.MarshalIndent(rep, "", " ")
		_ = os.WriteFile(path, b, 0o644)
		fmt.Printf("violation: %s: %s (x%d, first case %s)\n", sig, oneLine(v.What), len(vs), v.CaseID)
		fmt.Printf("VIOLATION property=%s replay=%s\n", r.Prop, path)
	}
	broken := []string{}
	if r.Only == "" {
		for k, min := range r.required {
			if r.counters[k] < min {
				broken = append(broken, fmt.Sprintf("%s=%d<%d", k, r.counters[k], min))
			}
		}
	}
	cov := map[string]any{
		"evaluations":         r.evaluations,
		"distinct_nontrivial": len(r.distinct),
		"rule":                r.rule,
		"samples":             r.samples,
	}
	if r.exhaustive {
		cov["exhaustive"] = true
	}
	if len(r.samples) == 0 {
		cov["samples"] = []any{}
	}
	obs := map[string]int64{}
	for k, v := range r.counters {
		obs[k] = v
	}
	cov["observed"] = obs
	if len(r.knownHits) > 0 {
		cov["known_finding_hits"] = r.knownHits
	}
	cov["inconclusive"] = len(r.inconclusive)
	if len(r.inconclusive) > 0 {
		n := len(r.inconclusive)
		if n > 10 {
			n = 10
		}
		cov["inconclusive_cases"] = r.inconclusive[:n]
	}
	for k, v := range r.extra {
		cov[k] = v
	}
	if len(broken) > 0 {
		cov["broken_check"] = broken
	}
	evd := map[string]any{
		"property_id": r.Prop,
		"tier":        r.Tier,
		"seed":        r.Seed,
		"level":       r.Level,
		"coverage":    cov,
		"assumptions": r.assumptions,
		"wall_s":      float64(int(wall*100)) / 100,
		"violations":  unknown,
	}
	if r.assumptions == nil {
		evd["assumptions"] = []string{}
	}
	if r.Only == "" {
		_ = os.MkdirAll(filepath.Join(VerifDir(), "evidence"), 0o755)
		b, _ := json.MarshalIndent(evd, "", " ")
		if err := os.WriteFile(filepath.Join(VerifDir(), "evidence", r.Prop+".json"), append(b, '\n'), 0o644); err != nil {
			fmt.Fprintln(os.Stderr, "cannot write evidence:", err)
			return 2
		}
	}
	fmt.Printf("%s %s seed=%d: %d evaluations, %d distinct non-trivial, %d violations (%d known-finding signatures), %d inconclusive, %.1fs\n",
		r.Prop, r.Tier, r.Seed, r.evaluations, len(r.distinct), unknown, len(r.knownHits), len(r.inconclusive), wall)
	keys := make([]string, 0, len(obs))
	for k := range obs {
		keys = append(keys, k)
	}
	sort.Strings(keys)
	for _, k := range keys {
		fmt.Printf("  observed %s = %d\n", k, obs[k])
	}
	if unknown > 0 {
		return 1
	}
	if len(broken) > 0 {
		fmt.Printf("BROKEN-CHECK property=%s monitors observed too little: %s\n", r.Prop, strings.Join(broken, ", "))
		return 2
	}
	return 0
}

func oneLine(s string) string {
	s = strings.ReplaceAll(s, "\n", " ")
	if len(s) > 300 {
		s = s[:300] + "…"
	}
	return s
}
