package ev

import "syscall"

var sigQuit = syscall.SIGQUIT
