package ev

import (
	"os"
	"path/filepath"
	"regexp"
	"sort"
	"strings"
)

// RaceReport is one de-duplicated data race attributed to the repository.
type RaceReport struct {
	Sig   string
	Block string
}

var lineNo = regexp.MustCompile(`:\d+( \+0x[0-9a-f]+)?$`)

// ParseRaceLog splits a GORACE log into reports and computes, per report, a
// signature from the innermost repository function of each of the two access
// stacks (unordered pair). Reports with no repository frame in either access
// stack are returned with Sig "" (races entirely in dependencies/harness).
func ParseRaceLog(text string) []RaceReport {
	var out []RaceReport
	blocks := strings.Split(text, "WARNING: DATA RACE")
	for _, b := range blocks[1:] {
		if i := strings.Index(b, "=================="); i >= 0 {
			b = b[:i]
		}
		// sections are separated by blank lines; first two are the accesses
		secs := strings.Split(strings.TrimSpace(b), "\n\n")
		var inner []string
		harnessOnly := true
		for si, s := range secs {
			if si >= 2 {
				break
			}
			fn := ""
			for _, l := range strings.Split(s, "\n") {
				l = strings.TrimSpace(l)
				if strings.HasPrefix(l, "/") || l == "" || strings.HasSuffix(l, ":") {
					continue
				}
				if strings.Contains(l, "block-headers-service/") && !strings.Contains(l, "verifharness") {
					if i := strings.LastIndex(l, "("); i > 0 {
						l = l[:i]
					}
					if i := strings.Index(l, "block-headers-service/"); i >= 0 {
						l = l[i+len("block-headers-service/"):]
					}
					fn = l
					break
				}
			}
			if fn != "" {
				harnessOnly = false
			} else {
				fn = "(outside repo)"
			}
			inner = append(inner, fn)
		}
		sig := ""
		if !harnessOnly {
			sort.Strings(inner)
			sig = "race|" + strings.Join(inner, " <-> ")
		}
		if len(b) > 5000 {
			b = b[:5000]
		}
		out = append(out, RaceReport{Sig: sig, Block: b})
	}
	return out
}

// collectRace reads race.* logs written by a child into the run.
func (r *Run) collectRace(dir string) {
	files, _ := filepath.Glob(filepath.Join(dir, "race.*"))
	for _, f := range files {
		b, err := os.ReadFile(f)
		if err != nil {
			continue
		}
		for _, rep := range ParseRaceLog(string(b)) {
			r.Count("race_reports_total", 1)
			if rep.Sig == "" {
				r.Count("race_reports_outside_repo", 1)
				r.Violate("harness-race|"+firstFuncs(rep.Block), "data race with no repository frame in either access stack (harness or dependency)", "", map[string]any{"report": rep.Block})
				continue
			}
			r.Violate(rep.Sig, "data race reported by the Go race detector", "", map[string]any{"report": rep.Block})
		}
	}
}

func firstFuncs(b string) string {
	var fs []string
	for _, l := range strings.Split(b, "\n") {
		l = strings.TrimSpace(l)
		if l == "" || strings.HasPrefix(l, "/") || strings.HasSuffix(l, ":") || strings.HasPrefix(l, "Goroutine") {
			continue
		}
		if i := strings.LastIndex(l, "("); i > 0 {
			l = l[:i]
		}
		fs = append(fs, l)
		if len(fs) == 1 {
			break
		}
	}
	return strings.Join(fs, ",")
}
