// Package c01: longest chain = greatest cumulative work (first seen wins ties), any history.
package c01

import (
	"fmt"
	"math/big"
	"sort"
	"strings"

	"github.com/bitcoin-sv/block-headers-service/verifharness/deco"
	"github.com/bitcoin-sv/block-headers-service/verifharness/ev"
	"github.com/bitcoin-sv/block-headers-service/verifharness/gen"
	"github.com/bitcoin-sv/block-headers-service/verifharness/mb"
	"github.com/bitcoin-sv/block-headers-service/verifharness/refmodel"
	"github.com/bitcoin-sv/block-headers-service/verifharness/rig"
	"github.com/bitcoin-sv/block-headers-service/verifharness/snap"
)

// Spec is the check registration.
func Spec() ev.Spec {
	return ev.Spec{Prop: "C01", Level: "exploration", Workers: -1, Body: body}
}

// Situation describes the submitted header relative to the model state before submission.
func Situation(m *refmodel.Model, h refmodel.Hdr) string {
	hash := h.HashOf()
	if _, ok := m.Nodes[hash]; ok {
		return "duplicate"
	}
	if m.Forbidden[hash] {
		return "forbidden"
	}
	p := m.Nodes[h.Prev]
	rel := ""
	switch {
	case p == nil:
		return "parent=unknown"
	case !p.Connected:
		return "parent=ORPHAN"
	case p == m.Best():
		rel = "parent=tip"
	case p.State == refmodel.Longest:
		rel = "parent=LONGEST-below-tip"
	default:
		rel = "parent=STALE"
	}
	w := refmodel.Work(h.Bits)
	cum := new(bigInt).Add(p.Cum, w)
	cmp := cum.Cmp(m.Best().Cum)
	c := "="
	if cmp > 0 {
		c = ">"
	} else if cmp < 0 {
		c = "<"
	}
	own := "pos"
	if w.Sign() == 0 {
		own = "zero"
	}
	return fmt.Sprintf("%s,cumwork%stip,ownwork=%s", rel, c, own)
}

func diffKinds(ds []mb.Diff) string {
	set := map[string]bool{}
	for _, d := range ds {
		if d.Field == "state" || d.Field == "present" {
			set[d.Field+":"+d.Want+"->"+d.Got] = true
		} else {
			set[d.Field] = true
		}
	}
	var ks []string
	for k := range set {
		ks = append(ks, k)
	}
	sort.Strings(ks)
	return strings.Join(ks, ",")
}

type env struct {
	r  *ev.Run
	st *rig.Stack
}

// runHistory executes one history in lock step; returns false if it was cut short by a violation.
func (e *env) runHistory(caseID string, hist gen.History, checkEvery int) bool {
	r := e.r
	if err := e.st.Reset(); err != nil {
		r.Violate("harness|reset", err.Error(), caseID, nil)
		return false
	}
	m := mb.NewModel()
	imm := snap.NewImmutability()
	detail := func(step int, extra map[string]any) map[string]any {
		d := map[string]any{"history_hex": hist.Hex(), "failed_at_step": step}
		for k, v := range extra {
			d[k] = v
		}
		return d
	}
	reorgs, orphans, dups, forb := 0, 0, 0, 0
	for i, h := range hist.Hdrs {
		sit := Situation(m, h)
		var before string
		unchanged := sit == "duplicate" || sit == "forbidden"
		if unchanged {
			t, err := snap.TakeHeaders(e.st.DB)
			if err != nil {
				r.Violate("harness|snapshot", err.Error(), caseID, nil)
				return false
			}
			before = t.Digest()
		}
		si := mb.Step(e.st, m, h)
		if si.Res.Panic != nil {
			r.Violate("panic|"+sit, fmt.Sprintf("Chains.Add panicked (%v) for a header with %s", si.Res.Panic, sit), caseID,
				detail(i, map[string]any{"stack": trim(si.Res.Stack)}))
			return false
		}
		if got, want := si.Res.Code(), mb.WantCode(si.Outcome); got != want {
			r.Violate("answer|"+sit+"|"+want+"->"+got, fmt.Sprintf("submission with %s answered %q, expected %q (err=%v)", sit, got, want, si.Res.Err), caseID, detail(i, nil))
			return false
		}
		switch si.Outcome {
		case refmodel.Duplicate:
			dups++
		case refmodel.Forbidden:
			forb++
		default:
			if !si.Node.Connected {
				orphans++
			}
			if si.Reorg {
				reorgs++
			}
			if rh := si.Res.Header; rh == nil || rh.Hash.String() != si.Node.Hash.String() || int64(rh.Height) != int64(si.Node.Height) || string(rh.State) != si.Node.State {
				got := "<nil>"
				if rh != nil {
					got = fmt.Sprintf("%s h=%d %s", rh.Hash.String(), rh.Height, rh.State)
				}
				r.Violate("returned|"+sit, fmt.Sprintf("Add returned %s, expected %s h=%d %s", got, si.Node.Hash, si.Node.Height, si.Node.State), caseID, detail(i, nil))
				return false
			}
		}
		last := i == len(hist.Hdrs)-1
		if !(unchanged || last || checkEvery <= 1 || i < 48 || i%checkEvery == 0 || si.Reorg) {
			continue
		}
		t, err := snap.TakeHeaders(e.st.DB)
		if err != nil {
			r.Violate("harness|snapshot", err.Error(), caseID, nil)
			return false
		}
		if unchanged && t.Digest() != before {
			r.Violate("resubmission-changed-store|"+sit, "a "+sit+" submission changed the headers table", caseID, detail(i, nil))
			return false
		}
		if ds := mb.CompareTable(m, t, false); len(ds) > 0 {
			r.Violate("table|"+sit+"|"+diffKinds(ds), "after a submission with "+sit+": "+mb.DescribeDiffs(ds, 6), caseID, detail(i, map[string]any{"diffs": ds}))
			return false
		}
		if bad := t.IChain(); bad != "" {
			r.Violate("ichain|"+sit, bad, caseID, detail(i, nil))
			return false
		}
		if bad := imm.Observe(t); bad != "" {
			r.Violate("immutability|"+sit, bad, caseID, detail(i, nil))
			return false
		}
		tip := e.st.Svc.Headers.GetTip()
		if tip == nil || tip.Hash.String() != m.Best().Hash.String() {
			got := "<nil>"
			if tip != nil {
				got = tip.Hash.String()
			}
			r.Violate("tip|"+sit, fmt.Sprintf("GetTip = %s, model best = %s", got, m.Best().Hash), caseID, detail(i, nil))
			return false
		}
		r.Count("table_comparisons", 1)
	}
	// observe through HTTP at the end of the history
	if e.st.Engine != nil {
		w := e.st.GET("/api/v1/chain/tip/longest")
		if w.Code != 200 || !strings.Contains(w.Body.String(), m.Best().Hash.String()) {
			r.Violate("http-tip", fmt.Sprintf("GET /chain/tip/longest -> %d %s, model best %s", w.Code, clip(w.Body.String()), m.Best().Hash), caseID, detail(len(hist.Hdrs), nil))
			return false
		}
		// state endpoint for up to 3 nodes
		for k, n := range m.Order {
			if k >= 3 {
				break
			}
			n = m.Order[len(m.Order)-1-k]
			w := e.st.GET("/api/v1/chain/header/state/" + n.Hash.String())
			if w.Code != 200 || !strings.Contains(w.Body.String(), `"state":"`+n.State+`"`) {
				r.Violate("http-state", fmt.Sprintf("GET state/%s -> %d %s, model state %s", n.Hash, w.Code, clip(w.Body.String()), n.State), caseID, detail(len(hist.Hdrs), nil))
				return false
			}
		}
		r.Count("http_observations", 1)
	}
	r.Count("submissions", int64(len(hist.Hdrs)))
	r.Count("reorgs_observed", int64(reorgs))
	r.Count("orphans_observed", int64(orphans))
	r.Count("duplicates_answered", int64(dups))
	r.Count("forbidden_answered", int64(forb))
	sig, forks, _, _ := gen.Signature(rig.Genesis(), hist)
	r.Case(sig, forks > 0 || orphans > 0 || dups > 0 || reorgs > 0)
	if r.WantSample() && reorgs > 0 && len(hist.Hdrs) <= 12 {
		r.Sample(map[string]any{"case": caseID, "history_hex": hist.Hex(), "reorgs": reorgs, "orphans": orphans, "duplicates": dups})
	}
	return true
}

func clip(s string) string {
	if len(s) > 300 {
		return s[:300]
	}
	return s
}

func trim(s string) string {
	if len(s) > 4000 {
		return s[:4000]
	}
	return s
}

func body(r *ev.Run) {
	r.Rule("histories = (a) every labelled tree with <=N new headers (parent in {genesis, unknown hash, any earlier header}) x work-class alphabet x every arrival permutation, plus one duplicate re-submission per history; (b) seeded random histories (forks, orphans, late parents, duplicates, forbidden hashes, all bits classes incl. zero/negative/truncating/huge-exponent/random/work next to 2^32, 2^64, 2^128, 2^192); (d) two competing children of the tip submitted by two goroutines at once (the stored labels must be the outcome of one of the two orders); (c) reorganisations over 500 and 2002 heights (thorough: 499..2600, around the multiples of 500 and 1000). distinct = distinct shape signatures (parent relation + bits per arrival position); non-trivial = contains a fork, orphan, duplicate or reorganisation as reported by the reference model.")
	r.Assume("reference model refmodel/ is a faithful transcription of the C01 statement", "SQLite engine only", "mainnet genesis as chain root")
	r.Require("reorgs_observed", 20)
	r.Require("orphans_observed", 20)
	r.Require("duplicates_answered", 20)
	mb.ForbiddenHeaders()
	pc := &pairCtl{}
	st, err := rig.New(rig.Options{Dir: r.Scratch, WrapHeaders: deco.Wrap(pc.hooks())})
	if err != nil {
		r.Violate("harness|rig", err.Error(), "", nil)
		return
	}
	defer st.Destroy()
	e := &env{r: r, st: st}
	// (d) two peers deliver competing headers at the same moment
	for i := 0; i < r.Pick(16, 200); i++ {
		caseID := fmt.Sprintf("pairs/%d", i)
		r.Do(caseID, func() { e.competingPairs(caseID, r.Rand(caseID), pc) })
	}
	r.Require("competing_pairs_submitted_at_once", 100)

	if r.Only != "" && strings.HasPrefix(r.Only, "replay:") {
		return
	}
	// (a) bounded-exhaustive
	maxN := r.Pick(3, 4)
	alphabet := "MHZ"
	if r.Thorough() {
		alphabet = "MHLZ"
	}
	for n := 1; n <= maxN; n++ {
		idx := 0
		gen.EnumTrees(n, alphabet, func(t gen.Tree) {
			idx++
			caseID := fmt.Sprintf("ex/%d/%s/%d", n, alphabet, idx)
			r.Do(caseID, func() {
				hs := t.Build(rig.Genesis())
				pidx := 0
				gen.Permutations(n, func(p []int) {
					pidx++
					var hist gen.History
					for _, k := range p {
						hist.Hdrs = append(hist.Hdrs, hs[k])
					}
					// one re-submission of the (pidx mod n)-th header at the end
					hist.Hdrs = append(hist.Hdrs, hs[p[pidx%n]])
					e.runHistory(fmt.Sprintf("%s/p%d", caseID, pidx), hist, 1)
				})
			})
		})
	}
	r.Count("bounded_exhaustive_max_headers", int64(maxN))
	// (c) deep reorganisations: the relabelling of a whole branch across the sizes at which statements get batched
	depths := []int{500, 2002}
	if r.Thorough() {
		depths = []int{499, 500, 501, 999, 1000, 1001, 1999, 2000, 2001, 2002, 2003, 2600}
	}
	for _, d := range depths {
		caseID := fmt.Sprintf("deep/%d", d)
		r.Do(caseID, func() {
			rng := r.Rand(caseID)
			e.runHistory(caseID, gen.DeepReorg(rng, rig.Genesis(), rng.Intn(4), d), 1<<30)
			r.Count("deep_reorganisations", 1)
		})
	}
	// (b) random
	nRandom := r.Pick(400, 6000)
	for i := 0; i < nRandom; i++ {
		caseID := fmt.Sprintf("rnd/%d", i)
		r.Do(caseID, func() {
			rng := r.Rand(caseID)
			o := gen.Opts{
				N:          20 + rng.Intn(r.Pick(100, 380)),
				PDup:       []float64{0, 0.05, 0.15}[rng.Intn(3)],
				PUnknown:   []float64{0, 0.03, 0.1}[rng.Intn(3)],
				PLate:      []float64{0, 0.05, 0.2}[rng.Intn(3)],
				PFork:      []float64{0.05, 0.2, 0.5}[rng.Intn(3)],
				Classes:    []string{"M", "MH", "MHL", "MHLZ", "MHLZNTUX", "MMMMHLR", "R", "ZNUX", "MZ", "MHC", "C", "W", "MW"}[rng.Intn(13)],
				Forbidden:  mb.ForbiddenHeaders(),
				PForbidden: []float64{0, 0.02}[rng.Intn(2)],
			}
			hist := gen.Random(rng, rig.Genesis(), o)
			e.runHistory(caseID, hist, 8)
		})
	}
}

type bigInt = big.Int
