package c01

import (
	"fmt"
	"math/rand"
	"sync"
	"time"

	"github.com/bitcoin-sv/block-headers-service/verifharness/deco"
	"github.com/bitcoin-sv/block-headers-service/verifharness/gen"
	"github.com/bitcoin-sv/block-headers-service/verifharness/mb"
	"github.com/bitcoin-sv/block-headers-service/verifharness/refmodel"
	"github.com/bitcoin-sv/block-headers-service/verifharness/rig"
	"github.com/bitcoin-sv/block-headers-service/verifharness/snap"
)

// Two peers deliver competing headers at the same moment. Whatever the order in which the service takes them, the result
// is the result of one of the two orders: one chain, one longest-chain header per height (the first one taken wins a tie).
type pairCtl struct {
	mu      sync.Mutex
	on      bool
	arrived int
	waiting bool
	both    chan struct{}
}

func (p *pairCtl) hooks() *deco.Hooks {
	return &deco.Hooks{Before: func(op string, _ bool, _ string) error {
		if op == "GetHeaderByHash" || op == "GetTip" {
			p.rendezvous()
		}
		return nil
	}}
}

func (p *pairCtl) rendezvous() {
	p.mu.Lock()
	if !p.on || p.arrived >= 2 {
		p.mu.Unlock()
		return
	}
	p.arrived++
	both := p.both
	if p.arrived == 2 {
		if p.waiting {
			close(both)
		}
		p.mu.Unlock()
		return
	}
	p.waiting = true
	p.mu.Unlock()
	select {
	case <-both:
	case <-time.After(1500 * time.Microsecond):
	}
	p.mu.Lock()
	p.waiting = false
	p.mu.Unlock()
}

// competingPairs builds a short chain and then, several times, submits two children of the current tip (equal work, or one
// heavier) from two goroutines at once.
func (e *env) competingPairs(caseID string, rng *rand.Rand, pc *pairCtl) {
	r := e.r
	if err := e.st.Reset(); err != nil {
		r.Violate("harness|reset", err.Error(), caseID, nil)
		return
	}
	m := mb.NewModel()
	counter := 0
	mk := func(prev refmodel.Hash, bits uint32) refmodel.Hdr {
		counter++
		h := refmodel.Hdr{Prev: prev, Bits: bits}
		gen.Fields(rng, &h, false, 500000+counter)
		return h
	}
	for i := 0; i < 2+rng.Intn(3); i++ {
		mb.Step(e.st, m, mk(m.Best().Hash, gen.BitsNormal))
	}
	for round := 0; round < 12; round++ {
		tip := m.Best().Hash
		a := mk(tip, gen.BitsNormal)
		b := mk(tip, []uint32{gen.BitsNormal, gen.BitsNormal, gen.BitsHeavy}[rng.Intn(3)])
		pc.mu.Lock()
		pc.on, pc.arrived, pc.waiting, pc.both = true, 0, false, make(chan struct{})
		pc.mu.Unlock()
		var wg sync.WaitGroup
		var ra, rb rig.AddResult
		wg.Add(2)
		go func() { defer wg.Done(); ra = e.st.Add(a) }()
		go func() { defer wg.Done(); rb = e.st.Add(b) }()
		wg.Wait()
		pc.mu.Lock()
		pc.on = false
		pc.mu.Unlock()
		detail := map[string]any{"round": round, "headers_hex": []string{a.Hex(), b.Hex()}}
		if ra.Panic != nil || rb.Panic != nil || ra.Err != nil || rb.Err != nil {
			r.Violate("pair|submission-failed", fmt.Sprintf("two competing headers submitted at once: %v %v / %v %v", ra.Err, ra.Panic, rb.Err, rb.Panic), caseID, detail)
			return
		}
		t, err := snap.TakeHeaders(e.st.DB)
		if err != nil {
			r.Violate("harness|snapshot", err.Error(), caseID, nil)
			return
		}
		// the model follows one of the two orders: the one the store's labels are consistent with
		ma, mbb := m.Clone(), m.Clone()
		ma.Submit(a)
		ma.Submit(b)
		mbb.Submit(b)
		mbb.Submit(a)
		da, db := mb.CompareTable(ma, t, true), mb.CompareTable(mbb, t, true)
		switch {
		case len(da) == 0:
			m = ma
		case len(db) == 0:
			m = mbb
		default:
			bad := t.IChain()
			r.Violate("pair|outcome-of-neither-order", fmt.Sprintf("two competing children of the tip were submitted at the same moment; the stored labels are the outcome of neither order (%s; %s)", mb.DescribeDiffs(da, 3), bad), caseID, detail)
			return
		}
		r.Count("competing_pairs_submitted_at_once", 1)
		// carry on from the new tip with an ordinary header
		mb.Step(e.st, m, mk(m.Best().Hash, gen.BitsNormal))
	}
	r.Case("pairs", true)
}
