package c16

import (
	"bytes"
	"context"
	"encoding/base64"
	"encoding/json"
	"fmt"
	"net/http"
	"net/http/httptest"
	"runtime/debug"
	"sort"
	"strings"
	"time"
	"unicode/utf8"

	"github.com/bitcoin-sv/block-headers-service/verifharness/snap"
	"github.com/gin-gonic/gin"
)

// result is what the monitors observed for one request.
type result struct {
	routed  bool
	rt      *routeInfo
	params  map[string]string
	status  int
	body    []byte
	symptom string // "" = no refuting event
	note    string
	built   bool
}

// serve pushes one request through an engine, recovering a panic that escapes ServeHTTP.
func serve(e *gin.Engine, q *Req, target string, slow bool) (w *httptest.ResponseRecorder, panicked any, stack string, built bool) {
	var req *http.Request
	func() {
		defer func() {
			if recover() != nil {
				req = nil
			}
		}()
		var rd *bytes.Reader
		if q.Body != nil {
			rd = bytes.NewReader(q.Body)
			req = httptest.NewRequest(q.Method, target, rd)
		} else {
			req = httptest.NewRequest(q.Method, target, nil)
		}
	}()
	if req == nil {
		return nil, nil, "", false
	}
	if q.Auth != "" {
		req.Header.Set("Authorization", q.Auth)
	}
	if q.CT != "" {
		req.Header.Set("Content-Type", q.CT)
	}
	if slow {
		// pprof profile/trace/delta profiles sleep for `seconds`; they honour the request context.
		ctx, cancel := context.WithTimeout(req.Context(), 30*time.Millisecond)
		defer cancel()
		req = req.WithContext(ctx)
	}
	w = httptest.NewRecorder()
	func() {
		defer func() {
			if p := recover(); p != nil {
				panicked = p
				stack = string(debug.Stack())
			}
		}()
		e.ServeHTTP(w, req)
	}()
	return w, panicked, stack, true
}

// route asks the twin engine which registered route (if any) the request targets, and
// rewrites the request into canonical component form (pattern + parameter values as gin sees them).
func (s *store) route(q *Req) (*Req, *routeInfo) {
	for i := 0; i < 2; i++ {
		s.tw.hit = nil
		w, _, _, built := serve(s.tw.engine, &Req{Method: q.Method}, q.target(), false)
		if !built || w == nil || w.Code != 299 || s.tw.hit == nil {
			return q, nil
		}
		hit := s.tw.hit
		rt := s.tw.byKey[q.Method+" "+hit.pattern]
		if rt == nil {
			return q, nil
		}
		same := hit.pattern == q.Pattern && len(hit.params) == len(q.Path)
		for k, v := range hit.params {
			pv := q.Path[k]
			if strings.HasPrefix(v, "/") && !strings.HasPrefix(pv, "/") { // catch-all values carry the leading slash
				pv = "/" + pv
			}
			same = same && pv == v
		}
		if same {
			return q, rt
		}
		c := q.clone()
		c.Pattern, c.Path = hit.pattern, map[string]string{}
		for k, v := range hit.params {
			c.Path[k] = v
		}
		q = c
	}
	return q, nil
}

// exactlyOneJSON: docs decoded, first value, whether undecodable bytes follow.
func jsonVerdict(b []byte) (string, any) {
	docs, first, garbage := countJSONDocs(b)
	switch {
	case docs == 0:
		return "not-json", nil
	case docs == 1 && !garbage:
		return "", first
	case garbage:
		return "json-plus-garbage", first
	case docs == 2:
		return "two-json-documents", first
	default:
		return "several-json-documents", first
	}
}

// probe sends the request to the real engine and applies the oracle.
func (s *store) probe(q *Req, rt *routeInfo) result {
	res := result{routed: true, rt: rt}
	w, panicked, stack, built := serve(s.st.Engine, q, q.target(), strings.HasPrefix(rt.Pattern, "/pprof/"))
	res.built = built
	if !built {
		return res
	}
	if panicked != nil {
		res.symptom, res.note = "panic-escaped-ServeHTTP", fmt.Sprintf("%v\n%s", panicked, clip(stack, 3000))
		return res
	}
	res.status, res.body = w.Code, w.Body.Bytes()
	switch {
	case res.status >= 500:
		res.symptom = fmt.Sprint(res.status)
		if len(res.body) == 0 {
			res.symptom += "-empty-body"
		}
	case rt.api:
		if len(bytes.TrimSpace(res.body)) == 0 {
			if res.status >= 400 {
				res.symptom = fmt.Sprintf("%d-empty-body", res.status)
			}
			break
		}
		verdict, first := jsonVerdict(res.body)
		if verdict != "" {
			res.symptom = verdict
			if verdict == "not-json" {
				res.symptom = fmt.Sprintf("%d-not-json", res.status)
			}
			break
		}
		if res.status >= 400 {
			obj, ok := first.(map[string]any)
			_, c := obj["code"].(string)
			_, m := obj["message"].(string)
			if !ok || !c || !m {
				res.symptom = fmt.Sprintf("%d-unstructured", res.status)
			}
		} else if obj, ok := first.(map[string]any); ok && len(obj) == 2 {
			// the structured error document ({code, message}) sent with a success status: a client error that is not a 4xx
			code, c := obj["code"].(string)
			_, m := obj["message"].(string)
			if c && m && (strings.HasPrefix(code, "Err") || strings.HasPrefix(code, "error")) {
				res.symptom = fmt.Sprintf("%d-with-an-error-document", res.status)
			}
		}
	}
	// the header store is untouched
	d, _, err := snap.TableDigest(s.st.DB, "headers")
	if err != nil {
		res.symptom, res.note = "store-unreadable", err.Error()
		return res
	}
	s.r.Count("store_digest_checks", 1)
	if d != s.digest {
		if res.symptom == "" {
			res.symptom = "store-changed"
		}
		res.note += " headers table digest changed"
		s.digest = d // do not cascade
	}
	// the engine keeps serving
	fw, fp, _, _ := serve(s.st.Engine, &Req{Method: "GET", Auth: "Bearer " + adminTokenValue}, "/api/v1/chain/tip/longest", false)
	if fp != nil || fw == nil || fw.Code != 200 || !strings.Contains(fw.Body.String(), s.tip) {
		if res.symptom == "" {
			res.symptom = "engine-stopped-serving"
		}
		code := -1
		if fw != nil {
			code = fw.Code
		}
		res.note += fmt.Sprintf(" follow-up GET /api/v1/chain/tip/longest -> %d", code)
	} else {
		s.r.Count("followup_ok", 1)
	}
	return res
}

func abnormal(cs []comp) []string {
	var out []string
	for _, c := range cs {
		if !c.Normal {
			out = append(out, c.String())
		}
	}
	sort.Strings(out)
	return out
}

func allClasses(cs []comp) string {
	out := make([]string, len(cs))
	for i, c := range cs {
		out[i] = c.String()
	}
	sort.Strings(out)
	return strings.Join(out, ",")
}

// evaluate runs one generated request through twin + real engine + oracle and records everything.
func (s *store) evaluate(caseID string, q0 *Req) {
	r := s.r
	q, rt := s.route(q0)
	if rt == nil {
		// not a registered route: out of scope, but the engine must survive it
		w, panicked, _, built := serve(s.st.Engine, q0, q0.target(), false)
		if !built {
			r.Count("requests_unbuildable", 1)
			return
		}
		r.Count("requests_unrouted", 1)
		if panicked != nil || w.Code >= 500 {
			r.Violate(q0.Method+" <unrouted>|any|5xx-or-panic", "a request that matches no route got a 5xx / panic", caseID, s.detail(q0, nil, result{status: codeOf(w)}, nil, nil))
		} else if w.Code == 404 && strings.TrimSpace(w.Body.String()) != "404 page not found" && strings.HasPrefix(q0.Pattern, "/api/v1") {
			r.Violate("harness|twin-disagrees", fmt.Sprintf("twin says unrouted, real engine answered 404 %q", clip(w.Body.String(), 200)), caseID, s.detail(q0, nil, result{status: w.Code, body: w.Body.Bytes()}, nil, nil))
		}
		return
	}
	res := s.probe(q, rt)
	if !res.built {
		r.Count("requests_unbuildable", 1)
		return
	}
	s.restoreAux()
	comps := s.classify(q, rt)
	ab := abnormal(comps)
	s.reached[rt.key()]++
	r.Count("reached "+rt.key(), 1)
	r.Count("requests_routed", 1)
	if rt.api {
		r.Count("requests_routed_api", 1)
	}
	shape := rt.key() + "|" + allClasses(comps) + "|" + fmt.Sprint(res.status)
	r.Case(shape, len(ab) > 0)
	if !s.seen[shape] {
		s.seen[shape] = true
		if len(q.Body) < 20000 && !rt.slow && len(s.corpus) < 4000 {
			s.corpus = append(s.corpus, q)
		}
	}
	s.observe(rt, comps, res)
	if r.WantSample() && len(ab) > 0 && len(q.target()) < 200 && len(q.Body) < 200 && res.status >= 400 && res.status < 500 {
		r.Sample(map[string]any{"case": caseID, "request": q.Method + " " + q.target(), "body": string(q.Body), "classes": ab, "status": res.status, "response": clip(string(res.body), 200)})
	}
	if res.symptom == "" || !s.reports(caseID) {
		return
	}
	r.Count("refuting_requests", 1)
	key := rt.key() + "|" + strings.Join(ab, ",") + "|" + res.symptom
	sig, cached := s.sigCache[key]
	var minReq *Req
	if !cached {
		minReq, sig = s.minimise(q, rt, res.symptom)
		s.sigCache[key] = sig
	}
	s.sigCount[sig]++
	if s.sigCount[sig] > 3 && r.Only == "" {
		return
	}
	what := fmt.Sprintf("%s %s with %s -> %s (status %d, body %q)", rt.Method, rt.Pattern, strings.Join(ab, ","), res.symptom, res.status, clip(string(res.body), 160))
	d := s.detail(q, rt, res, ab, minReq)
	if !s.histShown[sig] { // the store's history once per signature: enough to rebuild the store by hand
		s.histShown[sig] = true
		d["store_history_hex"] = s.hist.Hex()
	}
	r.Violate(sig, what, caseID, d)
}

func codeOf(w *httptest.ResponseRecorder) int {
	if w == nil {
		return -1
	}
	return w.Code
}

// observe: monitor-side counters of what was actually seen.
func (s *store) observe(rt *routeInfo, comps []comp, res result) {
	r := s.r
	switch {
	case res.status >= 500:
		r.Count("responses_5xx", 1)
	case res.status >= 400:
		r.Count("responses_4xx", 1)
		if rt.api && res.symptom == "" {
			r.Count("responses_4xx_structured", 1)
		}
	case res.status >= 300:
		r.Count("responses_3xx", 1)
	default:
		r.Count("responses_2xx", 1)
		if rt.api && res.symptom == "" && len(res.body) > 0 {
			r.Count("responses_2xx_json", 1)
		}
	}
	for _, c := range comps {
		switch c.Class {
		case "<STALE>", "<ORPHAN>", "<ORPHAN-late>", "<genesis>", "<LONGEST>", "<unknown>":
			if paramKind(c.Name) == "hash" {
				r.Count("param_hash_"+strings.Trim(c.Class, "<>"), 1)
			}
		case "<unparsable>", "<negative>", "<zero>", "<beyond-int32>":
			r.Count("param_int_"+strings.Trim(c.Class, "<>"), 1)
		case "<unbindable>", "[]":
			r.Count("body_"+strings.Trim(c.Class, "<>"), 1)
		}
		if c.Name == "body" && (strings.HasPrefix(c.Class, "list[") || strings.HasPrefix(c.Class, "items[")) {
			r.Count("body_bound_lists", 1)
			if strings.Contains(c.Class, "genesis") {
				r.Count("body_list_with_genesis", 1)
			}
			if strings.Contains(c.Class, "ORPHAN") {
				r.Count("body_list_with_orphan", 1)
			}
		}
		if c.Name == "auth" && !c.Normal {
			r.Count("auth_not_admin", 1)
		}
	}
}

// same tells whether a re-execution shows the same refuting event on the same route.
func (s *store) same(c *Req, rt *routeInfo, symptom string) bool {
	cq, crt := s.route(c)
	if crt == nil || crt.key() != rt.key() {
		return false
	}
	res := s.probe(cq, crt)
	s.restoreAux()
	s.r.Count("minimisation_probes", 1)
	return res.built && res.symptom == symptom
}

// minimise finds which components are needed for the refuting event: every component outside the
// ordinary class is replaced by its baseline value if the event persists without it; list bodies
// are reduced element-wise. The signature names the route, the remaining classes and the symptom.
func (s *store) minimise(q *Req, rt *routeInfo, symptom string) (*Req, string) {
	cur := q.clone()
	over := map[string]string{} // component -> coarser class established by generalise
	sigOf := func(c *Req, suffix string) string {
		comps := s.classify(c, rt)
		for i := range comps {
			if o, ok := over[comps[i].Name]; ok {
				comps[i].Class = o
			}
		}
		ab := abnormal(comps)
		if rt.bodyKind == "webhook" && contains(ab, "body=<unbindable>") {
			// this route binds by content type; form bindings take the query string as part of the bound
			// input, so "unbindable" already describes (content type, body, query) as a whole
			ab = without(ab, "query=<extra-params>")
		}
		cls := strings.Join(ab, ",")
		if cls == "" {
			cls = "any"
		}
		return rt.key() + "|" + cls + suffix + "|" + symptom
	}
	if !s.same(cur, rt, symptom) {
		return cur, sigOf(cur, "") // not reproducible in isolation: keep the full class vector
	}
	order := []string{"auth", "query"}
	for _, sp := range rt.query {
		order = append(order, sp.name)
	}
	order = append(order, rt.params...)
	order = append(order, "body")
	for _, name := range order {
		isAb := false
		for _, c := range s.classify(cur, rt) {
			if c.Name == name && !c.Normal {
				isAb = true
			}
		}
		if !isAb {
			continue
		}
		cand := cur.clone()
		s.normalise(cand, rt, name)
		if s.same(cand, rt, symptom) {
			cur = cand
		}
	}
	// element-wise reduction of list bodies
	if rt.bodyKind == "hashlist" || rt.bodyKind == "merklelist" {
		var items []json.RawMessage
		if json.NewDecoder(bytes.NewReader(cur.Body)).Decode(&items) == nil && len(items) > 1 {
			test := func(xs []json.RawMessage) bool {
				b, err := json.Marshal(xs)
				if err != nil {
					return false
				}
				cand := cur.clone()
				cand.Body = b
				return s.same(cand, rt, symptom)
			}
			if test(items) { // re-marshalled form still fails
				items = ddmin(items, test)
				b, _ := json.Marshal(items)
				cur.Body = b
			}
		}
	}
	s.generalise(cur, rt, symptom, over)
	return cur, sigOf(cur, "")
}

// families of classes that usually share one root cause ("the value names nothing that is stored").
// generalise replaces a component's value by a representative of ANOTHER member of its family; if the
// refuting event persists, the signature carries the family label instead of the member label, so one
// root cause gives one signature whichever malformed value met it first.
var notStored = map[string]bool{"<unknown>": true, "<empty>": true, "<huge>": true, "<unicode>": true, "<non-hex>": true, "<too-short>": true, "<too-long>": true}

const altUnknownHash = "abababababababababababababababababababababababababababababababab"

func (s *store) generalise(cur *Req, rt *routeInfo, symptom string, over map[string]string) {
	for _, c := range s.classify(cur, rt) {
		if c.Normal {
			continue
		}
		cand := cur.clone()
		label := ""
		kind := ""
		for _, p := range rt.params {
			if p == c.Name {
				kind = paramKind(p)
			}
		}
		for _, sp := range rt.query {
			if sp.name == c.Name {
				kind = sp.kind
			}
		}
		set := func(v string) {
			if _, ok := cand.Path[c.Name]; ok {
				cand.Path[c.Name] = v
			} else {
				cand.setQuery(c.Name, v)
			}
		}
		switch {
		case c.Name == "auth" && (c.Class == "<missing>" || c.Class == "<malformed>" || c.Class == "<unknown-token>"):
			label = "<invalid>"
			cand.Auth = "Bearer unknown-token-0000"
			if c.Class == "<unknown-token>" {
				cand.Auth = ""
			}
		case (kind == "hash" || kind == "root") && notStored[c.Class] && c.Class != "<empty>":
			label = "<not-stored>"
			if c.Class == "<unknown>" {
				set("not-a-hash")
			} else {
				set(altUnknownHash)
			}
		case kind == "url" && (c.Class == "<unregistered>" || c.Class == "<huge>" || c.Class == "<unicode>"):
			label = "<not-registered>"
			if c.Class == "<unregistered>" {
				set("http://例え.テスト/フック")
			} else {
				set("http://alt-unregistered.example/hook")
			}
		case kind == "token" && (c.Class == "<unknown>" || c.Class == "<huge>" || c.Class == "<unicode>"):
			label = "<not-existing>"
			if c.Class == "<unknown>" {
				set("トークン")
			} else {
				set("alt-unknown-token")
			}
		case c.Name == "body" && rt.bodyKind == "hashlist" && strings.HasPrefix(c.Class, "list["):
			var l []string
			if json.NewDecoder(bytes.NewReader(cur.Body)).Decode(&l) != nil { // first document, as the server reads it
				continue
			}
			changed := false
			for i, h := range l {
				if cl, _ := s.hashClass(h); notStored[cl] {
					changed = true
					if cl == "<unknown>" {
						l[i] = "not-a-hash"
					} else {
						l[i] = altUnknownHash
					}
				}
			}
			if !changed {
				continue
			}
			cand.Body = jsonList(l...)
			if s.same(cand, rt, symptom) {
				s.coarseElems = true
				cl, _ := s.bodyClass(cur, rt.bodyKind)
				s.coarseElems = false
				over["body"] = cl
			}
			continue
		default:
			continue
		}
		if s.same(cand, rt, symptom) {
			over[c.Name] = label
		}
	}
}

func ddmin(items []json.RawMessage, test func([]json.RawMessage) bool) []json.RawMessage {
	n := 2
	for len(items) >= 2 {
		chunk := (len(items) + n - 1) / n
		reduced := false
		for i := 0; i < len(items); i += chunk {
			j := i + chunk
			if j > len(items) {
				j = len(items)
			}
			cand := append(append([]json.RawMessage{}, items[:i]...), items[j:]...)
			if len(cand) == 0 {
				continue
			}
			if test(cand) {
				items = cand
				if n > 2 {
					n--
				}
				reduced = true
				break
			}
		}
		if !reduced {
			if n >= len(items) {
				break
			}
			n *= 2
			if n > len(items) {
				n = len(items)
			}
		}
	}
	return items
}

func printable(b []byte) any {
	if len(b) > 4096 {
		return map[string]any{"len": len(b), "head": printable(b[:2048]), "tail_base64": base64.StdEncoding.EncodeToString(b[len(b)-256:])}
	}
	if utf8.Valid(b) && !bytes.ContainsRune(b, 0) {
		return string(b)
	}
	return map[string]any{"base64": base64.StdEncoding.EncodeToString(b)}
}

func reqDetail(q *Req) map[string]any {
	d := map[string]any{"method": q.Method, "target": printable([]byte(q.target())), "pattern": q.Pattern, "authorization": printable([]byte(q.Auth)), "content_type": printable([]byte(q.CT))}
	if q.Body != nil {
		d["body"] = printable(q.Body)
	} else {
		d["body"] = nil
	}
	return d
}

func (s *store) detail(q *Req, rt *routeInfo, res result, ab []string, minReq *Req) map[string]any {
	d := map[string]any{
		"request":  reqDetail(q),
		"classes":  ab,
		"status":   res.status,
		"response": printable(res.body),
		"symptom":  res.symptom,
		"note":     strings.TrimSpace(res.note),
		"store":    map[string]any{"tip": s.tip, "tip_height": s.tipHeight, "genesis": s.genesis, "longest": len(s.longest), "stale": len(s.stale), "orphan": len(s.orphan)},
	}
	if minReq != nil {
		d["minimised_request"] = reqDetail(minReq)
		var l []string
		if rt != nil && rt.bodyKind == "hashlist" && json.NewDecoder(bytes.NewReader(minReq.Body)).Decode(&l) == nil && len(l) <= 8 {
			var els []map[string]any
			for _, h := range l { // what the store holds for each element, walking up to 6 parents
				chain := []string{}
				cur := h
				for i := 0; i < 7; i++ {
					row, ok := s.rows[cur]
					if !ok {
						chain = append(chain, "(not stored)")
						break
					}
					chain = append(chain, fmt.Sprintf("%s height=%d", row.State, row.Height))
					cur = row.Prev
				}
				els = append(els, map[string]any{"hash": h, "self_then_parents": chain})
			}
			d["minimised_list_elements"] = els
		}
	}
	return d
}

func clip(s string, n int) string {
	if len(s) > n {
		return s[:n] + "…"
	}
	return s
}

// ---------------------------------------------------------------------------
// tokens / webhooks: legitimately modified by POST /access, POST|DELETE /webhook, DELETE /access/:token.
// They are put back after every request so that requests stay independent of each other.
// ---------------------------------------------------------------------------

type savedTable struct {
	name string
	cols []string
	rows [][]any
}

func (s *store) saveTable(name string) (savedTable, error) {
	t := savedTable{name: name}
	rows, err := s.st.DB.Queryx("SELECT * FROM " + name)
	if err != nil {
		return t, err
	}
	defer rows.Close()
	t.cols, err = rows.Columns()
	if err != nil {
		return t, err
	}
	for rows.Next() {
		vals, err := rows.SliceScan()
		if err != nil {
			return t, err
		}
		t.rows = append(t.rows, vals)
	}
	return t, rows.Err()
}

func (s *store) restoreTable(t savedTable) error {
	if _, err := s.st.DB.Exec("DELETE FROM " + t.name); err != nil {
		return err
	}
	ph := strings.TrimSuffix(strings.Repeat("?,", len(t.cols)), ",")
	for _, row := range t.rows {
		if _, err := s.st.DB.Exec("INSERT INTO "+t.name+"("+strings.Join(t.cols, ",")+") VALUES("+ph+")", row...); err != nil {
			return err
		}
	}
	return nil
}

func (s *store) auxNow() (string, error) {
	a, _, err := snap.TableDigest(s.st.DB, "tokens")
	if err != nil {
		return "", err
	}
	b, _, err := snap.TableDigest(s.st.DB, "webhooks")
	return a + ":" + b, err
}

// setupAux creates, through the real API, one user token, one active and one inactive webhook.
func (s *store) setupAux() error {
	w := s.st.POST("/api/v1/access", nil)
	var tok struct {
		Token string `json:"token"`
	}
	if w.Code != 200 || json.Unmarshal(w.Body.Bytes(), &tok) != nil || tok.Token == "" {
		return fmt.Errorf("POST /api/v1/access -> %d %s", w.Code, clip(w.Body.String(), 200))
	}
	s.userToken = tok.Token
	s.hookURL = "http://registered.example/hook"
	s.inactiveHookURL = "http://inactive.example/hook"
	for _, u := range []string{s.hookURL, s.inactiveHookURL} {
		w = s.st.POST("/api/v1/webhook", webhookBody(u, "Bearer", "", "secret"))
		if w.Code != 200 {
			return fmt.Errorf("POST /api/v1/webhook -> %d %s", w.Code, clip(w.Body.String(), 200))
		}
	}
	if _, err := s.st.DB.Exec("UPDATE webhooks SET is_active = ?, errors_count = 3 WHERE url = ?", false, s.inactiveHookURL); err != nil {
		return err
	}
	var err error
	if s.auxTokens, err = s.saveTable("tokens"); err != nil {
		return err
	}
	if s.auxHooks, err = s.saveTable("webhooks"); err != nil {
		return err
	}
	s.auxDigest, err = s.auxNow()
	return err
}

func (s *store) restoreAux() {
	d, err := s.auxNow()
	if err == nil && d == s.auxDigest {
		return
	}
	s.r.Count("aux_tables_modified_by_requests", 1)
	if err := s.restoreTable(s.auxTokens); err != nil {
		s.r.Violate("harness|restore-tokens", err.Error(), s.id, nil)
	}
	if err := s.restoreTable(s.auxHooks); err != nil {
		s.r.Violate("harness|restore-webhooks", err.Error(), s.id, nil)
	}
	if d2, _ := s.auxNow(); d2 != s.auxDigest {
		// column values may round-trip differently (timestamps); accept the restored state as the new baseline
		s.auxDigest = d2
	}
}

func contains(xs []string, x string) bool {
	for _, v := range xs {
		if v == x {
			return true
		}
	}
	return false
}

func without(xs []string, x string) []string {
	out := xs[:0:0]
	for _, v := range xs {
		if v != x {
			out = append(out, v)
		}
	}
	return out
}
