package c16

import (
	"bytes"
	"encoding/json"
	"net/http/httptest"
	"sort"
	"strconv"
	"strings"
	"unicode/utf8"

	"github.com/bitcoin-sv/block-headers-service/domains"
	"github.com/bitcoin-sv/block-headers-service/transports/http/endpoints/api/webhook"
	"github.com/gin-gonic/gin/binding"
)

// comp is one component of a request with the coarse class of its value. The class is a
// function of the value (and of what the store holds), never of the generator's intention.
type comp struct {
	Name   string // "hash", "height", "body", "auth", "query" ...
	Class  string
	Normal bool // the value is an ordinary, valid one (a baseline value)
}

func (c comp) String() string { return c.Name + "=" + c.Class }

func isHex(s string) bool {
	for i := 0; i < len(s); i++ {
		c := s[i]
		if !(c >= '0' && c <= '9' || c >= 'a' && c <= 'f' || c >= 'A' && c <= 'F') {
			return false
		}
	}
	return true
}

func isASCII(s string) bool {
	for i := 0; i < len(s); i++ {
		if s[i] >= 0x80 {
			return false
		}
	}
	return true
}

// malformedClass labels a string that is not a 64-digit hex string.
func malformedClass(v string) string {
	switch {
	case v == "":
		return "<empty>"
	case len(v) >= 4096:
		return "<huge>"
	case !isASCII(v) || !utf8.ValidString(v):
		return "<unicode>"
	case !isHex(v):
		return "<non-hex>"
	case len(v) < 64:
		return "<too-short>"
	default:
		return "<too-long>"
	}
}

// hashClass: stored headers by their label, well-formed unknown hashes, malformed strings.
func (s *store) hashClass(v string) (string, bool) {
	if st, ok := s.state[v]; ok {
		return "<" + st + ">", st == "LONGEST"
	}
	if len(v) == 64 && isHex(v) {
		return "<unknown>", false
	}
	return malformedClass(v), false
}

func (s *store) rootClass(v string) (string, bool) {
	if st, ok := s.rootState[v]; ok {
		return "<" + st + "-root>", st == "LONGEST"
	}
	if len(v) == 64 && isHex(v) {
		return "<unknown>", false
	}
	return malformedClass(v), false
}

// intClass: <unparsable> = not a decimal integer that fits 64 bits (missing, empty, text,
// float, hex, exponent, >= 2^63 ...), else by sign and magnitude.
func intClass(v string, present bool) (string, bool) {
	if !present {
		return "<unparsable>", false
	}
	n, err := strconv.ParseInt(v, 10, 64)
	switch {
	case err != nil:
		return "<unparsable>", false
	case n < 0:
		return "<negative>", false
	case n == 0:
		return "<zero>", false
	case n > 2147483647:
		return "<beyond-int32>", false
	case n > 1000000:
		return "<large>", false
	default:
		return "<positive>", true
	}
}

func (s *store) urlClass(v string, present bool) (string, bool) {
	switch {
	case !present || v == "":
		return "<empty>", false
	case v == s.hookURL:
		return "<registered>", true
	case v == s.inactiveHookURL:
		return "<registered-inactive>", false
	case len(v) >= 4096:
		return "<huge>", false
	case !isASCII(v) || !utf8.ValidString(v):
		return "<unicode>", false
	default:
		return "<unregistered>", false
	}
}

func (s *store) tokenClass(v string) (string, bool) {
	switch {
	case v == s.userToken:
		return "<existing>", true
	case v == adminTokenValue:
		return "<admin-token>", false
	case v == "":
		return "<empty>", false
	case len(v) >= 4096:
		return "<huge>", false
	case !isASCII(v) || !utf8.ValidString(v):
		return "<unicode>", false
	default:
		return "<unknown>", false
	}
}

func (s *store) authClass(v string, present bool) (string, bool) {
	switch {
	case !present || v == "":
		return "<missing>", false
	case v == "Bearer "+adminTokenValue:
		return "<admin>", true
	case s.userToken != "" && v == "Bearer "+s.userToken:
		return "<user-token>", false
	}
	parts := strings.Split(v, " ")
	if len(parts) != 2 || parts[0] != "Bearer" {
		return "<malformed>", false
	}
	return "<unknown-token>", false
}

func freeClass(v string) (string, bool) {
	switch {
	case v == "":
		return "<empty>", false
	case len(v) >= 4096:
		return "<huge>", false
	case !isASCII(v) || !utf8.ValidString(v):
		return "<unicode>", false
	default:
		return "<text>", true
	}
}

// ---------------------------------------------------------------------------
// bodies
// ---------------------------------------------------------------------------

func baseContentType(ct string) string {
	for i, c := range ct {
		if c == ' ' || c == ';' {
			return ct[:i]
		}
	}
	return ct
}

// bind runs gin's own binding (the library, not the handlers) on the body to decide whether the
// body can be bound to the endpoint's documented request type under the declared content type.
// It is used for labelling only.
func bind(method, target, ct string, body []byte, jsonOnly bool, obj any) (ok bool) {
	defer func() {
		if recover() != nil {
			ok = false
		}
	}()
	req := httptest.NewRequest(method, target, bytes.NewReader(body)) // form bindings read the query string too
	if ct != "" {
		req.Header.Set("Content-Type", ct)
	}
	var b binding.Binding = binding.JSON
	if !jsonOnly {
		b = binding.Default(method, baseContentType(ct))
	}
	return b.Bind(req, obj) == nil
}

func distinctSorted(xs []string) string {
	set := map[string]bool{}
	for _, x := range xs {
		set[x] = true
	}
	out := make([]string, 0, len(set))
	for x := range set {
		out = append(out, x)
	}
	sort.Strings(out)
	return strings.Join(out, ",")
}

func many(n int) string {
	if n > 8 {
		return "+many"
	}
	return ""
}

// bodyClass labels (content type, body) for a route.
func (s *store) bodyClass(q *Req, kind string) (string, bool) {
	if kind == "" {
		if q.Body == nil {
			return "<none>", true
		}
		return "<unexpected>", false
	}
	body := q.Body
	switch kind {
	case "hashlist":
		var l []string
		if !bind(q.Method, q.target(), q.CT, body, true, &l) {
			return "<unbindable>", false
		}
		if len(l) == 0 {
			return "[]", false
		}
		cl := make([]string, len(l))
		normal := true
		for i, h := range l {
			c, n := s.hashClass(h)
			if s.coarseElems && notStored[c] {
				c = "<not-stored>"
			}
			cl[i] = strings.Trim(c, "<>")
			normal = normal && n
		}
		return "list[" + distinctSorted(cl) + many(len(l)) + "]", normal && len(l) <= 8
	case "merklelist":
		var l []domains.MerkleRootConfirmationRequestItem
		if !bind(q.Method, q.target(), q.CT, body, true, &l) {
			return "<unbindable>", false
		}
		if len(l) == 0 {
			return "[]", false
		}
		cl := make([]string, len(l))
		normal := true
		for i, it := range l {
			c, n := s.rootClass(it.MerkleRoot)
			hc := "height-mismatch"
			if ht, ok := s.rootHeight[it.MerkleRoot]; ok && ht == int64(it.BlockHeight) {
				hc = "height-match"
			} else if int64(it.BlockHeight) > s.tipHeight {
				hc = "height-beyond-tip"
			} else if it.BlockHeight < 0 {
				hc = "height-negative"
			}
			cl[i] = strings.Trim(c, "<>") + "@" + hc
			normal = normal && n && hc == "height-match"
		}
		return "items[" + distinctSorted(cl) + many(len(l)) + "]", normal && len(l) <= 8
	case "webhook":
		var w webhook.Request
		if !bind(q.Method, q.target(), q.CT, body, false, &w) {
			return "<unbindable>", false
		}
		uc, _ := s.urlClass(w.URL, true)
		return "webhook{url=" + uc + "}", uc == "<unregistered>" && isJSONCT(q.CT)
	}
	return "<unexpected>", false
}

func isJSONCT(ct string) bool { return strings.EqualFold(baseContentType(ct), "application/json") }

// firstJSONValues splits a body into the documents a streaming decoder sees; used to decide
// "exactly one JSON value" for RESPONSES (the oracle) — see oracle.go.
func countJSONDocs(b []byte) (docs int, firstVal any, trailingGarbage bool) {
	dec := json.NewDecoder(bytes.NewReader(b))
	dec.UseNumber()
	for {
		var v any
		err := dec.Decode(&v)
		if err != nil {
			if err.Error() == "EOF" {
				return docs, firstVal, false
			}
			return docs, firstVal, true
		}
		if docs == 0 {
			firstVal = v
		}
		docs++
		if docs > 16 {
			return docs, firstVal, false
		}
	}
}
