package c16

import (
	"bytes"
	"encoding/hex"
	"encoding/json"
	"fmt"
	"math/rand"
	"strconv"
	"strings"
)

// ---------------------------------------------------------------------------
// Value grammars. Every generator returns concrete strings; the *class* of a value
// is never taken from the generator's intention but recomputed from the value by
// the classifiers in classify.go, so a mutated value always carries the label of
// what it actually is.
// ---------------------------------------------------------------------------

func pick(rng *rand.Rand, xs []string) string {
	if len(xs) == 0 {
		return ""
	}
	return xs[rng.Intn(len(xs))]
}

func randHex(rng *rand.Rand, n int) string {
	b := make([]byte, (n+1)/2)
	rng.Read(b)
	return hex.EncodeToString(b)[:n]
}

func reverseHexBytes(s string) string {
	b, err := hex.DecodeString(s)
	if err != nil {
		return s
	}
	for i, j := 0, len(b)-1; i < j; i, j = i+1, j-1 {
		b[i], b[j] = b[j], b[i]
	}
	return hex.EncodeToString(b)
}

// storedHash draws a stored hash of a random class.
func (s *store) storedHash(rng *rand.Rand) string {
	switch rng.Intn(8) {
	case 0:
		return s.genesis
	case 1, 2:
		return pick(rng, s.stale)
	case 3:
		return pick(rng, s.orphan)
	case 4:
		if len(s.orphanLinked) > 0 {
			return pick(rng, s.orphanLinked)
		}
		return pick(rng, s.orphan)
	case 5:
		return s.tip
	default:
		return pick(rng, s.longest)
	}
}

// hashValues is the grammar for a block-hash parameter.
func (s *store) hashValues(rng *rand.Rand) []string {
	some := s.storedHash(rng)
	vs := []string{
		// stored
		s.tip, s.genesis, pick(rng, s.longest), pick(rng, s.longest), s.longestAt(1),
		pick(rng, s.stale), pick(rng, s.stale), pick(rng, s.orphan), pick(rng, s.orphan), s.orphanRoot, s.linkedA, s.linkedB,
		// unknown but well formed
		randHex(rng, 64), strings.Repeat("0", 64), strings.Repeat("f", 64),
		// mutated stored hashes
		strings.ToUpper(some), reverseHexBytes(some), some[:63], some[1:], some + "0", some + some,
		some[:31] + "x" + some[32:], " " + some, some + " ", some + "\n", "0x" + some,
		// too short / long
		"a", "ab", randHex(rng, 32), randHex(rng, 65), randHex(rng, 128),
		// non hex
		strings.Repeat("g", 64), "null", "undefined", "true", "-1", "0", "1", "1e400",
		"' OR '1'='1", "\" OR 1=1 --", "%", "_", "%25", "a;DROP TABLE headers;--", "?", "#", "*", "..", ".", "\\",
		"{}", "[]", "<script>", "$1", ":hash", "?1",
		// empty, huge, unicode, control
		"", randHex(rng, 10240), randHex(rng, 50001), strings.Repeat("f", 70000), some[:20] + "%", strings.Repeat("é", 5120),
		"\xff", "\xc3\x28", "\x80" + some[:10], some[:20] + "\xfe\xff", // bytes that are not valid UTF-8 (sent percent-escaped) "ハッシュ", "\U0001F600", "\u202e" + some, "\x00", some[:10] + "\x00" + some[11:],
		"\xff\xfe", "a/b", "/", "//",
		// words that collide with static routes
		"byHeight", "state", "commonAncestor", "ancestor", "longest",
	}
	return vs
}

// rootValues is the grammar for a merkle-root parameter.
func (s *store) rootValues(rng *rand.Rand) []string {
	some := pick(rng, s.rootsLongest)
	return []string{
		s.rootAtTip, s.rootGenesis, pick(rng, s.rootsLongest), pick(rng, s.rootsLongest), pick(rng, s.rootsStale), pick(rng, s.rootsOrphan),
		randHex(rng, 64), strings.Repeat("0", 64), strings.ToUpper(some), reverseHexBytes(some), some[:63], some + "0",
		"", "a", "null", strings.Repeat("g", 64), "' OR '1'='1", "%", randHex(rng, 10240), "ルート", "\x00", "-1", "0",
		"\xff", "\xc3\x28", some[:20] + "\x80", // not valid UTF-8
		randHex(rng, 50001), strings.Repeat("a", 70000), some[:20] + "%", some[:62] + "__", // beyond the database engine's pattern limits; SQL wildcards
		s.tip, // a block hash where a merkle root is expected
	}
}

var intCorners = []string{
	"", "abc", "-1", "-2", "-2147483648", "-2147483649", "0", "-0", "+0", "1", "2", "+5", "2147483646", "2147483647", "2147483648",
	"4294967295", "4294967296", "9223372036854775806", "9223372036854775807", "9223372036854775808", "18446744073709551615", "18446744073709551616",
	"-9223372036854775808", "-9223372036854775809", "1e400", "1e3", "1E3", "1.5", "1.0", ".5", "0x10", "0b1", "0o7", "010", "1_000", "1,000",
	" 7", "7 ", "7\n", "\t7", "٣", "１２", "NaN", "Infinity", "-Infinity", "true", "false", "null", "undefined", "[]", "{}", "--1", "1-", "1;2", "1 OR 1=1",
	"00000000000000000000000000000000000001", "\x00", "é",
}

// intValues is the grammar for an integer parameter. The special value missing means "parameter absent".
const missing = "\x00<missing>\x00"

func (s *store) intValues(rng *rand.Rand) []string {
	vs := []string{missing}
	vs = append(vs, intCorners...)
	vs = append(vs,
		strconv.FormatInt(s.tipHeight, 10), strconv.FormatInt(s.tipHeight+1, 10), strconv.FormatInt(s.tipHeight-1, 10),
		strconv.FormatInt(rng.Int63n(s.tipHeight+1), 10), strconv.FormatInt(rng.Int63(), 10), strconv.FormatInt(-rng.Int63(), 10),
		strings.Repeat("9", 400), strings.Repeat("1", 10240))
	return vs
}

func (s *store) urlValues(rng *rand.Rand) []string {
	return []string{
		missing, "", s.hookURL, s.hookURL, "http://unknown.example/" + randHex(rng, 8), strings.ToUpper(s.hookURL), s.hookURL + "/", " " + s.hookURL,
		"not a url", "::::", "http://", "javascript:alert(1)", "' OR '1'='1", "%", "http://h/" + strings.Repeat("a", 10240), "http://例え.テスト/フック", "\x00", "http://h/\x00",
		"http://h/?a=b&c=d#frag", "null", "0",
	}
}

func (s *store) tokenValues(rng *rand.Rand) []string {
	return []string{
		s.userToken, s.userToken, adminTokenValue, randHex(rng, 32), strings.ToUpper(s.userToken), s.userToken + "x", s.userToken[:len(s.userToken)-1],
		"a", "null", "' OR '1'='1", "%", "_", strings.Repeat("t", 10240), "トークン", "\x00", "a/b", "..", " ",
	}
}

func freeValues(rng *rand.Rand) []string {
	return []string{"index.html", "doc.json", "favicon-16x16.png", "swagger-ui.css", "", "/", "x", "../../etc/passwd", "index.html/extra", "doc.json.bak",
		strings.Repeat("a", 10240), "é", "\x00", randHex(rng, 8), "%", "..", "index.html?", "//index.html"}
}

// ---------------------------------------------------------------------------
// bodies
// ---------------------------------------------------------------------------

func jsonStr(s string) string {
	b, err := json.Marshal(s)
	if err != nil {
		return `""`
	}
	return string(b)
}

func jsonList(xs ...string) []byte {
	var sb bytes.Buffer
	sb.WriteByte('[')
	for i, x := range xs {
		if i > 0 {
			sb.WriteByte(',')
		}
		sb.WriteString(jsonStr(x))
	}
	sb.WriteByte(']')
	return sb.Bytes()
}

func repeatStr(x string, n int) []string {
	out := make([]string, n)
	for i := range out {
		out[i] = x
	}
	return out
}

// syntaxJunk are bodies that are not (one) JSON document, independent of the expected shape.
func syntaxJunk(rng *rand.Rand) [][]byte {
	return [][]byte{
		nil, {}, []byte(" "), []byte("\n"), []byte("["), []byte("{"), []byte("[\"abc\""), []byte("[\"abc\",]"), []byte("{\"url\":"), []byte("{\"url\":\"http://x\""),
		[]byte("not json"), []byte("<xml><url>http://x</url></xml>"), []byte("url=http%3A%2F%2Fx"), []byte("\x00\x01\x02\xff"), []byte("\xef\xbb\xbf[]"),
		[]byte("'single'"), []byte("[1,2,3"), []byte("{\"a\":1,}"), []byte("[\"a\"] [\"b\"]"), []byte("{}{}"), []byte("[]x"), []byte("nul"), []byte("NaN"), []byte("-"),
		[]byte("\"unterminated"), []byte("[\"\\u12\"]"), []byte("[\"\\x\"]"), []byte("/* c */ []"), []byte("// c\n[]"),
		[]byte(strings.Repeat("[", 20000)), []byte(strings.Repeat("[", 5000) + strings.Repeat("]", 5000)), []byte(strings.Repeat("{\"a\":", 5000) + "1" + strings.Repeat("}", 5000)),
		[]byte(randHex(rng, 64)),
	}
}

// wrongTypes are well-formed JSON documents of every type.
func wrongTypes() [][]byte {
	return [][]byte{
		[]byte("null"), []byte("true"), []byte("false"), []byte("0"), []byte("1"), []byte("-1"), []byte("1.5"), []byte("1e400"), []byte("\"\""), []byte("\"string\""),
		[]byte("{}"), []byte("[]"), []byte("[[]]"), []byte("[{}]"), []byte("[null]"), []byte("[1]"), []byte("[1.5]"), []byte("[true]"), []byte("[\"\"]"), []byte("[[\"a\"]]"),
		[]byte("{\"a\":1}"), []byte("{\"\":\"\"}"), []byte("[null,null]"), []byte("{\"url\":null}"), []byte("{\"url\":1}"), []byte("{\"url\":[]}"), []byte("{\"url\":{}}"),
		[]byte(" [ ] "), []byte("[]\n"), []byte("null "),
	}
}

// hashListBodies is the grammar for the body of the common-ancestor endpoint.
func (s *store) hashListBodies(rng *rand.Rand) [][]byte {
	l1, l2 := pick(rng, s.longest), pick(rng, s.longest)
	s1, s2 := pick(rng, s.stale), pick(rng, s.stale)
	o1, o2 := pick(rng, s.orphan), pick(rng, s.orphan)
	unk := randHex(rng, 64)
	all := append(append(append(append([]string{}, s.longest...), s.stale...), s.orphan...), s.orphanLinked...)
	out := [][]byte{
		jsonList(s.tip), jsonList(l1), jsonList(l1, l2), jsonList(s.tip, s1), jsonList(s1, s2), jsonList(s1), jsonList(o1), jsonList(o1, o2), jsonList(s.orphanRoot),
		jsonList(s.orphanRoot, s.orphanRoot2), jsonList(s.linkedA), jsonList(s.linkedA, s.linkedB), jsonList(s.linkedA, s.tip), jsonList(s.linkedB, s1), jsonList(s.linkedA, o1),
		jsonList(s.orphanRoot, o1), jsonList(s.tip, o1), jsonList(s1, o1), jsonList(s.longestAt(1)), jsonList(s.longestAt(1), s.longestAt(2)),
		jsonList(s.genesis), jsonList(s.genesis, s.genesis), jsonList(s.tip, s.genesis), jsonList(s.genesis, s.tip), jsonList(s1, s.genesis), jsonList(o1, s.genesis),
		jsonList(unk), jsonList(s.tip, unk), jsonList(unk, s.tip), jsonList(s.genesis, unk), jsonList(""), jsonList("", ""), jsonList("a"), jsonList(strings.ToUpper(s.tip)),
		jsonList(reverseHexBytes(s.tip)), jsonList(s.tip[:63]), jsonList(s.tip + "0"), jsonList("' OR '1'='1"), jsonList("ハッシュ"), jsonList("\x00"), jsonList(randHex(rng, 10240)),
		jsonList(s.tip, s.tip), jsonList(repeatStr(s.tip, 300)...), jsonList(all...), jsonList(append(all, s.genesis)...), jsonList(append([]string{unk}, all...)...),
		[]byte("[]"), []byte("null"), []byte(" [] "), []byte("[ ]\n"),
		[]byte("[" + jsonStr(s.tip) + ",null]"), []byte("[" + jsonStr(s.tip) + ",1]"), []byte("[" + jsonStr(s.tip) + ",[" + jsonStr(l1) + "]]"),
		[]byte("{\"hashes\":" + string(jsonList(s.tip)) + "}"), []byte(jsonStr(s.tip)),
		[]byte(string(jsonList(s.tip)) + " " + string(jsonList(s.genesis))), []byte(string(jsonList(s.tip)) + "garbage"),
	}
	return out
}

type merkleItem struct {
	root   string
	height string // raw JSON for the height value
}

func merkleBody(items ...merkleItem) []byte {
	var sb bytes.Buffer
	sb.WriteByte('[')
	for i, it := range items {
		if i > 0 {
			sb.WriteByte(',')
		}
		fmt.Fprintf(&sb, `{"merkleRoot":%s,"blockHeight":%s}`, jsonStr(it.root), it.height)
	}
	sb.WriteByte(']')
	return sb.Bytes()
}

// merkleBodies is the grammar for the body of the merkle-root verification endpoint.
func (s *store) merkleBodies(rng *rand.Rand) [][]byte {
	h := func(n int64) string { return strconv.FormatInt(n, 10) }
	rl := pick(rng, s.rootsLongest)
	hl := s.rootHeight[rl]
	rs := pick(rng, s.rootsStale)
	ro := pick(rng, s.rootsOrphan)
	unk := randHex(rng, 64)
	many := make([]merkleItem, 0, 400)
	for i := 0; i < 400; i++ {
		x := pick(rng, s.rootsLongest)
		many = append(many, merkleItem{x, h(s.rootHeight[x])})
	}
	out := [][]byte{
		merkleBody(merkleItem{rl, h(hl)}), merkleBody(merkleItem{rl, h(hl + 1)}), merkleBody(merkleItem{rl, "0"}), merkleBody(merkleItem{rl, "-1"}),
		merkleBody(merkleItem{s.rootGenesis, "0"}), merkleBody(merkleItem{s.rootGenesis, "1"}), merkleBody(merkleItem{s.rootAtTip, h(s.tipHeight)}),
		merkleBody(merkleItem{rs, h(s.rootHeight[rs])}), merkleBody(merkleItem{ro, h(s.rootHeight[ro])}), merkleBody(merkleItem{unk, "1"}),
		merkleBody(merkleItem{unk, h(s.tipHeight + 1)}), merkleBody(merkleItem{unk, h(s.tipHeight + 1000)}), merkleBody(merkleItem{unk, "2147483647"}), merkleBody(merkleItem{unk, "-2147483648"}),
		merkleBody(merkleItem{rl, h(hl)}, merkleItem{rs, h(s.rootHeight[rs])}, merkleItem{unk, h(s.tipHeight + 5)}), merkleBody(merkleItem{rl, h(hl)}, merkleItem{rl, h(hl)}),
		merkleBody(merkleItem{"", "0"}), merkleBody(merkleItem{"", h(hl)}), merkleBody(merkleItem{"' OR '1'='1", "1"}), merkleBody(merkleItem{"ルート", "1"}), merkleBody(merkleItem{"\x00", "1"}),
		merkleBody(merkleItem{randHex(rng, 10240), "1"}), merkleBody(merkleItem{strings.ToUpper(rl), h(hl)}), merkleBody(merkleItem{reverseHexBytes(rl), h(hl)}), merkleBody(many...),
		// boundary shapes that still bind
		[]byte("[]"), []byte("null"), []byte("[{}]"), []byte("[null]"), []byte("[{},{}]"), []byte(`[{"merkleRoot":` + jsonStr(rl) + `}]`), []byte(`[{"blockHeight":1}]`),
		[]byte(`[{"merkleRoot":null,"blockHeight":null}]`), []byte(`[{"merkleRoot":` + jsonStr(rl) + `,"blockHeight":` + h(hl) + `,"extra":[1,2,{"a":null}]}]`),
		[]byte(`[{"merkleRoot":"a","merkleRoot":` + jsonStr(rl) + `,"blockHeight":0,"blockHeight":` + h(hl) + `}]`), []byte(`[{"MERKLEROOT":` + jsonStr(rl) + `,"BLOCKHEIGHT":` + h(hl) + `}]`),
		[]byte(`[{"merkleRoot":` + jsonStr(rl) + `,"blockHeight":1e2}]`), []byte(`[{"merkleRoot":` + jsonStr(rl) + `,"blockHeight":1.0}]`),
		// shapes that cannot be bound
		[]byte(`[{"merkleRoot":` + jsonStr(rl) + `,"blockHeight":2147483648}]`), []byte(`[{"merkleRoot":` + jsonStr(rl) + `,"blockHeight":-2147483649}]`),
		[]byte(`[{"merkleRoot":` + jsonStr(rl) + `,"blockHeight":9223372036854775808}]`), []byte(`[{"merkleRoot":` + jsonStr(rl) + `,"blockHeight":1e400}]`),
		[]byte(`[{"merkleRoot":` + jsonStr(rl) + `,"blockHeight":1.5}]`), []byte(`[{"merkleRoot":` + jsonStr(rl) + `,"blockHeight":"` + h(hl) + `"}]`),
		[]byte(`[{"merkleRoot":` + jsonStr(rl) + `,"blockHeight":true}]`), []byte(`[{"merkleRoot":` + jsonStr(rl) + `,"blockHeight":[1]}]`), []byte(`[{"merkleRoot":` + jsonStr(rl) + `,"blockHeight":{}}]`),
		[]byte(`[{"merkleRoot":1,"blockHeight":1}]`), []byte(`[{"merkleRoot":["a"],"blockHeight":1}]`), []byte(`[{"merkleRoot":{},"blockHeight":1}]`), []byte(`[{"merkleRoot":true}]`),
		[]byte(`[` + jsonStr(rl) + `]`), []byte(`[1]`), []byte(`[[{"merkleRoot":` + jsonStr(rl) + `,"blockHeight":1}]]`), []byte(`{"merkleRoot":` + jsonStr(rl) + `,"blockHeight":` + h(hl) + `}`),
		[]byte(string(merkleBody(merkleItem{rl, h(hl)})) + string(merkleBody(merkleItem{rl, h(hl)}))), []byte(string(merkleBody(merkleItem{rl, h(hl)})) + "garbage"),
	}
	return out
}

func webhookBody(url, authType, header, token string) []byte {
	return []byte(fmt.Sprintf(`{"url":%s,"requiredAuth":{"type":%s,"header":%s,"token":%s}}`, jsonStr(url), jsonStr(authType), jsonStr(header), jsonStr(token)))
}

// webhookBodies is the grammar for the body of webhook registration.
func (s *store) webhookBodies(rng *rand.Rand) [][]byte {
	nu := "http://new.example/" + randHex(rng, 8)
	out := [][]byte{
		webhookBody(nu, "Bearer", "", "tok"), webhookBody(nu, "bearer", "X", "tok"), webhookBody(nu, "BEARER", "", ""), webhookBody(nu, "CustomHeader", "X-Hook", "tok"),
		webhookBody(nu, "", "", ""), webhookBody(s.hookURL, "Bearer", "", "tok"), webhookBody(s.hookURL, "", "", ""), webhookBody(s.inactiveHookURL, "Bearer", "", "tok"),
		webhookBody("", "Bearer", "", "tok"), webhookBody(" ", "", "", ""), webhookBody("not a url", "", "", ""), webhookBody("::::", "x", "y", "z"), webhookBody("' OR '1'='1", "'", "'", "'"),
		webhookBody("http://h/"+strings.Repeat("a", 10240), strings.Repeat("t", 10240), strings.Repeat("h", 10240), strings.Repeat("k", 10240)),
		webhookBody("http://例え.テスト/フック", "ベアラー", "ヘッダー", "トークン"), webhookBody("\x00", "\x00", "\x00", "\x00"), webhookBody(nu, "Bearer", "Bad Header\r\nInjected: 1", "tok\r\n"),
		[]byte(`{"url":` + jsonStr(nu) + `}`), []byte(`{"url":` + jsonStr(nu) + `,"requiredAuth":null}`), []byte(`{"url":` + jsonStr(nu) + `,"requiredAuth":{}}`),
		[]byte(`{"url":` + jsonStr(nu) + `,"requiredAuth":{"type":null,"header":null,"token":null}}`), []byte(`{"url":` + jsonStr(nu) + `,"extra":{"a":[1,2,3]}}`),
		[]byte(`{"url":"http://first.example/","url":` + jsonStr(nu) + `}`), []byte(`{"URL":` + jsonStr(nu) + `}`), []byte(`{"requiredAuth":{"type":"Bearer","token":"t"}}`),
		[]byte(`{}`), []byte(`null`), []byte(`{"url":null}`), []byte(`{"url":""}`),
		// cannot be bound
		[]byte(`{"url":1}`), []byte(`{"url":true}`), []byte(`{"url":["http://x"]}`), []byte(`{"url":{"a":1}}`), []byte(`{"url":` + jsonStr(nu) + `,"requiredAuth":"Bearer tok"}`),
		[]byte(`{"url":` + jsonStr(nu) + `,"requiredAuth":[1]}`), []byte(`{"url":` + jsonStr(nu) + `,"requiredAuth":{"type":1}}`), []byte(`{"url":` + jsonStr(nu) + `,"requiredAuth":{"token":{}}}`),
		[]byte(`[]`), []byte(`[{"url":` + jsonStr(nu) + `}]`), []byte(`"` + nu + `"`), []byte(`1`), []byte(`true`),
		[]byte(string(webhookBody(nu, "Bearer", "", "tok")) + string(webhookBody(nu+"2", "Bearer", "", "tok"))), []byte(string(webhookBody(nu, "Bearer", "", "tok")) + "garbage"),
	}
	return out
}

var contentTypes = []string{
	"application/json", "application/json", "application/json", "application/json; charset=utf-8", "APPLICATION/JSON", "", "text/plain", "application/xml", "text/xml",
	"application/x-www-form-urlencoded", "multipart/form-data", "multipart/form-data; boundary=xyz", "application/x-msgpack", "application/x-protobuf", "application/x-yaml",
	"application/toml", "application/octet-stream", "garbage", ";;;", strings.Repeat("a", 5000) + "/json",
}

// nonJSONBodies are bodies meant for content types other than JSON.
func (s *store) nonJSONBodies(rng *rand.Rand) [][]byte {
	nu := "http://form.example/" + randHex(rng, 8)
	return [][]byte{
		[]byte("url=" + nu), []byte("URL=" + nu), []byte("url=" + nu + "&requiredAuth.type=Bearer"), []byte("url=%zz"), []byte("%zz=1"), []byte("url=a;b"), []byte("a=1&a=2&&&="),
		[]byte("<Request><URL>" + nu + "</URL></Request>"), []byte("<Request><url>" + nu + "</url></Request>"), []byte("<Request><URL>"), []byte("<a></b>"),
		[]byte("--xyz\r\nContent-Disposition: form-data; name=\"url\"\r\n\r\n" + nu + "\r\n--xyz--\r\n"), []byte("--xyz\r\nContent-Disposition: form-data; name=\"url\"\r\n\r\n"),
		[]byte("url: " + nu + "\n"), []byte("url: [\n"), []byte("url = \"" + nu + "\"\n"), []byte("url = \n"), []byte("\x81\xa3url\xa1x"), []byte("\xc1"), []byte("\x0a\x03abc"),
	}
}

// mutate applies one byte-level mutation to a (valid) body.
func mutate(rng *rand.Rand, b []byte) []byte {
	if len(b) == 0 {
		return []byte{byte(rng.Intn(256))}
	}
	out := append([]byte(nil), b...)
	switch rng.Intn(8) {
	case 0: // truncate
		return out[:rng.Intn(len(out))]
	case 1: // delete one byte
		i := rng.Intn(len(out))
		return append(out[:i], out[i+1:]...)
	case 2: // insert a structural byte
		i := rng.Intn(len(out) + 1)
		alphabet := []byte("[]{}\",:\\0-e.nt \x00")
		c := alphabet[rng.Intn(len(alphabet))]
		return append(out[:i], append([]byte{c}, out[i:]...)...)
	case 3: // replace a byte
		out[rng.Intn(len(out))] = byte(rng.Intn(256))
		return out
	case 4: // duplicate a slice
		i := rng.Intn(len(out))
		j := i + rng.Intn(len(out)-i)
		return append(out[:j], append(append([]byte(nil), out[i:j]...), out[j:]...)...)
	case 5: // swap quotes for nothing: strings become barewords
		return bytes.Replace(out, []byte("\""), nil, 1+rng.Intn(3))
	case 6: // a number where a string was
		i := bytes.IndexByte(out, '"')
		if i >= 0 {
			j := bytes.IndexByte(out[i+1:], '"')
			if j >= 0 {
				return append(out[:i], append([]byte(intCorners[rng.Intn(len(intCorners))]), out[i+1+j+1:]...)...)
			}
		}
		return out[:len(out)/2]
	default: // append a second document
		return append(out, out...)
	}
}
