// Package c16: no request crashes the API or earns a 5xx; client errors are structured 4xx.
//
// Runtime monitor over the REAL gin engine (rig: SQLite -> repositories -> services ->
// endpoints.SetupRoutes, default configuration, auth on). For every route of the engine's
// routing table the check sends grammar-generated and mutated path parameters, query strings,
// bodies, content types and credentials, on stores with forks and orphans, and observes:
// status, body (exactly one JSON value, structured 4xx), the headers table digest, and whether
// the engine keeps serving. A twin gin engine with the same route table and dummy handlers
// decides whether a request targets a registered route at all.
package c16

import (
	"fmt"
	"github.com/bitcoin-sv/block-headers-service/config"
	"github.com/bitcoin-sv/block-headers-service/service"
	"math/rand"
	"os"
	"sort"
	"strings"
	"time"

	"github.com/bitcoin-sv/block-headers-service/metrics"
	"github.com/bitcoin-sv/block-headers-service/transports/http/endpoints"
	httpserver "github.com/bitcoin-sv/block-headers-service/transports/http/server"
	"github.com/bitcoin-sv/block-headers-service/verifharness/ev"
	"github.com/bitcoin-sv/block-headers-service/verifharness/gen"
	"github.com/bitcoin-sv/block-headers-service/verifharness/refmodel"
	"github.com/bitcoin-sv/block-headers-service/verifharness/rig"
	"github.com/bitcoin-sv/block-headers-service/verifharness/snap"
	"github.com/gin-gonic/gin"
)

const adminTokenValue = rig.AdminToken

var debugTiming = os.Getenv("C16_DEBUG") != ""

// Spec is the check registration.
func Spec() ev.Spec {
	return ev.Spec{Prop: "C16", Level: "exploration", Workers: -1, Body: body}
}

// store is what the harness knows about the store the requests run against (read back
// through raw SQL after ingesting the history through the real Chains.Add).
type store struct {
	r    *ev.Run
	st   *rig.Stack
	tw   *twin
	id   string
	hist gen.History

	genesis, tip            string
	tipHeight               int64
	longest, stale, orphan  []string // hashes by label (longest sorted by height, without genesis)
	orphanRoot, orphanRoot2 string
	orphanLinked            []string          // ORPHAN-labelled headers below which some parent was stored after its child
	linkedA, linkedB        string            // two of them, from different chains
	state                   map[string]string // hash -> LONGEST | STALE | ORPHAN | genesis
	rootState               map[string]string // merkle root -> label of its header
	rootHeight              map[string]int64
	rootsLongest            []string
	rootsStale, rootsOrphan []string
	rootAtTip, rootGenesis  string
	byHeight                map[int64]string // LONGEST hash at height
	rows                    snap.Headers

	userToken, hookURL, inactiveHookURL string
	digest                              string // headers table digest after ingestion
	auxDigest                           string
	auxTokens, auxHooks                 savedTable

	timing      map[string]time.Duration
	sigCache    map[string]string
	sigCount    map[string]int
	histShown   map[string]bool
	reached     map[string]int
	idx         int
	coarseElems bool            // label list elements that name nothing stored as "not-stored" (set by generalise)
	seen        map[string]bool // (route, class vector, status) triples seen on this store
	corpus      []*Req          // requests that showed a new triple: seeds for novelty-guided mutation
}

func (s *store) longestAt(h int64) string {
	if v, ok := s.byHeight[h]; ok {
		return v
	}
	return s.tip
}

func hdr(prev refmodel.Hash, bits uint32, n uint32) refmodel.Hdr {
	h := refmodel.Hdr{Version: 0x20000000, Prev: prev, Bits: bits, Nonce: n, Time: 1231006505 + n*600}
	for k := range h.Merkle {
		h.Merkle[k] = byte(n>>uint(8*(k%4))) ^ byte(0x5a+k)
	}
	return h
}

// ingest builds a store with forks and orphans through the real Chains.Add.
func (s *store) ingest(rng *rand.Rand) error {
	if err := s.st.Reset(); err != nil {
		return err
	}
	r := s.r
	o := gen.Opts{
		N:        30 + rng.Intn(r.Pick(90, 220)),
		PDup:     0.02,
		PUnknown: []float64{0.03, 0.08, 0.15}[rng.Intn(3)],
		PLate:    []float64{0, 0.05}[rng.Intn(2)],
		PFork:    []float64{0.1, 0.25, 0.5}[rng.Intn(3)],
		Classes:  []string{"M", "MH", "MML"}[rng.Intn(3)],
	}
	s.hist = gen.Random(rng, rig.Genesis(), o)
	// guaranteed material: a fork off genesis, two orphan chains (and below: a main chain of at least four)
	g := rig.Genesis().HashOf()
	f1 := hdr(g, gen.BitsLight, 900011)
	f2 := hdr(f1.HashOf(), gen.BitsLight, 900012)
	var u1, u2 refmodel.Hash
	for k := range u1 {
		u1[k], u2[k] = byte(0xC0+k), byte(0xD0+k)
	}
	o1 := hdr(u1, gen.BitsNormal, 900021)
	o2 := hdr(o1.HashOf(), gen.BitsNormal, 900022)
	p1 := hdr(u2, gen.BitsNormal, 900031)
	p2 := hdr(p1.HashOf(), gen.BitsNormal, 900032)
	// orphans whose parent arrives AFTER them (they stay labelled ORPHAN although their parent is now stored):
	// one chain hanging off the stale fork, one off genesis
	la0 := hdr(f1.HashOf(), gen.BitsLight, 900051)
	la1 := hdr(la0.HashOf(), gen.BitsLight, 900052)
	la2 := hdr(la1.HashOf(), gen.BitsLight, 900053)
	lb0 := hdr(g, gen.BitsLight, 900061)
	lb1 := hdr(lb0.HashOf(), gen.BitsLight, 900062)
	lb2 := hdr(lb1.HashOf(), gen.BitsLight, 900063)
	s.linkedA, s.linkedB = la2.HashOf().String(), lb2.HashOf().String()
	s.hist.Hdrs = append(s.hist.Hdrs, f1, f2, o1, o2, p1, p2, la1, la2, la0, lb1, lb2, lb0)
	stored := 0
	for _, h := range s.hist.Hdrs {
		res := s.st.Add(h)
		if res.Code() == "stored" {
			stored++
		}
	}
	for i := uint32(0); i < 12; i++ {
		if err := s.readBack(); err != nil {
			return err
		}
		var h refmodel.Hdr
		switch {
		case len(s.longest) < 4: // extend the main chain
			tip, ok := refmodel.ParseHash(s.tip)
			if !ok {
				return fmt.Errorf("tip hash %q unparsable", s.tip)
			}
			h = hdr(tip, gen.BitsHeavy, 900001+i)
		case len(s.stale) < 1: // the random part held no fork of the main chain: branch off genesis with little work
			h = hdr(g, gen.BitsLight, 900041+i)
		default:
			i = 99
			continue
		}
		s.hist.Hdrs = append(s.hist.Hdrs, h)
		if s.st.Add(h).Code() == "stored" {
			stored++
		}
	}
	r.Count("headers_ingested", int64(stored))
	if err := s.readBack(); err != nil {
		return err
	}
	if s.state[s.linkedA] != "ORPHAN-late" || s.state[s.linkedB] != "ORPHAN-late" {
		// the store under test re-linked (or refused) the late-parent orphans: fall back to plain orphans
		s.linkedA, s.linkedB = s.orphanRoot, s.orphanRoot2
		r.Count("stores_without_linked_orphans", 1)
	}
	if len(s.longest) < 3 || len(s.stale) < 1 || len(s.orphan) < 2 || s.orphanRoot == "" || s.orphanRoot2 == "" ||
		len(s.rootsLongest) < 1 || len(s.rootsStale) < 1 || len(s.rootsOrphan) < 1 {
		return fmt.Errorf("store lacks material: longest=%d stale=%d orphan=%d", len(s.longest), len(s.stale), len(s.orphan))
	}
	return nil
}

func (s *store) readBack() error {
	t, err := snap.TakeHeaders(s.st.DB)
	if err != nil {
		return err
	}
	s.rows = t
	s.state, s.rootState, s.rootHeight, s.byHeight = map[string]string{}, map[string]string{}, map[string]int64{}, map[int64]string{}
	s.longest, s.stale, s.orphan, s.rootsLongest, s.rootsStale, s.rootsOrphan, s.orphanLinked = nil, nil, nil, nil, nil, nil, nil
	s.tipHeight, s.orphanRoot, s.orphanRoot2 = -1, "", ""
	hashes := make([]string, 0, len(t))
	for h := range t {
		hashes = append(hashes, h)
	}
	sort.Slice(hashes, func(i, j int) bool {
		a, b := t[hashes[i]], t[hashes[j]]
		if a.Height != b.Height {
			return a.Height < b.Height
		}
		return a.Hash < b.Hash
	})
	rootCount := map[string]int{}
	for _, h := range hashes {
		rootCount[t[h].Merkle]++
	}
	for _, h := range hashes {
		row := t[h]
		label := ""
		switch row.State {
		case "LONGEST_CHAIN":
			label = "LONGEST"
			if row.Height == 0 {
				label = "genesis"
				s.genesis = h
				s.rootGenesis = row.Merkle
			} else {
				s.longest = append(s.longest, h)
			}
			s.byHeight[row.Height] = h
			if row.Height > s.tipHeight {
				s.tipHeight, s.tip, s.rootAtTip = row.Height, h, row.Merkle
			}
		case "STALE":
			label = "STALE"
			s.stale = append(s.stale, h)
		case "ORPHAN":
			label = "ORPHAN"
			// an orphan below which some parent was stored AFTER its child (heights do not step by one):
			// the store keeps such chains labelled ORPHAN with heights counted from the late parent's child
			for cur := row; ; {
				p, ok := t[cur.Prev]
				if !ok {
					break
				}
				if cur.Height != p.Height+1 {
					label = "ORPHAN-late"
					break
				}
				cur = p
			}
			if label == "ORPHAN-late" {
				s.orphanLinked = append(s.orphanLinked, h)
				break
			}
			s.orphan = append(s.orphan, h)
			if _, ok := t[row.Prev]; !ok {
				if s.orphanRoot == "" {
					s.orphanRoot = h
				} else if s.orphanRoot2 == "" {
					s.orphanRoot2 = h
				}
			}
		default:
			label = "OTHER"
		}
		s.state[h] = label
		if rootCount[row.Merkle] == 1 {
			s.rootState[row.Merkle] = label
			s.rootHeight[row.Merkle] = row.Height
			switch label {
			case "LONGEST":
				s.rootsLongest = append(s.rootsLongest, row.Merkle)
			case "STALE":
				s.rootsStale = append(s.rootsStale, row.Merkle)
			case "ORPHAN", "ORPHAN-late":
				s.rootsOrphan = append(s.rootsOrphan, row.Merkle)
			}
		}
	}
	if s.genesis == "" || s.tip == "" {
		return fmt.Errorf("store has no genesis / tip")
	}
	d, _, err := snap.TableDigest(s.st.DB, "headers")
	s.digest = d
	return err
}

func body(r *ev.Run) {
	r.Rule("every second worker process runs with metrics.enabled (engine built in cmd/main.go's order: metrics middleware, /metrics); value grammars include strings beyond SQLite's pattern limit (50 001 / 70 000 characters), SQL wildcards and bytes that are not valid UTF-8. requests = for every route of the real engine's routing table: (grid) baseline request with ONE component replaced by every value of its grammar " +
		"(hash / merkle-root / integer / url / token / body / content-type / credentials / extra query), then (random) seeded combinations, byte-mutated bodies and method changes; " +
		"each on a store with forks and orphans ingested through Chains.Add. An evaluation is a request that the twin engine (same route table, dummy handlers) routes to a registered route; " +
		"distinct = distinct (route, vector of coarse parameter classes, status); non-trivial = at least one component outside the ordinary valid class.")
	r.Assume("default configuration (auth on, admin token), SQLite engine, requests served in-process through gin Engine.ServeHTTP (httptest), one request at a time",
		"the JSON well-formedness oracle is Go's encoding/json streaming decoder",
		"routes outside /api/v1 (status, swagger, pprof) are only checked for: no 5xx, engine keeps serving, headers table untouched")
	r.Require("requests_routed", int64(r.Pick(30000, 1000000)))
	r.Require("responses_4xx_structured", 1000)
	r.Require("responses_2xx_json", 1000)
	r.Require("param_hash_STALE", 50)
	r.Require("param_hash_ORPHAN", 50)
	r.Require("param_hash_genesis", 50)
	r.Require("followup_ok", int64(r.Pick(30000, 1000000)))

	// every second worker process runs with metrics.enabled: the engine is then built in cmd/main.go's order (metrics
	// middleware in front of every route, /metrics endpoint)
	metricsOn := r.Worker%2 == 1
	if metricsOn {
		metrics.EnableMetrics()
	}
	// every fourth worker process runs with http.use_auth = false (a supported deployment: no token middleware, admin routes
	// open); what the statement says about answers holds there as well
	authOff := r.Worker%4 == 2
	st, err := rig.New(rig.Options{Dir: r.Scratch, Config: func(c *config.AppConfig) {
		if authOff {
			c.HTTP.UseAuth = false
		}
	}, AfterSvc: func(sv *service.Services, _ *config.AppConfig) {
		sv.Notifier.AddChannel(sv.Webhooks) // as cmd/main.go does: registered webhooks are called when a header is stored
	}})
	if err != nil {
		r.Violate("harness|rig", err.Error(), "", nil)
		return
	}
	defer st.Destroy()
	if authOff {
		r.Count("worker_processes_with_authentication_off", 1)
	}
	if metricsOn {
		srv := httpserver.NewHTTPServer(st.Cfg.HTTP, &st.Log)
		srv.ApplyConfiguration(metrics.Register)
		srv.ApplyConfiguration(endpoints.SetupRoutes(st.Svc, st.Cfg.HTTP))
		srv.ApplyConfiguration(func(en *gin.Engine) { st.Engine = en })
		r.Count("worker_processes_with_metrics_enabled", 1)
	}
	tw := newTwin(st.Engine)
	nStores := r.Pick(32, 160)
	perStore := r.Pick(2000, 12500)
	for _, rt := range tw.routes {
		r.Require("reached "+rt.key(), 1)
	}
	for k := 0; k < nStores; k++ {
		id := fmt.Sprintf("s%d", k)
		if !r.MineIdx(id, k) {
			continue
		}
		r.Exec(id, func() {
			s := &store{r: r, st: st, tw: tw, id: id, idx: k, seen: map[string]bool{}, sigCache: map[string]string{}, timing: map[string]time.Duration{}, sigCount: map[string]int{}, histShown: map[string]bool{}, reached: map[string]int{}}
			if err := s.ingest(r.Rand(id + "/history")); err != nil {
				r.Violate("harness|store", err.Error(), id, nil)
				return
			}
			if err := s.setupAux(); err != nil {
				r.Violate("harness|aux", err.Error(), id, nil)
				return
			}
			r.Count("stores", 1)
			r.Count("stale_headers_in_stores", int64(len(s.stale)))
			r.Count("orphan_headers_in_stores", int64(len(s.orphan)))
			r.Count("linked_orphan_headers_in_stores", int64(len(s.orphanLinked)))
			s.run(perStore)
			s.headerAfterwards()
		})
	}
}

// headerAfterwards: "no request crashes the process" includes what a request leaves behind. A webhook whose target cannot
// be reached is registered (through the API, in setupAux); once the requests are done a new header is ingested and announced:
// the call to that webhook fails in the notifier's own goroutine - the process must survive it and keep serving.
func (s *store) headerAfterwards() {
	if s.r.Only != "" && s.r.Only != s.id {
		return
	}
	tip, ok := refmodel.ParseHash(s.tip)
	if !ok {
		return
	}
	var before int
	_ = s.st.DB.Get(&before, "SELECT errors_count FROM webhooks WHERE url = ?", s.hookURL)
	res := s.st.Add(hdr(tip, gen.BitsHeavy, uint32(950001+s.idx)))
	if res.Panic != nil {
		s.r.Violate("panic|ingest-after-requests", fmt.Sprintf("Chains.Add panicked after the requests of this store: %v", res.Panic), s.id, map[string]any{"stack": res.Stack})
		return
	}
	if res.Err != nil {
		s.r.Count("header_after_the_requests_not_stored", 1)
		return
	}
	// the notification runs in goroutines of its own: wait until the outcome of the failed call has been recorded
	recorded := false
	for i := 0; i < 300 && !recorded; i++ {
		var now int
		if s.st.DB.Get(&now, "SELECT errors_count FROM webhooks WHERE url = ?", s.hookURL) == nil && now != before {
			recorded = true
			break
		}
		time.Sleep(10 * time.Millisecond)
	}
	s.r.Count("headers_announced_to_an_unreachable_webhook_after_the_requests", 1)
	if recorded {
		s.r.Count("failed_webhook_calls_recorded_after_the_requests", 1)
	}
	if w := s.st.GET("/status"); w.Code != 200 {
		s.r.Violate("engine-not-serving|after-announcing-to-an-unreachable-webhook", fmt.Sprintf("GET /status -> %d after a header was announced to a webhook whose target cannot be reached", w.Code), s.id, nil)
	}
}

// want: which cases execute under a replay filter. Replaying a random-phase case re-executes the whole
// store run up to that case, because the novelty corpus it may draw from is built by the earlier cases.
func (s *store) want(caseID string) bool {
	o := s.r.Only
	return o == "" || o == caseID || strings.HasPrefix(o, caseID+"/") || o == s.id || strings.HasPrefix(o, s.id+"/r")
}

// reports: under a replay filter only the wanted case reports.
func (s *store) reports(caseID string) bool {
	o := s.r.Only
	return o == "" || o == caseID || o == s.id
}

// gridHere decides which routes get their full grid on this store: API routes on every second
// store (alternating), routes outside the API on every fourth, the sleeping pprof routes on every eighth.
func (s *store) gridHere(i int, rt *routeInfo) bool {
	switch {
	case rt.slow:
		return s.idx%8 == 0
	case !rt.api:
		return s.idx%4 == 0
	default:
		return (i+s.idx)%2 == 0
	}
}

// run executes the grids and then random / novelty-guided requests until the per-store budget is used.
func (s *store) run(budget int) {
	r := s.r
	routes := s.tw.routes
	n := 0
	for i, rt := range routes {
		rng := r.Rand(s.id + "/grid/" + rt.key())
		reqs := s.grid(rng, rt)
		if !s.gridHere(i, rt) {
			reqs = reqs[:1] // the baseline request only
		}
		for k, q := range reqs {
			caseID := fmt.Sprintf("%s/g%d.%d", s.id, i, k)
			n++
			if s.want(caseID) {
				t0 := time.Now()
				s.evaluate(caseID, q)
				if debugTiming {
					s.timing[rt.key()] += time.Since(t0)
				}
			}
		}
	}
	if debugTiming { // development aid only (C16_DEBUG=1): where does the wall time go
		for k, v := range s.timing {
			fmt.Fprintf(os.Stderr, "timing %-50s %8.1f ms\n", k, float64(v.Microseconds())/1000)
		}
		fmt.Fprintf(os.Stderr, "grid size %d\n", n)
	}
	r.Count("grid_requests", int64(n))
	defer func() {
		if debugTiming {
			hist := map[string]int{}
			for shape := range s.seen {
				parts := strings.Split(shape, "|")
				hist[parts[0]+" -> "+parts[len(parts)-1]]++
			}
			keys := make([]string, 0, len(hist))
			for k := range hist {
				keys = append(keys, k)
			}
			sort.Strings(keys)
			for _, k := range keys {
				fmt.Fprintf(os.Stderr, "shapes %-60s %d\n", k, hist[k])
			}
		}
	}()
	weights := make([]int, len(routes))
	total := 0
	for i, rt := range routes {
		weights[i] = rt.weight()
		total += weights[i]
	}
	for i := 0; n < budget; i++ {
		caseID := fmt.Sprintf("%s/r%d", s.id, i)
		n++
		// the corpus evolves with the run, so a replay re-executes the random phase up to the wanted case
		if r.Only != "" && !(strings.HasPrefix(r.Only, s.id+"/r") || r.Only == s.id) {
			break
		}
		rng := r.Rand(caseID)
		var q *Req
		if len(s.corpus) > 0 && rng.Intn(100) < 35 {
			q = s.mutateReq(rng, s.corpus[rng.Intn(len(s.corpus))])
			r.Count("novelty_guided_requests", 1)
		} else {
			x := rng.Intn(total)
			k := 0
			for x >= weights[k] {
				x -= weights[k]
				k++
			}
			q = s.random(rng, routes[k])
		}
		s.evaluate(caseID, q)
		if r.Only == caseID {
			break
		}
	}
}
