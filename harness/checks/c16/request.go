package c16

import (
	"math/rand"
	"net/url"
	"sort"
	"strings"

	"github.com/gin-gonic/gin"
)

type kv struct{ K, V string }

// Req is a request in component form; target() renders it.
type Req struct {
	Method  string
	Pattern string            // gin route pattern
	Path    map[string]string // path parameter values (unescaped)
	Query   []kv
	RawQ    string // raw query text appended verbatim (must be free of spaces/controls)
	Body    []byte // nil: no body
	CT      string
	Auth    string // Authorization header value, "" = absent
}

func (q *Req) clone() *Req {
	c := *q
	c.Path = map[string]string{}
	for k, v := range q.Path {
		c.Path[k] = v
	}
	c.Query = append([]kv(nil), q.Query...)
	if q.Body != nil {
		c.Body = append([]byte{}, q.Body...)
	}
	return &c
}

func (q *Req) key() string { return q.Method + " " + q.Pattern }

func escapeKeepSlash(v string) string {
	parts := strings.Split(v, "/")
	for i, p := range parts {
		parts[i] = url.PathEscape(p)
	}
	return strings.Join(parts, "/")
}

func (q *Req) target() string {
	segs := strings.Split(q.Pattern, "/")
	for i, sg := range segs {
		switch {
		case strings.HasPrefix(sg, ":"):
			segs[i] = url.PathEscape(q.Path[sg[1:]])
		case strings.HasPrefix(sg, "*"):
			segs[i] = escapeKeepSlash(strings.TrimPrefix(q.Path[sg[1:]], "/"))
		}
	}
	t := strings.Join(segs, "/")
	var qs []string
	for _, p := range q.Query {
		qs = append(qs, url.QueryEscape(p.K)+"="+url.QueryEscape(p.V))
	}
	if q.RawQ != "" {
		qs = append(qs, q.RawQ)
	}
	if len(qs) > 0 {
		t += "?" + strings.Join(qs, "&")
	}
	return t
}

func (q *Req) getQuery(name string) (string, bool) {
	for _, p := range q.Query {
		if p.K == name {
			return p.V, true
		}
	}
	return "", false
}

func (q *Req) setQuery(name, v string) {
	out := q.Query[:0:0]
	for _, p := range q.Query {
		if p.K != name {
			out = append(out, p)
		}
	}
	if v != missing {
		out = append(out, kv{name, v})
	}
	q.Query = out
}

// ---------------------------------------------------------------------------
// route table
// ---------------------------------------------------------------------------

type qspec struct {
	name, kind string // kind: int | root | url
	optional   bool
}

type routeInfo struct {
	Method, Pattern string
	params          []string // path parameter names in order
	query           []qspec
	bodyKind        string // "" | hashlist | merklelist | webhook
	api             bool
	slow            bool // pprof profile / trace: only a handful of requests
}

func (rt *routeInfo) key() string { return rt.Method + " " + rt.Pattern }

func (rt *routeInfo) weight() int {
	switch {
	case rt.slow:
		return 0
	case !rt.api:
		return 1
	case len(rt.params)+len(rt.query) > 0 || rt.bodyKind != "":
		return 40
	default:
		return 6
	}
}

// known query parameters / bodies of the routes (anything not listed is fuzzed generically).
var knownQuery = map[string][]qspec{
	"GET /api/v1/chain/header/byHeight": {{"height", "int", false}, {"count", "int", true}},
	"GET /api/v1/chain/merkleroot":      {{"batchSize", "int", true}, {"lastEvaluatedKey", "root", true}},
	"GET /api/v1/webhook":               {{"url", "url", false}},
	"DELETE /api/v1/webhook":            {{"url", "url", false}},
}

var knownBody = map[string]string{
	"POST /api/v1/chain/header/commonAncestor": "hashlist",
	"POST /api/v1/chain/merkleroot/verify":     "merklelist",
	"POST /api/v1/webhook":                     "webhook",
}

func newRouteInfo(method, pattern string) *routeInfo {
	rt := &routeInfo{Method: method, Pattern: pattern}
	for _, sg := range strings.Split(pattern, "/") {
		if strings.HasPrefix(sg, ":") || strings.HasPrefix(sg, "*") {
			rt.params = append(rt.params, sg[1:])
		}
	}
	rt.api = strings.HasPrefix(pattern, "/api/v1/") || pattern == "/api/v1"
	rt.query = knownQuery[rt.key()]
	rt.bodyKind = knownBody[rt.key()]
	if strings.HasPrefix(pattern, "/pprof/") {
		rt.query = []qspec{{"seconds", "int", true}, {"debug", "int", true}, {"gc", "int", true}}
		rt.slow = strings.HasSuffix(pattern, "/profile") || strings.HasSuffix(pattern, "/trace")
	}
	if rt.api && rt.query == nil && len(rt.params) == 0 && rt.bodyKind == "" {
		// parameterless (or unknown) API route: offer it every known query name, all optional
		rt.query = nil
	}
	return rt
}

func paramKind(name string) string {
	l := strings.ToLower(name)
	switch {
	case strings.Contains(l, "hash"):
		return "hash"
	case strings.Contains(l, "token"):
		return "token"
	case strings.Contains(l, "height") || strings.Contains(l, "count") || strings.Contains(l, "size"):
		return "int"
	default:
		return "free"
	}
}

// ---------------------------------------------------------------------------
// twin engine
// ---------------------------------------------------------------------------

type twin struct {
	engine *gin.Engine
	routes []*routeInfo
	byKey  map[string]*routeInfo
	hit    *twinHit
}

type twinHit struct {
	pattern string
	params  map[string]string
}

func newTwin(real *gin.Engine) *twin {
	t := &twin{engine: gin.New(), byKey: map[string]*routeInfo{}}
	t.engine.RedirectTrailingSlash = real.RedirectTrailingSlash
	t.engine.RedirectFixedPath = real.RedirectFixedPath
	t.engine.HandleMethodNotAllowed = real.HandleMethodNotAllowed
	t.engine.UseRawPath = real.UseRawPath
	t.engine.UnescapePathValues = real.UnescapePathValues
	t.engine.RemoveExtraSlash = real.RemoveExtraSlash
	for _, ri := range real.Routes() {
		rt := newRouteInfo(ri.Method, ri.Path)
		t.routes = append(t.routes, rt)
		t.byKey[rt.key()] = rt
		t.engine.Handle(ri.Method, ri.Path, func(c *gin.Context) {
			h := &twinHit{pattern: c.FullPath(), params: map[string]string{}}
			for _, p := range c.Params {
				h.params[p.Key] = p.Value
			}
			t.hit = h
			c.Status(299)
		})
	}
	sort.Slice(t.routes, func(i, j int) bool { return t.routes[i].key() < t.routes[j].key() })
	return t
}

// ---------------------------------------------------------------------------
// baselines, grid, random
// ---------------------------------------------------------------------------

const baselineNewHook = "http://baseline-new.example/hook"

func (s *store) baselineParam(name string) string {
	switch paramKind(name) {
	case "hash":
		if strings.HasPrefix(strings.ToLower(name), "ancestor") {
			return s.longestAt(1)
		}
		return s.tip
	case "token":
		return s.userToken
	case "int":
		return "1"
	default:
		return "index.html"
	}
}

func (s *store) baselineQuery(sp qspec) string {
	if sp.optional {
		return missing
	}
	switch sp.kind {
	case "int":
		return "1"
	case "url":
		return s.hookURL
	default:
		return missing
	}
}

func (s *store) baselineBody(kind string) ([]byte, string) {
	switch kind {
	case "hashlist":
		return jsonList(s.tip, s.longestAt(1)), "application/json"
	case "merklelist":
		rt := s.rootsLongest[0]
		return merkleBody(merkleItem{rt, itoa(s.rootHeight[rt])}), "application/json"
	case "webhook":
		return webhookBody(baselineNewHook, "Bearer", "", "tok"), "application/json"
	}
	return nil, ""
}

func (s *store) baseline(rt *routeInfo) *Req {
	q := &Req{Method: rt.Method, Pattern: rt.Pattern, Path: map[string]string{}, Auth: "Bearer " + adminTokenValue}
	for _, p := range rt.params {
		q.Path[p] = s.baselineParam(p)
	}
	for _, sp := range rt.query {
		q.setQuery(sp.name, s.baselineQuery(sp))
	}
	q.Body, q.CT = s.baselineBody(rt.bodyKind)
	return q
}

func (s *store) paramValues(rng *rand.Rand, kind string) []string {
	switch kind {
	case "hash":
		return s.hashValues(rng)
	case "token":
		return s.tokenValues(rng)
	case "int":
		return s.intValues(rng)
	case "root":
		return append([]string{missing}, s.rootValues(rng)...)
	case "url":
		return s.urlValues(rng)
	default:
		return freeValues(rng)
	}
}

func (s *store) authValues(rng *rand.Rand) []string {
	return []string{"", "Bearer", "Bearer ", "Bearer  " + adminTokenValue, "bearer " + adminTokenValue, "Token " + adminTokenValue, adminTokenValue, "Bearer a b",
		"Bearer " + randHex(rng, 32), "Bearer " + s.userToken, "Bearer " + strings.ToUpper(adminTokenValue), "Bearer " + strings.Repeat("x", 10240),
		"Bearer ' OR '1'='1", "Bearer トークン", "Basic dXNlcjpwYXNz", "Bearer " + adminTokenValue + "\t"}
}

var fullAuthGrid = map[string]bool{"GET /api/v1/chain/tip/longest": true, "GET /api/v1/access": true, "POST /api/v1/access": true, "DELETE /api/v1/access/:token": true}

var rawQueries = []string{"foo=bar", "height", "height=", "=1", "&&&", "a=1;b=2", "%zz", "height=%zz", "url=%", "height[]=1", "height=1&height=abc", "count=1&count=-1",
	"x=" + strings.Repeat("y", 10240), "%00", "?", "batchSize=5&batchSize=abc", "debug=2", "lastEvaluatedKey", "a=%F0%9F%98%80"}

func (s *store) bodyValues(rng *rand.Rand, kind string) [][]byte {
	switch kind {
	case "hashlist":
		return s.hashListBodies(rng)
	case "merklelist":
		return s.merkleBodies(rng)
	case "webhook":
		return s.webhookBodies(rng)
	}
	return nil
}

func (s *store) bigBody(rng *rand.Rand, kind string, n int) []byte {
	switch kind {
	case "hashlist":
		xs := make([]string, n)
		for i := range xs {
			switch rng.Intn(4) {
			case 0:
				xs[i] = randHex(rng, 64)
			default:
				xs[i] = s.storedHash(rng)
			}
		}
		if rng.Intn(2) == 0 { // keep genesis / unknown out of half of them so the whole list is processed
			for i := range xs {
				xs[i] = pick(rng, s.longest)
			}
		}
		return jsonList(xs...)
	case "merklelist":
		its := make([]merkleItem, n)
		for i := range its {
			x := pick(rng, s.rootsLongest)
			its[i] = merkleItem{x, itoa(s.rootHeight[x] + int64(rng.Intn(2)))}
		}
		return merkleBody(its...)
	}
	return []byte("[" + strings.Repeat("\"a\",", n) + "\"a\"]")
}

// grid: the baseline request, then the baseline with ONE component replaced by each grammar value.
func (s *store) grid(rng *rand.Rand, rt *routeInfo) []*Req {
	base := s.baseline(rt)
	out := []*Req{base}
	thin := func(n int) int { // routes outside the API get a thinned grid
		if rt.api {
			return 1
		}
		if rt.slow {
			return n
		}
		return 6
	}
	if rt.slow {
		for _, v := range []string{missing, "1", "0", "-1", "abc", "9223372036854775808"} {
			q := base.clone()
			q.setQuery("seconds", v)
			out = append(out, q)
		}
		return out
	}
	for _, p := range rt.params {
		vs := s.paramValues(rng, paramKind(p))
		for i := 0; i < len(vs); i += thin(len(vs)) {
			if vs[i] == missing {
				continue
			}
			q := base.clone()
			q.Path[p] = vs[i]
			out = append(out, q)
		}
	}
	for _, sp := range rt.query {
		vs := s.paramValues(rng, sp.kind)
		for i := 0; i < len(vs); i += thin(len(vs)) {
			q := base.clone()
			q.setQuery(sp.name, vs[i])
			out = append(out, q)
		}
	}
	if !rt.api {
		return out
	}
	auths := s.authValues(rng)
	if !fullAuthGrid[rt.key()] { // the credential check is one middleware shared by all API routes
		auths = []string{"", "Bearer " + randHex(rng, 32), "Bearer " + s.userToken, "Token " + adminTokenValue}
	}
	for _, a := range auths {
		q := base.clone()
		q.Auth = a
		out = append(out, q)
	}
	raws := rawQueries
	if len(rt.query) == 0 {
		raws = []string{"foo=bar", "%zz", "height=abc&count=-1&url=&batchSize=x", "x=" + strings.Repeat("y", 10240)}
	}
	for _, rq := range raws {
		q := base.clone()
		q.RawQ = rq
		out = append(out, q)
	}
	if rt.bodyKind != "" {
		for _, b := range s.bodyValues(rng, rt.bodyKind) {
			q := base.clone()
			q.Body = b
			out = append(out, q)
		}
		for _, b := range syntaxJunk(rng) {
			q := base.clone()
			q.Body = b
			out = append(out, q)
		}
		for _, b := range wrongTypes() {
			q := base.clone()
			q.Body = b
			out = append(out, q)
		}
		cts := contentTypes
		alt := []string{"application/x-www-form-urlencoded", "application/xml", "multipart/form-data; boundary=xyz", ""}
		if rt.bodyKind != "webhook" { // only webhook registration binds by content type
			cts = []string{"", "text/plain", "application/xml", "application/x-www-form-urlencoded"}
			alt = []string{"application/x-www-form-urlencoded"}
		}
		for _, ct := range cts {
			q := base.clone()
			q.CT = ct
			out = append(out, q)
			q2 := base.clone()
			q2.CT = ct
			q2.Body = []byte("not json")
			out = append(out, q2)
		}
		for i, b := range s.nonJSONBodies(rng) {
			for j, ct := range alt {
				if rt.bodyKind != "webhook" && (i+j)%4 != 0 {
					continue
				}
				q := base.clone()
				q.Body, q.CT = b, ct
				out = append(out, q)
			}
		}
		// absurd lengths, around the sizes at which lists get paged or capped (2000 / 2001) and beyond
		for _, n := range []int{2000, 2001, s.r.Pick(2600, 8000)} {
			q := base.clone()
			q.Body = s.bigBody(rng, rt.bodyKind, n)
			out = append(out, q)
		}
	} else {
		// a body where none is expected
		for _, b := range [][]byte{[]byte("{}"), []byte("not json"), jsonList(s.tip)} {
			q := base.clone()
			q.Body, q.CT = b, "application/json"
			out = append(out, q)
		}
	}
	// other methods on the same path
	for _, m := range []string{"GET", "POST", "PUT", "DELETE", "PATCH", "HEAD", "OPTIONS"} {
		if m != rt.Method {
			q := base.clone()
			q.Method = m
			out = append(out, q)
		}
	}
	return out
}

// random: every component independently ordinary or drawn from its grammar; bodies also byte-mutated.
func (s *store) random(rng *rand.Rand, rt *routeInfo) *Req {
	q := s.baseline(rt)
	for _, p := range rt.params {
		if rng.Intn(10) < 6 {
			vs := s.paramValues(rng, paramKind(p))
			v := vs[rng.Intn(len(vs))]
			if v != missing {
				q.Path[p] = v
			}
		} else if paramKind(p) == "hash" {
			q.Path[p] = s.storedHash(rng)
		}
	}
	for _, sp := range rt.query {
		if rng.Intn(10) < 6 {
			vs := s.paramValues(rng, sp.kind)
			q.setQuery(sp.name, vs[rng.Intn(len(vs))])
		} else if sp.kind == "int" && rng.Intn(2) == 0 {
			q.setQuery(sp.name, itoa(rng.Int63n(s.tipHeight+3)))
		}
	}
	if !rt.api {
		return q
	}
	if rng.Intn(100) < 6 {
		a := s.authValues(rng)
		q.Auth = a[rng.Intn(len(a))]
	}
	if rng.Intn(100) < 8 {
		q.RawQ = rawQueries[rng.Intn(len(rawQueries))]
	}
	if rt.bodyKind != "" {
		vals := s.bodyValues(rng, rt.bodyKind)
		switch x := rng.Intn(100); {
		case x < 40:
			q.Body = vals[rng.Intn(len(vals))]
		case x < 70:
			q.Body = mutate(rng, vals[rng.Intn(len(vals))])
			if rng.Intn(3) == 0 {
				q.Body = mutate(rng, q.Body)
			}
		case x < 78:
			j := syntaxJunk(rng)
			q.Body = j[rng.Intn(len(j))]
		case x < 86:
			w := wrongTypes()
			q.Body = w[rng.Intn(len(w))]
		case x < 88:
			q.Body = s.bigBody(rng, rt.bodyKind, 200+rng.Intn(s.r.Pick(800, 3000)))
		}
		p := 8
		if rt.bodyKind == "webhook" {
			p = 30
		}
		if rng.Intn(100) < p {
			q.CT = contentTypes[rng.Intn(len(contentTypes))]
			if rng.Intn(2) == 0 {
				nb := s.nonJSONBodies(rng)
				q.Body = nb[rng.Intn(len(nb))]
			}
		}
	} else if rng.Intn(100) < 4 {
		q.Body, q.CT = []byte("{\"a\":1}"), "application/json"
	}
	if rng.Intn(100) < 2 {
		q.Method = []string{"GET", "POST", "PUT", "DELETE", "PATCH", "HEAD", "OPTIONS"}[rng.Intn(7)]
	}
	return q
}

// normalise replaces one component by its baseline value.
func (s *store) normalise(q *Req, rt *routeInfo, name string) {
	switch name {
	case "auth":
		q.Auth = "Bearer " + adminTokenValue
		return
	case "query":
		q.RawQ = ""
		seen := map[string]bool{}
		out := q.Query[:0:0]
		for _, p := range q.Query {
			known := false
			for _, sp := range rt.query {
				known = known || sp.name == p.K
			}
			if known && !seen[p.K] {
				out = append(out, p)
				seen[p.K] = true
			}
		}
		q.Query = out
		return
	case "body":
		q.Body, q.CT = s.baselineBody(rt.bodyKind)
		return
	}
	for _, p := range rt.params {
		if p == name {
			q.Path[p] = s.baselineParam(p)
			return
		}
	}
	for _, sp := range rt.query {
		if sp.name == name {
			q.setQuery(sp.name, s.baselineQuery(sp))
			return
		}
	}
}

// classify labels every component of a (canonical) request.
func (s *store) classify(q *Req, rt *routeInfo) []comp {
	var out []comp
	ac, an := s.authClass(q.Auth, q.Auth != "")
	if rt.api {
		out = append(out, comp{"auth", ac, an})
	}
	for _, p := range rt.params {
		v := q.Path[p]
		var c string
		var n bool
		switch paramKind(p) {
		case "hash":
			c, n = s.hashClass(v)
		case "token":
			c, n = s.tokenClass(v)
		case "int":
			c, n = intClass(v, true)
		default:
			c, n = freeClass(v)
		}
		out = append(out, comp{p, c, n})
	}
	extra := q.RawQ != ""
	seen := map[string]bool{}
	for _, p := range q.Query {
		known := false
		for _, sp := range rt.query {
			known = known || sp.name == p.K
		}
		if !known || seen[p.K] {
			extra = true
		}
		seen[p.K] = true
	}
	for _, sp := range rt.query {
		v, present := q.getQuery(sp.name)
		var c string
		var n bool
		if !present && sp.optional {
			out = append(out, comp{sp.name, "<absent>", true})
			continue
		}
		switch sp.kind {
		case "int":
			c, n = intClass(v, present)
		case "root":
			c, n = s.rootClass(v)
		case "url":
			c, n = s.urlClass(v, present)
		}
		out = append(out, comp{sp.name, c, n})
	}
	if extra {
		out = append(out, comp{"query", "<extra-params>", false})
	}
	bc, bn := s.bodyClass(q, rt.bodyKind)
	out = append(out, comp{"body", bc, bn})
	return out
}

func itoa(n int64) string {
	neg := n < 0
	if neg {
		n = -n
	}
	if n == 0 {
		return "0"
	}
	var b [24]byte
	i := len(b)
	for n > 0 {
		i--
		b[i] = byte('0' + n%10)
		n /= 10
	}
	if neg {
		i--
		b[i] = '-'
	}
	return string(b[i:])
}

// mutateReq: novelty-guided step — take a request that showed a new (route, classes, status) triple
// and change one or two of its components (grammar value, or a byte-level mutation of the body).
func (s *store) mutateReq(rng *rand.Rand, seed *Req) *Req {
	q := seed.clone()
	rt := s.tw.byKey[q.key()]
	if rt == nil {
		return q
	}
	for n := 1 + rng.Intn(2); n > 0; n-- {
		var slots []string
		for _, p := range rt.params {
			slots = append(slots, "p:"+p)
		}
		for _, sp := range rt.query {
			slots = append(slots, "q:"+sp.name)
		}
		if rt.bodyKind != "" {
			slots = append(slots, "body", "body", "ct")
		}
		slots = append(slots, "auth", "raw")
		switch sl := slots[rng.Intn(len(slots))]; {
		case strings.HasPrefix(sl, "p:"):
			vs := s.paramValues(rng, paramKind(sl[2:]))
			if v := vs[rng.Intn(len(vs))]; v != missing {
				q.Path[sl[2:]] = v
			}
		case strings.HasPrefix(sl, "q:"):
			for _, sp := range rt.query {
				if sp.name == sl[2:] {
					vs := s.paramValues(rng, sp.kind)
					q.setQuery(sp.name, vs[rng.Intn(len(vs))])
				}
			}
		case sl == "body":
			if rng.Intn(3) == 0 {
				vals := s.bodyValues(rng, rt.bodyKind)
				q.Body = vals[rng.Intn(len(vals))]
			} else {
				q.Body = mutate(rng, q.Body)
			}
		case sl == "ct":
			q.CT = contentTypes[rng.Intn(len(contentTypes))]
		case sl == "auth":
			if rng.Intn(4) == 0 {
				a := s.authValues(rng)
				q.Auth = a[rng.Intn(len(a))]
			}
		case sl == "raw":
			if rng.Intn(3) == 0 {
				q.RawQ = rawQueries[rng.Intn(len(rawQueries))]
			}
		}
	}
	return q
}
