// Package c08: merkle-root listing pages cover the longest chain exactly once, in order.
package c08

import (
	"errors"
	"fmt"
	"math"
	"math/rand"
	"net/url"
	"strings"

	"github.com/bitcoin-sv/block-headers-service/verifharness/deco"
	"github.com/bitcoin-sv/block-headers-service/verifharness/ev"
	"github.com/bitcoin-sv/block-headers-service/verifharness/gen"
	"github.com/bitcoin-sv/block-headers-service/verifharness/mb"
	"github.com/bitcoin-sv/block-headers-service/verifharness/refmodel"
	"github.com/bitcoin-sv/block-headers-service/verifharness/rig"
)

// Spec registers the check.
func Spec() ev.Spec {
	return ev.Spec{Prop: "C08", Level: "exploration", Workers: -1, Body: body}
}

type entry struct {
	MerkleRoot  string `json:"merkleRoot"`
	BlockHeight int64  `json:"blockHeight"`
}

type page struct {
	Content []entry `json:"content"`
	Page    struct {
		TotalElements    int64  `json:"totalElements"`
		Size             int64  `json:"size"`
		LastEvaluatedKey string `json:"lastEvaluatedKey"`
	} `json:"page"`
}

type env struct {
	r      *ev.Run
	st     *rig.Stack
	m      *refmodel.Model
	hist   gen.History
	extra  []string // headers ingested during an interleaved walk
	caseID string
	failed bool
}

func (e *env) violate(sig, what string, extra map[string]any) {
	e.failed = true
	d := map[string]any{"history_hex": e.hist.Hex(), "interleaved_extensions_hex": e.extra}
	for k, v := range extra {
		d[k] = v
	}
	e.r.Violate(sig, what, e.caseID, d)
}

func (e *env) fetch(b int, key string) (int, *page, string) {
	q := fmt.Sprintf("/api/v1/chain/merkleroot?batchSize=%d&lastEvaluatedKey=%s", b, url.QueryEscape(key))
	w := e.st.GET(q)
	e.r.Count("page_requests", 1)
	if w.Code != 200 {
		return w.Code, nil, w.Body.String()
	}
	var p page
	if err := mb.DecodeOne(w.Body.Bytes(), &p); err != nil {
		return -1, nil, err.Error()
	}
	return 200, &p, ""
}

func chainEntries(m *refmodel.Model, fromHeight int) []entry {
	var out []entry
	for _, n := range m.LongestPath() {
		if int(n.Height) >= fromHeight {
			out = append(out, entry{n.Merkle.String(), int64(n.Height)})
		}
	}
	return out
}

// walk performs one complete walk; between pages `between` may ingest extensions.
func (e *env) walk(b int, startKey string, fromHeight int, class string, between func()) {
	var got []entry
	key := startKey
	pages := 0
	for {
		code, p, msg := e.fetch(b, key)
		if code != 200 {
			e.violate("walk|"+class+"|status", fmt.Sprintf("page request (batchSize=%d, key=%q) -> %d %s", b, key, code, msg), map[string]any{"batchSize": b, "start_key": startKey})
			return
		}
		pages++
		if len(p.Content) > b {
			e.violate("walk|"+class+"|page-too-long", fmt.Sprintf("page holds %d entries for batchSize %d", len(p.Content), b), map[string]any{"batchSize": b, "start_key": startKey})
			return
		}
		got = append(got, p.Content...)
		key = p.Page.LastEvaluatedKey
		if key == "" {
			break
		}
		want := chainEntries(e.m, fromHeight)
		if pages > len(want)/b+2+len(e.extra) {
			e.violate("walk|"+class+"|does-not-terminate", fmt.Sprintf("walk with batchSize %d needed more than %d pages for %d entries", b, pages, len(want)), map[string]any{"batchSize": b, "start_key": startKey})
			return
		}
		if between != nil {
			between()
		}
	}
	want := chainEntries(e.m, fromHeight)
	if len(got) != len(want) {
		kind := "missing-entries"
		if len(got) > len(want) {
			kind = "extra-entries"
		}
		e.violate("walk|"+class+"|"+kind, fmt.Sprintf("walk (batchSize %d, start %q) visited %d entries, longest chain has %d from height %d", b, startKey, len(got), len(want), fromHeight), map[string]any{"batchSize": b, "start_key": startKey, "got": got, "want": want})
		return
	}
	for i := range want {
		if got[i] != want[i] {
			e.violate("walk|"+class+"|wrong-entry", fmt.Sprintf("walk (batchSize %d, start %q) entry %d is (%s,%d), expected (%s,%d)", b, startKey, i, got[i].MerkleRoot, got[i].BlockHeight, want[i].MerkleRoot, want[i].BlockHeight), map[string]any{"batchSize": b, "start_key": startKey, "got": got, "want": want})
			return
		}
	}
	e.r.Count("complete_walks", 1)
	e.r.Cases(1)
	e.r.Count("pages_"+class, int64(pages))
}

func (e *env) keys(rng *rand.Rand, n int) {
	nodes := e.m.Order
	for k := 0; k < n && !e.failed; k++ {
		nd := nodes[rng.Intn(len(nodes))]
		if n >= len(nodes) {
			if k >= len(nodes) {
				break
			}
			nd = nodes[k]
		}
		b := 1 + rng.Intn(len(nodes)+2)
		switch nd.State {
		case refmodel.Longest:
			e.walk(b, nd.Merkle.String(), int(nd.Height)+1, "from-longest-key", nil)
			e.r.Count("keys_longest", 1)
		default:
			if rng.Intn(3) == 0 {
				b = 0 // the error must not depend on the batch size
			}
			code, _, msg := e.fetch(b, nd.Merkle.String())
			if code != 409 {
				e.violate("key|"+nd.State+"|status", fmt.Sprintf("start key of a %s block -> %d %s, expected 409 conflict", nd.State, code, msg), map[string]any{"batchSize": b, "start_key": nd.Merkle.String()})
				return
			}
			e.r.Count("keys_non_longest_409", 1)
		}
	}
	for _, k := range []string{"deadbeef", "zz", refmodel.Hash{1, 2, 3}.String(), "%00", "' OR 1=1 --"} {
		code, _, msg := e.fetch(rng.Intn(6), k) // batch sizes 0..5
		if code != 404 {
			e.violate("key|unknown|status", fmt.Sprintf("unknown start key %q -> %d %s, expected 404", k, code, msg), map[string]any{"start_key": k})
			return
		}
		e.r.Count("keys_unknown_404", 1)
	}
	// near misses of stored roots: the key is compared as the string the listing itself hands out
	stored := map[string]bool{}
	for _, nd := range nodes {
		stored[nd.Merkle.String()] = true
	}
	try := func(class, k string) bool {
		if stored[k] {
			return true
		}
		code, _, msg := e.fetch(rng.Intn(6), k)
		if code != 404 {
			e.violate("key|near-miss:"+class+"|status", fmt.Sprintf("start key %q (%s of a stored merkle root) -> %d %s, expected 404", k, class, code, msg), map[string]any{"start_key": k})
			return false
		}
		e.r.Count("keys_near_miss_404", 1)
		return true
	}
	tried0 := false
	for k := 0; k < len(nodes) && !e.failed; k++ {
		root := nodes[k].Merkle.String()
		if k < 3 {
			rev := []byte(root)
			for i, j := 0, len(rev)-2; i < j; i, j = i+2, j-2 {
				rev[i], rev[i+1], rev[j], rev[j+1] = rev[j], rev[j+1], rev[i], rev[i+1]
			}
			for _, c := range [][2]string{{"upper-case", strings.ToUpper(root)}, {"last-digit-cut", root[:63]}, {"digit-appended", root + "0"}, {"0x-prefixed", "0x" + root}, {"byte-reversed", string(rev)}, {"sql-wildcard-tail", root[:20] + "%"}, {"sql-wildcard-digits", root[:62] + "__"}} {
				if !try(c[0], c[1]) {
					return
				}
			}
		}
		if !tried0 && root[0] == '0' {
			tried0 = true
			if !try("leading-zeros-cut", strings.TrimLeft(root, "0")) {
				return
			}
		}
	}
}

// relabel fault of the ingesting stack: the n-th UpdateState of the armed submission fails
var relabel struct {
	armed bool
	n, at int
	fired bool
}

// faultedListing: a reorganisation is interrupted by its second relabelling statement failing. Until the header is
// delivered again the listing must still be a listing - heights 0, 1, 2, ... each exactly once, in order, whatever the page
// size; after the redelivery it is compared with the model again.
func (e *env) faultedListing(rng *rand.Rand) {
	r := e.r
	counter := 9000
	mk := func(prev refmodel.Hash, bits uint32) refmodel.Hdr {
		counter++
		h := refmodel.Hdr{Prev: prev, Bits: bits}
		gen.Fields(rng, &h, false, counter)
		return h
	}
	// a side branch off a block 2..4 below the tip, one block shorter than needed; its next block overtakes
	path := e.m.LongestPath()
	if len(path) < 6 {
		return
	}
	depth := 2 + rng.Intn(3)
	prev := path[len(path)-1-depth].Hash
	for i := 0; i < depth; i++ {
		h := mk(prev, gen.BitsNormal)
		if si := mb.Step(e.st, e.m, h); si.Res.Panic != nil || si.Res.Err != nil {
			return
		}
		prev = h.HashOf()
	}
	over := mk(prev, gen.BitsNormal)
	if _, _, reorg := e.m.Clone().Submit(over); !reorg {
		return
	}
	relabel.armed, relabel.n, relabel.at, relabel.fired = true, 0, 2, false
	res := e.st.Add(over)
	relabel.armed = false
	if !relabel.fired || res.Panic != nil {
		return
	}
	// (a submission that is acknowledged although one of its relabelling statements failed is judged by the listing as well)
	acked := res.Err == nil
	r.Count("listings_after_an_interrupted_reorganisation", 1)
	for _, b := range []int{1, 2, 3, 7, 1000} {
		var got []entry
		key := ""
		for pages := 0; pages < len(e.m.Order)+5; pages++ {
			code, p, msg := e.fetch(b, key)
			if code != 200 {
				e.violate("faulted-listing|status", fmt.Sprintf("after an interrupted reorganisation: page request (batchSize=%d, key=%q) -> %d %s", b, key, code, msg), map[string]any{"batchSize": b})
				return
			}
			got = append(got, p.Content...)
			key = p.Page.LastEvaluatedKey
			if key == "" {
				break
			}
		}
		for i, en := range got {
			if en.BlockHeight != int64(i) {
				e.violate("faulted-listing|heights-not-consecutive", fmt.Sprintf("after an interrupted reorganisation the walk with batchSize %d lists height %d at position %d (every height once, in order)", b, en.BlockHeight, i), map[string]any{"batchSize": b, "listed_heights_start": got[:min(len(got), 12)]})
				return
			}
		}
	}
	if acked {
		r.Count("interrupted_reorganisations_acknowledged_all_the_same", 1)
		e.failed = true // the model cannot follow a store that acknowledged the header and kept the old labels
		return
	}
	// the peer delivers the header again
	if si := mb.Step(e.st, e.m, over); si.Res.Panic != nil || si.Res.Code() != mb.WantCode(si.Outcome) {
		r.Count("stores_skipped_ingest_divergence", 1)
		e.failed = true
		return
	}
	e.walk(1+rng.Intn(4), "", 0, "after-redelivery", nil)
}

func body(r *ev.Run) {
	r.Rule("stores = seeded random histories (pairwise distinct merkle roots; forks at many heights, stale siblings at listed heights, orphans, reorganisations); plus one chain of 2081 blocks (after a reorganisation over 2050 heights) walked with page sizes 1, 499..501, 1000, 1001, 2000, 2001, n-1..n+1, 5000, 10^6, 2^31-1, 2^31, 2^32, 2^40 (these also on every third store, from the start and from a key in the middle); per store: a complete walk for EVERY batch size 1..n+2 (n = longest-chain length), batchSize 0 (must answer 200 or 4xx), every stored merkle root as starting key (longest: the rest of the chain; stale/orphan: 409), unknown keys and near misses of stored roots - upper case, a digit cut or appended, leading zeros cut, 0x-prefixed, byte-reversed - (404), walks after a reorganisation was interrupted by its second relabelling statement failing (heights 0,1,2,... each once, for page sizes 1,2,3,7,1000; compared with the model again after the redelivery), walks with restarts of the service between pages, walks interleaved with ingestion of 1-3 new tip headers between pages, and walks after two competing children of the tip were submitted by two goroutines at the same moment (that height is visited once). evaluations = complete walks; distinct = (store index, batch size) walks; non-trivial = store has a stale or orphan header.")
	r.Assume("merkle roots pairwise distinct (as the statement requires)", "interleaved ingestion only extends the tip", "SQLite only")
	r.Require("complete_walks", 300)
	r.Require("keys_non_longest_409", 20)
	mb.ForbiddenHeaders()
	st, err := rig.New(rig.Options{Dir: r.Scratch, WrapHeaders: deco.Wrap(&deco.Hooks{Before: func(op string, _ bool, _ string) error {
		if op == "GetTip" || op == "GetHeaderByHash" {
			pairRendezvous()
		}
		if op == "AddHeaderToDatabase" {
			pairInsertRendezvous()
		}
		if op == "UpdateState" && relabel.armed {
			relabel.n++
			if relabel.n == relabel.at {
				relabel.fired = true
				return errors.New("verif: injected relabel failure")
			}
		}
		return nil
	}})})
	if err != nil {
		r.Violate("harness|rig", err.Error(), "", nil)
		return
	}
	defer st.Destroy()
	// a long chain (2000+ blocks, after a reorganisation over 2050 heights): page sizes around the sizes at which statements
	// get batched, and far beyond the chain
	r.Do("long", func() {
		rng := r.Rand("long")
		hist := gen.DeepReorg(rng, rig.Genesis(), 30, 2050)
		if err := st.Reset(); err != nil {
			r.Violate("harness|reset", err.Error(), "long", nil)
			return
		}
		m := mb.NewModel()
		for _, h := range hist.Hdrs {
			si := mb.Step(st, m, h)
			if si.Res.Panic != nil || si.Res.Code() != mb.WantCode(si.Outcome) {
				r.Count("stores_skipped_ingest_divergence", 1)
				return
			}
		}
		e := &env{r: r, st: st, m: m, hist: gen.History{}, caseID: "long"}
		n := len(m.LongestPath())
		for _, b := range []int{1, 499, 500, 501, 1000, 1001, 2000, 2001, n - 1, n, n + 1, 5000, 1000000, math.MaxInt32, 1 << 31, 1 << 32, 1<<32 + 7, 1 << 40} {
			if e.failed {
				return
			}
			e.walk(b, "", 0, "long-chain", nil)
			r.Distinct(fmt.Sprintf("long|%d", b))
		}
		if !e.failed {
			e.keys(rng, 40)
		}
		r.Count("long_chains_walked", 1)
	})
	nStores := r.Pick(160, 3000)
	for i := 0; i < nStores; i++ {
		caseID := fmt.Sprintf("s/%d", i)
		r.Do(caseID, func() {
			rng := r.Rand(caseID)
			o := gen.Opts{
				N:        3 + rng.Intn(r.Pick(45, 220)),
				PDup:     0.02,
				PUnknown: []float64{0.02, 0.1}[rng.Intn(2)],
				PFork:    []float64{0.15, 0.4}[rng.Intn(2)],
				Classes:  []string{"M", "MH", "MHL"}[rng.Intn(3)],
			}
			hist := gen.Random(rng, rig.Genesis(), o)
			if err := st.Reset(); err != nil {
				r.Violate("harness|reset", err.Error(), caseID, nil)
				return
			}
			m := mb.NewModel()
			for _, h := range hist.Hdrs {
				si := mb.Step(st, m, h)
				if si.Res.Panic != nil || si.Res.Code() != mb.WantCode(si.Outcome) {
					r.Count("stores_skipped_ingest_divergence", 1)
					return
				}
			}
			e := &env{r: r, st: st, m: m, hist: hist, caseID: caseID}
			n := len(m.LongestPath())
			nonTrivial := len(m.Order) > n
			maxB := n + 2
			step := 1
			if n > 60 {
				step = 1 + rng.Intn(3) // large stores: every batch size up to 40, then strided
			}
			for b := 1; b <= maxB && !e.failed; b++ {
				if b > 40 && (b-41)%step != 0 && b < n-1 {
					continue
				}
				e.walk(b, "", 0, "full", nil)
				r.Distinct(fmt.Sprintf("%d|%d", i, b))
			}
			if e.failed {
				return
			}
			// batch size 0
			code, _, msg := e.fetch(0, "")
			if code >= 500 || code < 0 {
				e.violate("batch0|status", fmt.Sprintf("batchSize=0 -> %d %s", code, msg), nil)
				return
			}
			e.keys(rng, r.Pick(20, 60))
			if e.failed {
				return
			}
			// page sizes at and beyond the 32-bit limits, from the start and from a key in the middle
			if i%3 == 0 {
				path := m.LongestPath()
				for _, b := range []int{math.MaxInt32 - 1, math.MaxInt32, 1 << 31, 1 << 32, 1<<32 + 1, 1 << 40} {
					e.walk(b, "", 0, "huge-page-size", nil)
					if len(path) > 2 && !e.failed {
						mid := path[len(path)/2]
						e.walk(b, mid.Merkle.String(), int(mid.Height)+1, "huge-page-size", nil)
					}
					if e.failed {
						return
					}
				}
			}
			// interleaved walks
			counter := 1000
			for k := 0; k < 3 && !e.failed; k++ {
				b := 1 + rng.Intn(4)
				e.walk(b, "", 0, "interleaved", func() {
					if len(e.extra) > 30 || rng.Intn(2) == 0 {
						return
					}
					for j := 0; j < 1+rng.Intn(3); j++ {
						counter++
						h := refmodel.Hdr{Prev: m.Best().Hash, Bits: gen.BitsNormal}
						gen.Fields(rng, &h, false, counter)
						si := mb.Step(st, m, h)
						if si.Res.Err != nil || si.Res.Panic != nil {
							e.violate("harness|extend", fmt.Sprintf("extension failed: %v %v", si.Res.Err, si.Res.Panic), nil)
							return
						}
						e.extra = append(e.extra, h.Hex())
						r.Count("interleaved_extensions", 1)
					}
				})
			}
			if i%3 == 1 && !e.failed {
				e.competingTips(rng, &counter)
			}
			if i%2 == 0 && !e.failed {
				e.faultedListing(rng)
			}
			// the page key is all a client carries from one request to the next: the service may be restarted in between
			if i%4 == 1 && !e.failed {
				b := 1 + rng.Intn(3)
				e.walk(b, "", 0, "across-restarts", func() {
					if rng.Intn(3) != 0 {
						return
					}
					if err := st.Restart(); err != nil {
						e.violate("restart-failed", err.Error(), nil)
						return
					}
					r.Count("restarts_between_pages", 1)
				})
			}
			r.Count("stores", 1)
			if r.WantSample() && len(hist.Hdrs) <= 12 && nonTrivial && !e.failed {
				r.Sample(map[string]any{"case": caseID, "history_hex": hist.Hex(), "longest_chain_length": n, "batch_sizes_walked": maxB})
			}
		})
	}
}
