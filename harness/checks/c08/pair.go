package c08

import (
	"fmt"
	"math/rand"
	"sync"
	"time"

	"github.com/bitcoin-sv/block-headers-service/verifharness/gen"
	"github.com/bitcoin-sv/block-headers-service/verifharness/refmodel"
	"github.com/bitcoin-sv/block-headers-service/verifharness/rig"
)

// pair, pairIns: while two competing children of the tip are being submitted at once, the first repository read of the
// first submitter waits (1.5 ms at most) for the second submitter's, so that both classify their block against the same tip
// when nothing orders them; and the first of them to reach its INSERT waits (5 ms at most) for the other to reach its own,
// so that - when nothing keeps classification and INSERT of one submission together - both have classified before either
// row exists. Where the service serialises submissions the second never arrives and the wait simply runs out.
type rendezvous struct {
	mu      sync.Mutex
	on      bool
	arrived int
	waiting bool
	both    chan struct{}
	met     int
}

var pair, pairIns rendezvous

func (p *rendezvous) arm(on bool) {
	p.mu.Lock()
	p.on, p.arrived, p.waiting, p.both = on, 0, false, make(chan struct{})
	p.mu.Unlock()
}

func (p *rendezvous) meet(patience time.Duration) {
	p.mu.Lock()
	if !p.on || p.arrived >= 2 {
		p.mu.Unlock()
		return
	}
	p.arrived++
	both := p.both
	if p.arrived == 2 {
		if p.waiting {
			p.met++
			close(both)
		}
		p.mu.Unlock()
		return
	}
	p.waiting = true
	p.mu.Unlock()
	select {
	case <-both:
	case <-time.After(patience):
	}
	p.mu.Lock()
	p.waiting = false
	p.mu.Unlock()
}

func pairRendezvous()       { pair.meet(1500 * time.Microsecond) }
func pairInsertRendezvous() { pairIns.meet(5 * time.Millisecond) }

// competingTips: two peers deliver different children of the tip at the same moment ("walks interleaved with ingestion of
// new tip headers"). Whatever the order, one of them is on the longest chain and the listing visits that height once.
func (e *env) competingTips(rng *rand.Rand, counter *int) {
	mk := func() refmodel.Hdr {
		*counter++
		h := refmodel.Hdr{Prev: e.m.Best().Hash, Bits: gen.BitsNormal}
		gen.Fields(rng, &h, false, *counter)
		return h
	}
	a, b := mk(), mk()
	pair.arm(true)
	pairIns.arm(true)
	var wg sync.WaitGroup
	var ra, rb rig.AddResult
	wg.Add(2)
	go func() { defer wg.Done(); ra = e.st.Add(a) }()
	go func() { defer wg.Done(); rb = e.st.Add(b) }()
	wg.Wait()
	pair.arm(false)
	pairIns.arm(false)
	pairIns.mu.Lock()
	if pairIns.met > 0 {
		e.r.Count("competing_tip_pairs_both_at_their_insert_together", int64(pairIns.met))
		pairIns.met = 0
	}
	pairIns.mu.Unlock()
	if ra.Panic != nil || rb.Panic != nil || ra.Err != nil || rb.Err != nil {
		e.r.Count("stores_skipped_ingest_divergence", 1)
		e.failed = true
		return
	}
	// the model follows the store's order: the block the store has on the longest chain came first
	state := func(h refmodel.Hdr) string {
		var s string
		_ = e.st.DB.Get(&s, `SELECT header_state FROM headers WHERE hash = ?`, h.HashOf().String())
		return s
	}
	first, second := a, b
	if state(b) == refmodel.Longest && state(a) != refmodel.Longest {
		first, second = b, a
	}
	e.m.Submit(first)
	e.m.Submit(second)
	e.extra = append(e.extra, a.Hex(), b.Hex())
	e.r.Count("competing_tip_pairs_submitted_at_once", 1)
	for _, bs := range []int{1, 2, 1000} {
		if e.failed {
			return
		}
		e.walk(bs, "", 0, fmt.Sprintf("after-competing-tips(%s,%s)", state(a), state(b)), nil)
	}
}
