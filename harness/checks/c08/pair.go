package c08

import (
	"fmt"
	"math/rand"
	"sync"
	"time"

	"github.com/bitcoin-sv/block-headers-service/verifharness/gen"
	"github.com/bitcoin-sv/block-headers-service/verifharness/refmodel"
	"github.com/bitcoin-sv/block-headers-service/verifharness/rig"
)

// pair: while two competing children of the tip are being submitted at once, the first repository read of the first
// submitter waits (1.5 ms at most) for the second submitter's, so that both classify their block against the same tip when
// nothing orders them.
var pair struct {
	mu      sync.Mutex
	on      bool
	arrived int
	waiting bool
	both    chan struct{}
}

func pairRendezvous() {
	pair.mu.Lock()
	if !pair.on || pair.arrived >= 2 {
		pair.mu.Unlock()
		return
	}
	pair.arrived++
	both := pair.both
	if pair.arrived == 2 {
		if pair.waiting {
			close(both)
		}
		pair.mu.Unlock()
		return
	}
	pair.waiting = true
	pair.mu.Unlock()
	select {
	case <-both:
	case <-time.After(1500 * time.Microsecond):
	}
	pair.mu.Lock()
	pair.waiting = false
	pair.mu.Unlock()
}

// competingTips: two peers deliver different children of the tip at the same moment ("walks interleaved with ingestion of
// new tip headers"). Whatever the order, one of them is on the longest chain and the listing visits that height once.
func (e *env) competingTips(rng *rand.Rand, counter *int) {
	mk := func() refmodel.Hdr {
		*counter++
		h := refmodel.Hdr{Prev: e.m.Best().Hash, Bits: gen.BitsNormal}
		gen.Fields(rng, &h, false, *counter)
		return h
	}
	a, b := mk(), mk()
	pair.mu.Lock()
	pair.on, pair.arrived, pair.waiting, pair.both = true, 0, false, make(chan struct{})
	pair.mu.Unlock()
	var wg sync.WaitGroup
	var ra, rb rig.AddResult
	wg.Add(2)
	go func() { defer wg.Done(); ra = e.st.Add(a) }()
	go func() { defer wg.Done(); rb = e.st.Add(b) }()
	wg.Wait()
	pair.mu.Lock()
	pair.on = false
	pair.mu.Unlock()
	if ra.Panic != nil || rb.Panic != nil || ra.Err != nil || rb.Err != nil {
		e.r.Count("stores_skipped_ingest_divergence", 1)
		e.failed = true
		return
	}
	// the model follows the store's order: the block the store has on the longest chain came first
	state := func(h refmodel.Hdr) string {
		var s string
		_ = e.st.DB.Get(&s, `SELECT header_state FROM headers WHERE hash = ?`, h.HashOf().String())
		return s
	}
	first, second := a, b
	if state(b) == refmodel.Longest && state(a) != refmodel.Longest {
		first, second = b, a
	}
	e.m.Submit(first)
	e.m.Submit(second)
	e.extra = append(e.extra, a.Hex(), b.Hex())
	e.r.Count("competing_tip_pairs_submitted_at_once", 1)
	for _, bs := range []int{1, 2, 1000} {
		if e.failed {
			return
		}
		e.walk(bs, "", 0, fmt.Sprintf("after-competing-tips(%s,%s)", state(a), state(b)), nil)
	}
}
