package c03

import (
	"fmt"
	"os"
	"path/filepath"

	"github.com/bitcoin-sv/block-headers-service/config"
	"github.com/bitcoin-sv/block-headers-service/database"
	"github.com/bitcoin-sv/block-headers-service/internal/chaincfg"
	"github.com/bitcoin-sv/block-headers-service/internal/chaincfg/chainhash"
	"github.com/bitcoin-sv/block-headers-service/verifharness/ev"
	"github.com/bitcoin-sv/block-headers-service/verifharness/gen"
	"github.com/bitcoin-sv/block-headers-service/verifharness/mb"
	"github.com/bitcoin-sv/block-headers-service/verifharness/refmodel"
	"github.com/bitcoin-sv/block-headers-service/verifharness/rig"
	"github.com/bitcoin-sv/block-headers-service/verifharness/snap"
	"github.com/rs/zerolog"
)

// importedStore: headers also get stored by the start-up import of a prepared file (prepared_db). A store of more than
// 500 longest-chain headers (the import works in batches of 500) is built by ingestion, exported with the real
// ExportHeaders, imported into an empty database by the real start-up path, and the imported table is compared with the
// independently computed rows of the model; then ingestion continues on top of the imported store and it is restarted.
func importedStore(r *ev.Run, caseID string) {
	rng := r.Rand(caseID)
	work := filepath.Join(r.Scratch, "c03-import")
	if err := os.MkdirAll(work, 0o755); err != nil {
		r.Violate("harness|scratch", err.Error(), caseID, nil)
		return
	}
	defer os.RemoveAll(work)
	// the export writes $TMPDIR/headers.csv and the import resolves the prepared file relative to the cwd
	oldWd, _ := os.Getwd()
	oldTmp, hadTmp := os.LookupEnv("TMPDIR")
	_ = os.Setenv("TMPDIR", work)
	if err := os.Chdir(work); err != nil {
		r.Violate("harness|chdir", err.Error(), caseID, nil)
		return
	}
	oldCps := config.Checkpoints
	defer func() {
		config.Checkpoints = oldCps
		_ = os.Chdir(oldWd)
		if hadTmp {
			_ = os.Setenv("TMPDIR", oldTmp)
		} else {
			_ = os.Unsetenv("TMPDIR")
		}
	}()

	// a main line of L headers with field extremes, short side branches off recent ancestors
	L := []int{501, 502, 999, 1001, 1203}[rng.Intn(5)]
	if rng.Intn(2) == 0 {
		L = 501 + rng.Intn(1100)
	}
	var hdrs []refmodel.Hdr
	main := []refmodel.Hash{rig.Genesis().HashOf()}
	counter := 0
	mk := func(prev refmodel.Hash) refmodel.Hdr {
		counter++
		h := refmodel.Hdr{Prev: prev, Bits: gen.PickBits(rng, "MMMHC")}
		gen.Fields(rng, &h, true, counter)
		return h
	}
	for len(main) <= L {
		h := mk(main[len(main)-1])
		hdrs = append(hdrs, h)
		main = append(main, h.HashOf())
		if rng.Intn(40) == 0 && len(main) > 3 {
			hdrs = append(hdrs, mk(main[len(main)-2-rng.Intn(2)]))
		}
	}
	a, err := rig.New(rig.Options{Dir: work, Name: "A.db", NoHTTP: true})
	if err != nil {
		r.Violate("harness|rig", err.Error(), caseID, nil)
		return
	}
	mA := mb.NewModel()
	for _, h := range hdrs {
		res := a.Add(h)
		out, _, _ := mA.Submit(h)
		if res.Panic != nil || res.Code() != mb.WantCode(out) {
			a.Destroy()
			r.Count("import_cases_cut_short_by_ingest_divergence", 1)
			return
		}
	}
	a.Close()
	cfg := rig.NewConfig(a.Path)
	cfg.Db.PreparedDbFilePath = "prepared.csv.gz"
	lg := zerolog.Nop()
	if err := database.ExportHeaders(cfg, &lg); err != nil {
		a.Destroy()
		r.Count("import_cases_cut_short_by_export_failure", 1) // C17's business
		return
	}
	a.Destroy()
	path := mA.LongestPath()
	tip := path[len(path)-1]
	th := chainhash.Hash(tip.Hash)
	config.Checkpoints = []chaincfg.Checkpoint{{Height: tip.Height, Hash: &th}}
	// keep the import's fmt.Printf lines off the verdict output
	if null, err := os.OpenFile(os.DevNull, os.O_WRONLY, 0); err == nil {
		old := os.Stdout
		os.Stdout = null
		defer func() { os.Stdout = old; _ = null.Close() }()
	}
	b, err := rig.New(rig.Options{Dir: work, Name: "B.db", Config: func(c *config.AppConfig) {
		c.Db.PreparedDb = true
		c.Db.PreparedDbFilePath = "prepared.csv.gz"
	}})
	if err != nil {
		r.Count("import_cases_cut_short_by_import_refusal", 1) // C17's business
		return
	}
	defer b.Destroy()
	// what the imported store must hold: the longest chain, every derived field as the model computes it
	mB := mb.NewModel()
	for _, n := range path[1:] {
		mB.Submit(n.Hdr)
	}
	detail := map[string]any{"longest_chain_length": len(path), "headers_ingested_into_source": len(hdrs)}
	judge := func(stage string) bool {
		t, err := snap.TakeHeaders(b.DB)
		if err != nil {
			r.Violate("harness|snapshot", err.Error(), caseID, nil)
			return false
		}
		if ds := mb.CompareTable(mB, t, false); len(ds) > 0 {
			fields := map[string]bool{}
			for _, d := range ds {
				fields[d.Field] = true
			}
			var fs string
			for _, f := range []string{"present", "previous_block", "merkleroot", "height", "version", "nonce", "bits", "chainwork", "cumulated_work", "timestamp", "state"} {
				if fields[f] {
					fs += "," + f
				}
			}
			r.Violate("imported-store|"+stage+"|field"+fs, mb.DescribeDiffs(ds, 6), caseID, detail)
			return false
		}
		r.Count("imported_rows_compared", int64(len(t)))
		return true
	}
	if !judge("after-import") {
		return
	}
	// ingestion goes on on top of the imported store
	prev := tip.Hash
	for i := 0; i < 4; i++ {
		h := mk(prev)
		si := mb.Step(b, mB, h)
		if si.Res.Panic != nil || si.Res.Code() != mb.WantCode(si.Outcome) {
			r.Violate("imported-store|ingest-on-top|answer", fmt.Sprintf("header extending the imported tip answered %q, expected %q", si.Res.Code(), mb.WantCode(si.Outcome)), caseID, detail)
			return
		}
		prev = h.HashOf()
	}
	if !judge("after-ingest-on-top") {
		return
	}
	if err := b.Restart(); err != nil {
		r.Violate("imported-store|restart-failed", err.Error(), caseID, detail)
		return
	}
	if !judge("after-restart") {
		return
	}
	r.Count("imported_stores_compared", 1)
	if len(path) > 1001 {
		r.Count("imported_stores_of_three_batches", 1)
	}
	r.Case(fmt.Sprintf("import|n=%d", len(path)), true)
}

// otherNetworks: the genesis row (and what is stored on top of it) on the other networks the service can be configured
// for: the derived fields of the genesis block come from ITS bits.
func otherNetworks(r *ev.Run) {
	nets := []struct {
		name string
		typ  config.NetworkType
		p    *chaincfg.Params
	}{{"testnet", config.TestNet, &chaincfg.TestNet3Params}, {"regtest", config.RegTestNet, &chaincfg.RegressionNetParams}, {"simnet", config.SimulationNet, &chaincfg.SimNetParams}}
	for _, nt := range nets {
		nt := nt
		caseID := "net/" + nt.name
		r.Do(caseID, func() {
			st, err := rig.New(rig.Options{Dir: r.Scratch, Name: "c03-" + nt.name + ".db", NoHTTP: true, Config: func(c *config.AppConfig) { c.P2P.ChainNetType = nt.typ }})
			if err != nil {
				r.Violate("harness|rig", err.Error(), caseID, nil)
				return
			}
			defer st.Destroy()
			g := nt.p.GenesisBlock.Header
			gh := refmodel.Hdr{Version: 1, Prev: refmodel.Hash(g.PrevBlock), Merkle: refmodel.Hash(g.MerkleRoot), Time: uint32(g.Timestamp.Unix()), Bits: g.Bits, Nonce: g.Nonce}
			m := refmodel.New(gh)
			rng := r.Rand(caseID)
			judge := func(stage string) bool {
				t, err := snap.TakeHeaders(st.DB)
				if err != nil {
					r.Violate("harness|snapshot", err.Error(), caseID, nil)
					return false
				}
				// the genesis row keeps the network's own hash (the stored version column is 1 whatever the header says)
				ds := mb.CompareTable(m, t, false)
				kept := ds[:0]
				for _, d := range ds {
					if d.Field == "present" && (d.Hash == gh.HashOf().String() || d.Hash == refmodel.Hash(g.BlockHash()).String()) {
						continue
					}
					kept = append(kept, d)
				}
				if len(kept) > 0 {
					r.Violate("network|"+nt.name+"|"+stage+"|field", mb.DescribeDiffs(kept, 6), caseID, map[string]any{"network": nt.name})
					return false
				}
				return true
			}
			// genesis row: located by height 0
			t0, err := snap.TakeHeaders(st.DB)
			if err != nil || len(t0) != 1 {
				r.Violate("network|"+nt.name+"|genesis-row-count", fmt.Sprintf("a fresh %s store holds %d rows", nt.name, len(t0)), caseID, nil)
				return
			}
			for _, row := range t0 {
				want := mb.ExpectRow(m.Genesis)
				if row.Height != 0 || row.Bits != want.Bits || row.Chainwork != want.Chainwork || row.CumWork != want.CumWork || row.Merkle != want.Merkle || row.TimeUnix != want.TimeUnix || row.Nonce != want.Nonce || row.State != refmodel.Longest {
					r.Violate("network|"+nt.name+"|genesis-row|field", fmt.Sprintf("genesis row of a fresh %s store: bits %s chainwork %s cumulated work %s; expected bits %s chainwork %s cumulated work %s", nt.name, row.Bits, row.Chainwork, row.CumWork, want.Bits, want.Chainwork, want.CumWork), caseID, map[string]any{"network": nt.name, "row": row.String()})
					return
				}
				if row.Hash != m.Genesis.Hash.String() {
					// the stored genesis hash is the network's (version as in the real header): re-key the model on it
					r.Count("genesis_rows_keyed_by_the_network_hash", 1)
				}
			}
			// a few headers on top: their cumulative work starts from the genesis row's
			prev := gh.HashOf()
			for _, row := range t0 {
				if h, ok := refmodel.ParseHash(row.Hash); ok {
					prev = h
				}
			}
			if prev != gh.HashOf() {
				// model genesis hash differs from the stored one (version field): cannot link children in the model - stop here
				r.Count("stores_of_other_networks_checked", 1)
				return
			}
			for i := 0; i < 12; i++ {
				h := refmodel.Hdr{Prev: prev, Bits: gen.PickBits(rng, "MH")}
				gen.Fields(rng, &h, false, i+1)
				si := mb.Step(st, m, h)
				if si.Res.Panic != nil || si.Res.Code() != mb.WantCode(si.Outcome) {
					r.Count("histories_cut_short_by_ingest_divergence", 1)
					return
				}
				prev = h.HashOf()
			}
			if judge("after-ingest") {
				r.Count("stores_of_other_networks_checked", 1)
			}
		})
	}
}
