package c03

import (
	"fmt"
	"os"
	"path/filepath"

	"github.com/bitcoin-sv/block-headers-service/config"
	"github.com/bitcoin-sv/block-headers-service/database"
	"github.com/bitcoin-sv/block-headers-service/internal/chaincfg"
	"github.com/bitcoin-sv/block-headers-service/internal/chaincfg/chainhash"
	"github.com/bitcoin-sv/block-headers-service/verifharness/ev"
	"github.com/bitcoin-sv/block-headers-service/verifharness/gen"
	"github.com/bitcoin-sv/block-headers-service/verifharness/mb"
	"github.com/bitcoin-sv/block-headers-service/verifharness/refmodel"
	"github.com/bitcoin-sv/block-headers-service/verifharness/rig"
	"github.com/bitcoin-sv/block-headers-service/verifharness/snap"
	"github.com/rs/zerolog"
)

// afterRefusedImport: a database whose first start was a refused import of a prepared file (the block at the newest
// checkpoint height has another hash) is started again without the import and fills by ingestion: what ingestion reports
// as stored must be in the table, field for field - forks at occupied heights and orphans included.
func afterRefusedImport(r *ev.Run, caseID string) {
	rng := r.Rand(caseID)
	work := filepath.Join(r.Scratch, "c03-refused")
	if err := os.MkdirAll(work, 0o755); err != nil {
		r.Violate("harness|scratch", err.Error(), caseID, nil)
		return
	}
	defer os.RemoveAll(work)
	oldWd, _ := os.Getwd()
	oldTmp, hadTmp := os.LookupEnv("TMPDIR")
	_ = os.Setenv("TMPDIR", work)
	if err := os.Chdir(work); err != nil {
		r.Violate("harness|chdir", err.Error(), caseID, nil)
		return
	}
	oldCps := config.Checkpoints
	defer func() {
		config.Checkpoints = oldCps
		_ = os.Chdir(oldWd)
		if hadTmp {
			_ = os.Setenv("TMPDIR", oldTmp)
		} else {
			_ = os.Unsetenv("TMPDIR")
		}
	}()
	if null, err := os.OpenFile(os.DevNull, os.O_WRONLY, 0); err == nil {
		old := os.Stdout
		os.Stdout = null
		defer func() { os.Stdout = old; _ = null.Close() }()
	}
	// the file: a chain of 20-80 headers
	a, err := rig.New(rig.Options{Dir: work, Name: "A.db", NoHTTP: true})
	if err != nil {
		r.Violate("harness|rig", err.Error(), caseID, nil)
		return
	}
	mA := mb.NewModel()
	prev := rig.Genesis().HashOf()
	for k := 0; k < 20+rng.Intn(60); k++ {
		h := refmodel.Hdr{Prev: prev, Bits: gen.BitsNormal}
		gen.Fields(rng, &h, false, k+1)
		if si := mb.Step(a, mA, h); si.Res.Panic != nil || si.Res.Code() != mb.WantCode(si.Outcome) {
			a.Destroy()
			r.Count("import_cases_cut_short_by_ingest_divergence", 1)
			return
		}
		prev = h.HashOf()
	}
	a.Close()
	cfg := rig.NewConfig(a.Path)
	cfg.Db.PreparedDbFilePath = "prepared.csv.gz"
	lg := zerolog.Nop()
	if err := database.ExportHeaders(cfg, &lg); err != nil {
		a.Destroy()
		r.Count("import_cases_cut_short_by_export_failure", 1)
		return
	}
	a.Destroy()
	// first start: the newest checkpoint names another block at the file's tip height
	tip := mA.Best()
	wrong := chainhash.Hash(tip.Hash)
	wrong[0] ^= 0x5a
	config.Checkpoints = []chaincfg.Checkpoint{{Height: tip.Height, Hash: &wrong}}
	if b0, err := rig.New(rig.Options{Dir: work, Name: "B.db", NoHTTP: true, Config: func(c *config.AppConfig) {
		c.Db.PreparedDb = true
		c.Db.PreparedDbFilePath = "prepared.csv.gz"
	}}); err == nil {
		b0.Destroy()
		r.Count("refused_import_cases_skipped_import_accepted", 1) // C17's business
		return
	}
	r.Count("first_starts_refused_at_the_checkpoint_comparison", 1)
	// second start on the same database file, without the import
	config.Checkpoints = oldCps
	b, err := rig.New(rig.Options{Dir: work, Name: "B.db", NoHTTP: true})
	if err != nil {
		r.Count("refused_import_cases_skipped_second_start_failed", 1) // C17 decides what a later start may do
		return
	}
	defer b.Destroy()
	mB := mb.NewModel()
	hist := gen.Random(rng, rig.Genesis(), gen.Opts{N: 40 + rng.Intn(60), PDup: 0.03, PUnknown: 0.05, PFork: 0.35, Classes: "MH"})
	detail := map[string]any{"history_hex": hist.Hex()}
	for k, h := range hist.Hdrs {
		si := mb.Step(b, mB, h)
		if si.Res.Panic != nil || si.Res.Code() != mb.WantCode(si.Outcome) {
			// the submission itself is C01's business - unless the store has just lost a row
			t, err := snap.TakeHeaders(b.DB)
			if err == nil {
				if ds := mb.CompareTable(mB, t, false); len(ds) > 0 && ds[0].Field == "present" {
					r.Violate("after-refused-import|row-missing", fmt.Sprintf("after a refused import and a plain restart, submission %d was answered %q (expected %q) and the table lacks rows ingestion reported as stored: %s", k, si.Res.Code(), mb.WantCode(si.Outcome), mb.DescribeDiffs(ds, 4)), caseID, detail)
					return
				}
			}
			r.Count("import_cases_cut_short_by_ingest_divergence", 1)
			return
		}
	}
	t, err := snap.TakeHeaders(b.DB)
	if err != nil {
		r.Violate("harness|snapshot", err.Error(), caseID, nil)
		return
	}
	if ds := mb.CompareTable(mB, t, false); len(ds) > 0 {
		r.Violate("after-refused-import|field|"+ds[0].Field, "after a refused import and a plain restart the table differs from what ingestion reported: "+mb.DescribeDiffs(ds, 6), caseID, detail)
		return
	}
	r.Count("stores_filled_after_a_refused_import_compared", 1)
	r.Count("imported_rows_compared", int64(len(t)))
}
