// Package c03: stored header identity and derived fields are exact and immutable.
package c03

import (
	"errors"
	"fmt"
	"strings"
	"time"

	"github.com/bitcoin-sv/block-headers-service/domains"
	"github.com/bitcoin-sv/block-headers-service/verifharness/deco"

	"github.com/bitcoin-sv/block-headers-service/verifharness/ev"
	"github.com/bitcoin-sv/block-headers-service/verifharness/gen"
	"github.com/bitcoin-sv/block-headers-service/verifharness/mb"
	"github.com/bitcoin-sv/block-headers-service/verifharness/refmodel"
	"github.com/bitcoin-sv/block-headers-service/verifharness/rig"
	"github.com/bitcoin-sv/block-headers-service/verifharness/snap"
)

// Spec registers the check.
func Spec() ev.Spec {
	return ev.Spec{Prop: "C03", Level: "exploration", Workers: -1, Body: body}
}

func classU32(v uint32) string {
	switch {
	case v == 0:
		return "0"
	case v == 0xffffffff:
		return "max"
	case v >= 0x80000000:
		return "hi"
	default:
		return "lo"
	}
}

func classI32(v int32) string {
	switch {
	case v == -2147483648:
		return "min"
	case v < 0:
		return "neg"
	case v == 0:
		return "0"
	case v == 2147483647:
		return "max"
	default:
		return "pos"
	}
}

func bitsClass(b uint32) string {
	t := refmodel.Target(b)
	switch {
	case t.Sign() < 0:
		return "neg"
	case t.Sign() == 0:
		return "zero"
	case b>>24 < 3:
		return "trunc"
	case refmodel.Work(b).Sign() == 0:
		return "overflow"
	default:
		return "pos"
	}
}

func fieldSig(n *refmodel.Node) string {
	rel := "orphan"
	if n.Connected {
		rel = "connected"
	} else if n.Parent != nil {
		rel = "orphan-child"
	}
	return fmt.Sprintf("v=%s,t=%s,n=%s,b=%s,%s", classI32(n.Version), classU32(n.Time), classU32(n.Nonce), bitsClass(n.Bits), rel)
}

// fault: the next INSERT of a header fails at the repository seam (armed per submission by the ingesting goroutine).
var fault struct{ armed, fired bool }

func body(r *ev.Run) {
	r.Rule("seeded random histories with field extremes (int32 version corners and random, uint32 nonce/bits corners and random, timestamps over the whole uint32 epoch range, random 32-byte merkle roots and parents) incl. forks, orphans, late parents, reorganisations, duplicates; half of the headers delivered as bytes of a `headers` message through the real wire decoder (as the sync engines receive them), half through Chains.Add directly; restarts (close + database.Init) at seeded points and at the end; a fifth of the histories in a non-UTC process time zone; in half of the histories one submission in 15 or 40 has its INSERT fail at the repository seam (the header is not stored; its child typically follows at once; in half of these the header is delivered again after the next one) - after a failed INSERT the chain-state label is left out of the comparison for the rest of that history. Plus stores of 501..1600 longest-chain headers (side branches included) exported and imported by the real start-up path (prepared_db), compared row by row with the model, extended by ingestion and restarted. Plus fresh stores configured for testnet / regtest / simnet (genesis row derived from that network's genesis block, a few headers on top). After every submission: full-table comparison with independently computed hash/height/work/cumulative work/fields, immutability monitor (every column but header_state byte-identical, no row vanishes), round trip of the new header through Headers.GetHeaderByHash, of its parent through FindPreviousHeader, of its ancestors through GetHeaderAncestorsByHash(…, genesis) and of the rows around its height through GetHeadersByHeight (every field incl. work and cumulative work) and GET /chain/header/{hash}, /chain/header/state/{hash}. distinct = distinct (version class, time class, nonce class, bits class, parent relation) cells of stored headers; non-trivial = all of them (each cell is a distinct field-corner combination). Plus stores filled by ingestion after a refused first start (import of a prepared file whose block at the newest checkpoint height has another hash) and a plain restart on the same database file.")
	r.Assume("reference arithmetic in refmodel (cross-checked exhaustively by C19)", "SQLite only")
	r.Require("restarts", 5)
	r.Require("headers_stored", 500)
	r.Require("insert_failures_injected", 20)
	r.Require("children_delivered_right_after_a_failed_insert", 5)
	mb.ForbiddenHeaders()
	// every second stored header is delivered the way a peer delivers it: as the bytes of a `headers` message decoded
	// by the real wire codec (the frame is built by the harness, not by the encoder under test)
	mb.ViaWire = func(h refmodel.Hdr) bool { return h.Nonce%2 == 0 }
	hooks := &deco.Hooks{Before: func(op string, _ bool, _ string) error {
		if op == "AddHeaderToDatabase" && fault.armed {
			fault.armed, fault.fired = false, true
			return errors.New("verif: injected insert failure")
		}
		return nil
	}}
	st, err := rig.New(rig.Options{Dir: r.Scratch, WrapHeaders: deco.Wrap(hooks)})
	if err != nil {
		r.Violate("harness|rig", err.Error(), "", nil)
		return
	}
	defer st.Destroy()
	r.Require("imported_stores_compared", 2)
	nImp := r.Pick(4, 64)
	for i := 0; i < nImp; i++ {
		caseID := fmt.Sprintf("import/%d", i)
		r.Do(caseID, func() { importedStore(r, caseID) })
		rid := "refused-" + caseID
		r.Do(rid, func() { afterRefusedImport(r, rid) })
	}
	otherNetworks(r)
	r.Require("stores_of_other_networks_checked", 3)
	// towers: runs of 18..40 consecutive blocks whose target is 1 or 2 (work 2^255 / about 2^254.4 each), so that the
	// cumulative work passes 10^78 and 2^260 - decimal strings of 79 and more digits in the store - followed by ordinary blocks
	// and a restart
	nTow := r.Pick(6, 60)
	for i := 0; i < nTow; i++ {
		caseID := fmt.Sprintf("tower/%d", i)
		r.Do(caseID, func() {
			rng := r.Rand(caseID)
			var hist gen.History
			prev := rig.Genesis().HashOf()
			n := 18 + rng.Intn(23)
			for k := 0; k < n+4; k++ {
				h := refmodel.Hdr{Prev: prev, Bits: []uint32{0x01010000, 0x01020000, 0x02000100}[rng.Intn(3)]}
				if k >= n {
					h.Bits = gen.BitsNormal
				}
				gen.Fields(rng, &h, false, 700000+i*100+k)
				hist.Hdrs = append(hist.Hdrs, h)
				prev = h.HashOf()
			}
			r.Count("histories_whose_cumulative_work_passes_10^78", 1)
			restarted := false
			runHistory(r, st, caseID, hist, true, func() bool {
				if !restarted && rng.Intn(n) == 0 {
					restarted = true
					return true
				}
				return false
			}, func() int { return 0 })
		})
	}
	nHist := r.Pick(320, 6000)
	for i := 0; i < nHist; i++ {
		caseID := fmt.Sprintf("h/%d", i)
		r.Do(caseID, func() {
			rng := r.Rand(caseID)
			o := gen.Opts{
				N:            30 + rng.Intn(r.Pick(70, 120)),
				PDup:         0.05,
				PUnknown:     []float64{0.02, 0.1}[rng.Intn(2)],
				PLate:        []float64{0, 0.1}[rng.Intn(2)],
				PFork:        []float64{0.1, 0.4}[rng.Intn(2)],
				Classes:      []string{"MHLC", "MHLZNTUXC", "RC", "MMHRC", "C", "W", "MWC"}[rng.Intn(7)],
				FieldExtreme: true,
			}
			hist := gen.Random(rng, rig.Genesis(), o)
			if i%5 == 2 {
				// the service process runs in a time zone other than UTC (timestamps are returned to the second, as received)
				old := time.Local
				time.Local = time.FixedZone("VERIF", []int{19800, -12600, 3600, 45900, -39600}[(i/5)%5])
				defer func() { time.Local = old }()
				r.Count("histories_in_a_non_utc_time_zone", 1)
			}
			pFail := []int{0, 0, 40, 15}[rng.Intn(4)] // one submission in pFail has its INSERT fail (0: none)
			runHistory(r, st, caseID, hist, rng.Intn(3) == 0, func() bool { return rng.Intn(25) == 0 }, func() int {
				if pFail == 0 || rng.Intn(pFail) != 0 {
					return 0
				}
				return 1 + rng.Intn(2)
			})
		})
	}
}

// failNow: 0 = no fault for this submission; 1 = its INSERT fails; 2 = its INSERT fails and the header is delivered again
// after the next one (so that its child, if that is what follows, arrives first).
// eqHeader names the first field in which a header handed out by the service differs from the model node ("" = none; the
// chain-state label is not compared).
func eqHeader(g *domains.BlockHeader, n *refmodel.Node) string {
	switch {
	case g.Hash.String() != n.Hash.String():
		return "hash"
	case g.Version != n.Version:
		return "version"
	case g.PreviousBlock.String() != n.Prev.String():
		return "previous-block"
	case g.MerkleRoot.String() != n.Merkle.String():
		return "merkle-root"
	case g.Timestamp.Unix() != int64(n.Time) || g.Timestamp.Nanosecond() != 0:
		return "timestamp"
	case g.Bits != n.Bits:
		return "bits"
	case g.Nonce != n.Nonce:
		return "nonce"
	case g.Height != n.Height:
		return "height"
	case g.Chainwork == nil || g.Chainwork.String() != n.Work.String():
		return "chainwork"
	case g.CumulatedWork == nil || g.CumulatedWork.String() != n.Cum.String():
		return "cumulated-work"
	}
	return ""
}

func runHistory(r *ev.Run, st *rig.Stack, caseID string, hist gen.History, httpAll bool, restartNow func() bool, failNow func() int) {
	if err := st.Reset(); err != nil {
		r.Violate("harness|reset", err.Error(), caseID, nil)
		return
	}
	m := mb.NewModel()
	imm := snap.NewImmutability()
	var failedAt []int
	detail := func(step int) map[string]any {
		return map[string]any{"history_hex": hist.Hex(), "failed_at_step": step, "insert_failures_injected_at_steps": failedAt}
	}
	stored := 0
	work := append([]refmodel.Hdr(nil), hist.Hdrs...)
	redelivery := map[int]bool{}
	var lastFailed *refmodel.Hash
	for i := 0; i < len(work); i++ {
		h := work[i]
		hist = gen.History{Hdrs: work}
		var si mb.StepInfo
		fired := false
		if mode := failNow(); mode > 0 && !redelivery[i] {
			fault.armed, fault.fired = true, false
			var res rig.AddResult
			if mb.ViaWire != nil && mb.ViaWire(h) {
				res = st.AddViaWire(h)
			} else {
				res = st.Add(h)
			}
			fired = fault.fired
			fault.armed, fault.fired = false, false
			if fired {
				failedAt = append(failedAt, i)
				r.Count("insert_failures_injected", 1)
				if res.Panic != nil {
					r.Violate("panic|insert-failed", fmt.Sprintf("Chains.Add panicked when the INSERT failed: %v", res.Panic), caseID, detail(i))
					return
				}
				if res.Code() == "stored" {
					r.Violate("answer|insert-failed->stored", "submission whose INSERT failed was answered as stored", caseID, detail(i))
					return
				}
				hh := h.HashOf()
				lastFailed = &hh
				if mode == 2 {
					at := i + 2
					if at > len(work) {
						at = len(work)
					}
					work = append(work[:at], append([]refmodel.Hdr{h}, work[at:]...)...)
					redelivery[at] = true
					r.Count("redeliveries_after_a_failed_insert", 1)
				}
				si = mb.StepInfo{Outcome: "insert-failed", Res: res}
			} else {
				si = mb.StepInfo{PrevBest: m.Best(), Res: res}
				si.Outcome, si.Node, si.Reorg = m.Submit(h)
			}
		} else {
			if lastFailed != nil && h.Prev == *lastFailed {
				r.Count("children_delivered_right_after_a_failed_insert", 1)
			}
			lastFailed = nil
			si = mb.Step(st, m, h)
		}
		if si.Res.Panic != nil {
			r.Violate("panic", fmt.Sprintf("Chains.Add panicked: %v", si.Res.Panic), caseID, detail(i))
			return
		}
		if got, want := si.Res.Code(), mb.WantCode(si.Outcome); !fired && got != want {
			r.Violate("answer|"+want+"->"+got, fmt.Sprintf("submission answered %q, expected %q (%v)", got, want, si.Res.Err), caseID, detail(i))
			return
		}
		restarted := false
		if restartNow() || i == len(work)-1 {
			pre, err := snap.TakeHeaders(st.DB)
			if err != nil {
				r.Violate("harness|snapshot", err.Error(), caseID, nil)
				return
			}
			if err := st.Restart(); err != nil {
				r.Violate("restart-failed", err.Error(), caseID, detail(i))
				return
			}
			post, err := snap.TakeHeaders(st.DB)
			if err != nil {
				r.Violate("harness|snapshot", err.Error(), caseID, nil)
				return
			}
			if pre.Digest() != post.Digest() {
				r.Violate("restart-changed-rows", "a restart (database.Init on the same file) changed the headers table", caseID, detail(i))
				return
			}
			r.Count("restarts", 1)
			restarted = true
		}
		if si.Outcome != refmodel.Stored && !restarted && !fired {
			continue
		}
		t, err := snap.TakeHeaders(st.DB)
		if err != nil {
			r.Violate("harness|snapshot", err.Error(), caseID, nil)
			return
		}
		if bad := imm.Observe(t); bad != "" {
			kind := "changed"
			if strings.Contains(bad, "disappeared") {
				kind = "disappeared"
			}
			r.Violate("immutability|"+kind, bad, caseID, detail(i))
			return
		}
		ds := mb.CompareTable(m, t, false)
		if len(failedAt) > 0 {
			// a failed INSERT in the middle of a reorganisation legitimately leaves chain-state labels behind until the
			// header is delivered again (C05's business); labels are the one column this property lets change
			kept := ds[:0]
			for _, d := range ds {
				if d.Field != "state" {
					kept = append(kept, d)
				}
			}
			ds = kept
		}
		if len(ds) > 0 {
			fields := map[string]bool{}
			for _, d := range ds {
				fields[d.Field] = true
			}
			var fs []string
			for _, f := range []string{"present", "previous_block", "merkleroot", "height", "version", "nonce", "bits", "chainwork", "cumulated_work", "timestamp", "state"} {
				if fields[f] {
					fs = append(fs, f)
				}
			}
			r.Violate("field|"+strings.Join(fs, ","), mb.DescribeDiffs(ds, 6), caseID, detail(i))
			return
		}
		r.Count("table_comparisons", 1)
		if si.Outcome != refmodel.Stored {
			continue
		}
		stored++
		n := si.Node
		r.Distinct(fieldSig(n))
		// returned header
		if rh := si.Res.Header; rh == nil || rh.Hash.String() != n.Hash.String() || rh.Height != n.Height || rh.Chainwork.String() != n.Work.String() || rh.CumulatedWork.String() != n.Cum.String() {
			r.Violate("returned-header", "header returned by Add differs from the expected derived fields", caseID, detail(i))
			return
		}
		// service round trip
		g, err := st.Svc.Headers.GetHeaderByHash(n.Hash.String())
		if err != nil || g == nil {
			r.Violate("service-roundtrip|not-found", fmt.Sprintf("GetHeaderByHash(%s) failed right after storing: %v", n.Hash, err), caseID, detail(i))
			return
		}
		if len(failedAt) > 0 { // labels are left out after a failed INSERT (see above)
			n2 := *n
			n2.State = string(g.State)
			n = &n2
		}
		if g.Hash.String() != n.Hash.String() || g.Version != n.Version || g.PreviousBlock.String() != n.Prev.String() || g.MerkleRoot.String() != n.Merkle.String() ||
			g.Timestamp.Unix() != int64(n.Time) || g.Timestamp.Nanosecond() != 0 || g.Bits != n.Bits || g.Nonce != n.Nonce || g.Height != n.Height ||
			g.Chainwork.String() != n.Work.String() || g.CumulatedWork.String() != n.Cum.String() || string(g.State) != n.State {
			r.Violate("service-roundtrip|field", fmt.Sprintf("GetHeaderByHash returned %+v, expected node %s h=%d v=%d t=%d bits=%d nonce=%d", g, n.Hash, n.Height, n.Version, n.Time, n.Bits, n.Nonce), caseID, detail(i))
			return
		}
		// the same header as other read paths hand it out: as the previous header of its children, and on an ancestors path
		if n.Parent != nil {
			if p := st.Svc.Headers.FindPreviousHeader(n.Hash.String()); p == nil {
				r.Violate("previous-header|not-found", fmt.Sprintf("FindPreviousHeader(%s) returned nothing although the parent %s is stored", n.Hash, n.Parent.Hash), caseID, detail(i))
				return
			} else if bad := eqHeader(p, n.Parent); bad != "" {
				r.Violate("previous-header|field|"+bad, fmt.Sprintf("FindPreviousHeader(%s) returned the parent with a wrong %s: %+v", n.Hash, bad, p), caseID, detail(i))
				return
			}
			r.Count("previous_header_reads", 1)
		}
		if n.Connected && n.Height >= 2 && i%4 == 0 {
			anc, err := st.Svc.Headers.GetHeaderAncestorsByHash(n.Hash.String(), m.Genesis.Hash.String())
			if err == nil {
				for _, a := range anc {
					if a == nil {
						continue
					}
					an := m.Nodes[refmodel.Hash(a.Hash)]
					if an == nil {
						continue // C04 decides which headers belong on the path
					}
					if len(failedAt) > 0 {
						an2 := *an
						an2.State = string(a.State)
						an = &an2
					}
					if bad := eqHeader(a, an); bad != "" {
						r.Violate("ancestors-path|field|"+bad, fmt.Sprintf("GetHeaderAncestorsByHash(%s, genesis) returned %s with a wrong %s: %+v", n.Hash, an.Hash, bad, a), caseID, detail(i))
						return
					}
				}
				r.Count("ancestor_path_reads", 1)
			}
		}
		// ... and as one of several rows of a height-range read (forks put two rows at one height next to each other)
		if n.Connected && i%5 == 0 {
			from := int(n.Height) - 2
			if from < 0 {
				from = 0
			}
			if rows, err := st.Svc.Headers.GetHeadersByHeight(from, 4); err == nil {
				for _, g := range rows {
					if g == nil {
						continue
					}
					gn := m.Nodes[refmodel.Hash(g.Hash)]
					if gn == nil {
						continue // C04 decides which headers belong in the window
					}
					if bad := eqHeader(g, gn); bad != "" {
						r.Violate("height-range-read|field|"+bad, fmt.Sprintf("GetHeadersByHeight(%d, 4) returned %s (height %d) with a wrong %s: %+v", from, gn.Hash, gn.Height, bad, g), caseID, detail(i))
						return
					}
				}
				r.Count("height_range_reads", 1)
			}
		}
		// HTTP round trip
		if httpAll || i%7 == 0 {
			w := st.GET("/api/v1/chain/header/" + n.Hash.String())
			var hj mb.HeaderJSON
			if w.Code != 200 {
				r.Violate("http-roundtrip|status", fmt.Sprintf("GET header/%s -> %d %s", n.Hash, w.Code, w.Body.String()), caseID, detail(i))
				return
			}
			if err := mb.DecodeOne(w.Body.Bytes(), &hj); err != nil {
				r.Violate("http-roundtrip|json", err.Error(), caseID, detail(i))
				return
			}
			if bad := mb.CheckHeaderJSON(hj, n); bad != "" {
				r.Violate("http-roundtrip|"+strings.SplitN(bad, ":", 2)[0], "GET header/{hash}: "+bad, caseID, detail(i))
				return
			}
			w = st.GET("/api/v1/chain/header/state/" + n.Hash.String())
			var sj mb.StateJSON
			if w.Code != 200 {
				r.Violate("http-roundtrip|status", fmt.Sprintf("GET state/%s -> %d %s", n.Hash, w.Code, w.Body.String()), caseID, detail(i))
				return
			}
			if err := mb.DecodeOne(w.Body.Bytes(), &sj); err != nil {
				r.Violate("http-roundtrip|json", err.Error(), caseID, detail(i))
				return
			}
			if bad := mb.CheckStateJSON(sj, n); bad != "" {
				r.Violate("http-state-roundtrip|"+strings.SplitN(bad, ":", 2)[0], "GET state/{hash}: "+bad, caseID, detail(i))
				return
			}
			r.Count("http_roundtrips", 1)
		}
	}
	r.Count("headers_stored", int64(stored))
	r.Count("rows_tracked_by_immutability_monitor", int64(imm.Len()))
	r.Cases(int64(stored))
	if r.WantSample() && len(hist.Hdrs) <= 40 {
		r.Sample(map[string]any{"case": caseID, "history_hex": hist.Hex()})
	}
}
