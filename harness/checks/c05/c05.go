// Package c05: ingestion survives a crash / storage failure anywhere; redelivery recovers.
// Fault enumeration: for every history, EVERY write-transaction boundary is used as
// kill-before / kill-after / error-instead point (one fault per run).
package c05

import (
	"errors"
	"fmt"
	"github.com/bitcoin-sv/block-headers-service/config"
	"github.com/jmoiron/sqlx"
	"math/rand"
	"os"
	"os/exec"
	"path/filepath"
	"strings"
	"syscall"

	"github.com/bitcoin-sv/block-headers-service/verifharness/deco"
	"github.com/bitcoin-sv/block-headers-service/verifharness/ev"
	"github.com/bitcoin-sv/block-headers-service/verifharness/gen"
	"github.com/bitcoin-sv/block-headers-service/verifharness/mb"
	"github.com/bitcoin-sv/block-headers-service/verifharness/refmodel"
	"github.com/bitcoin-sv/block-headers-service/verifharness/rig"
	"github.com/bitcoin-sv/block-headers-service/verifharness/snap"
)

// Spec registers the check.
func Spec() ev.Spec {
	return ev.Spec{Prop: "C05", Level: "fault_enumeration", Workers: -1, Body: body}
}

const (
	killBefore  = "kill-before"
	killAfter   = "kill-after"
	errInstead  = "error-instead"
	errContinue = "error-then-carry-on" // the write fails, the submission is answered with an error, and ingestion goes on with the next headers in the same process (as the sync engines do); restart and redelivery only afterwards
	commitFails = "commit-fails"        // the COMMIT of the k-th header INSERT is refused by SQLite (deferred foreign key raised by a trigger)
	sqlAbort    = "sql-abort"           // the k-th ROW written to the headers table makes its SQL statement abort (trigger with RAISE(ABORT))
)

var kinds = []string{killBefore, killAfter, errInstead}

const (
	sqlInstall = `
CREATE TABLE IF NOT EXISTS verif_fault(n INTEGER);
DELETE FROM verif_fault;
INSERT INTO verif_fault VALUES (%d);
CREATE TRIGGER IF NOT EXISTS verif_ins BEFORE INSERT ON headers BEGIN
  UPDATE verif_fault SET n = n - 1;
  SELECT RAISE(ABORT, 'verif: injected storage failure') WHERE (SELECT n FROM verif_fault) < 0;
END;
CREATE TRIGGER IF NOT EXISTS verif_upd BEFORE UPDATE ON headers BEGIN
  UPDATE verif_fault SET n = n - 1;
  SELECT RAISE(ABORT, 'verif: injected storage failure') WHERE (SELECT n FROM verif_fault) < 0;
END;`
	sqlRemove = `DROP TRIGGER IF EXISTS verif_ins; DROP TRIGGER IF EXISTS verif_upd; DROP TABLE IF EXISTS verif_fault;`
)

const (
	cfInstall = `
CREATE TABLE IF NOT EXISTS verif_cf(n INTEGER);
DELETE FROM verif_cf;
INSERT INTO verif_cf VALUES (%d);
CREATE TABLE IF NOT EXISTS verif_cf_parent(id INTEGER PRIMARY KEY);
CREATE TABLE IF NOT EXISTS verif_cf_child(pid INTEGER REFERENCES verif_cf_parent(id) DEFERRABLE INITIALLY DEFERRED);
CREATE TRIGGER IF NOT EXISTS verif_cf_ins AFTER INSERT ON headers BEGIN
  UPDATE verif_cf SET n = n - 1;
  INSERT INTO verif_cf_child SELECT 424242 WHERE (SELECT n FROM verif_cf) < 0;
END;`
	cfRemove = `DROP TRIGGER IF EXISTS verif_cf_ins; DROP TABLE IF EXISTS verif_cf_child; DROP TABLE IF EXISTS verif_cf_parent; DROP TABLE IF EXISTS verif_cf;`
)

func sqlRowsLeft(st *rig.Stack) int {
	var n int
	_ = st.DB.Get(&n, "SELECT n FROM verif_fault")
	return n
}

// faultCtl drives the decorator: counts writes, injects one fault at write index K.
type faultCtl struct {
	writes    int // writes seen so far (global index)
	inAdd     int // writes seen within the current Add
	K         int // -1: no fault
	Kind      string
	fired     bool
	firedOp   string // e.g. UpdateState#1
	realKill  bool   // SIGKILL the own process instead of panicking
	childSent bool   // error-then-carry-on: the block on top of the earlier tip has been delivered
	opsInAdd  []string
}

func (f *faultCtl) hooks() *deco.Hooks {
	return &deco.Hooks{
		Before: func(op string, write bool, arg string) error {
			if !write {
				return nil
			}
			idx := f.writes
			f.inAdd++
			label := fmt.Sprintf("%s#%d", op, f.inAdd)
			if idx == f.K && !f.fired {
				switch f.Kind {
				case killBefore:
					f.fired, f.firedOp = true, label
					f.die(deco.Crash{Op: op, Index: idx})
				case errInstead, errContinue:
					f.fired, f.firedOp = true, label
					f.writes++
					return errors.New("verif: injected storage write failure")
				}
			}
			return nil
		},
		After: func(op string, write bool, err error) {
			if !write {
				return
			}
			idx := f.writes
			f.writes++
			if idx == f.K && !f.fired && f.Kind == killAfter {
				f.fired, f.firedOp = true, fmt.Sprintf("%s#%d", op, f.inAdd)
				f.die(deco.Crash{Op: op, Index: idx, After: true})
			}
		},
	}
}

func (f *faultCtl) die(c deco.Crash) {
	if f.realKill {
		_ = syscall.Kill(os.Getpid(), syscall.SIGKILL)
		select {}
	}
	panic(c)
}

// ReorgHistory builds a history with reorganisations of chosen depths, branch switches
// back and forth, plain extensions, and a little noise.
func ReorgHistory(rng *rand.Rand, maxDepth int) gen.History {
	g := rig.Genesis()
	var out gen.History
	counter := 0
	var lastMerkle refmodel.Hash
	mk := func(prev refmodel.Hash, bits uint32) refmodel.Hdr {
		counter++
		h := refmodel.Hdr{Prev: prev, Bits: bits}
		gen.Fields(rng, &h, false, counter)
		// now and then a block with the merkle root of an earlier block (two blocks mined from one template; mainnet has
		// such pairs): a different header all the same
		if counter > 1 && rng.Intn(8) == 0 {
			h.Merkle = lastMerkle
		}
		lastMerkle = h.Merkle
		return h
	}
	// main chain
	main := []refmodel.Hash{g.HashOf()}
	L := maxDepth + 1 + rng.Intn(3)
	for i := 0; i < L; i++ {
		h := mk(main[len(main)-1], gen.BitsNormal)
		out.Hdrs = append(out.Hdrs, h)
		main = append(main, h.HashOf())
	}
	active := main // hashes of the currently longest branch from genesis
	rounds := 1 + rng.Intn(3)
	for r := 0; r < rounds; r++ {
		depth := 1 + rng.Intn(maxDepth)
		if depth >= len(active) {
			depth = len(active) - 1
		}
		forkAt := len(active) - 1 - depth
		branch := append([]refmodel.Hash(nil), active[:forkAt+1]...)
		switch rng.Intn(3) {
		case 0: // equal-work blocks: the (depth+1)-th block triggers a reorg of that depth with depth stale ancestors
			for i := 0; i < depth+1; i++ {
				h := mk(branch[len(branch)-1], gen.BitsNormal)
				out.Hdrs = append(out.Hdrs, h)
				branch = append(branch, h.HashOf())
			}
		case 1: // one heavy sibling block overtakes at once (empty stale part)
			h := mk(branch[len(branch)-1], gen.BitsHeavy)
			out.Hdrs = append(out.Hdrs, h)
			branch = append(branch, h.HashOf())
		default: // light blocks first (stale), then a heavy one
			n := 1 + rng.Intn(2)
			for i := 0; i < n; i++ {
				h := mk(branch[len(branch)-1], gen.BitsLight)
				out.Hdrs = append(out.Hdrs, h)
				branch = append(branch, h.HashOf())
			}
			h := mk(branch[len(branch)-1], gen.BitsHeavy)
			out.Hdrs = append(out.Hdrs, h)
			branch = append(branch, h.HashOf())
		}
		active = branch
		// plain extension
		if rng.Intn(2) == 0 {
			h := mk(active[len(active)-1], gen.BitsNormal)
			out.Hdrs = append(out.Hdrs, h)
			active = append(active, h.HashOf())
		}
		// noise: an orphan or a duplicate
		switch rng.Intn(4) {
		case 0:
			var unk refmodel.Hash
			rng.Read(unk[:])
			out.Hdrs = append(out.Hdrs, mk(unk, gen.BitsNormal))
		case 1:
			out.Hdrs = append(out.Hdrs, out.Hdrs[rng.Intn(len(out.Hdrs))])
		}
	}
	return out
}

type env struct {
	r *ev.Run
}

// ingest runs the history until the fault fires; returns acknowledged headers (by
// hash -> immutable row expectation is taken from the snapshot right after ack).
func ingest(st *rig.Stack, hist gen.History, f *faultCtl) (acked []string, crashed bool, stoppedAt int, lastRes rig.AddResult) {
	for i, h := range hist.Hdrs {
		f.inAdd = 0
		var tipBefore *refmodel.Hash
		if f.Kind == errContinue && !f.fired {
			if t := st.Svc.Headers.GetTip(); t != nil {
				th := refmodel.Hash(t.Hash)
				tipBefore = &th
			}
		}
		res := st.Add(h)
		if f.Kind == errContinue && f.fired && tipBefore != nil && !f.childSent {
			// the submission that just failed may have been a reorganisation: the very next thing a peer delivers is a
			// block on top of what was the tip before it
			f.childSent = true
			c := refmodel.Hdr{Version: 0x20000000, Prev: *tipBefore, Bits: gen.BitsNormal, Time: 1700000000 + uint32(i), Nonce: uint32(0xC0500000 + i)}
			c.Merkle[0], c.Merkle[1] = 0xC5, byte(i)
			_ = st.Add(c)
		}
		lastRes = res
		if res.Panic != nil {
			if _, ok := res.Panic.(deco.Crash); ok {
				return acked, true, i, res
			}
			return acked, true, i, res
		}
		if res.Err == nil {
			acked = append(acked, h.HashOf().String())
		}
		if f.fired && f.Kind != errContinue { // error-instead: stop ingesting at the failed write (weakest reading)
			return acked, false, i, res
		}
	}
	return acked, false, len(hist.Hdrs), lastRes
}

func snapshotDiff(want, got snap.Headers) []string {
	var ds []string
	for h, w := range want {
		g, ok := got[h]
		if !ok {
			ds = append(ds, fmt.Sprintf("%s missing (uninterrupted run has it as %s)", short(h), w.State))
			continue
		}
		if g.String() != w.String() {
			if g.Immutable() == w.Immutable() {
				ds = append(ds, fmt.Sprintf("%s state %s, uninterrupted run %s", short(h), g.State, w.State))
			} else {
				ds = append(ds, fmt.Sprintf("%s row differs: %s vs %s", short(h), g.String(), w.String()))
			}
		}
	}
	for h, g := range got {
		if _, ok := want[h]; !ok {
			ds = append(ds, fmt.Sprintf("%s extra row (%s)", short(h), g.State))
		}
	}
	if len(ds) > 8 {
		ds = append(ds[:8], fmt.Sprintf("… %d more", len(ds)-8))
	}
	return ds
}

func min3(ai, last int) int {
	switch {
	case ai == 0:
		return 0
	case ai == last:
		return 2
	}
	return 1
}

func short(h string) string {
	if len(h) > 10 {
		return h[len(h)-10:]
	}
	return h
}

// oneFault executes history with a single fault and checks recovery. baseline is the
// uninterrupted run's final table.
func (e *env) oneFault(caseID string, dir string, hist gen.History, baseline snap.Headers, k int, kind string, real bool, cell string) {
	r := e.r
	f := &faultCtl{K: k, Kind: kind}
	detail := map[string]any{"history_hex": hist.Hex(), "fault_write_index": k, "fault_kind": kind, "real_sigkill": real}
	name := "f.db"
	var st *rig.Stack
	var err error
	var acked []string
	var pre snap.Headers
	if real {
		// run the ingestion in a child process that SIGKILLs itself at the fault point
		name = "k.db"
		os.Remove(filepath.Join(dir, name))
		acked, f.firedOp, err = runKillChild(dir, name, hist, k, kind)
		if err != nil {
			r.Violate("harness|killchild", err.Error(), caseID, detail)
			return
		}
		st, err = rig.New(rig.Options{Dir: dir, Name: name, NoHTTP: true}) // = restart
		if err != nil {
			r.Violate("restart-failed|"+kind+"|"+f.firedOp, "database.Init failed after SIGKILL: "+err.Error(), caseID, detail)
			return
		}
		defer st.Destroy()
		r.Count("real_sigkill_runs", 1)
	} else {
		st, err = rig.New(rig.Options{Dir: dir, Name: name, NoHTTP: true, WrapHeaders: deco.Wrap(f.hooks())})
		if err != nil {
			r.Violate("harness|rig", err.Error(), caseID, nil)
			return
		}
		defer st.Destroy()
		var res rig.AddResult
		var crashed bool
		if kind == commitFails {
			// the statement inserting the (k+1)-th header goes through, the COMMIT of its transaction is refused (and every
			// later one, until the restart)
			f.K = -1
			if _, err := st.DB.Exec(fmt.Sprintf(cfInstall, k)); err != nil {
				r.Violate("harness|commit-fault-install", err.Error(), caseID, nil)
				return
			}
			for _, h := range hist.Hdrs {
				res = st.Add(h)
				if res.Panic != nil {
					crashed = true
					break
				}
				if res.Err == nil {
					acked = append(acked, h.HashOf().String())
				} else if c := res.Code(); c != "HeaderAlreadyExists" && c != "BlockRejected" {
					break
				}
			}
			f.fired, f.firedOp = true, cell
			if _, err := st.DB.Exec(cfRemove); err != nil {
				r.Violate("harness|commit-fault-remove", err.Error(), caseID, nil)
				return
			}
		} else if kind == sqlAbort {
			// fault INSIDE the SQL layer: the (k+1)-th row written to the headers table aborts its statement, and so does
			// every later one until the triggers are removed (an I/O error that persists until the restart)
			f.K = -1
			if _, err := st.DB.Exec(fmt.Sprintf(sqlInstall, k)); err != nil {
				r.Violate("harness|sql-fault-install", err.Error(), caseID, nil)
				return
			}
			for _, h := range hist.Hdrs {
				res = st.Add(h)
				if res.Panic != nil {
					crashed = true
					break
				}
				if res.Err == nil {
					acked = append(acked, h.HashOf().String())
				} else if c := res.Code(); c != "HeaderAlreadyExists" && c != "BlockRejected" {
					break // the service reported the storage failure: ingestion stops here (weakest reading)
				}
			}
			f.fired, f.firedOp = true, cell
			if _, err := st.DB.Exec(sqlRemove); err != nil {
				r.Violate("harness|sql-fault-remove", err.Error(), caseID, nil)
				return
			}
		} else {
			acked, crashed, _, res = ingest(st, hist, f)
		}
		if crashed {
			if _, ok := res.Panic.(deco.Crash); !ok {
				r.Violate("panic-during-ingest|"+kind, fmt.Sprintf("Chains.Add panicked: %v", res.Panic), caseID, detail)
				return
			}
		}
		if !f.fired {
			r.Violate("harness|fault-not-reached", fmt.Sprintf("write index %d never reached", k), caseID, detail)
			return
		}
		pre, err = snap.TakeHeaders(st.DB)
		if err != nil {
			r.Violate("harness|snapshot", err.Error(), caseID, nil)
			return
		}
		// restart without faults (abandon everything, re-run database.Init on the same file)
		st.Opt.WrapHeaders = nil
		if k%3 == 1 {
			// a deployment that preloads its database (db.prepared_db: true) restarts with that same configuration: the
			// store is not empty, so the preload must leave it alone
			st.Opt.Config = func(c *config.AppConfig) { c.Db.PreparedDb = true }
			r.Count("restarts_with_prepared_db_enabled", 1)
		}
		if err := st.Restart(); err != nil {
			r.Violate("restart-failed|"+kind+"|"+f.firedOp, "database.Init failed after the fault: "+err.Error(), caseID, detail)
			return
		}
	}
	where := kind + "|" + f.firedOp
	detail["fault_at"] = f.firedOp
	post, err := snap.TakeHeaders(st.DB)
	if err != nil {
		r.Violate("harness|snapshot", err.Error(), caseID, nil)
		return
	}
	if pre != nil && pre.Digest() != post.Digest() {
		r.Violate("restart-modified-store|"+where, "database.Init on the existing file changed stored headers: "+strings.Join(snapshotDiff(pre, post), "; "), caseID, detail)
		return
	}
	if bad := post.IChain(); bad != "" {
		r.Violate("ichain-after-restart|"+where, bad, caseID, detail)
		return
	}
	for _, h := range acked {
		if kind == errContinue {
			break // descendants delivered while their parent was missing are orphans: not comparable with the uninterrupted run
		}
		row, ok := post[h]
		if !ok {
			r.Violate("acked-missing|"+where, "acknowledged header "+h+" is missing after restart", caseID, detail)
			return
		}
		if b, ok := baseline[h]; ok && b.Immutable() != row.Immutable() {
			r.Violate("acked-altered|"+where, "acknowledged header "+h+" altered: "+row.Immutable()+" vs "+b.Immutable(), caseID, detail)
			return
		}
	}
	if st.Svc.Headers.GetTip() == nil {
		r.Violate("no-tip-after-restart|"+where, "GetTip returns nothing after restart", caseID, detail)
		return
	}
	// redelivery, twice
	m := mb.NewModel() // only used to classify expected answers
	for pass := 1; pass <= 2; pass++ {
		for i, h := range hist.Hdrs {
			res := st.Add(h)
			code := res.Code()
			okCodes := code == "stored" || code == "HeaderAlreadyExists" || (code == "BlockRejected" && m.Forbidden[h.HashOf()])
			if !okCodes {
				detail["redelivery_pass"], detail["redelivery_step"] = pass, i
				if res.Panic != nil {
					detail["stack"] = res.Stack
				}
				r.Violate("stuck|"+code+"|"+where, fmt.Sprintf("redelivery pass %d step %d answered %s (%v) after %s at %s", pass, i, code, res.Err, kind, f.firedOp), caseID, detail)
				return
			}
			if pass == 2 && code == "stored" {
				r.Violate("second-redelivery-stored|"+where, "a header was stored again in the second redelivery pass", caseID, detail)
				return
			}
		}
		fin, err := snap.TakeHeaders(st.DB)
		if err != nil {
			r.Violate("harness|snapshot", err.Error(), caseID, nil)
			return
		}
		if kind != errContinue && fin.Digest() != baseline.Digest() {
			r.Violate("final-state-differs|"+where, fmt.Sprintf("after redelivery pass %d the store differs from the uninterrupted run: %s", pass, strings.Join(snapshotDiff(baseline, fin), "; ")), caseID, detail)
			return
		}
		if bad := fin.IChain(); bad != "" {
			r.Violate("ichain-after-redelivery|"+where, bad, caseID, detail)
			return
		}
	}
	r.Count("fault_runs_"+kind, 1)
	// distinct = structural cell of the fault: kind x position of the write inside its Add (1st/2nd/3rd of a
	// 1- or 3-write submission) x real/in-process kill x whether the interrupted submission was a duplicate-free reorg
	r.Distinct(fmt.Sprintf("%s|%s|real=%v", where, cell, real))
}

func body(r *ev.Run) {
	r.Rule("per history (constructed reorganisations of depth 1..D by equal-work overtaking, heavy sibling, light-then-heavy; branch switches, extensions, orphans, duplicates): the uninterrupted run counts W write calls at the repository interface (AddHeaderToDatabase/UpdateState, each one SQL transaction); then W x {kill-before, kill-after, error-instead, error-then-carry-on (ingestion goes on in the same process; judged by the structural invariant only)} runs, one fault each, plus refused COMMITs of the first / middle / last header INSERT (deferred foreign key raised by a trigger), plus SQL-level faults (a trigger makes the statement writing the k-th ROW of the headers table abort - every row of multi-row relabel statements, a sample of the single-row ones), followed by restart (database.Init on the same file), invariant checks, and two full redeliveries compared row-for-row with the uninterrupted run. Plus a first start killed between the creation of the schema and the genesis insert (the next start completes it). Plus reorganisations over 520 and 2010 (thorough: 1030 and 2010) heights with faults at the last submission's write boundaries and at rows 1, 500, 501, last of both relabelling statements. A seeded sample is repeated with a real SIGKILL of a child process. evaluations = fault runs; distinct = distinct structural cells (fault kind x operation and ordinal inside its submission x writes of that submission x first/middle/last submission x history length class x real-or-in-process kill); non-trivial = all (each has a fault).")
	r.Assume("a write boundary is a call of repository.Headers.AddHeaderToDatabase/UpdateState (each is one committed SQL transaction)", "after an injected write error ingestion stops and the service is restarted (weakest reading)", "SQLite only")
	r.Require("faults_inside_reorg", 10)
	r.Require("fault_runs_sql-abort", 50)
	r.Require("fault_runs_"+errContinue, 100)
	r.Require("fault_runs_"+commitFails, 30)
	r.Require("sql_faults_inside_multi_row_statement", 5)
	mb.ForbiddenHeaders()
	e := &env{r: r}
	nHist := r.Pick(90, 1500)
	maxDepth := r.Pick(4, 8)
	realSample := r.Pick(6, 12) // every n-th fault run is repeated with a real SIGKILL
	// a reorganisation over more than 500 heights: faults at the write boundaries of the last submission and at rows
	// inside its two relabelling statements (first, around the 500th, last)
	// the very first start is killed after the schema was created and before the genesis header was written: the next
	// start completes the job (there is a genesis header and a tip), and ingestion works from there
	r.Do("first-start/killed-before-genesis", func() {
		caseID := "first-start/killed-before-genesis"
		dir := filepath.Join(r.Scratch, "c05")
		_ = os.MkdirAll(dir, 0o755)
		st, err := rig.New(rig.Options{Dir: dir, Name: "first.db", NoHTTP: true})
		if err != nil {
			r.Violate("harness|rig", err.Error(), caseID, nil)
			return
		}
		defer st.Destroy()
		// = the state a kill between the migrations and the genesis insert leaves behind: the schema, no header
		if _, err := st.DB.Exec(`DELETE FROM headers`); err != nil {
			r.Violate("harness|sql", err.Error(), caseID, nil)
			return
		}
		if err := st.Restart(); err != nil {
			r.Violate("restart-failed|first-start|killed-before-genesis", "database.Init failed on a database that has the schema but no genesis header yet: "+err.Error(), caseID, nil)
			return
		}
		t, err := snap.TakeHeaders(st.DB)
		if err != nil {
			r.Violate("harness|snapshot", err.Error(), caseID, nil)
			return
		}
		if len(t) != 1 || st.Svc.Headers.GetTip() == nil {
			r.Violate("no-genesis-after-restart|first-start|killed-before-genesis", fmt.Sprintf("after the restart the store holds %d headers and GetTip returns %v; expected the genesis header", len(t), st.Svc.Headers.GetTip()), caseID, nil)
			return
		}
		rng := r.Rand(caseID)
		hist := ReorgHistory(rng, 3)
		m := mb.NewModel()
		for _, h := range hist.Hdrs {
			si := mb.Step(st, m, h)
			if si.Res.Panic != nil || si.Res.Code() != mb.WantCode(si.Outcome) {
				r.Violate("stuck|first-start|killed-before-genesis", fmt.Sprintf("after completing an interrupted first start a submission answered %q, expected %q", si.Res.Code(), mb.WantCode(si.Outcome)), caseID, map[string]any{"history_hex": hist.Hex()})
				return
			}
		}
		r.Count("interrupted_first_starts", 1)
		r.Case("", false)
	})
	// the genesis insert of the very first start fails (a write error instead of a kill): either the start is refused, or
	// whatever was acknowledged afterwards must be where an uninterrupted run puts it once the fault is gone and the same
	// headers have been delivered again
	r.Do("first-start/genesis-insert-fails", func() {
		caseID := "first-start/genesis-insert-fails"
		dir := filepath.Join(r.Scratch, "c05")
		_ = os.MkdirAll(dir, 0o755)
		st, err := rig.New(rig.Options{Dir: dir, Name: "first-err.db", NoHTTP: true})
		if err != nil {
			r.Violate("harness|rig", err.Error(), caseID, nil)
			return
		}
		defer st.Destroy()
		if _, err := st.DB.Exec(`DELETE FROM headers; CREATE TRIGGER verif_c05_nogenesis BEFORE INSERT ON headers WHEN NEW.height = 0 BEGIN SELECT RAISE(ABORT, 'verif: injected write failure (genesis insert)'); END;`); err != nil {
			r.Violate("harness|sql", err.Error(), caseID, nil)
			return
		}
		rng := r.Rand(caseID)
		hist := ReorgHistory(rng, 3)
		if err := st.Restart(); err != nil {
			r.Count("first_starts_refused_when_the_genesis_insert_fails", 1)
			// the refused start left the file behind: reopen it raw to lift the fault
			if db, derr := sqlx.Open("sqlite3", "file:"+st.Path); derr == nil {
				_, _ = db.Exec(`DROP TRIGGER IF EXISTS verif_c05_nogenesis`)
				_ = db.Close()
			}
		} else {
			// the start went through with the write lost: ingestion is acknowledged on top of that
			for _, h := range hist.Hdrs {
				_ = st.Add(h)
			}
			r.Count("first_starts_accepted_although_the_genesis_insert_failed", 1)
			if _, err := st.DB.Exec(`DROP TRIGGER IF EXISTS verif_c05_nogenesis`); err != nil {
				r.Violate("harness|sql", err.Error(), caseID, nil)
				return
			}
		}
		if err := st.Restart(); err != nil {
			r.Violate("restart-failed|first-start|genesis-insert-fails", "database.Init failed after the write fault was gone: "+err.Error(), caseID, nil)
			return
		}
		m := mb.NewModel()
		for pass := 0; pass < 2; pass++ {
			for _, h := range hist.Hdrs {
				res := st.Add(h)
				if pass == 0 {
					m.Submit(h)
				}
				if res.Panic != nil {
					r.Violate("panic|first-start|genesis-insert-fails", fmt.Sprint(res.Panic), caseID, nil)
					return
				}
			}
		}
		t, err := snap.TakeHeaders(st.DB)
		if err != nil {
			r.Violate("harness|snapshot", err.Error(), caseID, nil)
			return
		}
		if ds := mb.CompareTable(m, t, false); len(ds) > 0 {
			r.Violate("final-state-differs|first-start|genesis-insert-fails", "the genesis insert of the first start failed; after the fault was gone, a restart and two deliveries of the same headers the store differs from an uninterrupted run: "+mb.DescribeDiffs(ds, 5), caseID, map[string]any{"history_hex": hist.Hex()})
			return
		}
		r.Count("first_starts_with_a_failing_genesis_insert_recovered", 1)
		r.Case("", false)
	})
	type deepCfg struct {
		depth int
		full  bool // all fault points (else: the last write boundary only)
	}
	deeps := []deepCfg{{520, true}, {2010, false}}
	if r.Thorough() {
		deeps = []deepCfg{{1030, true}, {2010, true}}
	}
	for di, dc := range deeps {
		di, dc := di, dc
		r.Do(fmt.Sprintf("deep/%d", di), func() {
			caseID := fmt.Sprintf("deep/%d", di)
			rng := r.Rand(caseID)
			depth := dc.depth
			hist := gen.DeepReorg(rng, rig.Genesis(), 2, depth)
			dir := filepath.Join(r.Scratch, "c05")
			_ = os.MkdirAll(dir, 0o755)
			f0 := &faultCtl{K: -1}
			st, err := rig.New(rig.Options{Dir: dir, Name: "base.db", NoHTTP: true, WrapHeaders: deco.Wrap(f0.hooks())})
			if err != nil {
				r.Violate("harness|rig", err.Error(), caseID, nil)
				return
			}
			for _, h := range hist.Hdrs {
				if res := st.Add(h); res.Panic != nil || res.Err != nil {
					r.Count("histories_skipped_uninterrupted_run_fails", 1)
					st.Destroy()
					return
				}
			}
			baseline, err := snap.TakeHeaders(st.DB)
			st.Destroy()
			if err != nil {
				r.Count("histories_skipped_uninterrupted_run_fails", 1)
				return
			}
			if bad := baseline.IChain(); bad != "" {
				// "killed after the last write": nothing was interrupted and the store is not a chain
				r.Violate("ichain-after-uninterrupted-run|deep-reorg", fmt.Sprintf("after a reorganisation over %d heights that nothing interrupted: %s", depth, bad), caseID, map[string]any{"reorganisation_depth": depth})
				return
			}
			W := f0.writes
			first := W - 3
			if !dc.full {
				first = W - 1
			}
			for k := first; k < W; k++ {
				for _, kind := range kinds {
					e.oneFault(fmt.Sprintf("%s/w%d/%s", caseID, k, kind), dir, hist, baseline, k, kind, false, fmt.Sprintf("write%d-of-3|last-add|deep-reorg", k-(W-3)+1))
					r.Case("", false)
				}
			}
			rows0 := len(hist.Hdrs) - 1 // rows written before the last submission (one per stored header)
			for _, j := range []int{0, 1, 499, 500, 501, depth - 1, depth, depth + 1, depth + 499, depth + 500, depth + 501, 2*depth - 1, 2 * depth} {
				if j > 2*depth || (!dc.full && j != depth+1) {
					continue
				}
				e.oneFault(fmt.Sprintf("%s/row%d/%s", caseID, rows0+j, sqlAbort), dir, hist, baseline, rows0+j, sqlAbort, false, fmt.Sprintf("row%d-of-%d|deep-reorg", j+1, 2*depth+1))
				r.Case("", false)
				r.Count("sql_faults_inside_multi_row_statement", 1)
			}
			r.Count("deep_reorganisations_with_faults", 1)
		})
	}
	for i := 0; i < nHist; i++ {
		caseID := fmt.Sprintf("h/%d", i)
		r.Do(caseID, func() {
			rng := r.Rand(caseID)
			var hist gen.History
			if i%5 == 4 {
				hist = gen.Random(rng, rig.Genesis(), gen.Opts{N: 10 + rng.Intn(25), PDup: 0.05, PUnknown: 0.05, PLate: 0.05, PFork: 0.4, Classes: "MHL"})
			} else {
				hist = ReorgHistory(rng, maxDepth)
			}
			dir := filepath.Join(r.Scratch, "c05")
			_ = os.MkdirAll(dir, 0o755)
			// uninterrupted run
			f0 := &faultCtl{K: -1}
			var perAdd []int
			st, err := rig.New(rig.Options{Dir: dir, Name: "base.db", NoHTTP: true, WrapHeaders: deco.Wrap(f0.hooks())})
			if err != nil {
				r.Violate("harness|rig", err.Error(), caseID, nil)
				return
			}
			for _, h := range hist.Hdrs {
				f0.inAdd = 0
				res := st.Add(h)
				if res.Panic != nil || (res.Err != nil && res.Code() != "HeaderAlreadyExists" && res.Code() != "BlockRejected") {
					// the uninterrupted run itself fails: that is C01's business; skip this history
					r.Count("histories_skipped_uninterrupted_run_fails", 1)
					st.Destroy()
					return
				}
				perAdd = append(perAdd, f0.inAdd)
			}
			baseline, err := snap.TakeHeaders(st.DB)
			st.Destroy()
			if err != nil {
				r.Violate("harness|snapshot", err.Error(), caseID, nil)
				return
			}
			if bad := baseline.IChain(); bad != "" {
				r.Count("histories_skipped_uninterrupted_run_fails", 1)
				return
			}
			W := f0.writes
			inside := 0
			for _, n := range perAdd {
				if n >= 3 {
					inside += 2 // the two boundaries between the three steps of a reorg
				}
			}
			r.Count("histories", 1)
			r.Count("write_boundaries", int64(W))
			r.Count("faults_inside_reorg", int64(inside*3))
			before := r.NumViolations()
			cells := make([]string, 0, W)
			for ai, n := range perAdd {
				for j := 1; j <= n; j++ {
					pos := "middle"
					if ai == 0 {
						pos = "first-add"
					} else if ai == len(perAdd)-1 {
						pos = "last-add"
					}
					cells = append(cells, fmt.Sprintf("write%d-of-%d|%s|history-len-class=%d", j, n, pos, len(hist.Hdrs)/8))
				}
			}
			for k := 0; k < W; k++ {
				for ki, kind := range kinds {
					sub := fmt.Sprintf("%s/w%d/%s", caseID, k, kind)
					e.oneFault(sub, dir, hist, baseline, k, kind, false, cells[k])
					r.Case("", false)
					if kind != errInstead && (k*3+ki+i)%realSample == 0 {
						e.oneFault(sub+"/sigkill", dir, hist, baseline, k, kind, true, cells[k])
						r.Case("", false)
					}
				}
				// the write fails and ingestion carries on in the same process
				e.oneFault(fmt.Sprintf("%s/w%d/%s", caseID, k, errContinue), dir, hist, baseline, k, errContinue, false, cells[k])
				r.Case("", false)
			}
			// the COMMIT of a header's INSERT is refused: first, middle and last stored header
			if nIns := len(baseline) - 1; nIns > 0 {
				seen := map[int]bool{}
				for _, k := range []int{0, nIns / 2, nIns - 1} {
					if seen[k] {
						continue
					}
					seen[k] = true
					e.oneFault(fmt.Sprintf("%s/ins%d/%s", caseID, k, commitFails), dir, hist, baseline, k, commitFails, false, fmt.Sprintf("insert%d-of-%d|history-len-class=%d", min3(k, nIns-1), nIns, len(hist.Hdrs)/8))
					r.Case("", false)
				}
			}
			// SQL-level faults: count the rows written by the uninterrupted run, then abort at every row
			cst, cerr := rig.New(rig.Options{Dir: dir, Name: "count.db", NoHTTP: true})
			if cerr == nil {
				const big = 1 << 30
				_, _ = cst.DB.Exec(fmt.Sprintf(sqlInstall, big))
				var rowCells []string
				for ai, h := range hist.Hdrs {
					b0 := sqlRowsLeft(cst)
					cst.Add(h)
					n := b0 - sqlRowsLeft(cst)
					for j := 1; j <= n; j++ {
						rowCells = append(rowCells, fmt.Sprintf("row%d-of-%d|history-len-class=%d|add%d", j, n, len(hist.Hdrs)/8, min3(ai, len(hist.Hdrs)-1)))
					}
				}
				cst.Destroy()
				stride := 1
				if len(rowCells) > r.Pick(24, 80) {
					stride = 1 + len(rowCells)/r.Pick(24, 80)
				}
				for k := 0; k < len(rowCells); k++ {
					multi := strings.Contains(rowCells[k], "-of-") && !strings.Contains(rowCells[k], "-of-1|")
					if !multi && k%stride != 0 {
						continue // rows of single-row statements are sampled; every row of a multi-row relabel is used
					}
					sub := fmt.Sprintf("%s/row%d/%s", caseID, k, sqlAbort)
					e.oneFault(sub, dir, hist, baseline, k, sqlAbort, false, rowCells[k])
					r.Case("", false)
					if multi {
						r.Count("sql_faults_inside_multi_row_statement", 1)
					}
				}
			}
			if r.WantSample() && r.NumViolations() == before && W >= 6 && len(hist.Hdrs) <= 16 {
				r.Sample(map[string]any{"case": caseID, "history_hex": hist.Hex(), "write_boundaries": W, "writes_per_add": perAdd, "fault_runs": W * 3})
			}
		})
	}
}

// ---------------------------------------------------------------------------
// real SIGKILL child

// KillChildMain is the entry point of the self-killing ingestion child:
// vcheck __c05kill <dir> <name> <k> <kind> <hex headers...>
func KillChildMain(args []string) {
	dir, name := args[0], args[1]
	var k int
	fmt.Sscan(args[2], &k)
	kind := args[3]
	hist, err := gen.FromHex(args[4:])
	if err != nil {
		fmt.Println("ERR", err)
		os.Exit(3)
	}
	mb.ForbiddenHeaders()
	f := &faultCtl{K: k, Kind: kind, realKill: true}
	ack, _ := os.OpenFile(filepath.Join(dir, name+".acks"), os.O_CREATE|os.O_WRONLY|os.O_TRUNC|os.O_SYNC, 0o644)
	inner := f.hooks()
	hk := &deco.Hooks{
		Before: func(op string, write bool, arg string) error {
			if write && f.writes == k && kind == killBefore {
				fmt.Fprintf(ack, "FIRED %s#%d\n", op, f.inAdd+1)
			}
			return inner.Before(op, write, arg)
		},
		After: func(op string, write bool, err error) {
			if write && f.writes == k && kind == killAfter {
				fmt.Fprintf(ack, "FIRED %s#%d\n", op, f.inAdd)
			}
			inner.After(op, write, err)
		},
	}
	st, err := rig.New(rig.Options{Dir: dir, Name: name, NoHTTP: true, WrapHeaders: deco.Wrap(hk)})
	if err != nil {
		fmt.Println("ERR", err)
		os.Exit(3)
	}
	for _, h := range hist.Hdrs {
		f.inAdd = 0
		res := st.Add(h)
		if res.Err == nil && res.Panic == nil {
			fmt.Fprintf(ack, "ACK %s\n", h.HashOf().String())
		}
	}
	fmt.Println("ERR fault not reached")
	os.Exit(4)
}

func runKillChild(dir, name string, hist gen.History, k int, kind string) (acked []string, firedOp string, err error) {
	exe, err := os.Executable()
	if err != nil {
		return nil, "", err
	}
	args := append([]string{"__c05kill", dir, name, fmt.Sprint(k), kind}, hist.Hex()...)
	cmd := exec.Command(exe, args...)
	cmd.Env = append(os.Environ(), "VCHECK_CHILD=")
	out, werr := cmd.CombinedOutput()
	ws, ok := cmd.ProcessState.Sys().(syscall.WaitStatus)
	if !ok || !ws.Signaled() || ws.Signal() != syscall.SIGKILL {
		return nil, "", fmt.Errorf("kill child did not die by SIGKILL: %v: %s", werr, string(out))
	}
	b, _ := os.ReadFile(filepath.Join(dir, name+".acks"))
	os.Remove(filepath.Join(dir, name+".acks"))
	for _, l := range strings.Split(string(b), "\n") {
		if strings.HasPrefix(l, "ACK ") {
			acked = append(acked, strings.TrimPrefix(l, "ACK "))
		}
		if strings.HasPrefix(l, "FIRED ") {
			firedOp = strings.TrimPrefix(l, "FIRED ")
		}
	}
	if firedOp == "" {
		return nil, "", fmt.Errorf("kill child left no FIRED record: %s", string(out))
	}
	return acked, firedOp, nil
}
