package c17

import (
	"fmt"
	"math"
	"math/rand"
	"os"
	"path/filepath"
	"strings"
	"time"

	"github.com/bitcoin-sv/block-headers-service/database"
	"github.com/bitcoin-sv/block-headers-service/verifharness/gen"
	"github.com/bitcoin-sv/block-headers-service/verifharness/refmodel"
	"github.com/bitcoin-sv/block-headers-service/verifharness/rig"
	"github.com/bitcoin-sv/block-headers-service/verifharness/snap"
)

// buildExact builds a history whose longest chain has L rows (genesis included), with
// stale forks (submitted behind the tip with less work), real reorganisations (a branch
// that was longest first and is then overtaken), orphans, and extreme field values.
func buildExact(rng *rand.Rand, L int) gen.History {
	g := rig.Genesis()
	main := []refmodel.Hash{g.HashOf()}
	counter := 0
	var out gen.History
	mk := func(prev refmodel.Hash, bits uint32) refmodel.Hdr {
		counter++
		h := refmodel.Hdr{Prev: prev, Bits: bits}
		gen.Fields(rng, &h, true, counter)
		out.Hdrs = append(out.Hdrs, h)
		return h
	}
	randHash := func() refmodel.Hash {
		var h refmodel.Hash
		rng.Read(h[:])
		return h
	}
	pReorg, pStale, pOrphan := 0.01+0.03*rng.Float64(), 0.02+0.08*rng.Float64(), 0.01+0.03*rng.Float64()
	for len(main) < L {
		tip := main[len(main)-1]
		x := rng.Float64()
		switch {
		case x < pReorg && L-len(main) >= 3:
			// a1,a2 become longest, then m1,m2 (equal work: first seen wins) and m3 overtakes
			a1 := mk(tip, gen.BitsNormal)
			mk(a1.HashOf(), gen.BitsNormal)
			m1 := mk(tip, gen.BitsNormal)
			m2 := mk(m1.HashOf(), gen.BitsNormal)
			m3 := mk(m2.HashOf(), gen.BitsNormal)
			main = append(main, m1.HashOf(), m2.HashOf(), m3.HashOf())
		case x < pReorg+pStale && len(main) >= 2:
			j := rng.Intn(len(main) - 1) // parent strictly behind the tip
			s1 := mk(main[j], gen.BitsLight)
			if j+2 < len(main) && rng.Intn(2) == 0 {
				mk(s1.HashOf(), gen.BitsLight)
			}
		case x < pReorg+pStale+pOrphan:
			mk(randHash(), gen.BitsNormal)
		default:
			bits := gen.BitsNormal
			if rng.Intn(8) == 0 {
				bits = gen.BitsHeavy
			}
			m := mk(tip, bits)
			main = append(main, m.HashOf())
		}
	}
	for i := rng.Intn(3); i > 0; i-- {
		mk(randHash(), gen.BitsNormal)
	}
	if L >= 3 && rng.Intn(2) == 0 { // a stale sibling of an early block, submitted last
		mk(main[rng.Intn(len(main)-2)], gen.BitsLight)
	}
	return out
}

var boundaryLengths = []int{1, 2, 3, 499, 500, 501, 502, 999, 1000, 1001, 1499, 1500, 1501, 1600}

// twinRows rewrites a history so that now and then a header carries exactly the version, merkle root, time, bits and
// nonce of its parent (only the parent hash differs): two rows of the export are then identical in every exported column.
func twinRows(rng *rand.Rand, hist gen.History) (gen.History, int) {
	renamed := map[refmodel.Hash]refmodel.Hash{}
	byHash := map[refmodel.Hash]refmodel.Hdr{}
	out := gen.History{}
	twins := 0
	for _, h := range hist.Hdrs {
		old := h.HashOf()
		if nh, ok := renamed[h.Prev]; ok {
			h.Prev = nh
		}
		if p, ok := byHash[h.Prev]; ok && rng.Intn(12) == 0 {
			h.Version, h.Merkle, h.Time, h.Bits, h.Nonce = p.Version, p.Merkle, p.Time, p.Bits, p.Nonce
			twins++
		}
		renamed[old] = h.HashOf()
		byHash[h.HashOf()] = h
		out.Hdrs = append(out.Hdrs, h)
	}
	return out, twins
}

// leftoverDump returns the intermediate dump a failed export leaves behind: a store of 1800 longest-chain headers is
// exported (once per process) to a target inside a directory that does not exist; ExportHeaders fails after writing
// $TMPDIR/headers.csv. nil if that export did not fail or left nothing.
func (e *env) leftoverDump() []byte {
	if e.leftoverDone {
		return e.leftover
	}
	e.leftoverDone = true
	removeDB(filepath.Join(e.work, "P.db"))
	st, err := rig.New(rig.Options{Dir: e.work, Name: "P.db", NoHTTP: true})
	if err != nil {
		return nil
	}
	defer st.Destroy()
	rng := rand.New(rand.NewSource(17))
	prev := rig.Genesis().HashOf()
	for i := 0; i < 1800; i++ {
		h := refmodel.Hdr{Prev: prev, Bits: gen.BitsNormal}
		gen.Fields(rng, &h, false, i+1)
		if res := st.Add(h); res.Err != nil || res.Panic != nil {
			return nil
		}
		prev = h.HashOf()
	}
	st.Close()
	cfg := rig.NewConfig(st.Path)
	cfg.Db.PreparedDbFilePath = filepath.Join("no-such-directory", "export.csv.gz")
	dump := filepath.Join(e.work, "headers.csv")
	_ = os.Remove(dump)
	var failed bool
	func() {
		defer func() {
			if recover() != nil {
				failed = false
			}
		}()
		failed = database.ExportHeaders(cfg, &e.log) != nil
	}()
	if failed {
		e.leftover, _ = os.ReadFile(dump)
	}
	_ = os.Remove(dump)
	if len(e.leftover) == 0 {
		e.leftover = nil
	}
	return e.leftover
}

func (e *env) roundTrip(caseID string, idx int) {
	r := e.r
	rng := r.Rand(caseID)
	// every 7th case runs with a process-local time zone that is not UTC: the timestamp
	// column is written with the zone offset and the export converts it back with strftime
	zone := "UTC"
	if idx%7 == 3 {
		off := []int{19800, -12600, 3600, 45900, -39600}[rng.Intn(5)]
		old := time.Local
		time.Local = time.FixedZone("VERIF", off)
		defer func() { time.Local = old }()
		zone = fmt.Sprintf("UTC%+ds", off)
	}
	var hist gen.History
	kind := "exact"
	switch {
	case idx < len(boundaryLengths):
		hist = buildExact(rng, boundaryLengths[idx])
	case idx%3 == 0:
		L := 1 + rng.Intn(1600)
		if rng.Intn(3) == 0 {
			L = boundaryLengths[rng.Intn(len(boundaryLengths))]
		}
		hist = buildExact(rng, L)
	default:
		kind = "random"
		hist = gen.Random(rng, rig.Genesis(), gen.Opts{
			N:            1 + rng.Intn(300),
			PDup:         []float64{0, 0.05}[rng.Intn(2)],
			PUnknown:     []float64{0, 0.03, 0.1}[rng.Intn(3)],
			PLate:        []float64{0, 0.05, 0.2}[rng.Intn(3)],
			PFork:        []float64{0.02, 0.1, 0.3}[rng.Intn(3)],
			Classes:      []string{"M", "MH", "MHL", "MMMMHLZ", "MHLZNTUX", "MMMMHLR", "W", "MWW"}[rng.Intn(8)], // W: work next to 2^32 / 2^64 / 2^128 / 2^192 (cumulative work crosses those boundaries)
			FieldExtreme: true,
		})
	}
	if idx%4 == 2 {
		var twins int
		hist, twins = twinRows(rng, hist)
		r.Count("headers_equal_to_their_parent_in_every_exported_column", int64(twins))
	}
	if idx%3 == 1 {
		// an earlier export of a longer chain failed after writing its intermediate dump (unwritable target): the dump is
		// still lying in $TMPDIR when this export starts
		if lo := e.leftoverDump(); lo != nil {
			if err := os.WriteFile(filepath.Join(e.work, "headers.csv"), lo, 0o644); err == nil {
				r.Count("exports_started_with_a_leftover_dump_of_a_failed_export", 1)
			}
		}
	}
	s := e.buildStore(caseID, hist, "A.db", "rt.csv.gz")
	if s == nil {
		return
	}
	defer os.Remove(filepath.Join(e.work, "rt.csv.gz"))
	defer e.cleanTmp()
	detail := map[string]any{"history_hex": clipHist(hist), "longest_rows": s.n, "stale": s.stale, "orphan": s.orphan, "zone": zone}
	// the newest checkpoint is a block of the exported chain
	cpH := []int{0, s.n - 1, rng.Intn(s.n), rng.Intn(s.n)}[rng.Intn(4)]
	cps := s.checkpointAt(cpH)
	if rng.Intn(2) == 0 && cpH > 0 { // older checkpoints before the newest one
		cps = append(s.checkpointAt(rng.Intn(cpH)), cps...)
	}
	detail["checkpoint_height"] = cpH
	removeDB(filepath.Join(e.work, "B.db"))
	res := e.importInto("B.db", "rt.csv.gz", cps)
	if res.panic != nil {
		detail["stack"] = clip(res.stack, 4000)
		r.Violate("roundtrip|import-panicked|"+lenClass(s.n), fmt.Sprintf("start-up with prepared_db panicked: %v", res.panic), caseID, detail)
		return
	}
	if res.err != nil {
		removeDB(filepath.Join(e.work, "B.db"))
		r.Violate("roundtrip|import-refused|"+errClass(res.err), "importing the file exported from a valid store failed: "+res.err.Error(), caseID, detail)
		return
	}
	defer res.st.Destroy()
	got, err := snap.TakeHeaders(res.st.DB)
	if err != nil {
		r.Violate("harness|snapshot", err.Error(), caseID, nil)
		return
	}
	if kinds, desc := compare(s.expected, got); kinds != "" {
		r.Violate("roundtrip|rows-differ|"+kinds, "imported rows differ from the exported store's LONGEST_CHAIN rows: "+desc, caseID, detail)
		return
	}
	// B serves the chain: tip through the real service
	tip := res.st.Svc.Headers.GetTip()
	if want := s.expected[int64(s.n-1)]; tip == nil || tip.Hash.String() != want.Hash || int64(tip.Height) != want.Height {
		r.Violate("roundtrip|tip-differs", fmt.Sprintf("GetTip on the imported database = %v, exported tip %s at %d", tip, want.Hash, want.Height), caseID, detail)
		return
	}
	// a later start on the now non-empty database must leave it alone
	d0 := got.Digest()
	if err := res.st.Restart(); err != nil {
		r.Violate("roundtrip|restart-after-import-failed|"+errClass(err), "second start on the imported database failed: "+err.Error(), caseID, detail)
		return
	}
	got2, err := snap.TakeHeaders(res.st.DB)
	if err != nil {
		r.Violate("harness|snapshot", err.Error(), caseID, nil)
		return
	}
	if got2.Digest() != d0 {
		r.Violate("import-touched-nonempty-db|imported|same-file", "a second start with prepared_db on the imported database changed its rows", caseID, detail)
		return
	}
	r.Count("nonempty_untouched_checks", 1)

	// evidence
	r.Count("roundtrips_equal", 1)
	r.Count("rows_compared", int64(s.n))
	r.Count("stale_headers_left_out", int64(s.stale))
	r.Count("orphan_headers_left_out", int64(s.orphan))
	if s.n > 500 {
		r.Count("roundtrips_crossing_batch_boundary", 1)
	}
	if m := s.n % 500; s.n >= 499 && (m <= 1 || m == 499) {
		r.Count("roundtrips_at_batch_edge", 1)
	}
	if zone != "UTC" {
		r.Count("roundtrips_non_utc_zone", 1)
	}
	var negV, maxU, lateT, earlyT int64
	for _, row := range s.expected {
		if row.Version < 0 {
			negV++
		}
		if row.Nonce == math.MaxUint32 || row.Bits == "4294967295" {
			maxU++
		}
		if row.TimeUnix >= 1<<31 {
			lateT++
		}
		if row.TimeUnix < 86400 {
			earlyT++
		}
	}
	r.Count("negative_versions_roundtripped", negV)
	r.Count("max_uint32_nonce_or_bits_roundtripped", maxU)
	r.Count("timestamps_beyond_2038_roundtripped", lateT)
	r.Count("timestamps_first_day_of_epoch_roundtripped", earlyT)
	r.Case(fmt.Sprintf("rt|%s|n=%d|stale=%d|orphan=%d|cp=%d|%s", kind, s.n, s.stale, s.orphan, cpH, zone), s.stale > 0 || s.orphan > 0 || s.n > 500)
	if r.WantSample() && s.n > 500 && s.stale > 0 && s.orphan > 0 {
		r.Sample(map[string]any{"case": caseID, "longest_rows": s.n, "stale_left_out": s.stale, "orphans_left_out": s.orphan, "checkpoint_height": cpH, "zone": zone,
			"first_rows_of_file": s.lines[:min(3, len(s.lines))]})
	}

	// (c) start-up with prepared_db on a database that already holds ingested headers
	e.nonEmptyUntouched(caseID+"/nonempty", s, rng)
}

// nonEmptyUntouched builds a database that already holds headers (genesis only, or an
// ingested prefix of the history incl. stale/orphan rows), then starts it with
// prepared_db=true and a prepared file: no table may change.
func (e *env) nonEmptyUntouched(caseID string, s *store, rng *rand.Rand) {
	r := e.r
	path := filepath.Join(e.work, "C.db")
	removeDB(path)
	defer removeDB(path)
	st, err := rig.New(rig.Options{Dir: e.work, Name: "C.db", NoHTTP: true})
	if err != nil {
		r.Violate("harness|rig", err.Error(), caseID, nil)
		return
	}
	holds := "genesis-only"
	if rng.Intn(3) > 0 && len(s.hist.Hdrs) > 0 {
		holds = "ingested"
		k := len(s.hist.Hdrs)
		if k > 80 {
			k = 1 + rng.Intn(80)
		}
		for _, h := range s.hist.Hdrs[:k] {
			if res := st.Add(h); res.Panic != nil {
				st.Close()
				return
			}
		}
	}
	before, err := snap.AllDigest(st.DB)
	// every third time the database comes from the previous version of the service: its schema is one migration behind
	// (the last migration, a set of column renames, is undone and the recorded schema version set back), so this start
	// applies a migration before it looks at the prepared file
	upgrade := rng.Intn(3) == 0
	if upgrade && err == nil {
		for _, q := range []string{
			`ALTER TABLE headers RENAME COLUMN previous_block TO previousblock`,
			`ALTER TABLE headers RENAME COLUMN cumulated_work TO cumulatedWork`,
			`ALTER TABLE webhooks RENAME COLUMN token_header TO tokenHeader`,
			`ALTER TABLE webhooks RENAME COLUMN created_at TO createdAt`,
			`ALTER TABLE webhooks RENAME COLUMN last_emit_status TO lastEmitStatus`,
			`ALTER TABLE webhooks RENAME COLUMN last_emit_timestamp TO lastEmitTimestamp`,
			`ALTER TABLE webhooks RENAME COLUMN errors_count TO errorsCount`,
			`ALTER TABLE webhooks RENAME COLUMN is_active TO active`,
			`UPDATE schema_migrations SET version = 6, dirty = 0`,
		} {
			if _, qerr := st.DB.Exec(q); qerr != nil {
				r.Count("nonempty_upgrade_variant_not_set_up", 1)
				st.Close()
				return
			}
		}
	}
	st.Close()
	if err != nil {
		r.Violate("harness|snapshot", err.Error(), caseID, nil)
		return
	}
	// the prepared file: the store's own export (same genesis), a foreign chain (first
	// row changed, so every hash differs from what the database holds), or a malformed one
	file := "ne.csv.gz"
	variant := []string{"own-export", "foreign-chain", "malformed-file"}[rng.Intn(3)]
	lines := append([]string(nil), s.lines...)
	switch variant {
	case "foreign-chain":
		f := strings.Split(lines[0], ",")
		f[2] = bumpUint(f[2])
		lines[0] = strings.Join(f, ",")
	case "malformed-file":
		i := rng.Intn(len(lines))
		f := strings.Split(lines[i], ",")
		f[rng.Intn(5)] = "x"
		lines[i] = strings.Join(f, ",")
	}
	if err := os.WriteFile(filepath.Join(e.work, file), gzipBytes([]byte(s.header+"\n"+strings.Join(lines, "\n")+"\n")), 0o644); err != nil {
		r.Violate("harness|write", err.Error(), caseID, nil)
		return
	}
	defer os.Remove(filepath.Join(e.work, file))
	res := e.importInto("C.db", file, s.checkpointAt(s.n-1))
	if res.st != nil {
		res.st.Close()
	}
	if upgrade {
		holds += "+one-migration-behind"
	}
	detail := map[string]any{"history_hex": clipHist(s.hist), "database_holds": holds, "prepared_file": variant, "init_error": fmt.Sprint(res.err), "init_panic": fmt.Sprint(res.panic)}
	after, err := allDigestFile(path)
	if err != nil {
		r.Violate("harness|snapshot", err.Error(), caseID, nil)
		return
	}
	if after != before {
		r.Violate("import-touched-nonempty-db|"+holds+"|"+variant, "a start with prepared_db on a database that already holds headers changed its tables", caseID, detail)
		return
	}
	r.Count("nonempty_untouched_checks", 1)
	r.Count("nonempty_"+holds+"_"+variant, 1)
	r.Case("nonempty|"+holds+"|"+variant+"|"+lenClass(s.n), true)
}
