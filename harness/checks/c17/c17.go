// Package c17: export then import reproduces the longest chain; bad files are refused.
//
// Every case drives the REAL code: stores are built by ingestion through Chains.Add on a
// real SQLite file, exported with database.ExportHeaders, and imported with
// database.Init(prepared_db=true) into a fresh SQLite file. The oracle reads the tables
// through raw SQL (snap) and compares them row by row.
//
// The export writes a fixed $TMPDIR/headers.csv and the import resolves its file name
// relative to the cwd and decompresses into $TMPDIR/<unix>-blockheaders.csv, so the body
// moves the (child) process into a private directory under r.Scratch and points TMPDIR at
// it; cases inside one process run strictly one after the other.
package c17

import (
	"bytes"
	"compress/gzip"
	"fmt"
	"io"
	"math"
	"math/rand"
	"os"
	"path/filepath"
	"regexp"
	"runtime/debug"
	"sort"
	"strconv"
	"strings"
	"time"

	"github.com/bitcoin-sv/block-headers-service/config"
	"github.com/bitcoin-sv/block-headers-service/database"
	"github.com/bitcoin-sv/block-headers-service/internal/chaincfg"
	"github.com/bitcoin-sv/block-headers-service/internal/chaincfg/chainhash"
	"github.com/bitcoin-sv/block-headers-service/verifharness/ev"
	"github.com/bitcoin-sv/block-headers-service/verifharness/gen"
	"github.com/bitcoin-sv/block-headers-service/verifharness/refmodel"
	"github.com/bitcoin-sv/block-headers-service/verifharness/rig"
	"github.com/bitcoin-sv/block-headers-service/verifharness/snap"
	"github.com/jmoiron/sqlx"
	"github.com/rs/zerolog"
)

// Spec registers the check.
func Spec() ev.Spec {
	return ev.Spec{Prop: "C17", Level: "exploration", Workers: -1, Body: body}
}

type env struct {
	r    *ev.Run
	work string // private cwd + TMPDIR of this process
	log  zerolog.Logger
}

// ---------------------------------------------------------------------------
// store A: ingestion + export

type store struct {
	hist     gen.History
	all      snap.Headers        // whole table of A
	expected map[int64]snap.Row  // A's LONGEST_CHAIN rows by height
	n        int                 // number of LONGEST_CHAIN rows
	stale    int
	orphan   int
	gz       []byte   // the exported file, as written by ExportHeaders
	header   string   // first line of the decompressed export
	lines    []string // data lines of the decompressed export
	skipWhy  string
}

func (s *store) hashAt(h int) *chainhash.Hash {
	row := s.expected[int64(h)]
	x, _ := chainhash.NewHashFromStr(row.Hash)
	return x
}

func (s *store) checkpointAt(h int) []chaincfg.Checkpoint {
	return []chaincfg.Checkpoint{{Height: int32(h), Hash: s.hashAt(h)}}
}

func openRaw(path string) (*sqlx.DB, error) {
	return sqlx.Open("sqlite3", "file:"+path+"?_foreign_keys=true")
}

func snapshotFile(path string) (snap.Headers, error) {
	db, err := openRaw(path)
	if err != nil {
		return nil, err
	}
	defer db.Close()
	return snap.TakeHeaders(db)
}

func removeDB(path string) {
	for _, sfx := range []string{"", "-journal", "-wal", "-shm"} {
		_ = os.Remove(path + sfx)
	}
}

// buildStore ingests the history into a fresh store through the real Chains.Add and
// exports it with the real ExportHeaders into <work>/<file>. Returns nil + reason when the
// store cannot serve as the source of a round trip (that is other properties' business).
func (e *env) buildStore(caseID string, hist gen.History, dbName, file string) *store {
	r := e.r
	s := &store{hist: hist}
	removeDB(filepath.Join(e.work, dbName))
	st, err := rig.New(rig.Options{Dir: e.work, Name: dbName, NoHTTP: true})
	if err != nil {
		r.Violate("harness|rig", err.Error(), caseID, nil)
		return nil
	}
	defer st.Destroy()
	for _, h := range hist.Hdrs {
		if res := st.Add(h); res.Panic != nil {
			r.Count("stores_skipped_ingestion_panicked", 1)
			return nil
		}
	}
	s.all, err = snap.TakeHeaders(st.DB)
	if err != nil {
		r.Violate("harness|snapshot", err.Error(), caseID, nil)
		return nil
	}
	if bad := s.all.IChain(); bad != "" {
		r.Count("stores_skipped_broken_longest_chain", 1)
		return nil
	}
	s.expected = map[int64]snap.Row{}
	for _, row := range s.all {
		switch row.State {
		case refmodel.Longest:
			s.expected[row.Height] = row
		case refmodel.Stale:
			s.stale++
		case refmodel.Orphan:
			s.orphan++
		}
	}
	s.n = len(s.expected)
	before := s.all.Digest()
	st.Close()

	// export, exactly as cli/flags.go does: database.ExportHeaders(cfg, log)
	cfg := rig.NewConfig(st.Path)
	cfg.Db.PreparedDbFilePath = file
	_ = os.Remove(filepath.Join(e.work, file))
	var perr any
	func() {
		defer func() {
			if p := recover(); p != nil {
				perr = p
			}
		}()
		err = database.ExportHeaders(cfg, &e.log)
	}()
	detail := map[string]any{"history_hex": clipHist(hist)}
	if perr != nil {
		r.Violate("export|panic", fmt.Sprintf("ExportHeaders panicked: %v", perr), caseID, detail)
		return nil
	}
	if err != nil {
		r.Violate("export|failed|"+errClass(err), "ExportHeaders failed: "+err.Error(), caseID, detail)
		return nil
	}
	after, err := snapshotFile(st.Path)
	if err != nil {
		r.Violate("harness|snapshot", err.Error(), caseID, nil)
		return nil
	}
	if after.Digest() != before {
		r.Violate("export|modified-source-store", "ExportHeaders changed the headers table of the exported store", caseID, detail)
		return nil
	}
	s.gz, err = os.ReadFile(filepath.Join(e.work, file))
	if err != nil {
		r.Violate("export|no-file", "ExportHeaders returned nil but the file is unreadable: "+err.Error(), caseID, detail)
		return nil
	}
	if txt, err := gunzip(s.gz); err == nil {
		ls := strings.Split(strings.TrimSuffix(string(txt), "\n"), "\n")
		s.header, s.lines = ls[0], ls[1:]
	}
	r.Count("stores_exported", 1)
	return s
}

func gunzip(b []byte) ([]byte, error) {
	zr, err := gzip.NewReader(bytes.NewReader(b))
	if err != nil {
		return nil, err
	}
	return io.ReadAll(zr)
}

func gz(txt []byte) []byte {
	var buf bytes.Buffer
	zw := gzip.NewWriter(&buf)
	_, _ = zw.Write(txt)
	_ = zw.Close()
	return buf.Bytes()
}

func clipHist(h gen.History) any {
	hx := h.Hex()
	if len(hx) > 400 {
		return map[string]any{"first_400_of": len(hx), "headers": hx[:400]}
	}
	return hx
}

var (
	reQuoted = regexp.MustCompile(`"[^"]*"`)
	reHex    = regexp.MustCompile(`[0-9a-f]{16,}`)
	reNum    = regexp.MustCompile(`-?[0-9]+`)
	rePath   = regexp.MustCompile(`/[^ :]+`)
)

// errClass turns an error text into a structural class (no run-specific values).
func errClass(err error) string {
	s := err.Error()
	s = reQuoted.ReplaceAllString(s, "Q")
	s = rePath.ReplaceAllString(s, "P")
	s = reHex.ReplaceAllString(s, "H")
	s = reNum.ReplaceAllString(s, "N")
	if len(s) > 90 {
		s = s[:90]
	}
	return s
}

// ---------------------------------------------------------------------------
// import into B

type importResult struct {
	st    *rig.Stack
	err   error
	panic any
	stack string
}

// importInto runs the real start-up path (database.Init via rig) with prepared_db=true
// on the database file <work>/<dbName>, the prepared file <file> (relative to cwd) and the
// given checkpoints.
func (e *env) importInto(dbName, file string, cps []chaincfg.Checkpoint) (res importResult) {
	config.Checkpoints = cps
	defer func() {
		if p := recover(); p != nil {
			res.panic = p
			res.stack = string(debug.Stack())
		}
	}()
	res.st, res.err = rig.New(rig.Options{Dir: e.work, Name: dbName, NoHTTP: true, Config: func(c *config.AppConfig) {
		c.Db.PreparedDb = true
		c.Db.PreparedDbFilePath = file
	}})
	return
}

func (e *env) cleanTmp() {
	ms, _ := filepath.Glob(filepath.Join(e.work, "*-blockheaders.csv"))
	for _, m := range ms {
		_ = os.Remove(m)
	}
	_ = os.Remove(filepath.Join(e.work, "headers.csv"))
}

// ---------------------------------------------------------------------------
// row-by-row oracle

func fieldDiffs(w, g snap.Row) []string {
	var d []string
	add := func(name string, ne bool) {
		if ne {
			d = append(d, name)
		}
	}
	add("hash", w.Hash != g.Hash)
	add("height", w.Height != g.Height)
	add("version", w.Version != g.Version)
	add("merkleroot", w.Merkle != g.Merkle)
	add("nonce", w.Nonce != g.Nonce)
	add("bits", w.Bits != g.Bits)
	add("timestamp", w.TimeUnix != g.TimeUnix) // to the second
	add("chainwork", w.Chainwork != g.Chainwork)
	add("cumulated_work", w.CumWork != g.CumWork)
	add("previous_block", w.Prev != g.Prev)
	add("state", w.State != g.State)
	return d
}

// compare returns "" when got holds exactly the expected rows (all LONGEST_CHAIN, nothing
// else); otherwise a structural kind list and a description.
func compare(expected map[int64]snap.Row, got snap.Headers) (kinds string, desc string) {
	set := map[string]bool{}
	var descs []string
	note := func(k, d string) {
		set[k] = true
		if len(descs) < 6 {
			descs = append(descs, d)
		}
	}
	byHeight := map[int64][]snap.Row{}
	for _, g := range got {
		byHeight[g.Height] = append(byHeight[g.Height], g)
	}
	for h, w := range expected {
		gs := byHeight[h]
		if len(gs) == 0 {
			note("missing-row", fmt.Sprintf("height %d (%s) missing", h, w.Hash))
			continue
		}
		if len(gs) > 1 {
			note("extra-row", fmt.Sprintf("%d rows at height %d", len(gs), h))
		}
		best := gs[0]
		for _, g := range gs {
			if g.Hash == w.Hash {
				best = g
			}
		}
		for _, f := range fieldDiffs(w, best) {
			note(f, fmt.Sprintf("height %d: %s differs: want %s got %s", h, f, w.String(), best.String()))
		}
	}
	for h, gs := range byHeight {
		if _, ok := expected[h]; !ok {
			note("extra-row", fmt.Sprintf("%d unexpected row(s) at height %d (%s, %s)", len(gs), h, gs[0].Hash, gs[0].State))
		}
	}
	if len(set) == 0 {
		return "", ""
	}
	var ks []string
	for k := range set {
		ks = append(ks, k)
	}
	sort.Strings(ks)
	return strings.Join(ks, ","), strings.Join(descs, "; ")
}

func lenClass(n int) string {
	switch {
	case n <= 1:
		return "n=1"
	case n < 500:
		return "n<500"
	case n == 500:
		return "n=500"
	case n <= 1000:
		return "500<n<=1000"
	default:
		return "n>1000"
	}
}

// ---------------------------------------------------------------------------
// history builders

// buildExact builds a history whose longest chain has L rows (genesis included), with
// stale forks (submitted behind the tip with less work), real reorganisations (a branch
// that was longest first and is overtaken), orphans, and extreme field values.
func buildExact(rng *rand.Rand, L int) gen.History {
	g := rig.Genesis()
	main := []refmodel.Hash{g.HashOf()}
	counter := 0
	var out gen.History
	mk := func(prev refmodel.Hash, bits uint32) refmodel.Hdr {
		counter++
		h := refmodel.Hdr{Prev: prev, Bits: bits}
		gen.Fields(rng, &h, true, counter)
		out.Hdrs = append(out.Hdrs, h)
		return h
	}
	randHash := func() refmodel.Hash {
		var h refmodel.Hash
		rng.Read(h[:])
		return h
	}
	pReorg, pStale, pOrphan := 0.01+0.03*rng.Float64(), 0.02+0.08*rng.Float64(), 0.01+0.03*rng.Float64()
	for len(main) < L {
		tip := main[len(main)-1]
		x := rng.Float64()
		switch {
		case x < pReorg && L-len(main) >= 3:
			a1 := mk(tip, gen.BitsNormal)
			mk(a1.HashOf(), gen.BitsNormal)
			m1 := mk(tip, gen.BitsNormal)
			m2 := mk(m1.HashOf(), gen.BitsNormal)
			m3 := mk(m2.HashOf(), gen.BitsNormal)
			main = append(main, m1.HashOf(), m2.HashOf(), m3.HashOf())
		case x < pReorg+pStale && len(main) >= 2:
			j := rng.Intn(len(main) - 1)
			s1 := mk(main[j], gen.BitsLight)
			if j+2 < len(main) && rng.Intn(2) == 0 {
				mk(s1.HashOf(), gen.BitsLight)
			}
		case x < pReorg+pStale+pOrphan:
			mk(randHash(), gen.BitsNormal)
		default:
			bits := gen.BitsNormal
			if rng.Intn(8) == 0 {
				bits = gen.BitsHeavy
			}
			m := mk(tip, bits)
			main = append(main, m.HashOf())
		}
	}
	for i := rng.Intn(3); i > 0; i-- {
		mk(randHash(), gen.BitsNormal)
	}
	if L >= 2 && rng.Intn(2) == 0 { // a stale sibling of an early block, submitted last
		j := rng.Intn(len(main) - 1)
		mk(main[j], gen.BitsLight)
	}
	return out
}

var boundaryLengths = []int{1, 2, 3, 499, 500, 501, 502, 999, 1000, 1001, 1499, 1500, 1501, 1600}

// ---------------------------------------------------------------------------
// round trips

func (e *env) roundTrip(caseID string, idx int) {
	r := e.r
	rng := r.Rand(caseID)
	// every 7th case runs in a process whose local time zone is not UTC (the timestamp
	// column is written with the zone offset; the export converts it back with strftime)
	zone := "UTC"
	if idx%7 == 3 {
		off := []int{19800, -12600, 3600, 45900, -39600}[rng.Intn(5)]
		old := time.Local
		time.Local = time.FixedZone("VERIF", off)
		defer func() { time.Local = old }()
		zone = fmt.Sprintf("UTC%+d", off)
	}
	var hist gen.History
	kind := ""
	switch {
	case idx < len(boundaryLengths):
		kind = "exact"
		hist = buildExact(rng, boundaryLengths[idx])
	case idx%3 == 0:
		kind = "exact"
		hist = buildExact(rng, 1+rng.Intn(1600))
	default:
		kind = "random"
		hist = gen.Random(rng, rig.Genesis(), gen.Opts{
			N:            1 + rng.Intn(300),
			PDup:         []float64{0, 0.05}[rng.Intn(2)],
			PUnknown:     []float64{0, 0.03, 0.1}[rng.Intn(3)],
			PLate:        []float64{0, 0.05, 0.2}[rng.Intn(3)],
			PFork:        []float64{0.02, 0.1, 0.3}[rng.Intn(3)],
			Classes:      []string{"M", "MH", "MHL", "MMMMHLZ", "MHLZNTUX", "MMMMHLR"}[rng.Intn(6)],
			FieldExtreme: true,
		})
	}
	s := e.buildStore(caseID, hist, "A.db", "rt.csv.gz")
	if s == nil {
		return
	}
	defer os.Remove(filepath.Join(e.work, "rt.csv.gz"))
	defer e.cleanTmp()
	detail := map[string]any{"history_hex": clipHist(hist), "longest_rows": s.n, "stale": s.stale, "orphan": s.orphan, "zone": zone}
	// the newest checkpoint is a block of the exported chain
	cpH := []int{0, s.n - 1, rng.Intn(s.n), rng.Intn(s.n)}[rng.Intn(4)]
	cps := s.checkpointAt(cpH)
	if rng.Intn(2) == 0 && cpH > 0 { // older checkpoints before the newest one
		cps = append(s.checkpointAt(rng.Intn(cpH)), cps...)
	}
	detail["checkpoint_height"] = cpH
	removeDB(filepath.Join(e.work, "B.db"))
	res := e.importInto("B.db", "rt.csv.gz", cps)
	lc := lenClass(s.n)
	if res.panic != nil {
		detail["stack"] = clip(res.stack, 4000)
		r.Violate("roundtrip|import-panicked|"+lc, fmt.Sprintf("start-up with prepared_db panicked: %v", res.panic), caseID, detail)
		return
	}
	if res.err != nil {
		removeDB(filepath.Join(e.work, "B.db"))
		r.Violate("roundtrip|import-refused|"+errClass(res.err), "importing the file exported from a valid store failed: "+res.err.Error(), caseID, detail)
		return
	}
	defer res.st.Destroy()
	got, err := snap.TakeHeaders(res.st.DB)
	if err != nil {
		r.Violate("harness|snapshot", err.Error(), caseID, nil)
		return
	}
	if kinds, desc := compare(s.expected, got); kinds != "" {
		r.Violate("roundtrip|rows-differ|"+kinds, "imported rows differ from the exported store's LONGEST_CHAIN rows: "+desc, caseID, detail)
		return
	}
	// B serves the chain: tip through the real service
	tip := res.st.Svc.Headers.GetTip()
	if want := s.expected[int64(s.n-1)]; tip == nil || tip.Hash.String() != want.Hash || int64(tip.Height) != want.Height {
		r.Violate("roundtrip|tip-differs", fmt.Sprintf("GetTip on the imported database = %v, exported tip %s at %d", tip, want.Hash, want.Height), caseID, detail)
		return
	}
	// a later start on the now non-empty database must leave it alone
	d0 := got.Digest()
	if err := res.st.Restart(); err != nil {
		r.Violate("roundtrip|restart-after-import-failed|"+errClass(err), "second start on the imported database failed: "+err.Error(), caseID, detail)
		return
	}
	got2, err := snap.TakeHeaders(res.st.DB)
	if err != nil {
		r.Violate("harness|snapshot", err.Error(), caseID, nil)
		return
	}
	if got2.Digest() != d0 {
		r.Violate("import-touched-nonempty-db|restart-on-imported", "a second start with prepared_db on the imported database changed its rows", caseID, detail)
		return
	}
	r.Count("nonempty_untouched_checks", 1)

	// evidence
	r.Count("roundtrips_equal", 1)
	r.Count("rows_compared", int64(s.n))
	r.Count("stale_headers_left_out", int64(s.stale))
	r.Count("orphan_headers_left_out", int64(s.orphan))
	if s.n > 500 {
		r.Count("roundtrips_crossing_batch_boundary", 1)
	}
	if s.n%500 <= 1 || s.n%500 == 499 {
		r.Count("roundtrips_at_batch_edge", 1)
	}
	if zone != "UTC" {
		r.Count("roundtrips_non_utc_zone", 1)
	}
	var negV, maxU, lateT, earlyT int64
	for _, row := range s.expected {
		if row.Version < 0 {
			negV++
		}
		if row.Nonce == math.MaxUint32 || row.Bits == "4294967295" {
			maxU++
		}
		if row.TimeUnix >= 1<<31 {
			lateT++
		}
		if row.TimeUnix < 86400 {
			earlyT++
		}
	}
	r.Count("negative_versions_roundtripped", negV)
	r.Count("max_uint32_nonce_or_bits_roundtripped", maxU)
	r.Count("timestamps_beyond_2038_roundtripped", lateT)
	r.Count("timestamps_first_day_of_epoch_roundtripped", earlyT)
	sig := fmt.Sprintf("%s|n=%d|stale=%d|orphan=%d|cp=%d|%s", kind, s.n, s.stale, s.orphan, cpH, zone)
	r.Case(sig, s.stale > 0 || s.orphan > 0 || s.n > 500)
	if r.WantSample() && s.n > 500 && s.stale > 0 && s.orphan > 0 {
		r.Sample(map[string]any{"case": caseID, "longest_rows": s.n, "stale_left_out": s.stale, "orphans_left_out": s.orphan, "checkpoint_height": cpH, "zone": zone,
			"first_rows_of_file": s.lines[:min(3, len(s.lines))]})
	}

	// (c) an import into the source store itself (non-empty, with stale and orphan rows)
	e.nonEmptyUntouched(caseID+"/nonempty", s, rng)
}

// nonEmptyUntouched re-creates the ingested store and starts it with prepared_db=true
// and a prepared file: the store must not change.
func (e *env) nonEmptyUntouched(caseID string, s *store, rng *rand.Rand) {
	r := e.r
	// re-create a database holding headers: genesis only, or a prefix of the history
	removeDB(filepath.Join(e.work, "C.db"))
	st, err := rig.New(rig.Options{Dir: e.work, Name: "C.db", NoHTTP: true})
	if err != nil {
		r.Violate("harness|rig", err.Error(), caseID, nil)
		return
	}
	holds := "genesis-only"
	if rng.Intn(3) > 0 && len(s.hist.Hdrs) > 0 {
		holds = "ingested"
		k := len(s.hist.Hdrs)
		if k > 60 {
			k = 1 + rng.Intn(60)
		}
		for _, h := range s.hist.Hdrs[:k] {
			if res := st.Add(h); res.Panic != nil {
				st.Destroy()
				return
			}
		}
	}
	before, err := snap.AllDigest(st.DB)
	if err != nil {
		st.Destroy()
		r.Violate("harness|snapshot", err.Error(), caseID, nil)
		return
	}
	st.Destroy2Close()
}
