// Package c17: export then import reproduces the longest chain; bad files are refused.
//
// Every case drives the REAL code: stores are built by ingestion through Chains.Add on a
// real SQLite file, exported with database.ExportHeaders, and imported with
// database.Init(prepared_db=true) (through rig, i.e. the start-up path of cmd/main.go)
// into a fresh SQLite file. The oracle reads the tables through raw SQL (snap) and
// compares them row by row.
//
// The export writes a fixed $TMPDIR/headers.csv; the import resolves its file name
// relative to the cwd and decompresses into $TMPDIR/<unix>-blockheaders.csv. The body
// therefore moves the (child) process into a private directory under r.Scratch and points
// TMPDIR at it; cases inside one process run strictly one after the other and use
// distinct file names per role.
package c17

import (
	"bytes"
	"compress/gzip"
	"fmt"
	"io"
	"os"
	"path/filepath"
	"regexp"
	"runtime/debug"
	"sort"
	"strings"

	"github.com/bitcoin-sv/block-headers-service/config"
	"github.com/bitcoin-sv/block-headers-service/database"
	"github.com/bitcoin-sv/block-headers-service/internal/chaincfg"
	"github.com/bitcoin-sv/block-headers-service/internal/chaincfg/chainhash"
	"github.com/bitcoin-sv/block-headers-service/verifharness/ev"
	"github.com/bitcoin-sv/block-headers-service/verifharness/gen"
	"github.com/bitcoin-sv/block-headers-service/verifharness/refmodel"
	"github.com/bitcoin-sv/block-headers-service/verifharness/rig"
	"github.com/bitcoin-sv/block-headers-service/verifharness/snap"
	"github.com/jmoiron/sqlx"
	"github.com/rs/zerolog"
)

// Spec registers the check.
func Spec() ev.Spec {
	return ev.Spec{Prop: "C17", Level: "exploration", Workers: -1, Body: body}
}

type env struct {
	r            *ev.Run
	work         string // private cwd + TMPDIR of this process
	nImports     int
	pristine     map[string]bool // schema objects of a freshly initialised database
	leftover     []byte          // intermediate dump left behind by a failed export of a longer chain
	leftoverDone bool
	log          zerolog.Logger
}

func body(r *ev.Run) {
	r.Rule("(1) round trips: stores built by ingestion (constructed chains of exact longest length 1..1600 incl. 499/500/501/999/1000/1001/1499/1500/1501 with stale forks, real reorganisations, orphans; and seeded random histories over all bits classes), every header with extreme field values (negative versions, max uint32 nonce, timestamps over the whole uint32 range), a share of them in a non-UTC process time zone, a quarter of them with headers that equal their parent in every exported column, a third of them with the intermediate dump of an earlier, failed export of a longer chain still lying in $TMPDIR -> ExportHeaders -> start-up with prepared_db into an empty database, newest checkpoint = a block of the chain; rows compared column by column. (2) refusals: per exported store, every corruption class {non-numeric, out-of-range, empty field, changed value} x every column, {column count, deleted row, duplicated row, swapped rows, truncated csv} at rows {1,499,500,501,last}, {truncated gzip (at byte positions, and exactly after a complete row under mid/genesis checkpoints), flipped gzip byte, not gzip, header line missing/duplicated/altered}, checkpoint hash mismatch and checkpoint height beyond the chain; a refusal is required only when the mutation makes a row malformed, or changes/removes a row at or below the newest checkpoint (so the checkpoint hash or the count contradicts the file); every third import runs with p2p.disable_checkpoints set; after every refusal the schema is compared with a freshly initialised database's (no index or table left behind, none missing) and a second start is made on the same database. (3) a start with prepared_db on a database that already holds headers. (4) exports whose SELECT fails at one row (a view in front of the table): the failure is reported, or the file holds the whole chain. evaluations = round trips + corruption cases + non-empty cases; distinct = distinct (length, stale, orphan, checkpoint, zone) round-trip shapes and distinct (store length class, corruption id) cases; non-trivial = round trips with stale/orphan rows or more than 500 rows, and every corruption case.")
	r.Assume("SQLite engine only", "stdlib compress/gzip output is a valid input for the import (checked by a control import per store)", "a store whose ingestion panicked or whose LONGEST_CHAIN labelling is already broken is not used as a round-trip source (C01/C02 cover that)", "second start uses the same configuration as the refused one")
	work := filepath.Join(r.Scratch, "c17")
	if err := os.MkdirAll(work, 0o755); err != nil {
		r.Violate("harness|scratch", err.Error(), "", nil)
		return
	}
	oldWd, _ := os.Getwd()
	oldTmp, hadTmp := os.LookupEnv("TMPDIR")
	_ = os.Setenv("TMPDIR", work)
	if err := os.Chdir(work); err != nil {
		r.Violate("harness|chdir", err.Error(), "", nil)
		return
	}
	defer func() {
		_ = os.Chdir(oldWd)
		if hadTmp {
			_ = os.Setenv("TMPDIR", oldTmp)
		} else {
			_ = os.Unsetenv("TMPDIR")
		}
	}()
	oldCps := config.Checkpoints
	defer func() { config.Checkpoints = oldCps }()
	e := &env{r: r, work: work, log: zerolog.Nop()}

	r.Require("roundtrips_equal", int64(r.Pick(40, 1000)))
	r.Require("exports_started_with_a_leftover_dump_of_a_failed_export", int64(r.Pick(8, 200)))
	r.Require("roundtrips_crossing_batch_boundary", int64(r.Pick(8, 200)))
	r.Require("stale_headers_left_out", 50)
	r.Require("orphan_headers_left_out", 30)
	r.Require("negative_versions_roundtripped", 100)
	r.Require("timestamps_beyond_2038_roundtripped", 100)
	r.Require("refusals_observed", int64(r.Pick(250, 6000)))
	r.Require("second_starts_after_refusal", int64(r.Pick(250, 6000)))
	r.Require("nonempty_untouched_checks", int64(r.Pick(40, 1000)))
	r.Require("control_imports_equal", int64(r.Pick(4, 36)))

	nRT := r.Pick(60, 1500)
	slot := 0
	for i := 0; i < nRT; i++ {
		caseID := fmt.Sprintf("rt/%d", i)
		if r.MineIdx(caseID, slot) {
			r.Exec(caseID, func() { e.roundTrip(caseID, i) })
		}
		slot++
	}
	for i := 0; i < r.Pick(6, 30); i++ {
		unit := fmt.Sprintf("expfault/%d", i)
		if r.MineIdx(unit, slot) {
			r.Exec(unit, func() { e.exportFault(unit, i) })
		}
		slot++
	}
	nStores := r.Pick(4, 36)
	parts := r.Pick(6, 4)
	for k := 0; k < nStores; k++ {
		for p := 0; p < parts; p++ {
			unit := fmt.Sprintf("cor/s%d/p%d", k, p)
			if r.MineIdx(unit, slot) {
				r.Exec(unit, func() { e.corruptionUnit(unit, k, p, parts) })
			}
			slot++
		}
	}
}

// ---------------------------------------------------------------------------
// store A: ingestion + export

type store struct {
	hist     gen.History
	all      snap.Headers       // whole table of A
	expected map[int64]snap.Row // A's LONGEST_CHAIN rows by height
	n        int                // number of LONGEST_CHAIN rows
	stale    int
	orphan   int
	gz       []byte   // the exported file, as written by ExportHeaders
	header   string   // first line of the decompressed export
	lines    []string // data lines of the decompressed export
}

func (s *store) hashAt(h int) *chainhash.Hash {
	row := s.expected[int64(h)]
	x, _ := chainhash.NewHashFromStr(row.Hash)
	return x
}

func (s *store) checkpointAt(h int) []chaincfg.Checkpoint {
	return []chaincfg.Checkpoint{{Height: int32(h), Hash: s.hashAt(h)}}
}

func openRaw(path string) (*sqlx.DB, error) {
	return sqlx.Open("sqlite3", "file:"+path+"?_foreign_keys=true")
}

func snapshotFile(path string) (snap.Headers, error) {
	db, err := openRaw(path)
	if err != nil {
		return nil, err
	}
	defer db.Close()
	return snap.TakeHeaders(db)
}

func allDigestFile(path string) (string, error) {
	db, err := openRaw(path)
	if err != nil {
		return "", err
	}
	defer db.Close()
	return snap.AllDigest(db)
}

func removeDB(path string) {
	for _, sfx := range []string{"", "-journal", "-wal", "-shm"} {
		_ = os.Remove(path + sfx)
	}
}

// buildStore ingests the history into a fresh store through the real Chains.Add and
// exports it with the real ExportHeaders into <work>/<file>. Returns nil when the store
// cannot serve as the source of a round trip (that is other properties' business) or the
// export itself failed (violation recorded).
func (e *env) buildStore(caseID string, hist gen.History, dbName, file string) *store {
	r := e.r
	s := &store{hist: hist}
	removeDB(filepath.Join(e.work, dbName))
	st, err := rig.New(rig.Options{Dir: e.work, Name: dbName, NoHTTP: true})
	if err != nil {
		r.Violate("harness|rig", err.Error(), caseID, nil)
		return nil
	}
	defer st.Destroy()
	for _, h := range hist.Hdrs {
		if res := st.Add(h); res.Panic != nil {
			r.Count("stores_skipped_ingestion_panicked", 1)
			return nil
		}
	}
	s.all, err = snap.TakeHeaders(st.DB)
	if err != nil {
		r.Violate("harness|snapshot", err.Error(), caseID, nil)
		return nil
	}
	if bad := s.all.IChain(); bad != "" {
		r.Count("stores_skipped_broken_longest_chain", 1)
		return nil
	}
	s.expected = map[int64]snap.Row{}
	for _, row := range s.all {
		switch row.State {
		case refmodel.Longest:
			s.expected[row.Height] = row
		case refmodel.Stale:
			s.stale++
		case refmodel.Orphan:
			s.orphan++
		}
	}
	s.n = len(s.expected)
	before := s.all.Digest()
	st.Close()

	// export, exactly as cli/flags.go does: database.ExportHeaders(cfg, log)
	cfg := rig.NewConfig(st.Path)
	cfg.Db.PreparedDbFilePath = file
	_ = os.Remove(filepath.Join(e.work, file))
	var perr any
	func() {
		defer func() {
			if p := recover(); p != nil {
				perr = p
			}
		}()
		err = database.ExportHeaders(cfg, &e.log)
	}()
	detail := map[string]any{"history_hex": clipHist(hist)}
	if perr != nil {
		r.Violate("export|panic", fmt.Sprintf("ExportHeaders panicked: %v", perr), caseID, detail)
		return nil
	}
	if err != nil {
		r.Violate("export|failed|"+errClass(err), "ExportHeaders failed: "+err.Error(), caseID, detail)
		return nil
	}
	after, err := snapshotFile(st.Path)
	if err != nil {
		r.Violate("harness|snapshot", err.Error(), caseID, nil)
		return nil
	}
	if after.Digest() != before {
		r.Violate("export|modified-source-store", "ExportHeaders changed the headers table of the exported store", caseID, detail)
		return nil
	}
	s.gz, err = os.ReadFile(filepath.Join(e.work, file))
	if err != nil {
		r.Violate("export|no-file", "ExportHeaders returned nil but the file is unreadable: "+err.Error(), caseID, detail)
		return nil
	}
	if txt, err := gunzip(s.gz); err == nil {
		ls := strings.Split(strings.TrimSuffix(string(txt), "\n"), "\n")
		s.header, s.lines = ls[0], ls[1:]
	}
	r.Count("stores_exported", 1)
	return s
}

func gunzip(b []byte) ([]byte, error) {
	zr, err := gzip.NewReader(bytes.NewReader(b))
	if err != nil {
		return nil, err
	}
	return io.ReadAll(zr)
}

func gzipBytes(txt []byte) []byte {
	var buf bytes.Buffer
	zw := gzip.NewWriter(&buf)
	_, _ = zw.Write(txt)
	_ = zw.Close()
	return buf.Bytes()
}

func clipHist(h gen.History) any {
	hx := h.Hex()
	if len(hx) > 300 {
		return map[string]any{"total_headers": len(hx), "first_300": hx[:300]}
	}
	return hx
}

func clip(s string, n int) string {
	if len(s) > n {
		return s[:n]
	}
	return s
}

var (
	reQuoted = regexp.MustCompile(`"[^"]*"`)
	rePath   = regexp.MustCompile(`/[^ :]+`)
	reHex    = regexp.MustCompile(`[0-9a-f]{16,}`)
	reNum    = regexp.MustCompile(`-?[0-9]+`)
)

// errClass turns an error text into a structural class (no run-specific values).
func errClass(err error) string {
	s := err.Error()
	s = reQuoted.ReplaceAllString(s, "Q")
	s = rePath.ReplaceAllString(s, "P")
	s = reHex.ReplaceAllString(s, "H")
	s = reNum.ReplaceAllString(s, "N")
	return clip(s, 90)
}

// ---------------------------------------------------------------------------
// import into B

type importResult struct {
	st    *rig.Stack
	err   error
	panic any
	stack string
}

// importInto runs the real start-up path (database.Init via rig) with prepared_db=true
// on the database file <work>/<dbName>, the prepared file <file> (relative to cwd) and the
// given checkpoints.
func (e *env) importInto(dbName, file string, cps []chaincfg.Checkpoint) (res importResult) {
	config.Checkpoints = cps
	// the import prints "Drop Value/Create Value" lines with fmt.Printf; keep them off the verdict output
	if null, err := os.OpenFile(os.DevNull, os.O_WRONLY, 0); err == nil {
		old := os.Stdout
		os.Stdout = null
		defer func() { os.Stdout = old; _ = null.Close() }()
	}
	defer func() {
		if p := recover(); p != nil {
			res.panic = p
			res.stack = string(debug.Stack())
		}
	}()
	e.nImports++
	noCp := e.nImports%3 == 0
	if noCp {
		e.r.Count("imports_with_p2p_checkpoints_disabled", 1)
	}
	res.st, res.err = rig.New(rig.Options{Dir: e.work, Name: dbName, NoHTTP: true, Config: func(c *config.AppConfig) {
		c.Db.PreparedDb = true
		c.Db.PreparedDbFilePath = file
		// p2p.disable_checkpoints is about what the sync engines do with peers: the prepared file is checked against the
		// network's checkpoints either way
		c.P2P.DisableCheckpoints = noCp
	}})
	return
}

func (e *env) cleanTmp() {
	ms, _ := filepath.Glob(filepath.Join(e.work, "*-blockheaders.csv"))
	for _, m := range ms {
		_ = os.Remove(m)
	}
	_ = os.Remove(filepath.Join(e.work, "headers.csv"))
}

// ---------------------------------------------------------------------------
// row-by-row oracle

func fieldDiffs(w, g snap.Row) []string {
	var d []string
	add := func(name string, ne bool) {
		if ne {
			d = append(d, name)
		}
	}
	add("hash", w.Hash != g.Hash)
	add("height", w.Height != g.Height)
	add("version", w.Version != g.Version)
	add("merkleroot", w.Merkle != g.Merkle)
	add("nonce", w.Nonce != g.Nonce)
	add("bits", w.Bits != g.Bits)
	add("timestamp", w.TimeUnix != g.TimeUnix) // to the second
	add("chainwork", w.Chainwork != g.Chainwork)
	add("cumulated_work", w.CumWork != g.CumWork)
	add("previous_block", w.Prev != g.Prev)
	add("state", w.State != g.State)
	return d
}

// compare returns "" when got holds exactly the expected rows (all LONGEST_CHAIN, nothing
// else); otherwise a structural kind list and a description.
func compare(expected map[int64]snap.Row, got snap.Headers) (kinds string, desc string) {
	set := map[string]bool{}
	var descs []string
	note := func(k, d string) {
		set[k] = true
		if len(descs) < 6 {
			descs = append(descs, d)
		}
	}
	byHeight := map[int64][]snap.Row{}
	for _, g := range got {
		byHeight[g.Height] = append(byHeight[g.Height], g)
	}
	heights := make([]int64, 0, len(expected))
	for h := range expected {
		heights = append(heights, h)
	}
	sort.Slice(heights, func(i, j int) bool { return heights[i] < heights[j] })
	for _, h := range heights {
		w := expected[h]
		gs := byHeight[h]
		if len(gs) == 0 {
			note("missing-row", fmt.Sprintf("height %d (%s) missing", h, w.Hash))
			continue
		}
		if len(gs) > 1 {
			note("extra-row", fmt.Sprintf("%d rows at height %d", len(gs), h))
		}
		best := gs[0]
		for _, g := range gs {
			if g.Hash == w.Hash {
				best = g
			}
		}
		for _, f := range fieldDiffs(w, best) {
			note(f, fmt.Sprintf("height %d: %s differs: want %s got %s", h, f, w.String(), best.String()))
		}
	}
	for h, gs := range byHeight {
		if _, ok := expected[h]; !ok {
			note("extra-row", fmt.Sprintf("%d unexpected row(s) at height %d (%s, %s)", len(gs), h, gs[0].Hash, gs[0].State))
		}
	}
	if len(set) == 0 {
		return "", ""
	}
	var ks []string
	for k := range set {
		ks = append(ks, k)
	}
	sort.Strings(ks)
	return strings.Join(ks, ","), strings.Join(descs, "; ")
}

func lenClass(n int) string {
	switch {
	case n <= 1:
		return "n=1"
	case n < 500:
		return "n<500"
	case n == 500:
		return "n=500"
	case n <= 1000:
		return "500<n<=1000"
	default:
		return "n>1000"
	}
}
