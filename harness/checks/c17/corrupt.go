package c17

import (
	"bytes"
	"compress/gzip"
	"fmt"
	"math"
	"math/rand"
	"os"
	"path/filepath"
	"sort"
	"strconv"
	"strings"

	"github.com/bitcoin-sv/block-headers-service/internal/chaincfg"
	"github.com/bitcoin-sv/block-headers-service/internal/chaincfg/chainhash"
	"github.com/bitcoin-sv/block-headers-service/verifharness/gen"
	"github.com/bitcoin-sv/block-headers-service/verifharness/refmodel"
	"github.com/bitcoin-sv/block-headers-service/verifharness/rig"
	"github.com/bitcoin-sv/block-headers-service/verifharness/snap"
)

var columns = []string{"version", "merkleroot", "nonce", "bits", "timestamp"}

const merkleCol = 1

// checkpoint placements
const (
	cpLast = "cplast" // newest checkpoint = last block of the exported chain: every change of any row contradicts it
	cpMid  = "cpmid"  // newest checkpoint at height 499 (or the middle of a short chain)
	cpZero = "cpzero" // newest checkpoint = genesis
)

// mutation is one corrupted prepared file plus the structural facts the oracle needs.
type mutation struct {
	id        string // <class>/<column or variant>/r<row>
	class     string // coarse class used in signatures
	malformed bool   // a row cannot be parsed as (int32, hash, uint32, uint32, int64) or has a wrong column count
	lenient   bool   // the statement does not clearly call this file bad: refusal never required
	sameData  bool   // only the spelling of a value differs: if the file is accepted, what is stored equals the export
	minAff    int    // first data-row index whose content differs from the export (none = no row differs)
	rows      int    // number of data rows in the mutated file (-1 = unknown)
	file      []byte
	note      string
	modes     []string              // checkpoint placements to run under
	cps       []chaincfg.Checkpoint // explicit checkpoints (checkpoint cases); overrides modes
}

const none = 1 << 30

func bumpUint(s string) string {
	v, err := strconv.ParseUint(s, 10, 32)
	if err != nil {
		return "1"
	}
	if v == math.MaxUint32 {
		return strconv.FormatUint(v-1, 10)
	}
	return strconv.FormatUint(v+1, 10)
}

func bumpInt(s string, max int64) string {
	v, err := strconv.ParseInt(s, 10, 64)
	if err != nil {
		return "1"
	}
	if v >= max {
		return strconv.FormatInt(v-1, 10)
	}
	return strconv.FormatInt(v+1, 10)
}

var nonNumeric = []string{"abc", "1x", "0x1f", "1.5", " 7", "7 ", "1e3", "--1", "NaN", "1_000", "١٢٣", "1\"", "true", "7;8"}

// badField returns the replacement for one field under a corruption class.
func badField(rng *rand.Rand, class string, col int, old string) (string, bool) {
	pick := func(xs ...string) string { return xs[rng.Intn(len(xs))] }
	isMerkle := col == merkleCol
	switch class {
	case "non-numeric":
		if isMerkle {
			b := []byte(old)
			switch rng.Intn(3) {
			case 0:
				b[rng.Intn(len(b))] = "ghzXYZ -"[rng.Intn(8)]
				return string(b), true
			case 1:
				return strings.Repeat("g", 64), true
			default:
				return "0x" + old[2:], true
			}
		}
		if col == 0 && rng.Intn(2) == 0 {
			// a first field that makes the whole line look like something else to a lenient CSV reader (comment markers)
			return pick("#1", "#", "#"+old, "# "+old, ";"+old, "//"+old), true
		}
		return pick(nonNumeric...), true
	case "out-of-range":
		switch columns[col] {
		case "version":
			return pick("2147483648", "-2147483649", "4294967295", "99999999999999999999"), true
		case "nonce", "bits":
			return pick("4294967296", "-1", "18446744073709551616", "-4294967295"), true
		case "timestamp":
			// beyond int64, and beyond the 32 bits a block timestamp has: the same value modulo 2^32 (the block hash only
			// covers the low 32 bits), negative, just above the range
			if v, err := strconv.ParseInt(old, 10, 64); err == nil && rng.Intn(2) == 0 {
				return pick(strconv.FormatInt(v+(1<<32), 10), strconv.FormatInt(v-(1<<32), 10), strconv.FormatInt(v+(1<<40), 10), "4294967296", "-1"), true
			}
			return pick("9223372036854775808", "-9223372036854775809", "99999999999999999999"), true
		default: // merkleroot longer than a hash
			return old + pick("0", "00", strings.Repeat("ab", 32)), true
		}
	case "empty-field":
		if isMerkle {
			return "", false // not applicable: an empty string parses as the zero hash (a changed value)
		}
		return "", true
	case "value-changed":
		switch columns[col] {
		case "version":
			return bumpInt(old, math.MaxInt32), true
		case "nonce", "bits":
			return bumpUint(old), true
		case "timestamp":
			return bumpInt(old, math.MaxUint32), true
		default:
			b := []byte(old)
			switch rng.Intn(3) {
			case 0: // flip one hex digit
				i := rng.Intn(len(b))
				if b[i] == '0' {
					b[i] = '1'
				} else {
					b[i] = '0'
				}
				return string(b), true
			case 1: // a shorter hex string parses as a zero-padded, different hash
				if strings.TrimLeft(old, "0") == "abc" {
					return "abd", true
				}
				return "abc", true
			default: // the empty string parses as the zero hash
				if strings.Trim(old, "0") == "" {
					return "1", true
				}
				return "", true
			}
		}
	}
	return "", false
}

const noHeader = "\x00"

func assemble(header string, lines []string) []byte {
	var sb strings.Builder
	if header != noHeader {
		sb.WriteString(header)
		sb.WriteByte('\n')
	}
	for _, l := range lines {
		sb.WriteString(l)
		sb.WriteByte('\n')
	}
	return gzipBytes([]byte(sb.String()))
}

// positions returns the data-row indexes of rows {1, 499, 500, 501, last}.
func positions(n int) []int {
	var out []int
	seen := map[int]bool{}
	for _, row := range []int{1, 499, 500, 501, n} {
		if row >= 1 && row <= n && !seen[row] {
			seen[row] = true
			out = append(out, row-1)
		}
	}
	return out
}

func randChainHash(rng *rand.Rand) *chainhash.Hash {
	var h chainhash.Hash
	rng.Read(h[:])
	return &h
}

// mutations enumerates the corruption cases of one exported store; rnd derives the rng
// of a case from its id, so the enumeration is a pure function of (seed, store).
func (s *store) mutations(rnd func(id string) *rand.Rand) []mutation {
	var out []mutation
	n := len(s.lines)
	copyLines := func() []string { return append([]string(nil), s.lines...) }
	all := []string{cpLast, cpMid, cpZero}
	for pi, idx := range positions(n) {
		row := fmt.Sprintf("r%d", idx+1)
		// field classes x columns
		for _, class := range []string{"non-numeric", "out-of-range", "empty-field", "value-changed"} {
			for col := range columns {
				id := class + "/" + columns[col] + "/" + row
				rng := rnd(id)
				f := strings.Split(s.lines[idx], ",")
				old := f[col]
				nv, ok := badField(rng, class, col, old)
				if !ok || nv == old {
					continue
				}
				f[col] = nv
				ls := copyLines()
				ls[idx] = strings.Join(f, ",")
				// under cpmid/cpzero a malformed field beyond the checkpoint is not masked by the hash check
				modes := all
				out = append(out, mutation{id: id, class: class, malformed: class != "value-changed", minAff: idx, rows: n, modes: modes,
					file: assemble(s.header, ls), note: fmt.Sprintf("row %d column %s: %q -> %q", idx+1, columns[col], old, nv)})
			}
		}
		// wrong column count
		for v, variant := range []string{"field-dropped", "field-appended", "empty-field-appended", "single-field", "joined-with-next"} {
			id := "column-count/" + variant + "/" + row
			rng := rnd(id)
			f := strings.Split(s.lines[idx], ",")
			ls := copyLines()
			rows := n
			switch v {
			case 0:
				k := rng.Intn(5)
				f = append(f[:k], f[k+1:]...)
				ls[idx] = strings.Join(f, ",")
			case 1:
				ls[idx] += ",0"
			case 2:
				ls[idx] += ","
			case 3:
				ls[idx] = f[0]
			case 4:
				if idx+1 >= n {
					continue
				}
				ls[idx] = ls[idx] + "," + ls[idx+1]
				ls = append(ls[:idx+1], ls[idx+2:]...)
				rows = n - 1
			}
			modes := []string{cpLast}
			if v == pi%5 {
				modes = all
			}
			out = append(out, mutation{id: id, class: "column-count", malformed: true, minAff: idx, rows: rows, modes: modes, file: assemble(s.header, ls),
				note: fmt.Sprintf("row %d: %q -> %q", idx+1, s.lines[idx], ls[idx])})
		}
		// a merkle root spelled differently (upper-case hex digits, a leading zero dropped): the same value
		{
			f := strings.Split(s.lines[idx], ",")
			old := f[merkleCol]
			for v, alt := range []string{strings.ToUpper(old), strings.TrimLeft(old, "0")} {
				if alt == old || alt == "" {
					continue
				}
				ls := copyLines()
				g := append([]string(nil), f...)
				g[merkleCol] = alt
				ls[idx] = strings.Join(g, ",")
				out = append(out, mutation{id: fmt.Sprintf("respelled/merkleroot-%d/%s", v, row), class: "respelled", lenient: true, sameData: true, minAff: none, rows: n, modes: []string{cpLast},
					file: assemble(s.header, ls), note: fmt.Sprintf("row %d merkle root %q written as %q (the same value)", idx+1, old, alt)})
			}
		}
		// deleted row
		{
			ls := copyLines()
			ls = append(ls[:idx], ls[idx+1:]...)
			aff := idx
			if idx == n-1 {
				aff = none // no remaining row changes; only the count does
			}
			out = append(out, mutation{id: "row-deleted/-/" + row, class: "row-deleted", minAff: aff, rows: n - 1, modes: all, file: assemble(s.header, ls), note: fmt.Sprintf("row %d deleted", idx+1)})
		}
		// duplicated row
		{
			ls := append(append(append([]string(nil), s.lines[:idx+1]...), s.lines[idx]), s.lines[idx+1:]...)
			out = append(out, mutation{id: "row-duplicated/-/" + row, class: "row-duplicated", minAff: idx + 1, rows: n + 1, modes: all, file: assemble(s.header, ls), note: fmt.Sprintf("row %d duplicated", idx+1)})
		}
		// swapped rows
		if n >= 2 {
			other := idx + 1
			if other >= n {
				other = idx - 1
			}
			if s.lines[idx] != s.lines[other] {
				ls := copyLines()
				ls[idx], ls[other] = ls[other], ls[idx]
				out = append(out, mutation{id: "rows-swapped/-/" + row, class: "rows-swapped", minAff: min(idx, other), rows: n, modes: all, file: assemble(s.header, ls), note: fmt.Sprintf("rows %d and %d swapped", idx+1, other+1)})
			}
		}
		// truncated csv (properly compressed); only with the checkpoint on the last block
		for v, variant := range []string{"at-row-start", "mid-row", "inside-last-field"} {
			ls := append([]string(nil), s.lines[:idx]...)
			f := strings.Split(s.lines[idx], ",")
			switch v {
			case 1:
				ls = append(ls, strings.Join(f[:2], ",")+","+f[2][:len(f[2])/2])
			case 2:
				if len(f[4]) < 2 {
					continue
				}
				ls = append(ls, strings.Join(f[:4], ",")+","+f[4][:len(f[4])-1])
			}
			out = append(out, mutation{id: "csv-truncated/" + variant + "/" + row, class: "csv-truncated", malformed: v == 1, minAff: idx, rows: len(ls), modes: []string{cpLast},
				file: assemble(s.header, ls), note: fmt.Sprintf("file cut %s of row %d", variant, idx+1)})
		}
	}
	// file-level corruptions (checkpoint on the last block)
	L := len(s.gz)
	cuts := map[string]int{"byte1": 1, "inside-gzip-header": 9, "after-gzip-header": 10, "one-third": L / 3, "half": L / 2, "before-trailer": L - 9, "trailer-missing": L - 8, "trailer-half": L - 4, "last-byte": L - 1}
	for _, name := range []string{"byte1", "inside-gzip-header", "after-gzip-header", "one-third", "half", "before-trailer", "trailer-missing", "trailer-half", "last-byte"} {
		k := cuts[name]
		if k < 1 || k >= L {
			continue
		}
		out = append(out, mutation{id: "gzip-truncated/" + name + "/-", class: "gzip-truncated", minAff: 0, rows: -1, modes: []string{cpLast}, file: append([]byte(nil), s.gz[:k]...), note: fmt.Sprintf("exported file cut after %d of %d bytes", k, L)})
	}
	// an archive cut (interrupted copy) exactly where a complete row ends: what can be decompressed is well-formed CSV, but
	// the archive itself is not a complete gzip stream. Built with a flush point after row j.
	for _, j := range []int{n - 1, n - 2, (n + s.cpHeight(cpMid)) / 2, s.cpHeight(cpMid) + 2} {
		if j < 2 || j >= n {
			continue
		}
		var buf bytes.Buffer
		zw := gzip.NewWriter(&buf)
		_, _ = zw.Write([]byte(s.header + "\n" + strings.Join(s.lines[:j], "\n") + "\n"))
		_ = zw.Flush()
		cut := buf.Len()
		_, _ = zw.Write([]byte(strings.Join(s.lines[j:], "\n") + "\n"))
		_ = zw.Close()
		out = append(out, mutation{id: fmt.Sprintf("gzip-truncated/at-row-boundary/r%d", j), class: "gzip-truncated-at-row-boundary", malformed: true, minAff: j, rows: j, modes: []string{cpMid, cpZero},
			file: append([]byte(nil), buf.Bytes()[:cut]...), note: fmt.Sprintf("gzip stream cut after the flush point that follows row %d of %d", j, n)})
	}
	for _, name := range []string{"one-third", "half", "before-trailer"} {
		k := cuts[name]
		if k < 10 || k >= L {
			continue
		}
		b := append([]byte(nil), s.gz...)
		b[k] ^= 0x5a
		out = append(out, mutation{id: "gzip-byte-flipped/" + name + "/-", class: "gzip-byte-flipped", minAff: 0, rows: -1, modes: []string{cpLast}, file: b, note: fmt.Sprintf("byte %d of %d xor 0x5a", k, L)})
	}
	plain := []byte(s.header + "\n" + strings.Join(s.lines, "\n") + "\n")
	junk := make([]byte, 200)
	rnd("not-gzip/random").Read(junk)
	for _, v := range []struct {
		name string
		b    []byte
	}{{"plain-csv", plain}, {"empty-file", nil}, {"random-bytes", junk}} {
		out = append(out, mutation{id: "not-gzip/" + v.name + "/-", class: "not-gzip", minAff: 0, rows: -1, modes: []string{cpLast}, file: v.b, note: v.name + " instead of a gzip stream"})
	}
	// header line
	out = append(out,
		mutation{id: "header-line/missing/-", class: "header-line-missing", minAff: 0, rows: n - 1, modes: all, file: assemble(noHeader, s.lines), note: "column-name line removed: the first data row sits in its place"},
		mutation{id: "header-line/blank/-", class: "header-line-missing", minAff: 0, rows: n - 1, modes: []string{cpLast}, file: assemble("", s.lines), note: "column-name line replaced by an empty line"},
		mutation{id: "header-line/duplicated/-", class: "header-line-duplicated", malformed: true, minAff: 0, rows: n + 1, modes: all, file: assemble(s.header+"\n"+s.header, s.lines), note: "column-name line twice: the second one is a data row with non-numeric fields"},
		mutation{id: "header-line/renamed/-", class: "header-line-altered", lenient: true, minAff: none, rows: n, modes: []string{cpLast}, file: assemble("nonce,version,bits,timestamp,merkleroot", s.lines), note: "column names permuted"},
		mutation{id: "header-line/four-columns/-", class: "header-line-altered", lenient: true, minAff: none, rows: n, modes: []string{cpLast}, file: assemble("version,merkleroot,nonce,bits", s.lines), note: "column-name line has 4 names"},
		mutation{id: "header-line/six-columns/-", class: "header-line-altered", lenient: true, minAff: none, rows: n, modes: []string{cpLast}, file: assemble(s.header+",height", s.lines), note: "column-name line has 6 names"},
	)
	// checkpoint cases on the intact export
	staleAt := map[int64]string{}
	for _, row := range s.all {
		if row.State == refmodel.Stale {
			staleAt[row.Height] = row.Hash
		}
	}
	for _, idx := range positions(n) {
		row := fmt.Sprintf("r%d", idx+1)
		for _, variant := range []string{"random-hash", "neighbour-hash", "stale-hash"} {
			id := "checkpoint-hash/" + variant + "/" + row
			var h *chainhash.Hash
			switch variant {
			case "random-hash":
				h = randChainHash(rnd(id))
			case "neighbour-hash":
				if n < 2 {
					continue
				}
				o := idx + 1
				if o >= n {
					o = idx - 1
				}
				h = s.hashAt(o)
			case "stale-hash":
				sh, ok := staleAt[int64(idx)]
				if !ok {
					continue
				}
				h, _ = chainhash.NewHashFromStr(sh)
			}
			cps := []chaincfg.Checkpoint{{Height: int32(idx), Hash: h}}
			if idx > 0 {
				cps = append(s.checkpointAt(0), cps...) // an older, matching checkpoint before the newest one
			}
			out = append(out, mutation{id: id, class: "checkpoint-hash", minAff: none, rows: n, file: s.gz, cps: cps, note: fmt.Sprintf("intact export; newest checkpoint at height %d with %s", idx, variant)})
		}
	}
	for _, v := range []struct {
		name string
		h    int64
	}{{"first-beyond", int64(n)}, {"two-beyond", int64(n) + 1}, {"far-beyond", int64(n) + 500}, {"max-int32", math.MaxInt32}} {
		for _, hv := range []string{"tip-hash", "random-hash"} {
			id := "checkpoint-height/" + v.name + "/" + hv
			h := s.hashAt(n - 1)
			if hv == "random-hash" {
				h = randChainHash(rnd(id))
			}
			cps := append(s.checkpointAt(n-1), chaincfg.Checkpoint{Height: int32(v.h), Hash: h})
			out = append(out, mutation{id: id, class: "checkpoint-height", minAff: none, rows: n, file: s.gz, cps: cps, note: fmt.Sprintf("intact export of %d rows; newest checkpoint at height %d", n, v.h)})
		}
	}
	return out
}

func (s *store) cpHeight(mode string) int {
	switch mode {
	case cpZero:
		return 0
	case cpMid:
		if s.n > 501 {
			return 499
		}
		return (s.n - 1) / 2
	}
	return s.n - 1
}

// storeLength picks the longest-chain length of corruption store k.
func storeLength(rng *rand.Rand, k int) int {
	switch k % 4 {
	case 0:
		if k == 0 {
			return 1600
		}
		return []int{1600, 1001, 1500, 1501, 1000}[rng.Intn(5)]
	case 1:
		return 502 + rng.Intn(1099)
	case 2:
		return 2 + rng.Intn(60)
	default:
		return []int{1, 2, 3, 499, 500, 501}[(k/4)%6]
	}
}

// corruptionUnit builds corruption store k and runs the share p (of parts) of its cases.
func (e *env) corruptionUnit(unit string, k, p, parts int) {
	r := e.r
	storeID := fmt.Sprintf("cor/s%d", k)
	rng := r.Rand(storeID)
	L := storeLength(rng, k)
	var hist gen.History
	if k%8 == 6 {
		hist = gen.Random(rng, rig.Genesis(), gen.Opts{N: 20 + rng.Intn(120), PUnknown: 0.05, PLate: 0.05, PFork: 0.2, Classes: "MMMHL", FieldExtreme: true})
	} else {
		hist = buildExact(rng, L)
	}
	tag := fmt.Sprintf("s%d", k)
	s := e.buildStore(unit, hist, tag+"-A.db", tag+".csv.gz")
	if s == nil {
		return
	}
	defer os.Remove(filepath.Join(e.work, tag+".csv.gz"))
	defer e.cleanTmp()
	if len(s.lines) != s.n || s.header == "" {
		r.Violate("export|row-count", fmt.Sprintf("the exported file has %d data rows, the store %d LONGEST_CHAIN rows", len(s.lines), s.n), unit, map[string]any{"history_hex": clipHist(hist)})
		return
	}
	// control: the re-compressed, unchanged text must import and equal the store
	if p == 0 || r.Only != "" {
		ctl := mutation{id: "control", class: "control", minAff: none, rows: s.n, file: assemble(s.header, s.lines)}
		if !e.control(unit+"/control", s, ctl) {
			return
		}
	}
	muts := s.mutations(func(id string) *rand.Rand { return r.Rand(storeID + "/" + id) })
	i := 0
	for _, m := range muts {
		modes := m.modes
		if m.cps != nil {
			modes = []string{"cpgiven"}
		}
		for _, mode := range modes {
			i++
			if i%parts != p {
				continue
			}
			sub := unit + "/" + mode + "/" + m.id
			if r.Only != "" && r.Only != sub && r.Only != unit {
				continue
			}
			r.Exec(sub, func() { e.corruptionCase(sub, s, m, mode) })
		}
	}
}

func (e *env) control(caseID string, s *store, m mutation) bool {
	r := e.r
	file := "ctl.csv.gz"
	if err := os.WriteFile(filepath.Join(e.work, file), m.file, 0o644); err != nil {
		r.Violate("harness|write", err.Error(), caseID, nil)
		return false
	}
	defer os.Remove(filepath.Join(e.work, file))
	removeDB(filepath.Join(e.work, "ctl.db"))
	defer removeDB(filepath.Join(e.work, "ctl.db"))
	res := e.importInto("ctl.db", file, s.checkpointAt(s.n-1))
	if res.st == nil {
		r.Violate("harness|control-import-failed", fmt.Sprintf("re-compressed unchanged export refused: err=%v panic=%v", res.err, res.panic), caseID, nil)
		return false
	}
	defer res.st.Close()
	got, err := snap.TakeHeaders(res.st.DB)
	if err != nil {
		r.Violate("harness|snapshot", err.Error(), caseID, nil)
		return false
	}
	if kinds, desc := compare(s.expected, got); kinds != "" {
		r.Violate("roundtrip|rows-differ|"+kinds, "control import differs from the exported store's LONGEST_CHAIN rows: "+desc, caseID, map[string]any{"history_hex": clipHist(s.hist)})
		return false
	}
	r.Count("control_imports_equal", 1)
	return true
}

// corruptionCase imports one corrupted file (or an intact file under a contradicting
// checkpoint) into an empty database and, after a refusal, starts a second time.
func (e *env) corruptionCase(caseID string, s *store, m mutation, mode string) {
	r := e.r
	file := "m.csv.gz"
	path := filepath.Join(e.work, "B.db")
	if err := os.WriteFile(filepath.Join(e.work, file), m.file, 0o644); err != nil {
		r.Violate("harness|write", err.Error(), caseID, nil)
		return
	}
	defer os.Remove(filepath.Join(e.work, file))
	defer e.cleanTmp()
	removeDB(path)
	defer removeDB(path)
	cps := m.cps
	cpCase := cps != nil
	must := true
	cpH := -1
	if !cpCase {
		cpH = s.cpHeight(mode)
		cps = s.checkpointAt(cpH)
		must = !m.lenient && (m.malformed || m.minAff <= cpH || (m.rows >= 0 && m.rows <= cpH))
	} else {
		cpH = int(cps[len(cps)-1].Height)
	}
	detail := map[string]any{
		"store_longest_rows": s.n, "store_history_hex": clipHist(s.hist), "corruption": m.id, "what": m.note,
		"newest_checkpoint_height": cpH, "newest_checkpoint_hash": cps[len(cps)-1].Hash.String(), "refusal_required": must,
	}
	r.Case(fmt.Sprintf("cor|%s|n=%d|%s|%s", strings.SplitN(caseID, "/", 3)[1], s.n, mode, m.id), true)
	r.Count("corruption_cases", 1)
	r.Count("corruption_class_"+m.class, 1)

	res := e.importInto("B.db", file, cps)
	if res.panic != nil {
		detail["stack"] = clip(res.stack, 4000)
		r.Violate("import-panicked|"+m.class, fmt.Sprintf("start-up with prepared_db panicked: %v", res.panic), caseID, detail)
		return
	}
	if res.err == nil {
		defer res.st.Close()
		got, err := snap.TakeHeaders(res.st.DB)
		if err != nil {
			r.Violate("harness|snapshot", err.Error(), caseID, nil)
			return
		}
		kinds, desc := compare(s.expected, got)
		switch {
		case kinds == "" && !cpCase:
			r.Count("accepted_and_equal_to_export", 1) // the change was harmless
			r.Count("accepted_and_equal_"+m.class+"_"+strings.SplitN(m.id, "/", 3)[1], 1)
		case m.sameData:
			detail["imported_rows"] = len(got)
			detail["difference_to_exported_chain"] = desc
			r.Violate("accepted-import-differs-from-the-file|"+m.class+"|"+kinds, "start-up accepted a file in which "+m.note+", and the imported chain differs from the exported one: "+desc, caseID, detail)
		case must:
			detail["imported_rows"] = len(got)
			detail["difference_to_exported_chain"] = desc
			r.Violate("corrupted-file-accepted|"+m.class+"|"+mode, "start-up succeeded although "+m.note, caseID, detail)
		default:
			// a self-consistent different chain: it must at least be a chain
			all := true
			for _, row := range got {
				all = all && row.State == refmodel.Longest
			}
			if bad := got.IChain(); bad != "" || !all || (m.rows >= 0 && len(got) != m.rows) {
				detail["imported_rows"] = len(got)
				r.Violate("accepted-import-incoherent|"+m.class, fmt.Sprintf("accepted import is not one LONGEST_CHAIN chain of the file's %d rows: %s (rows %d, all LONGEST %v)", m.rows, bad, len(got), all), caseID, detail)
				return
			}
			r.Count("accepted_selfconsistent_other_chain", 1)
		}
		return
	}
	// refused
	detail["first_start_error"] = res.err.Error()
	r.Count("refusals_observed", 1)
	if must {
		r.Count("required_refusals_observed", 1)
	}
	left, err := snapshotFile(path)
	if err != nil {
		r.Violate("harness|snapshot", err.Error(), caseID, nil)
		return
	}
	// the refused import leaves no object behind that a freshly initialised database does not have (an index, a table)
	if extra := e.schemaExtras(path); len(extra) > 0 {
		detail["schema_objects_left_behind"] = extra
		r.Violate("refused-import-leaves-schema-objects|"+m.class, fmt.Sprintf("start-up refused the import (%s) and changed the schema of the database file (%v): later starts (with any file, or none) work on a different schema", clip(res.err.Error(), 120), extra), caseID, detail)
		return
	}
	r.Count("schemas_compared_after_a_refusal", 1)
	detail["rows_left_by_refused_import"] = len(left)
	if len(left) > 0 {
		r.Count("refusals_leaving_rows", 1)
	} else {
		r.Count("refusals_leaving_no_rows", 1)
	}
	// a later start on the same database, same configuration
	res2 := e.importInto("B.db", file, cps)
	r.Count("second_starts_after_refusal", 1)
	if res2.panic != nil {
		detail["stack"] = clip(res2.stack, 4000)
		r.Violate("second-start-panicked|"+m.class, fmt.Sprintf("second start after a refused import panicked: %v", res2.panic), caseID, detail)
		return
	}
	if res2.err != nil {
		r.Count("second_start_refused_again", 1)
		return
	}
	defer res2.st.Close()
	got, err := snap.TakeHeaders(res2.st.DB)
	if err != nil {
		r.Violate("harness|snapshot", err.Error(), caseID, nil)
		return
	}
	detail["rows_served_by_second_start"] = len(got)
	genesisOnly := false
	if len(got) == 1 {
		for _, row := range got {
			genesisOnly = row.Height == 0 && strings.Trim(row.Prev, "0") == "" && row.Hash == s.expected[0].Hash
		}
	}
	kinds, _ := compare(s.expected, got)
	switch {
	case len(got) == 0 || genesisOnly:
		r.Count("second_start_clean_database", 1)
		r.Count("second_start_clean_after_"+m.class, 1)
	case kinds == "" && !cpCase:
		r.Count("second_start_full_correct_chain", 1)
	default:
		served := "second-start-serves-refused-chain"
		what := "all rows of the refused file"
		if fileRows := m.rows; fileRows < 0 || len(got) < fileRows {
			served = "second-start-serves-partial"
			what = "the rows committed before the refusal"
		}
		if tip := res2.st.Svc.Headers.GetTip(); tip != nil {
			detail["tip_served_by_second_start"] = fmt.Sprintf("%s at height %d", tip.Hash.String(), tip.Height)
		}
		r.Violate("refused-import-leaves-rows|"+m.class+"|"+served,
			fmt.Sprintf("start-up refused the import (%s), yet a second start on the same database succeeded and serves %s (%d rows)", clip(res.err.Error(), 160), what, len(got)), caseID, detail)
	}
}

// schemaObjects lists type:name of everything in sqlite_master.
func schemaObjects(path string) ([]string, error) {
	db, err := openRaw(path)
	if err != nil {
		return nil, err
	}
	defer db.Close()
	var out []string
	if err := db.Select(&out, `SELECT type || ':' || name FROM sqlite_master ORDER BY 1`); err != nil {
		return nil, err
	}
	return out, nil
}

// schemaExtras: objects of the database file that a freshly initialised database (no prepared file) does not have.
func (e *env) schemaExtras(path string) []string {
	if e.pristine == nil {
		removeDB(filepath.Join(e.work, "pristine.db"))
		st, err := rig.New(rig.Options{Dir: e.work, Name: "pristine.db", NoHTTP: true})
		if err != nil {
			return nil
		}
		st.Close()
		objs, err := schemaObjects(st.Path)
		st.Destroy()
		if err != nil {
			return nil
		}
		e.pristine = map[string]bool{}
		for _, o := range objs {
			e.pristine[o] = true
		}
	}
	objs, err := schemaObjects(path)
	if err != nil {
		return nil
	}
	var extra []string
	have := map[string]bool{}
	for _, o := range objs {
		have[o] = true
		if !e.pristine[o] {
			extra = append(extra, "left behind: "+o)
		}
	}
	for o := range e.pristine {
		if !have[o] {
			extra = append(extra, "missing: "+o)
		}
	}
	sort.Strings(extra)
	return extra
}
