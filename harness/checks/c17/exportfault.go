package c17

import (
	"fmt"
	"os"
	"path/filepath"
	"strings"

	"github.com/bitcoin-sv/block-headers-service/database"
	"github.com/bitcoin-sv/block-headers-service/verifharness/gen"
	"github.com/bitcoin-sv/block-headers-service/verifharness/refmodel"
	"github.com/bitcoin-sv/block-headers-service/verifharness/rig"
)

// exportFault: the statement that reads the headers for the export fails part-way (a row whose version cannot be computed:
// a view in front of the table raises "integer overflow" at one height). Either the export reports the failure, or the file
// it wrote holds the whole longest chain - a file that is a well-formed prefix of the chain would be imported as the chain.
func (e *env) exportFault(caseID string, i int) {
	r := e.r
	rng := r.Rand(caseID)
	name := "F.db"
	removeDB(filepath.Join(e.work, name))
	st, err := rig.New(rig.Options{Dir: e.work, Name: name, NoHTTP: true})
	if err != nil {
		r.Violate("harness|rig", err.Error(), caseID, nil)
		return
	}
	defer st.Destroy()
	n := 12 + rng.Intn(60)
	if i%3 == 2 {
		n = 501 + rng.Intn(80)
	}
	prev := rig.Genesis().HashOf()
	for k := 0; k < n; k++ {
		h := refmodel.Hdr{Prev: prev, Bits: gen.BitsNormal}
		gen.Fields(rng, &h, false, k+1)
		if res := st.Add(h); res.Panic != nil || res.Err != nil {
			r.Count("stores_skipped_ingestion_panicked", 1)
			return
		}
		prev = h.HashOf()
	}
	at := 1 + rng.Intn(n-1)
	for _, stmt := range []string{
		`ALTER TABLE headers RENAME TO headers_data`,
		fmt.Sprintf(`CREATE VIEW headers AS SELECT hash, height, CASE WHEN height = %d THEN abs(-9223372036854775807 - 1) ELSE version END AS version, merkleroot, nonce, bits, chainwork, previous_block, timestamp, cumulated_work, header_state FROM headers_data`, at),
	} {
		if _, err := st.DB.Exec(stmt); err != nil {
			r.Count("export_fault_not_injected", 1)
			return
		}
	}
	var dummy int64
	if err := st.DB.Get(&dummy, fmt.Sprintf(`SELECT version FROM headers WHERE height = %d`, at)); err == nil {
		r.Count("export_fault_not_injected", 1)
		return
	}
	st.Close()
	cfg := rig.NewConfig(st.Path)
	file := "fault-export.csv.gz"
	cfg.Db.PreparedDbFilePath = file
	_ = os.Remove(filepath.Join(e.work, file))
	defer os.Remove(filepath.Join(e.work, file))
	defer e.cleanTmp()
	var perr any
	func() {
		defer func() {
			if p := recover(); p != nil {
				perr = p
			}
		}()
		err = database.ExportHeaders(cfg, &e.log)
	}()
	r.Count("exports_with_a_failing_row", 1)
	detail := map[string]any{"longest_chain_rows": n + 1, "row_that_cannot_be_read": at}
	if perr != nil {
		r.Violate("export|panic|failing-row", fmt.Sprintf("ExportHeaders panicked: %v", perr), caseID, detail)
		return
	}
	if err != nil {
		r.Count("exports_reporting_the_failure", 1)
		r.Case(fmt.Sprintf("expfault|n=%s", lenClass(n)), true)
		return
	}
	gz, rerr := os.ReadFile(filepath.Join(e.work, file))
	rows := -1
	if rerr == nil {
		if txt, gerr := gunzip(gz); gerr == nil {
			rows = len(strings.Split(strings.TrimSuffix(string(txt), "\n"), "\n")) - 1
		}
	}
	if rows != n+1 {
		detail["rows_in_the_file"] = rows
		r.Violate("export|reported-success|partial-file", fmt.Sprintf("the row at height %d of %d could not be read; ExportHeaders reported success and left a file with %d rows (a well-formed file that is not the longest chain)", at, n, rows), caseID, detail)
		return
	}
	r.Case(fmt.Sprintf("expfault|n=%s", lenClass(n)), true)
}
