// Package c19: compact bits -> target -> work arithmetic is exact on the whole 32-bit
// domain, and FastLog2Floor(n) = floor(log2 n) for every 32-bit n >= 1.
//
// Observed (real code): domains.CompactToBig, domains.CalculateWork, domains.FastLog2Floor.
// Oracles (independent of the code under test):
//   - target  = sign x (mantissa x 256^(exp-3))            for exp >= 3   (big.Int Exp + Mul)
//     sign x trunc(mantissa / 256^(3-exp))                 for exp <  3   (big.Int Exp + Quo)
//     with exp = top byte, sign = bit 23, mantissa = low 23 bits, all taken apart with
//     integer division/modulo (no shifts, no masks shared with the implementation);
//   - work    = multiplicative certificate  w*(t+1) <= 2^256 < (w+1)*(t+1)  for t > 0, w = 0 for t <= 0
//     (no division is performed by the oracle);
//   - work is non-increasing in the target over positive targets: checked on sorted (target, work) pairs;
//   - log2    = math/bits.Len32(n) - 1.
package c19

import (
	"fmt"
	"math/big"
	mbits "math/bits"
	"os"
	"runtime"
	"sort"
	"strconv"
	"sync"

	"github.com/bitcoin-sv/block-headers-service/domains"
	"github.com/bitcoin-sv/block-headers-service/verifharness/ev"
)

// Spec is the check registration. One child process per CPU (own heap and GC: the code under
// test allocates several big.Ints per value); every child takes the cases r.Mine assigns to it.
// The body also works in-process (replay, Workers: 0): it then fans out over goroutines.
func Spec() ev.Spec {
	return ev.Spec{Prop: "C19", Level: "exploration", Workers: -1, Body: body}
}

const (
	batchShift = 20 // one case = 2^20 consecutive values in the exhaustive sweeps
	maxPerSig  = 3  // violations reported verbatim per signature and goroutine; the rest is counted
)

var (
	one    = big.NewInt(1)
	two256 = new(big.Int).Exp(big.NewInt(2), big.NewInt(256), nil)
	// pow256[k] = 256^k, k = 0..252, computed with big.Int.Exp (no shifts).
	pow256 = func() []*big.Int {
		p := make([]*big.Int, 253)
		b := big.NewInt(256)
		for k := range p {
			p[k] = new(big.Int).Exp(b, big.NewInt(int64(k)), nil)
		}
		return p
	}()
)

// split takes a compact value apart with division and modulo only.
func split(bits uint32) (exp uint32, neg bool, mant uint32) {
	exp = bits / 16777216  // top byte
	low := bits % 16777216 // low 24 bits
	neg = low/8388608 == 1 // bit 23
	mant = low % 8388608   // low 23 bits
	return
}

// mantKind: 0 other, 1 power of two, 2 = 2^k-1 (k>=2), 3 = 2^k+1 (k>=2). mantissa 0,1,2,3 are
// classified by their length only (kind 1 for 1 and 2, kind 2 for 3, kind 0 for 0).
func mantKind(m uint32) int {
	switch {
	case m == 0:
		return 0
	case m&(m-1) == 0:
		return 1
	case m&(m+1) == 0:
		return 2
	case m > 4 && (m-1)&(m-2) == 0:
		return 3
	}
	return 0
}

var kindName = [4]string{"other", "pow2", "pow2-1", "pow2+1"}

const nCells = 256 * 2 * 24 * 4

func cellIndex(exp uint32, neg bool, mant uint32) int {
	s := 0
	if neg {
		s = 1
	}
	return ((int(exp)*2+s)*24+mbits.Len32(mant))*4 + mantKind(mant)
}

func cellName(idx int) string {
	k := idx % 4
	l := (idx / 4) % 24
	s := (idx / 96) % 2
	e := idx / 192
	return fmt.Sprintf("exp=%d|sign=%s|mantlen=%d|%s", e, [2]string{"+", "-"}[s], l, kindName[k])
}

func expClass(exp uint32) string {
	switch {
	case exp < 3:
		return strconv.Itoa(int(exp))
	case exp == 3:
		return "3"
	case exp <= 32:
		return "4..32"
	case exp <= 34:
		return "33..34"
	}
	return "35..255"
}

func nClass(n uint32) string {
	k := "other"
	switch {
	case n&(n-1) == 0:
		k = "pow2"
	case n&(n+1) == 0:
		k = "pow2-1"
	case n > 4 && (n-1)&(n-2) == 0:
		k = "pow2+1"
	}
	return fmt.Sprintf("%s|byte%d", k, (mbits.Len32(n)-1)/8)
}

// worker is the per-goroutine state: scratch big.Ints (the oracle does not allocate per
// value), visited cells, local counters, per-signature violation caps.
type worker struct {
	r *ev.Run

	m, t, t1, p, prevT, prevW big.Int
	havePrev                  bool

	cells    []uint8 // 1 = visited, 2 = visited with a non-trivial value
	counters map[string]int64
	sigSeen  map[string]int
	evals    int64
}

func newWorker(r *ev.Run) *worker {
	return &worker{r: r, cells: make([]uint8, nCells), counters: map[string]int64{}, sigSeen: map[string]int{}}
}

func (w *worker) violate(sig, what, caseID string, detail map[string]any) {
	w.sigSeen[sig]++
	if w.sigSeen[sig] > maxPerSig {
		w.counters["violations_not_listed_verbatim"]++
		return
	}
	w.r.Violate(sig, what, caseID, detail)
}

func (w *worker) flush() {
	r := w.r
	for k, v := range w.counters {
		r.Count(k, v)
	}
	r.Cases(w.evals)
	cellMu.Lock()
	for i, c := range w.cells {
		if c > allCells[i] {
			allCells[i] = c
		}
	}
	cellMu.Unlock()
}

var (
	cellMu   sync.Mutex
	allCells = make([]uint8, nCells)
)

// oracleTarget leaves sign x mantissa x 256^(exp-3) (truncating) in w.t.
func (w *worker) oracleTarget(exp uint32, neg bool, mant uint32) (truncated bool) {
	w.m.SetUint64(uint64(mant))
	if exp >= 3 {
		w.t.Mul(&w.m, pow256[exp-3])
	} else {
		w.t.Quo(&w.m, pow256[3-exp])
		// truncation happened iff something was lost
		w.p.Mul(&w.t, pow256[3-exp])
		truncated = w.p.Cmp(&w.m) != 0
	}
	if neg {
		w.t.Neg(&w.t)
	}
	return truncated
}

// checkBits observes the real functions on one compact value and applies the oracles.
// order: whether to apply the pairwise monotonicity monitor against the previously checked value.
func (w *worker) checkBits(caseID string, bits uint32, order bool) (tgt, work *big.Int) {
	exp, neg, mant := split(bits)
	truncated := w.oracleTarget(exp, neg, mant)

	got := domains.CompactToBig(bits)
	cw := domains.CalculateWork(bits)
	wk := cw.BigInt()
	w.evals++

	sgn := "+"
	if neg {
		sgn = "-"
	}
	detail := func() map[string]any {
		return map[string]any{
			"bits": fmt.Sprintf("0x%08x", bits), "exponent": exp, "sign_bit": neg, "mantissa": fmt.Sprintf("0x%06x", mant),
			"CompactToBig": got.String(), "oracle_target": w.t.String(), "CalculateWork": wk.String(),
		}
	}
	// the functions are pure: asking again (every 16th value is asked three times in a row) gives the same answers and
	// leaves the values handed out before untouched
	if bits&15 == 3 && got != nil {
		t0, w0 := new(big.Int).Set(got), new(big.Int).Set(wk)
		for k := 2; k <= 3; k++ {
			gk := domains.CompactToBig(bits)
			wkk := domains.CalculateWork(bits).BigInt()
			if gk == nil || gk.Cmp(t0) != 0 || wkk.Cmp(w0) != 0 || got.Cmp(t0) != 0 || wk.Cmp(w0) != 0 {
				d := detail()
				d["call"] = k
				d["CompactToBig_again"], d["CalculateWork_again"] = fmt.Sprint(gk), wkk.String()
				d["first_target_now"], d["first_work_now"] = got.String(), wk.String()
				got, wk = t0, w0
				w.violate("purity|repeated-call", fmt.Sprintf("call %d of CompactToBig/CalculateWork(0x%08x) in a row answers differently from the first, or changed the value the first call handed out", k, bits), caseID, d)
				break
			}
		}
		w.counters["values_asked_three_times_in_a_row"]++
	}
	if got == nil || got.Cmp(&w.t) != 0 {
		w.violate("target|exp="+expClass(exp)+"|sign="+sgn,
			fmt.Sprintf("CompactToBig(0x%08x) = %v, expected sign x mantissa x 256^(exp-3) = %s", bits, got, w.t.String()), caseID, detail())
	}
	w.counters["targets_checked"]++
	nontrivial := false
	if w.t.Sign() != 0 {
		nontrivial = true
	} else {
		w.counters["zero_targets"]++
	}
	if neg {
		nontrivial = true
		w.counters["sign_bit_set"]++
	}
	if truncated {
		nontrivial = true
		w.counters["truncating_decodes"]++
	}
	ci := cellIndex(exp, neg, mant)
	if nontrivial {
		w.cells[ci] = 2
	} else if w.cells[ci] == 0 {
		w.cells[ci] = 1
	}

	// work
	if w.t.Sign() <= 0 {
		w.counters["work_nonpositive_target_checked"]++
		if wk.Sign() != 0 {
			w.violate("work|nonpositive-target", fmt.Sprintf("CalculateWork(0x%08x) = %s for a target <= 0 (%s), expected 0", bits, wk.String(), w.t.String()), caseID, detail())
		}
	} else {
		w.counters["work_certificates_checked"]++
		w.t1.Add(&w.t, one)
		switch {
		case wk.Sign() < 0:
			w.violate("work|certificate|negative", fmt.Sprintf("CalculateWork(0x%08x) is negative", bits), caseID, detail())
		default:
			w.p.Mul(wk, &w.t1)
			if w.p.Cmp(two256) > 0 {
				w.violate("work|certificate|too-large", fmt.Sprintf("CalculateWork(0x%08x) = w with w*(target+1) > 2^256", bits), caseID, detail())
			} else {
				w.p.Add(&w.p, &w.t1)
				if w.p.Cmp(two256) <= 0 {
					w.violate("work|certificate|too-small", fmt.Sprintf("CalculateWork(0x%08x) = w with (w+1)*(target+1) <= 2^256", bits), caseID, detail())
				}
			}
		}
		if wk.Sign() == 0 {
			w.counters["work_zero_for_target_at_least_2^256"]++
		} else {
			w.counters["work_positive"]++
		}
	}

	// pairwise monotonicity against the previous value of the sweep
	if order {
		// the statement makes the work 0 for targets <= 0, so "non-increasing in the
		// target" is a claim about positive targets only (weakest reading).
		if w.havePrev && w.t.Sign() > 0 && w.prevT.Sign() > 0 {
			c := w.t.Cmp(&w.prevT)
			d := wk.Cmp(&w.prevW)
			if (c > 0 && d > 0) || (c < 0 && d < 0) || (c == 0 && d != 0) {
				dd := detail()
				dd["previous_target"] = w.prevT.String()
				dd["previous_work"] = w.prevW.String()
				w.violate("monotone|adjacent|exp="+expClass(exp)+"|sign="+sgn,
					fmt.Sprintf("work is not non-increasing in the target around bits 0x%08x", bits), caseID, dd)
			}
			w.counters["monotone_pairs_checked"]++
		}
		w.prevT.Set(&w.t)
		w.prevW.Set(wk)
		w.havePrev = true
	}
	return got, wk
}

type pair struct {
	bits uint32
	t, w *big.Int
}

// checkSorted sorts observed (oracle target, observed work) pairs and requires the work to be
// non-increasing, and equal for equal targets.
func (w *worker) checkSorted(caseID, sigTail string, ps []pair) {
	pos := ps[:0]
	for _, p := range ps {
		if p.t.Sign() > 0 { // monotonicity is claimed on positive targets only (work is 0 for t <= 0)
			pos = append(pos, p)
		}
	}
	ps = pos
	sort.SliceStable(ps, func(i, j int) bool { return ps[i].t.Cmp(ps[j].t) < 0 })
	for i := 1; i < len(ps); i++ {
		a, b := ps[i-1], ps[i]
		c := b.t.Cmp(a.t) // >= 0
		d := b.w.Cmp(a.w)
		if (c > 0 && d > 0) || (c == 0 && d != 0) {
			w.violate("monotone|sorted|"+sigTail, "work is not non-increasing in the target on a sorted lattice", caseID, map[string]any{
				"bits_a": fmt.Sprintf("0x%08x", a.bits), "target_a": a.t.String(), "work_a": a.w.String(),
				"bits_b": fmt.Sprintf("0x%08x", b.bits), "target_b": b.t.String(), "work_b": b.w.String(),
			})
		}
		w.counters["monotone_sorted_pairs_checked"]++
	}
}

func (w *worker) checkLog2(caseID string, n uint32) {
	got := domains.FastLog2Floor(n)
	want := mbits.Len32(n) - 1
	w.evals++
	if int(got) != want {
		w.violate("log2|"+nClass(n), fmt.Sprintf("FastLog2Floor(%d) = %d, floor(log2 n) = %d", n, got, want), caseID,
			map[string]any{"n": n, "n_hex": fmt.Sprintf("0x%08x", n), "FastLog2Floor": got, "floor_log2": want})
	}
}

// mantissaLattice: powers of two and their neighbours, sums/differences of two powers, every
// single-byte pattern at every byte position, byte boundaries, extremes, seeded fill to size.
func mantissaLattice(r *ev.Run, size int) []uint32 {
	const max = 0x7fffff
	seen := map[uint32]bool{}
	var out []uint32
	add := func(v int64) {
		if v < 0 || v > max {
			return
		}
		u := uint32(v)
		if !seen[u] {
			seen[u] = true
			out = append(out, u)
		}
	}
	for _, v := range []int64{0, 1, 2, 3, max, max - 1, max - 2, 0xff, 0x100, 0x101, 0xfe, 0xffff, 0x10000, 0x10001, 0xfffe, 0x7f0000, 0x7fff00, 0x00ff00, 0xff00ff % (max + 1), 0x00ffff, 0x400000, 0x3fffff, 0x400001} {
		add(v)
	}
	for k := 0; k < 23; k++ {
		p := int64(1) << k
		add(p)
		add(p - 1)
		add(p + 1)
		add(max - p)
		add(max - p + 1)
	}
	for a := 0; a < 23; a++ {
		for b := 0; b < a; b++ {
			add(int64(1)<<a + int64(1)<<b)
			add(int64(1)<<a - int64(1)<<b)
			add(int64(1)<<a + int64(1)<<b + 1)
			add(int64(1)<<a - int64(1)<<b - 1)
		}
	}
	for b := int64(0); b < 256; b++ {
		add(b)
		add(b << 8)
		add(b << 16)
		add(b<<8 | 0xff)
		add(b<<16 | 0xffff)
		add(b<<16 | b<<8 | b)
	}
	rng := r.Rand("lattice")
	for len(out) < size {
		// random with a random length so that short mantissas are as frequent as long ones
		add(int64(rng.Uint32()&max) >> uint(rng.Intn(23)))
	}
	if len(out) > size {
		out = out[:size]
	}
	sort.Slice(out, func(i, j int) bool { return out[i] < out[j] })
	return out
}

type job struct {
	id string
	fn func(w *worker, id string)
}

func goroutines(r *ev.Run) int {
	if r.Only != "" {
		return 1
	}
	if v, err := strconv.Atoi(os.Getenv("C19_GOROUTINES")); err == nil && v > 0 {
		return v
	}
	n := runtime.NumCPU()
	if r.Workers > 1 {
		n = n / r.Workers
	}
	if n < 1 {
		n = 1
	}
	return n
}

func body(r *ev.Run) {
	r.Rule("every value: observed CompactToBig / CalculateWork / FastLog2Floor against the independent oracles. " +
		"quick = 256 exponents x 2 signs x a 4096-point mantissa lattice (powers of two +-1, two-power sums/differences, byte patterns, byte boundaries, extremes, seeded fill) " +
		"+ 2^21 seeded random bits, log2 on every power of two +-1, every value below 2^16 and 5*2^20 seeded random n; " +
		"thorough = the same plus ALL 2^32 bits values and ALL 2^32 n (n = 0 is outside the statement and skipped), in batches of 2^20 per case. " +
		"evaluations = values checked. distinct = distinct cells (exponent, sign bit, mantissa bit length, mantissa kind pow2 / pow2-1 / pow2+1 / other) visited by a non-trivial value; " +
		"non-trivial = decoded target non-zero, or sign bit set, or a truncating decode (exponent < 3 losing mantissa bits).")
	r.Assume("math/big Mul, Add, Quo, Exp, Cmp and math/bits.Len32 are correct (the oracle uses no division for the work and no shifts for the target)",
		"the work oracle is the certificate w*(t+1) <= 2^256 < (w+1)*(t+1), which has exactly one integer solution w = floor(2^256/(t+1))")
	thorough := r.Thorough()
	r.Exhaustive(thorough)
	r.Require("targets_checked", 1<<21)
	r.Require("work_certificates_checked", 1<<20)
	r.Require("work_positive", 1<<17)
	r.Require("work_zero_for_target_at_least_2^256", 1<<17)
	r.Require("work_nonpositive_target_checked", 1<<20)
	r.Require("truncating_decodes", 1<<12)
	r.Require("sign_bit_set", 1<<20)
	r.Require("zero_targets", 1<<10)
	r.Require("monotone_sorted_pairs_checked", 1<<19)
	r.Require("log2_checked", 5<<20)
	r.Require("log2_powers_of_two_checked", 32)
	if thorough {
		r.Require("targets_checked", 1<<32)
		r.Require("log2_checked", 1<<32-1)
		r.Require("monotone_pairs_checked", 2_000_000_000)
		r.Require("exhaustive_bits_batches", 1<<(32-batchShift))
		r.Require("exhaustive_log2_batches", 1<<(32-batchShift))
	}

	lattice := mantissaLattice(r, 4096)
	var jobs []job

	// (1) lattice: one case per exponent x sign; sorted monotonicity inside the case.
	for exp := 0; exp < 256; exp++ {
		for s := 0; s < 2; s++ {
			exp, s := uint32(exp), uint32(s)
			jobs = append(jobs, job{fmt.Sprintf("lat/%d/%d", exp, s), func(w *worker, id string) {
				ps := make([]pair, 0, len(lattice))
				for _, m := range lattice {
					b := exp*16777216 + s*8388608 + m
					_, wk := w.checkBits(id, b, false)
					ps = append(ps, pair{b, new(big.Int).Set(&w.t), wk})
				}
				w.counters["lattice_points"] += int64(len(lattice))
				if (exp == 0x1d || exp == 0x20 || exp == 2) && s == 0 || exp == 4 && s == 1 {
					b := exp*16777216 + s*8388608 + 0x00ffff
					t, wk := w.checkBits(id, b, false)
					r.Sample(map[string]any{"case": id, "bits": fmt.Sprintf("0x%08x", b), "CompactToBig": t.String(), "CalculateWork": wk.String(), "oracle_target": w.t.String()})
				}
				w.checkSorted(id, "exp="+expClass(exp)+"|sign="+[2]string{"+", "-"}[s], ps)
			}})
		}
	}
	// (2) cross-exponent sorted monotonicity on a thinner lattice (all exponents, both signs).
	jobs = append(jobs, job{"lat/cross", func(w *worker, id string) {
		var ps []pair
		step := len(lattice) / 96
		for exp := uint32(0); exp < 256; exp++ {
			for s := uint32(0); s < 2; s++ {
				for i := 0; i < len(lattice); i += step {
					b := exp*16777216 + s*8388608 + lattice[i]
					_, wk := w.checkBits(id, b, false)
					ps = append(ps, pair{b, new(big.Int).Set(&w.t), wk})
				}
				b := exp*16777216 + s*8388608 + 0x7fffff
				_, wk := w.checkBits(id, b, false)
				ps = append(ps, pair{b, new(big.Int).Set(&w.t), wk})
			}
		}
		w.checkSorted(id, "cross-exponent", ps)
	}})
	// (3) seeded random bits.
	for i := 0; i < 32; i++ {
		jobs = append(jobs, job{fmt.Sprintf("rnd/%d", i), func(w *worker, id string) {
			rng := r.Rand(id)
			for k := 0; k < 1<<16; k++ {
				w.checkBits(id, rng.Uint32(), false)
			}
			w.counters["random_bits"] += 1 << 16
		}})
	}
	// (4) log2: edges, small values, random.
	jobs = append(jobs, job{"log2/edges", func(w *worker, id string) {
		for k := 0; k < 32; k++ {
			p := uint32(1) << k
			w.checkLog2(id, p)
			w.counters["log2_powers_of_two_checked"]++
			w.counters["log2_checked"]++
			if p > 1 {
				w.checkLog2(id, p-1)
				w.counters["log2_checked"]++
			}
			w.checkLog2(id, p+1)
			w.counters["log2_checked"]++
			for j := 0; j < k; j++ {
				w.checkLog2(id, p|uint32(1)<<j)
				w.checkLog2(id, p-uint32(1)<<j)
				w.counters["log2_checked"] += 2
			}
		}
		w.checkLog2(id, 0xffffffff)
		w.counters["log2_checked"]++
		for n := uint32(1); n < 1<<16; n++ {
			w.checkLog2(id, n)
		}
		w.counters["log2_checked"] += 1<<16 - 1
	}})
	for i := 0; i < 20; i++ {
		jobs = append(jobs, job{fmt.Sprintf("log2/rnd/%d", i), func(w *worker, id string) {
			rng := r.Rand(id)
			for k := 0; k < 1<<18; k++ {
				n := rng.Uint32() >> uint(rng.Intn(32)) // every magnitude equally likely
				if n == 0 {
					n = 1
				}
				w.checkLog2(id, n)
			}
			w.counters["log2_checked"] += 1 << 18
		}})
	}
	// (5) thorough: complete enumeration.
	if thorough {
		nb := 1 << (32 - batchShift)
		for i := 0; i < nb; i++ {
			base := uint32(i) << batchShift
			jobs = append(jobs, job{fmt.Sprintf("bits/all/%03x", i), func(w *worker, id string) {
				w.havePrev = false
				for k := uint32(0); k < 1<<batchShift; k++ {
					w.checkBits(id, base+k, true)
				}
				w.counters["exhaustive_bits_batches"]++
			}})
		}
		for i := 0; i < nb; i++ {
			base := uint32(i) << batchShift
			jobs = append(jobs, job{fmt.Sprintf("log2/all/%03x", i), func(w *worker, id string) {
				var cnt int64
				for k := uint32(0); k < 1<<batchShift; k++ {
					if n := base + k; n != 0 {
						w.checkLog2(id, n)
						cnt++
					}
				}
				w.counters["log2_checked"] += cnt
				w.counters["exhaustive_log2_batches"]++
			}})
		}
	}

	// fan-out: process-level shard (r.Worker of r.Workers) x goroutines.
	g := goroutines(r)
	ch := make(chan job)
	var wg sync.WaitGroup
	for i := 0; i < g; i++ {
		wg.Add(1)
		go func() {
			defer wg.Done()
			w := newWorker(r)
			for j := range ch {
				r.Exec(j.id, func() { j.fn(w, j.id) })
			}
			w.flush()
		}()
	}
	for _, j := range jobs {
		if r.Mine(j.id) { // hash partition: positive-sign (expensive) and negative-sign batches mix evenly
			ch <- j
		}
	}
	close(ch)
	wg.Wait()
	var visited int64
	for i, c := range allCells {
		if c != 0 {
			visited++
		}
		if c == 2 {
			r.Distinct(cellName(i))
		}
	}
	if r.Workers <= 1 { // a per-process count; the cross-process figure is distinct_nontrivial
		r.Count("cells_visited", visited)
	}
}
