// Package c07: forbidden headers and checkpoint-violating peers are contained.
package c07

import (
	"fmt"
	"math/rand"
	"sort"
	"strings"
	"time"

	"github.com/bitcoin-sv/block-headers-service/verifharness/checks/c06"
	"github.com/bitcoin-sv/block-headers-service/verifharness/ev"
	"github.com/bitcoin-sv/block-headers-service/verifharness/p2prig"
)

// Spec registers the check.
func Spec() ev.Spec {
	return ev.Spec{Prop: "C07", Level: "exploration", Workers: -1, Body: body}
}

// Generate builds the i-th containment scenario.
func Generate(rng *rand.Rand, i int, thorough bool) *p2prig.Scenario {
	s := &p2prig.Scenario{ID: fmt.Sprintf("s/%d", i), Seed: rng.Int63(), InitialStore: "genesis", BadFirst: true}
	if i%3 == 2 {
		s.Engine = "exp"
	} else {
		s.Engine = "legacy"
	}
	s.HonestLen = 30 + rng.Intn(200)
	if rng.Intn(6) == 0 {
		s.HonestLen = 2050 + rng.Intn(100)
	}
	kind := []string{"forbidden", "badcheckpoint", "advance"}[i%3]
	if i%7 == 6 {
		kind = []string{"forbidden", "badcheckpoint"}[rng.Intn(2)]
	}
	// checkpoint list: 0..4 checkpoints at arbitrary heights (legacy needs >= 1: its header service indexes the last one)
	nCp := rng.Intn(5)
	if s.Engine == "legacy" && nCp == 0 {
		nCp = 1
	}
	if kind == "badcheckpoint" && nCp == 0 {
		nCp = 1
	}
	if kind == "advance" && nCp < 2 {
		nCp = 2 + rng.Intn(3)
	}
	set := map[int32]bool{}
	for len(set) < nCp {
		set[int32(2+rng.Intn(s.HonestLen-12))] = true
	}
	for h := range set {
		s.CheckpointHeights = append(s.CheckpointHeights, h)
	}
	sort.Slice(s.CheckpointHeights, func(a, b int) bool { return s.CheckpointHeights[a] < s.CheckpointHeights[b] })
	s.Nodes = []p2prig.NodeSpec{{Kind: "honest"}}
	switch kind {
	case "forbidden":
		ns := p2prig.NodeSpec{Kind: "forbidden", MaxAccepts: 12, MaxLive: []int{1, 1, 0}[rng.Intn(3)]}
		// position of the forbidden header within the batch: first / middle / last / alone / before its parent
		pos := rng.Intn(5)
		if i%15 == 0 {
			pos = 4
		}
		switch pos {
		case 4: // delivered before its parent: pushed unsolicited, hanging off a block the service does not have
			ns.OrphanForbidden = true
			ns.ChildFirst = rng.Intn(2) == 0 // its child first, alone; then the forbidden header followed by that child
		case 0: // first: the store already holds everything below it
			ns.ForbiddenAt = 2 + rng.Intn(s.HonestLen-14)
			s.InitialStore, s.PrefixLen = "prefix", ns.ForbiddenAt-1
		case 1: // middle
			ns.ForbiddenAt = 2 + rng.Intn(s.HonestLen-14)
		case 2: // last
			ns.ForbiddenAt = 2 + rng.Intn(s.HonestLen-14)
			ns.NoDescendants = true
		default: // alone
			ns.ForbiddenAt = 1 + rng.Intn(20)
			ns.Cap = 1
		}
		// every third time the forbidden header sits exactly at a checkpoint height (it is both forbidden and a checkpoint
		// mismatch: its sender is banned all the same)
		// ... and every third time right behind one, in a message that carries the (matching) checkpoint header as well - the
		// node answers beyond the stop hash: the batch is abandoned directly after its checkpoint header was stored
		if at := rng.Intn(3); !ns.OrphanForbidden && ns.Cap == 0 && at < 2 {
			for _, cp := range s.CheckpointHeights {
				if int(cp) >= 2 && int(cp) <= s.HonestLen-14 {
					ns.ForbiddenAt = int(cp) + at
					if at == 1 {
						ns.IgnoreStop = true
					}
					if s.InitialStore == "prefix" {
						s.PrefixLen = ns.ForbiddenAt - 1 - at*(1+rng.Intn(2))
						if s.PrefixLen < 1 {
							s.PrefixLen = 1
						}
					}
					break
				}
			}
		}
		// the offender speaks like a real node: before anything else it sends a message with a command the service has no
		// type for (experimental engine; the default engine's peer treats an unreadable message as malformed and hangs up)
		if s.Engine == "exp" && (i/3)%2 == 0 {
			ns.UnknownFirst = true
		}
		// the offender is no full node (it does not advertise NODE_NETWORK, so it is never synced from or asked) and pushes
		// its headers message as soon as the handshake is done
		if s.Engine == "legacy" && ns.OrphanForbidden && (i/3)%2 == 0 {
			ns.NotFullNode, ns.PushOnHandshake = true, true
		}
		// the forbidden node must not contradict a checkpoint below the forbidden header (it follows the honest chain up to there)
		if s.Engine == "legacy" {
			s.BanDurationMs = []int{3600000, 3600000, 1}[rng.Intn(3)]
		}
		if s.Engine == "legacy" && !ns.OrphanForbidden && s.BanDurationMs >= 60000 && rng.Intn(2) == 0 {
			// the offender behaves from then on: a later connection of the (banned) host that were admitted would stay
			ns.OffendOnce = true
			if i%2 == 0 {
				// the host's other connections end with the offender's: nothing of that host is connected any more, so the
				// connection manager dials the host again at once (awaited at the end of the scenario). Several connections
				// at a time: a node that takes one refuses the service's first burst of dials, and an address refused 25
				// times is not dialled again.
				ns.MaxLive, ns.OthersGoWithOffender = 0, true
			}
		}
		if s.Engine == "legacy" && !ns.OrphanForbidden && rng.Intn(2) == 0 && !(ns.OffendOnce && i%2 == 0) {
			// at the end: a second host offends, its ban elapses unnoticed, it offends again over a connection it kept
			// (every other scenario with a repentant offender keeps its one-hour ban: the service's re-dial of that host is
			// judged there)
			s.ReOffend = true
			s.BanDurationMs = 3000
		}
		if s.Engine == "legacy" && !ns.OrphanForbidden && !s.ReOffend && s.BanDurationMs >= 600000 {
			// at the end: another host delivers the forbidden header and hangs up at once; a newcomer of that host is refused
			s.HitAndRun = true
		}
		s.Nodes = append(s.Nodes, ns)
		if s.Engine == "legacy" && rng.Intn(3) == 0 {
			s.Nodes = append(s.Nodes, p2prig.NodeSpec{Kind: "laggard", Lag: 1 + rng.Intn(5)})
		}
	case "badcheckpoint":
		at := s.CheckpointHeights[rng.Intn(len(s.CheckpointHeights))]
		bad := p2prig.NodeSpec{Kind: "badcheckpoint", BadAt: int(at), MaxAccepts: 12, MaxLive: []int{1, 1, 0}[rng.Intn(3)]}
		if rng.Intn(4) == 0 && int(at)+6 < s.HonestLen && at > 4 {
			// the store is past the checkpoint; the contradicting branch forks a few blocks BELOW the checkpoint and arrives
			// one header per message (first as a one-header reply, then announced), so the header at the checkpoint
			// height comes first in its message with a stale parent
			s.InitialStore = "prefix"
			s.PrefixLen = int(at) + 1 + rng.Intn(s.HonestLen-int(at)-5)
			bad.ForkBelow = 1 + rng.Intn(3)
			bad.ForkLen = s.PrefixLen - int(at) + 4
			bad.Cap = 1
		} else if rng.Intn(3) == 0 && int(at)+6 < s.HonestLen {
			// the store is already synced PAST that checkpoint when the contradicting (taller, lighter) branch arrives
			s.InitialStore = "prefix"
			s.PrefixLen = int(at) + 1 + rng.Intn(s.HonestLen-int(at)-5)
			bad.ForkLen = s.PrefixLen - int(at) + 4
		}
		if s.Engine == "exp" && (i/3)%2 == 1 {
			bad.UnknownFirst = true
		}
		if bad.ForkBelow == 0 && (i/3)%2 == 0 {
			// its answers carry everything it has: a message then holds matching checkpoint headers first and the
			// contradicting one further on
			bad.IgnoreStop = true
		}
		s.Nodes = append(s.Nodes, bad)
		if s.Engine == "legacy" && rng.Intn(3) == 0 {
			at2 := s.CheckpointHeights[rng.Intn(len(s.CheckpointHeights))]
			s.Nodes = append(s.Nodes, p2prig.NodeSpec{Kind: "badcheckpoint", BadAt: int(at2), MaxAccepts: 12, MaxLive: []int{1, 1, 0}[rng.Intn(3)]})
		}
	case "advance":
		// a single honest node serves the whole sync: the sequence of stop hashes must walk the checkpoint list
		s.BadFirst = false
		// every other node answers with all it has (or its cap), whatever the stop hash: a message then carries a checkpoint
		// header in the middle, or the headers of several checkpoints at once
		s.Engine = []string{"legacy", "exp"}[(i/3)%2]
		s.Nodes[0].IgnoreStop = (i/6)%2 == 1
		if rng.Intn(2) == 0 {
			s.Nodes[0].Cap = []int{7, 50, 500}[rng.Intn(3)]
			if s.HonestLen > 600 && s.Nodes[0].Cap == 7 {
				s.Nodes[0].Cap = 500
			}
		}
	}
	if rng.Intn(2) == 0 {
		s.Announce = []p2prig.AnnounceSpec{{Blocks: 1 + rng.Intn(2), Mode: "conformant"}}
	}
	return s
}

func classify(s *p2prig.Scenario) string {
	var ks []string
	for _, n := range s.Nodes[1:] {
		k := n.Kind
		switch {
		case n.Kind == "badcheckpoint" && n.ForkBelow > 0:
			k += "(fork-below-passed-checkpoint,one-header-messages)"
		case n.Kind == "forbidden" && n.OrphanForbidden && n.ChildFirst:
			k += "(child-first)"
		case n.Kind == "badcheckpoint" && n.ForkLen > 0:
			k += "(passed-checkpoint)"
		case n.Kind == "forbidden" && n.OrphanForbidden:
			k += "(before-parent)"
		case n.Kind == "forbidden" && n.Cap == 1:
			k += "(alone)"
		case n.Kind == "forbidden" && n.NoDescendants:
			k += "(last)"
		case n.Kind == "forbidden" && s.InitialStore == "prefix":
			k += "(first)"
		case n.Kind == "forbidden":
			k += "(middle)"
		}
		if n.UnknownFirst {
			k += "(unknown-command-first)"
		}
		if n.NotFullNode {
			k += "(not-a-full-node,speaks-first)"
		}
		ks = append(ks, k)
	}
	ban := ""
	if s.BanDurationMs > 0 {
		ban = fmt.Sprintf("ban%dms", s.BanDurationMs)
	}
	return strings.Join([]string{s.Engine, fmt.Sprintf("cp%d", len(s.CheckpointHeights)), strings.Join(ks, "+"), ban, fmt.Sprint(len(s.Announce) > 0)}, "|")
}

func body(r *ev.Run) {
	r.Rule("scenarios = seeded draws over engine {legacy, experimental} x {a node whose chain carries a header on the forbidden list at position first/middle/last/alone of its batch; a node whose chain differs from a checkpoint at a checkpoint height; offenders that first send a message with an unknown command (experimental engine) or that are no full nodes and push their headers right after the handshake (default engine); a single honest node serving a sync across 2..4 checkpoints, its answers ending at the stop hash or carrying all it has (a checkpoint header in the middle of a message, several checkpoints in one message)} x checkpoint lists of 0..4 checkpoints at arbitrary heights x 1-2 misbehaving + 1-2 honest nodes x ban duration {1 h, 1 ms}. Misbehaving nodes are the only reachable ones first (so they are asked), then the honest ones open. Oracles: forbidden hash never in the table nor served (404); its sender's connection closed at quiescence; with a 1 h ban no later connection of that host is sent a getheaders, with a 1 ms ban a later connection is admitted; descendants only ORPHAN; hit and run: a host delivers the forbidden header and closes its connection at once - a newcomer of that host is refused all the same (1 h ban); re-offence: a host with two connections is banned, the 3 s ban elapses with no attempt of that host, its second connection delivers the forbidden header again and a newcomer of the host must be refused (judged within 1.5 s of the second offence); after a checkpoint mismatch the connection is closed and no further getheaders was sent on it; every request stops at the first checkpoint above what has been delivered, and at zero (or an announced block) after the last; no request stops at a checkpoint that lies at or below the block it continues from; afterwards the service converges on the honest chain (C06 oracle). distinct = structural classes; non-trivial = all.")
	r.Assume("the forbidden hash is harness-chosen and appended to the network parameters before the services are built", "contradicting blocks are lighter than honest ones", "experimental engine: peers are attached one after the other (single-outbound-peer design); it disconnects but does not ban", "ban observed by effect at the scripted node")
	r.Require("forbidden_header_delivered", 3)
	r.Require("reoffend_newcomer_refused", 2)
	r.Require("hit_and_run_newcomer_refused", 2)
	r.Require("orphan_forbidden_header_delivered", 1)
	r.Require("checkpoint_mismatch_delivered", 3)
	r.Require("checkpoint_advance_sequences_checked", 3)
	r.Require("checkpoint_advance_sequences_with_answers_beyond_the_stop_hash", 2)
	n := r.Pick(96, 1200)
	for i := 0; i < n; i++ {
		caseID := fmt.Sprintf("s/%d", i)
		r.Do(caseID, func() {
			s := Generate(r.Rand(caseID), i, r.Thorough())
			res, crash := p2prig.RunScenarioChild(r.Scratch, s, 200*time.Second)
			c06.Record(r, s, res, crash, nil)
			r.Case(classify(s), true)
			if res != nil && res.Verdict == "held" && r.WantSample() {
				r.Sample(map[string]any{"scenario": s, "counters": res.Counters})
			}
		})
	}
}
