// Package c02: merkle-root verification verdicts are exact and follow reorganisations.
package c02

import (
	"encoding/json"
	"errors"
	"fmt"
	"math"
	"math/rand"
	"sync"
	"time"

	"github.com/bitcoin-sv/block-headers-service/config"
	"github.com/bitcoin-sv/block-headers-service/domains"
	"github.com/bitcoin-sv/block-headers-service/verifharness/deco"
	"github.com/bitcoin-sv/block-headers-service/verifharness/ev"
	"github.com/bitcoin-sv/block-headers-service/verifharness/gen"
	"github.com/bitcoin-sv/block-headers-service/verifharness/mb"
	"github.com/bitcoin-sv/block-headers-service/verifharness/refmodel"
	"github.com/bitcoin-sv/block-headers-service/verifharness/rig"
)

// Spec registers the check.
func Spec() ev.Spec {
	return ev.Spec{Prop: "C02", Level: "exploration", Workers: -1, Body: body}
}

type item struct {
	Root   string `json:"merkleRoot"`
	Height int32  `json:"blockHeight"`
	class  string
}

type respItem struct {
	Hash         string `json:"blockHash"`
	BlockHeight  int64  `json:"blockHeight"`
	MerkleRoot   string `json:"merkleRoot"`
	Confirmation string `json:"confirmation"`
}

type resp struct {
	State         string     `json:"confirmationState"`
	Confirmations []respItem `json:"confirmations"`
}

var excesses = []int{-3, 0, 1, 6, 100, math.MaxInt32, 1 << 31, 1 << 40}

// buildItems produces the request pool for a model state.
func buildItems(rng *rand.Rand, m *refmodel.Model, excess int, limit int) []item {
	var pool []item
	tip := int64(m.Best().Height)
	add := func(root string, h int64, class string) {
		if h < math.MinInt32 || h > math.MaxInt32 {
			return
		}
		pool = append(pool, item{Root: root, Height: int32(h), class: class})
	}
	nodes := m.Order
	if len(nodes) > limit {
		nodes = make([]*refmodel.Node, 0, limit)
		for i := 0; i < limit; i++ {
			nodes = append(nodes, m.Order[rng.Intn(len(m.Order))])
		}
	}
	for _, n := range nodes {
		root := n.Merkle.String()
		add(root, int64(n.Height), "stored-"+n.State+"-own-height")
		add(root, int64(n.Height)+1, "stored-"+n.State+"-height+1")
		add(root, int64(n.Height)-1, "stored-"+n.State+"-height-1")
		if n.State != refmodel.Longest {
			add(root, tip, "non-longest-root-at-tip")
		}
	}
	var unk refmodel.Hash
	for _, h := range []int64{-1, 0, 1, tip - 1, tip, tip + 1, tip + int64(excess) - 1, tip + int64(excess), tip + int64(excess) + 1, tip + int64(excess) + 2, math.MaxInt32, math.MinInt32, tip + 2, tip + 7} {
		rng.Read(unk[:])
		add(unk.String(), h, "unknown-root")
		add(m.Best().Merkle.String(), h, "tip-root-any-height")
		add(m.Genesis.Merkle.String(), h, "genesis-root-any-height")
	}
	return pool
}

func drawList(rng *rand.Rand, pool []item) []item {
	n := 1 + rng.Intn(50)
	if rng.Intn(5) == 0 {
		n = 1 + rng.Intn(3)
	}
	out := make([]item, 0, n)
	for i := 0; i < n; i++ {
		if i > 0 && rng.Intn(8) == 0 {
			out = append(out, out[rng.Intn(len(out))]) // duplicate
			continue
		}
		out = append(out, pool[rng.Intn(len(pool))])
	}
	return out
}

type env struct {
	r  *ev.Run
	st *rig.Stack
	// one service stack per configured excess, built over the same store: the excess is given to the service
	// constructors the way a start-up with that configuration does (not patched into a running service)
	byExcess map[int]*rig.Stack
	// faults and interleavings at the repository seam of the ingesting stack
	failRelabel bool // the next UpdateState fails (armed by the ingesting goroutine for one submission)
	relabelHit  bool
	pairMu      sync.Mutex
	pairOn      bool
	pairArrived int
	pairWaiting bool
	pairBoth    chan struct{}
}

func (e *env) hooks() *deco.Hooks {
	return &deco.Hooks{Before: func(op string, _ bool, _ string) error {
		if op == "UpdateState" && e.failRelabel {
			e.failRelabel, e.relabelHit = false, true
			return errors.New("verif: injected relabel failure")
		}
		if op == "GetTip" || op == "GetHeaderByHash" {
			e.rendezvous()
		}
		return nil
	}}
}

// rendezvous: while two competing blocks are being submitted at once, the first repository read of the first submitter
// waits (1.5 ms at most) for the second submitter's, so that both classify their block against the same tip when nothing
// orders them.
func (e *env) rendezvous() {
	e.pairMu.Lock()
	if !e.pairOn || e.pairArrived >= 2 {
		e.pairMu.Unlock()
		return
	}
	e.pairArrived++
	both := e.pairBoth
	if e.pairArrived == 2 {
		if e.pairWaiting {
			close(both)
		}
		e.pairMu.Unlock()
		return
	}
	e.pairWaiting = true
	e.pairMu.Unlock()
	select {
	case <-both:
	case <-time.After(1500 * time.Microsecond):
	}
	e.pairMu.Lock()
	e.pairWaiting = false
	e.pairMu.Unlock()
}

// competingPair submits two different children of the tip at the same moment and asks about both merkle roots at that
// height: whatever the order, exactly one of them is on the longest chain.
func (e *env) competingPair(caseID string, rng *rand.Rand, m *refmodel.Model, counter *int) bool {
	r := e.r
	mk := func() refmodel.Hdr {
		*counter++
		h := refmodel.Hdr{Prev: m.Best().Hash, Bits: gen.BitsNormal}
		gen.Fields(rng, &h, false, 100000+*counter)
		return h
	}
	a, b := mk(), mk()
	e.pairMu.Lock()
	e.pairOn, e.pairArrived, e.pairWaiting, e.pairBoth = true, 0, false, make(chan struct{})
	e.pairMu.Unlock()
	var wg sync.WaitGroup
	var ra, rb rig.AddResult
	wg.Add(2)
	go func() { defer wg.Done(); ra = e.st.Add(a) }()
	go func() { defer wg.Done(); rb = e.st.Add(b) }()
	wg.Wait()
	e.pairMu.Lock()
	e.pairOn = false
	e.pairMu.Unlock()
	if ra.Panic != nil || rb.Panic != nil || ra.Err != nil || rb.Err != nil {
		r.Count("histories_cut_short_by_ingest_divergence", 1)
		return false
	}
	height := m.Best().Height + 1
	req := []item{{Root: a.Merkle.String(), Height: height, class: "competing-block"}, {Root: b.Merkle.String(), Height: height, class: "competing-block"}}
	bb, _ := json.Marshal(req)
	w := e.byExcess[6].POST("/api/v1/chain/merkleroot/verify", bb)
	var rs resp
	if w.Code != 200 || mb.DecodeOne(w.Body.Bytes(), &rs) != nil || len(rs.Confirmations) != 2 {
		r.Violate("competing-pair|http", fmt.Sprintf("POST verify -> %d %s", w.Code, w.Body.String()), caseID, nil)
		return false
	}
	confirmed := 0
	for _, c := range rs.Confirmations {
		if c.Confirmation == refmodel.Confirmed {
			confirmed++
		}
	}
	r.Count("competing_pairs_submitted_at_once", 1)
	if confirmed != 1 {
		r.Violate(fmt.Sprintf("competing-pair|confirmed=%d", confirmed), fmt.Sprintf("two competing blocks at height %d were submitted at the same moment; %d of their two merkle roots are CONFIRMED at that height (exactly one block can be on the longest chain)", height, confirmed), caseID,
			map[string]any{"blocks_hex": []string{a.Hex(), b.Hex()}, "verdicts": rs.Confirmations})
		return false
	}
	// the model follows the store's order
	first, second := a, b
	if rs.Confirmations[1].Confirmation == refmodel.Confirmed {
		first, second = b, a
	}
	m.Submit(first)
	m.Submit(second)
	return true
}

// wideHeights: blockHeight values outside the 32 bits a height has, written as the client would write them (plain JSON
// numbers): the height of a longest-chain block plus or minus a multiple of 2^32. The request may be refused (4xx) or
// answered; an answer must not say CONFIRMED (no block is at that height) and must echo the height that was submitted.
func (e *env) wideHeights(caseID string, m *refmodel.Model) bool {
	r := e.r
	best := m.Best()
	if best.Height < 1 {
		return true
	}
	for _, off := range []int64{1 << 32, -(1 << 32), 1 << 40, 3 << 32} {
		hgt := int64(best.Height) + off
		body := fmt.Sprintf(`[{"merkleRoot":%q,"blockHeight":%d}]`, best.Merkle.String(), hgt)
		w := e.byExcess[6].POST("/api/v1/chain/merkleroot/verify", []byte(body))
		r.Count("requests_with_a_height_beyond_32_bits", 1)
		if w.Code >= 400 && w.Code < 500 {
			r.Count("heights_beyond_32_bits_refused", 1)
			continue
		}
		var rs resp
		if w.Code != 200 || mb.DecodeOne(w.Body.Bytes(), &rs) != nil || len(rs.Confirmations) != 1 {
			r.Violate("wide-height|http", fmt.Sprintf("POST verify with blockHeight %d -> %d %s", hgt, w.Code, w.Body.String()), caseID, map[string]any{"body": body})
			return false
		}
		c := rs.Confirmations[0]
		if c.Confirmation == refmodel.Confirmed || c.BlockHeight != hgt {
			r.Violate("verdict|height-beyond-32-bits|"+c.Confirmation, fmt.Sprintf("the tip's merkle root was submitted with blockHeight %d (the tip is at height %d): verdict %s for height %d", hgt, best.Height, c.Confirmation, c.BlockHeight), caseID, map[string]any{"body": body, "answer": w.Body.String()})
			return false
		}
	}
	return true
}

func sigOf(it item, want, got string) string {
	return fmt.Sprintf("verdict|%s|%s->%s", it.class, want, got)
}

// verifyLists sends lists for the current state and compares with the model.
func (e *env) verifyLists(caseID string, rng *rand.Rand, m *refmodel.Model, hist gen.History, step int, lists int) bool {
	r := e.r
	detail := func(req []item, extra map[string]any) map[string]any {
		d := map[string]any{"history_hex": hist.Hex()[:step+1], "request": req}
		for k, v := range extra {
			d[k] = v
		}
		return d
	}
	for li := 0; li < lists; li++ {
		excess := excesses[rng.Intn(len(excesses))]
		stx := e.byExcess[excess]
		pool := buildItems(rng, m, excess, 60)
		req := drawList(rng, pool)
		want := make([]string, len(req))
		wantHash := make([]string, len(req))
		for i, it := range req {
			want[i], wantHash[i] = m.MerkleVerdict(it.Root, int64(it.Height), int64(excess))
			r.Distinct(fmt.Sprintf("%s|%s", it.class, want[i]))
			r.Count("verdicts_"+want[i], 1)
		}
		// HTTP
		b, _ := json.Marshal(req)
		w := stx.POST("/api/v1/chain/merkleroot/verify", b)
		if w.Code != 200 {
			r.Violate("http-status", fmt.Sprintf("POST verify -> %d %s", w.Code, w.Body.String()), caseID, detail(req, map[string]any{"excess": excess}))
			return false
		}
		var rs resp
		if err := mb.DecodeOne(w.Body.Bytes(), &rs); err != nil {
			r.Violate("http-json", err.Error(), caseID, detail(req, nil))
			return false
		}
		if len(rs.Confirmations) != len(req) {
			r.Violate("length", fmt.Sprintf("%d verdicts for %d submitted items", len(rs.Confirmations), len(req)), caseID, detail(req, map[string]any{"excess": excess, "response": w.Body.String()}))
			return false
		}
		for i, it := range req {
			c := rs.Confirmations[i]
			if c.MerkleRoot != it.Root || c.BlockHeight != int64(it.Height) {
				r.Violate("order", fmt.Sprintf("verdict %d is for (%s,%d), submitted item was (%s,%d)", i, c.MerkleRoot, c.BlockHeight, it.Root, it.Height), caseID, detail(req, map[string]any{"excess": excess}))
				return false
			}
			if c.Confirmation != want[i] {
				r.Violate(sigOf(it, want[i], c.Confirmation), fmt.Sprintf("item %d (%s at height %d, tip %d, excess %d): verdict %s, expected %s", i, it.class, it.Height, m.Best().Height, excess, c.Confirmation, want[i]), caseID, detail(req, map[string]any{"excess": excess, "item": i}))
				return false
			}
			if want[i] == refmodel.Confirmed && c.Hash != wantHash[i] {
				r.Violate("blockhash|"+it.class, fmt.Sprintf("CONFIRMED item %d returned block hash %s, expected %s", i, c.Hash, wantHash[i]), caseID, detail(req, map[string]any{"excess": excess, "item": i}))
				return false
			}
		}
		if w := refmodel.Worst(want); rs.State != w {
			r.Violate("aggregate|"+w+"->"+rs.State, fmt.Sprintf("overall verdict %s, expected %s for %v", rs.State, w, want), caseID, detail(req, map[string]any{"excess": excess}))
			return false
		}
		// service level
		sreq := make([]domains.MerkleRootConfirmationRequestItem, len(req))
		for i, it := range req {
			sreq[i] = domains.MerkleRootConfirmationRequestItem{MerkleRoot: it.Root, BlockHeight: it.Height}
		}
		sres, err := stx.Svc.Merkleroots.GetMerkleRootsConfirmations(sreq)
		if err != nil || len(sres) != len(req) {
			r.Violate("service-length", fmt.Sprintf("service returned %d verdicts (err %v) for %d items", len(sres), err, len(req)), caseID, detail(req, map[string]any{"excess": excess}))
			return false
		}
		for i, it := range req {
			if string(sres[i].Confirmation) != want[i] || sres[i].MerkleRoot != it.Root || sres[i].BlockHeight != it.Height {
				r.Violate("service-"+sigOf(it, want[i], string(sres[i].Confirmation)), fmt.Sprintf("service verdict %d: %+v, expected %s", i, sres[i], want[i]), caseID, detail(req, map[string]any{"excess": excess}))
				return false
			}
		}
		r.Case("", false)
		r.Count("items_checked", int64(len(req)))
		if r.WantSample() && len(req) <= 6 && len(hist.Hdrs) <= 40 {
			r.Sample(map[string]any{"case": caseID, "after_step": step, "excess": excess, "request": req, "expected": want, "tip_height": m.Best().Height})
		}
	}
	return true
}

// deepReorg: a reorganisation over d heights, then one request per 50 blocks covering EVERY block of both branches at its
// own height (the new branch must be CONFIRMED, the old one INVALID).
func (e *env) deepReorg(caseID string, d int) {
	r := e.r
	rng := r.Rand(caseID)
	hist := gen.DeepReorg(rng, rig.Genesis(), 1+rng.Intn(3), d)
	if err := e.st.Reset(); err != nil {
		r.Violate("harness|reset", err.Error(), caseID, nil)
		return
	}
	m := mb.NewModel()
	for _, h := range hist.Hdrs {
		si := mb.Step(e.st, m, h)
		if si.Res.Panic != nil || si.Res.Code() != mb.WantCode(si.Outcome) {
			r.Count("histories_cut_short_by_ingest_divergence", 1)
			return
		}
	}
	stx := e.byExcess[6]
	nodes := m.Order[1:]
	for lo := 0; lo < len(nodes); lo += 50 {
		hi := lo + 50
		if hi > len(nodes) {
			hi = len(nodes)
		}
		var req []item
		var want []string
		for _, n := range nodes[lo:hi] {
			req = append(req, item{Root: n.Merkle.String(), Height: n.Height, class: "deep-reorg-" + n.State + "-own-height"})
			v, _ := m.MerkleVerdict(n.Merkle.String(), int64(n.Height), 6)
			want = append(want, v)
		}
		b, _ := json.Marshal(req)
		w := stx.POST("/api/v1/chain/merkleroot/verify", b)
		var rs resp
		if w.Code != 200 || mb.DecodeOne(w.Body.Bytes(), &rs) != nil || len(rs.Confirmations) != len(req) {
			r.Violate("deep-reorg|http", fmt.Sprintf("POST verify -> %d with %d verdicts for %d items", w.Code, len(rs.Confirmations), len(req)), caseID, map[string]any{"reorganisation_depth": d})
			return
		}
		for i := range req {
			r.Distinct(fmt.Sprintf("%s|%s", req[i].class, want[i]))
			r.Count("verdicts_"+want[i], 1)
			if rs.Confirmations[i].Confirmation != want[i] {
				r.Violate(sigOf(req[i], want[i], rs.Confirmations[i].Confirmation), fmt.Sprintf("after a reorganisation over %d heights: block %d of %d (arrival order) at height %d: verdict %s, expected %s", d, lo+i+1, len(nodes), req[i].Height, rs.Confirmations[i].Confirmation, want[i]), caseID, map[string]any{"reorganisation_depth": d, "item": req[i]})
				return
			}
		}
		r.Case("", false)
	}
	// one request naming every block of both branches (1000+ items) in shuffled order: one verdict per item, in the order
	// submitted
	perm := rng.Perm(len(nodes))
	var req []item
	var want []string
	for _, k := range perm {
		n := nodes[k]
		req = append(req, item{Root: n.Merkle.String(), Height: n.Height, class: "deep-reorg-" + n.State + "-own-height"})
		v, _ := m.MerkleVerdict(n.Merkle.String(), int64(n.Height), 6)
		want = append(want, v)
	}
	b, _ := json.Marshal(req)
	w := stx.POST("/api/v1/chain/merkleroot/verify", b)
	var rs resp
	if w.Code != 200 || mb.DecodeOne(w.Body.Bytes(), &rs) != nil || len(rs.Confirmations) != len(req) {
		r.Violate("long-request|http", fmt.Sprintf("POST verify with %d items -> %d with %d verdicts", len(req), w.Code, len(rs.Confirmations)), caseID, map[string]any{"items": len(req)})
		return
	}
	for i := range req {
		c := rs.Confirmations[i]
		if c.MerkleRoot != req[i].Root || c.BlockHeight != int64(req[i].Height) {
			r.Violate("order|long-request", fmt.Sprintf("request of %d items: verdict %d is for (%s,%d), submitted item was (%s,%d)", len(req), i, c.MerkleRoot, c.BlockHeight, req[i].Root, req[i].Height), caseID, map[string]any{"items": len(req)})
			return
		}
		if c.Confirmation != want[i] {
			r.Violate(sigOf(req[i], want[i], c.Confirmation), fmt.Sprintf("request of %d items, item %d at height %d: verdict %s, expected %s", len(req), i, req[i].Height, c.Confirmation, want[i]), caseID, map[string]any{"items": len(req)})
			return
		}
	}
	r.Count("requests_of_more_than_500_items", 1)
	r.Case("", false)
	if len(req) >= 3000 {
		// the same items three times over in one request (12 000 items, more than a megabyte of JSON): one verdict per item
		big := append(append(append([]item(nil), req...), req...), req...)
		bb, _ := json.Marshal(big)
		w := stx.POST("/api/v1/chain/merkleroot/verify", bb)
		var rb resp
		if w.Code != 200 || mb.DecodeOne(w.Body.Bytes(), &rb) != nil || len(rb.Confirmations) != len(big) {
			body := w.Body.String()
			if len(body) > 200 {
				body = body[:200]
			}
			r.Violate("long-request|http|megabyte", fmt.Sprintf("POST verify with %d items (%d bytes) -> %d with %d verdicts: %s", len(big), len(bb), w.Code, len(rb.Confirmations), body), caseID, map[string]any{"items": len(big), "bytes": len(bb)})
			return
		}
		for i := range big {
			if c := rb.Confirmations[i]; c.MerkleRoot != big[i].Root || c.Confirmation != want[i%len(want)] {
				r.Violate("long-request|megabyte|verdict", fmt.Sprintf("request of %d items, item %d: verdict %s for %s, expected %s for %s", len(big), i, c.Confirmation, c.MerkleRoot, want[i%len(want)], big[i].Root), caseID, map[string]any{"items": len(big)})
				return
			}
		}
		r.Count("requests_of_more_than_a_megabyte", 1)
	}
	r.Count("deep_reorganisations", 1)
	r.Count("states_after_reorg", 1)
}

func body(r *ev.Run) {
	r.Rule("states = every reorganisation point (and every 10th step, and the end) of seeded random histories with forks, stale blocks sharing heights with longest blocks, orphans, duplicate merkle roots across branches; per state several request lists (length 1..50, with duplicates) drawn from {every stored (root, own height / height+-1), non-longest roots at the tip height, unknown / tip / genesis roots at heights -1, 0, 1, tip-1..tip+excess+2, MaxInt32, MinInt32} for excess in {0,1,6,100,MaxInt32,2^31,2^40}; plus reorganisations over 501 heights (thorough: 499..2001) after which every block of both branches is asked about; ; every 25th step two competing children of the tip are submitted at the same moment (exactly one of their roots may be CONFIRMED); one submission in ten that reorganises has its first relabelling statement fail (verdicts must match what the service answered); sent through POST /api/v1/chain/merkleroot/verify and Merkleroots.GetMerkleRootsConfirmations. evaluations = request lists; distinct = distinct (item class, expected verdict) pairs observed; non-trivial = all.")
	r.Assume("merkle roots compared in canonical lower-case hex", "excess values 0, 1, 6, 100, MaxInt32, 2^31, 2^40", "reference model transcribes the statement")
	r.Require("verdicts_CONFIRMED", 200)
	r.Require("verdicts_UNABLE_TO_VERIFY", 50)
	r.Require("verdicts_INVALID", 200)
	r.Require("states_after_reorg", 20)
	r.Require("competing_pairs_submitted_at_once", 50)
	r.Require("reorganisations_with_a_failing_first_relabel", 10)
	mb.ForbiddenHeaders()
	e := &env{r: r, byExcess: map[int]*rig.Stack{}}
	st, err := rig.New(rig.Options{Dir: r.Scratch, WrapHeaders: deco.Wrap(e.hooks())})
	if err != nil {
		r.Violate("harness|rig", err.Error(), "", nil)
		return
	}
	defer st.Destroy()
	e.st = st
	for _, x := range excesses {
		x := x
		e.byExcess[x] = st.Sibling(func(c *config.AppConfig) { c.MerkleRoot.MaxBlockHeightExcess = x })
	}
	// deep reorganisations: every block of both branches is asked about afterwards
	depths := []int{501, 1002, 2001}
	if r.Thorough() {
		depths = []int{499, 500, 501, 1000, 1001, 1002, 2001}
	}
	for _, d := range depths {
		caseID := fmt.Sprintf("deep/%d", d)
		r.Do(caseID, func() { e.deepReorg(caseID, d) })
	}
	nHist := r.Pick(200, 5000)
	for i := 0; i < nHist; i++ {
		caseID := fmt.Sprintf("h/%d", i)
		r.Do(caseID, func() {
			rng := r.Rand(caseID)
			o := gen.Opts{
				N:          15 + rng.Intn(r.Pick(60, 150)),
				PDup:       0.03,
				PUnknown:   []float64{0.02, 0.1}[rng.Intn(2)],
				PLate:      []float64{0, 0.1}[rng.Intn(2)],
				PFork:      []float64{0.2, 0.5}[rng.Intn(2)],
				Classes:    []string{"MH", "MHL", "MHLZ"}[rng.Intn(3)],
				PMerkleDup: []float64{0, 0.1}[rng.Intn(2)],
			}
			hist := gen.Random(rng, rig.Genesis(), o)
			if err := st.Reset(); err != nil {
				r.Violate("harness|reset", err.Error(), caseID, nil)
				return
			}
			m := mb.NewModel()
			pairCounter := 0
			for k, h := range hist.Hdrs {
				// one submission in ten has the first relabelling statement of its reorganisation (if it is one) fail
				if rng.Intn(10) == 0 {
					probe := m.Clone()
					if _, _, reorg := probe.Submit(h); reorg {
						e.failRelabel, e.relabelHit = true, false
						res := st.Add(h)
						e.failRelabel = false
						if e.relabelHit {
							r.Count("reorganisations_with_a_failing_first_relabel", 1)
							if res.Panic != nil {
								r.Count("histories_cut_short_by_ingest_divergence", 1)
								return
							}
							if res.Err == nil {
								m.Submit(h) // the service says it stored the header: then the reorganisation happened
							}
							// (refused: nothing may have changed; the verdicts are those of the state before)
							if !e.verifyLists(caseID, rng, m, hist, k, 1) {
								return
							}
							if res.Err == nil {
								continue
							}
						} else if res.Err == nil {
							m.Submit(h)
							continue
						}
					}
				}
				if k%25 == 24 && m.Best().Height > 0 {
					if !e.competingPair(caseID, rng, m, &pairCounter) {
						return
					}
				}
				si := mb.Step(st, m, h)
				if si.Res.Panic != nil || si.Res.Code() != mb.WantCode(si.Outcome) {
					r.Count("histories_cut_short_by_ingest_divergence", 1) // C01's business
					return
				}
				last := k == len(hist.Hdrs)-1
				if si.Reorg {
					r.Count("states_after_reorg", 1)
				}
				if si.Reorg || last || k%10 == 9 {
					if !e.verifyLists(caseID, rng, m, hist, k, 2) {
						return
					}
					if last && !e.wideHeights(caseID, m) {
						return
					}
				}
			}
		})
	}
}
