// Package c06: sync converges on the best chain peers offer, in every configuration.
package c06

import (
	"fmt"
	"math/rand"
	"os"
	"sort"
	"strings"
	"time"

	"github.com/bitcoin-sv/block-headers-service/verifharness/ev"
	"github.com/bitcoin-sv/block-headers-service/verifharness/p2prig"
)

// Spec registers the check.
func Spec() ev.Spec {
	return ev.Spec{Prop: "C06", Level: "exploration", Workers: -1, Race: true, Body: body}
}

// Generate builds the i-th scenario of the run.
func Generate(rng *rand.Rand, i int, thorough bool) *p2prig.Scenario {
	s := &p2prig.Scenario{ID: fmt.Sprintf("s/%d", i), Seed: rng.Int63()}
	if i%3 == 2 {
		s.Engine = "exp"
	} else {
		s.Engine = "legacy"
	}
	// chain length: around the reply cap boundaries now and then
	switch rng.Intn(6) {
	case 0:
		s.HonestLen = 2000 + rng.Intn(3) - 1 // 1999..2001
	case 1:
		s.HonestLen = 2100 + rng.Intn(400)
	case 2:
		if thorough {
			s.HonestLen = 4000 + rng.Intn(300)
		} else {
			s.HonestLen = 300 + rng.Intn(300)
		}
	default:
		s.HonestLen = 20 + rng.Intn(400)
	}
	// checkpoints: one / several / last one at the honest tip / none (experimental only)
	maxCp := s.HonestLen - 12 // laggards and forks stay above the last checkpoint
	if maxCp < 1 {
		maxCp = 1
	}
	switch k := rng.Intn(4); {
	case k == 0:
		s.CheckpointHeights = []int32{int32(1 + rng.Intn(maxCp))}
	case k == 1:
		n := 2 + rng.Intn(3)
		set := map[int32]bool{}
		for len(set) < n && len(set) < maxCp {
			set[int32(1+rng.Intn(maxCp))] = true
		}
		for h := range set {
			s.CheckpointHeights = append(s.CheckpointHeights, h)
		}
		sort.Slice(s.CheckpointHeights, func(a, b int) bool { return s.CheckpointHeights[a] < s.CheckpointHeights[b] })
	case k == 2:
		s.CheckpointHeights = []int32{int32(s.HonestLen)} // last checkpoint at the honest tip
	default:
		if s.Engine == "exp" {
			s.CheckpointHeights = nil
		} else {
			s.CheckpointHeights = []int32{int32(1 + rng.Intn(maxCp))}
		}
	}
	atTip := len(s.CheckpointHeights) == 1 && int(s.CheckpointHeights[0]) == s.HonestLen
	lastCp := 0
	if n := len(s.CheckpointHeights); n > 0 {
		lastCp = int(s.CheckpointHeights[n-1])
	}
	if s.Engine == "legacy" && rng.Intn(4) == 0 {
		s.DisableCheckpoints = true
	}
	// initial store
	switch rng.Intn(5) {
	case 0:
		s.InitialStore, s.PrefixLen = "prefix", 1+rng.Intn(s.HonestLen)
		if rng.Intn(3) == 0 {
			s.PrefixLen = s.HonestLen // the database is already in sync at start-up
		}
	case 1:
		if !atTip && s.HonestLen-lastCp > 8 {
			s.InitialStore, s.PrefixLen = "stale-fork", lastCp+rng.Intn(s.HonestLen-lastCp-4)
		} else {
			s.InitialStore = "genesis"
		}
	case 2:
		if !atTip && s.HonestLen-lastCp > 8 {
			s.InitialStore, s.PrefixLen = "lighter-fork", lastCp+rng.Intn(s.HonestLen-lastCp-4)
			switch rng.Intn(4) {
			case 0:
				s.PrefixLen = s.HonestLen - 3 // the store's (lighter) tip is exactly as high as the honest peer's chain
			case 1:
				if s.HonestLen-lastCp > 12 && s.HonestLen < 700 {
					// a stale fork of light blocks reaching above the honest peer's tip
					s.InitialStore, s.PrefixLen = "tall-stale-fork", lastCp+3+rng.Intn(s.HonestLen-lastCp-6)
				}
			}
		} else {
			s.InitialStore = "genesis"
		}
	default:
		s.InitialStore = "genesis"
	}
	// peers
	honest := p2prig.NodeSpec{Kind: "honest", InvBatch: 1 + rng.Intn(3)}
	if rng.Intn(4) == 0 {
		honest.VersionLag = 1 + rng.Intn(5) // the honest peer finds blocks while the service syncs from it
	}
	honest.IgnoreStop = i%5 == 4 // "all that remain or at most 2000": the answer does not end at the stop hash
	if i%6 == 5 || i%12 == 4 {
		honest.ProtoVer = 70011 // an older peer: no sendheaders, so it announces by inv whatever the service asks for
	}
	linear := true
	nPeers := 1
	if s.Engine == "legacy" {
		nPeers = 1 + rng.Intn(4)
	}
	s.Nodes = []p2prig.NodeSpec{honest}
	for k := 1; k < nPeers; k++ {
		if rng.Intn(2) == 0 || atTip {
			lag := 1 + rng.Intn(10)
			if atTip {
				lag = 0 // a checkpoint at the honest tip: other peers can only be equal (laggards would be below the checkpoint)
			}
			s.Nodes = append(s.Nodes, p2prig.NodeSpec{Kind: "laggard", Lag: lag})
		} else {
			span := s.HonestLen - lastCp
			forkAt := lastCp + 1 + rng.Intn(span-2)
			maxLen := s.HonestLen - forkAt // honest extends at least as far past the fork point
			if maxLen > 40 {
				maxLen = 40
			}
			fl := 1 + rng.Intn(maxLen)
			slow := false
			if (s.InitialStore == "prefix" || s.InitialStore == "stale-fork" || s.InitialStore == "lighter-fork" || s.InitialStore == "tall-stale-fork") && s.PrefixLen > forkAt && forkAt+fl > s.PrefixLen {
				// The store already holds the honest chain beyond this fork point and the forker is taller than the
				// store: if it becomes the sync peer its reply holds no longest-chain header, it is not asked again,
				// and other peers' announcements are ignored until the 3-minute sync-peer rotation. Quick tier:
				// keep the forker no taller than the store; thorough tier: allow it and wait for the rotation.
				if thorough && rng.Intn(3) == 0 {
					slow = true
				} else {
					fl = s.PrefixLen - forkAt
				}
			}
			if slow {
				s.SlowConvergeWaitSec = 270
			}
			s.Nodes = append(s.Nodes, p2prig.NodeSpec{Kind: "forker", ForkAt: forkAt, ForkLen: fl})
			linear = false
		}
	}
	if s.InitialStore == "stale-fork" || s.InitialStore == "lighter-fork" || s.InitialStore == "tall-stale-fork" {
		linear = false
	}
	// The legacy server opens up to 8 outbound connections and up to 5 to one host: keep the other nodes from
	// filling every slot, otherwise the premise "connected to ... at least one honest peer" cannot come true.
	for k := 1; k < len(s.Nodes); k++ {
		s.Nodes[k].MaxLive = 2
	}
	// reply caps: any cap >= 1 for linear catch-up, 2000 otherwise
	if linear && rng.Intn(3) == 0 {
		need := s.HonestLen
		c := []int{1, 7, 500}[rng.Intn(3)]
		if c == 1 && need > 150 {
			c = 7
		}
		if c == 7 && need > 900 {
			c = 500
		}
		for k := range s.Nodes {
			s.Nodes[k].Cap = c
		}
	}
	// announcements after the initial sync
	for k := rng.Intn(3); k > 0; k-- {
		a := p2prig.AnnounceSpec{Blocks: 1 + rng.Intn(3), Mode: []string{"inv", "headers", "conformant"}[rng.Intn(3)]}
		if s.Engine == "exp" && a.Mode == "inv" {
			a.Mode = "conformant" // the experimental engine never leaves "ignore inv" mode
		}
		if nPeers > 1 && rng.Intn(2) == 0 {
			// two peers announce the same block
			for j := 1; j < nPeers; j++ {
				if s.Nodes[j].Kind == "laggard" {
					a.Nodes = []int{0, j}
					break
				}
			}
		}
		s.Announce = append(s.Announce, a)
	}
	// a peer on a losing branch announces its own tip too (the service fetches that branch: new headers, all of them stale)
	for j := 1; j < nPeers && j < len(s.Nodes); j++ {
		if s.Nodes[j].Kind == "forker" && s.Engine == "legacy" && rng.Intn(2) == 0 {
			s.Announce = append(s.Announce, p2prig.AnnounceSpec{Blocks: 0, Mode: "inv", Nodes: []int{j}}, p2prig.AnnounceSpec{Blocks: 1, Mode: "conformant"})
			break
		}
	}
	// faults: the honest node (possibly the sync peer) drops the connection at message i
	if s.Engine == "legacy" && rng.Intn(4) == 0 { // the experimental Peer has no re-dial logic of its own (single-outbound-peer design)
		s.Nodes[0].DisconnectAtMsg = 3 + rng.Intn(6)
		s.WaitReconnect = true
	}
	// the peer the service synced from goes away for good; an inbound peer that lagged behind catches up and is the
	// only one left to follow (it announces the new blocks)
	if s.Engine == "legacy" && i%8 == 5 && !atTip {
		s.Nodes = []p2prig.NodeSpec{{Kind: "honest"}, {Kind: "laggard", Lag: 1 + rng.Intn(6), Inbound: true}}
		s.DropNode0AfterSync = true
		s.WaitReconnect = false
		s.InitialStore, s.PrefixLen = "genesis", 0
		if len(s.Announce) == 0 {
			s.Announce = []p2prig.AnnounceSpec{{Blocks: 1 + rng.Intn(2), Mode: []string{"inv", "headers", "conformant"}[rng.Intn(3)]}}
		}
		for k := range s.Announce {
			s.Announce[k].Nodes = nil
		}
	}
	// a webhook is registered whose endpoint accepts every delivery and answers none: headers are stored and the sync
	// comes to rest without waiting for it
	if i%32 == 29 {
		s.HonestLen = 40 + rng.Intn(120)
		if s.Engine == "legacy" {
			s.CheckpointHeights = []int32{int32(1 + rng.Intn(s.HonestLen-20))}
			s.DisableCheckpoints = rng.Intn(4) == 0
		} else {
			s.CheckpointHeights = nil
		}
		s.InitialStore, s.PrefixLen = "genesis", 0
		if rng.Intn(3) == 0 {
			s.InitialStore, s.PrefixLen = "prefix", 1+rng.Intn(s.HonestLen/3)
		}
		s.Nodes = []p2prig.NodeSpec{{Kind: "honest"}}
		s.DropNode0AfterSync, s.WaitReconnect, s.SlowConvergeWaitSec = false, false, 0
		s.HeldWebhook = true
		for k := range s.Announce {
			s.Announce[k].Nodes = nil
			if s.Engine == "exp" && s.Announce[k].Mode == "inv" {
				s.Announce[k].Mode = "conformant"
			}
		}
		return s
	}
	// experimental engine, three or four checkpoints, started on a store that is already past the first of them
	if s.Engine == "exp" && i%4 == 1 {
		s.HonestLen = 60 + rng.Intn(300)
		n := 3 + rng.Intn(2)
		set := map[int32]bool{}
		for len(set) < n {
			set[int32(3+rng.Intn(s.HonestLen-20))] = true
		}
		s.CheckpointHeights = nil
		for h := range set {
			s.CheckpointHeights = append(s.CheckpointHeights, h)
		}
		sort.Slice(s.CheckpointHeights, func(a, b int) bool { return s.CheckpointHeights[a] < s.CheckpointHeights[b] })
		lo, hi := int(s.CheckpointHeights[0]), int(s.CheckpointHeights[n-2])
		s.InitialStore, s.PrefixLen = "prefix", lo+rng.Intn(hi-lo+1)
		s.Nodes = []p2prig.NodeSpec{{Kind: "honest"}}
		s.DisableCheckpoints, s.DropNode0AfterSync, s.WaitReconnect, s.SlowConvergeWaitSec = false, false, false, 0
		for k := range s.Announce {
			s.Announce[k].Nodes = nil
			if s.Announce[k].Mode == "inv" {
				s.Announce[k].Mode = "conformant"
			}
		}
		return s
	}
	// (thorough) the peer reported, at the handshake, fewer blocks than it has by the time the sync ends; then nothing happens
	// for 135 s: the sync manager's periodic check judges the quiet sync peer, drops it while no other peer is a candidate,
	// the service dials again, and the blocks announced afterwards are followed
	if thorough && s.Engine == "legacy" && i%250 == 76 {
		s.HonestLen = 40 + rng.Intn(100)
		s.CheckpointHeights = []int32{int32(1 + rng.Intn(s.HonestLen-20))}
		s.DisableCheckpoints = rng.Intn(4) == 0
		s.InitialStore, s.PrefixLen = "genesis", 0
		s.Nodes = []p2prig.NodeSpec{{Kind: "honest", VersionLag: 3 + rng.Intn(10)}}
		s.DropNode0AfterSync, s.WaitReconnect, s.SlowConvergeWaitSec = false, false, 0
		s.IdleSec = 135
		s.Announce = []p2prig.AnnounceSpec{{Blocks: 1 + rng.Intn(2), Mode: []string{"inv", "headers", "conformant"}[rng.Intn(3)]}}
		return s
	}
	// an old chain (every block three days old, so the service never calls itself current and follows the inv announcements of
	// its sync peer only): two peers with the same chain announce every new block, in either order
	if s.Engine == "legacy" && i%32 == 21 {
		s.HonestLen = 40 + rng.Intn(150)
		s.CheckpointHeights = []int32{int32(1 + rng.Intn(s.HonestLen-20))}
		s.DisableCheckpoints = rng.Intn(4) == 0
		s.InitialStore, s.PrefixLen = "genesis", 0
		s.Nodes = []p2prig.NodeSpec{{Kind: "honest"}, {Kind: "laggard", Lag: 0, MaxLive: 2}}
		s.DropNode0AfterSync, s.WaitReconnect, s.SlowConvergeWaitSec = false, false, 0
		s.AgeHours = 72
		first, second := []int{1, 0}, []int{0, 1}
		if (i/32)%2 == 1 {
			first, second = second, first
		}
		s.Announce = []p2prig.AnnounceSpec{{Blocks: 1, Mode: "inv", Nodes: first}, {Blocks: 1, Mode: "inv", Nodes: second}}
		return s
	}
	// the only peer is lost during or right after the handshake - before it has sent its version message, after its
	// version and before its verack, or as soon as the handshake is complete; the service dials it again, and what the
	// peer offers has to be fetched over the second connection before anything is announced
	if s.Engine == "legacy" && i%32 == 13 {
		s.HonestLen = 40 + rng.Intn(200)
		s.CheckpointHeights = []int32{int32(1 + rng.Intn(s.HonestLen-20))}
		s.DisableCheckpoints = rng.Intn(4) == 0
		s.InitialStore, s.PrefixLen = "genesis", 0
		if rng.Intn(3) == 0 {
			s.InitialStore, s.PrefixLen = "prefix", 1+rng.Intn(s.HonestLen/3)
		}
		n0 := p2prig.NodeSpec{Kind: "honest"}
		switch (i / 32) % 3 {
		case 0:
			n0.CloseAfterVersion = true
		case 1:
			n0.DisconnectAtMsg = 1
		default:
			n0.DisconnectAtMsg = 2
		}
		s.Nodes = []p2prig.NodeSpec{n0}
		s.DropNode0AfterSync, s.SlowConvergeWaitSec = false, 0
		s.WaitReconnect = true
		for k := range s.Announce {
			s.Announce[k].Nodes = nil
		}
		return s
	}
	// the only peer, in the middle of being synced from, drops the connection (several replies are still to come); the
	// service dials it again and has to carry on
	if s.Engine == "legacy" && i%16 == 1 {
		s.HonestLen = 60 + rng.Intn(300)
		s.CheckpointHeights = []int32{int32(1 + rng.Intn(s.HonestLen-20))}
		s.DisableCheckpoints = rng.Intn(4) == 0
		s.InitialStore, s.PrefixLen = "genesis", 0
		if rng.Intn(3) == 0 {
			s.InitialStore, s.PrefixLen = "prefix", 1+rng.Intn(s.HonestLen/3)
		}
		// (the node restarts: every connection the service has to it goes away at that moment, so nothing but a re-dialled
		// connection can carry the sync on)
		s.Nodes = []p2prig.NodeSpec{{Kind: "honest", Cap: []int{5, 7, 12}[rng.Intn(3)], DisconnectAtMsg: 4 + rng.Intn(5), RestartOnDrop: true}}
		s.DropNode0AfterSync, s.SlowConvergeWaitSec = false, 0
		s.WaitReconnect = true
		for k := range s.Announce {
			s.Announce[k].Nodes = nil
		}
		return s
	}
	// a single honest peer and a store that is forked in an awkward way: a stale fork reaching above the peer's tip, or a
	// lighter fork ending exactly at the peer's height
	if s.Engine == "legacy" && i%16 == 9 {
		s.HonestLen = 40 + rng.Intn(300)
		cp := 1 + rng.Intn(s.HonestLen-20)
		s.CheckpointHeights = []int32{int32(cp)}
		s.DisableCheckpoints = rng.Intn(4) == 0
		if rng.Intn(2) == 0 {
			s.InitialStore, s.PrefixLen = "tall-stale-fork", cp+3+rng.Intn(s.HonestLen-cp-6)
		} else {
			s.InitialStore, s.PrefixLen = "lighter-fork", s.HonestLen-3
		}
		s.Nodes = []p2prig.NodeSpec{{Kind: "honest"}}
		s.DropNode0AfterSync, s.WaitReconnect, s.SlowConvergeWaitSec = false, false, 0
		for k := range s.Announce {
			s.Announce[k].Nodes = nil
		}
		return s
	}
	// the honest network reorganises after the initial sync: the peer announces (by inv, or by headers once asked to) the
	// tip of a branch that replaces its last few blocks. Its getheaders answers are capped well below the fork height, so
	// only a request that locates the fork point makes progress.
	if s.Engine == "legacy" && i%8 == 3 {
		c := []int{8, 12, 50}[rng.Intn(3)]
		s.HonestLen = c + 20 + rng.Intn(150)
		depth := 1 + rng.Intn(4)
		s.CheckpointHeights = []int32{int32(1 + rng.Intn(s.HonestLen-depth-8))}
		s.DisableCheckpoints = rng.Intn(4) == 0
		s.InitialStore, s.PrefixLen = "genesis", 0
		if rng.Intn(2) == 0 {
			s.InitialStore, s.PrefixLen = "prefix", s.HonestLen-rng.Intn(3)
		}
		s.Nodes = []p2prig.NodeSpec{{Kind: "honest", Cap: c}}
		if rng.Intn(2) == 0 {
			s.Nodes = append(s.Nodes, p2prig.NodeSpec{Kind: "laggard", Lag: 1 + rng.Intn(3), Cap: c, MaxLive: 2})
		}
		s.DropNode0AfterSync, s.WaitReconnect, s.SlowConvergeWaitSec = false, false, 0
		s.Announce = []p2prig.AnnounceSpec{{Blocks: rng.Intn(2), Reorg: depth, Mode: []string{"inv", "inv", "conformant"}[rng.Intn(3)]}}
		if rng.Intn(2) == 0 {
			s.Announce = append([]p2prig.AnnounceSpec{{Blocks: 1, Mode: "conformant"}}, s.Announce...)
		}
		return s
	}
	// the sync peer goes away right after the reply that carries a checkpoint block; the service re-dials and has to carry on
	// from there
	if s.Engine == "legacy" && i%8 == 7 {
		// what follows the last checkpoint takes far more replies than the announcement rounds at the end could make up for
		cp := []int{3, 5, 7}[rng.Intn(3)]
		s.HonestLen = 150 + rng.Intn(200)
		n := 1 + rng.Intn(3)
		set := map[int32]bool{}
		for len(set) < n {
			set[int32(2+rng.Intn(s.HonestLen-122))] = true
		}
		s.CheckpointHeights = nil
		for h := range set {
			s.CheckpointHeights = append(s.CheckpointHeights, h)
		}
		sort.Slice(s.CheckpointHeights, func(a, b int) bool { return s.CheckpointHeights[a] < s.CheckpointHeights[b] })
		s.DisableCheckpoints = false
		at := int(s.CheckpointHeights[rng.Intn(len(s.CheckpointHeights))])
		s.InitialStore, s.PrefixLen = "genesis", 0
		if rng.Intn(3) == 0 {
			s.InitialStore, s.PrefixLen = "prefix", 1+rng.Intn(at-1)
		}
		s.Nodes = []p2prig.NodeSpec{{Kind: "honest", Cap: cp, DropAfterHeight: at}}
		if rng.Intn(2) == 0 {
			s.Nodes = append(s.Nodes, p2prig.NodeSpec{Kind: "laggard", Lag: 1 + rng.Intn(10), MaxLive: 2, Cap: s.Nodes[0].Cap})
		}
		s.DropNode0AfterSync, s.SlowConvergeWaitSec = false, 0
		s.WaitReconnect = true
		for k := range s.Announce {
			s.Announce[k].Nodes = nil
		}
		return s
	}
	if thorough && nPeers > 1 && rng.Intn(30) == 0 && !s.DropNode0AfterSync {
		// a non-honest peer stalls (never answers getheaders): if the service picks it as its sync peer, nothing moves
		// until the stall detection (30-45 s) drops it - the verdict waits for that timer. (Not combined with "node 0 goes
		// away": a peer that never answers cannot be the only one left to follow.)
		for j := 1; j < nPeers && j < len(s.Nodes); j++ {
			if s.Nodes[j].Kind == "laggard" {
				s.Nodes[j].Silent = true
				s.Nodes[j].MaxLive = 1 // one stalling connection: one stall detection (about two minutes) to wait for
				if s.SlowConvergeWaitSec < 150 {
					s.SlowConvergeWaitSec = 150
				}
				break
			}
		}
	}
	return s
}

// GenerateFor returns the scenario of case index i for the current VERIF_SEED / VERIF_TIER (debug aid).
func GenerateFor(i int) *p2prig.Scenario {
	var out *p2prig.Scenario
	spec := Spec()
	_ = spec
	r := ev.NewDetached("C06")
	out = Generate(r.Rand(fmt.Sprintf("s/%d", i)), i, r.Thorough())
	return out
}

// Classify is the coarse structural signature of a scenario for distinct counting.
func Classify(s *p2prig.Scenario) string {
	kinds := []string{}
	for _, n := range s.Nodes {
		k := n.Kind
		if n.Cap > 0 {
			k += fmt.Sprintf("(cap%d)", n.Cap)
		}
		if n.DisconnectAtMsg > 2 {
			k += "(drop)"
		} else if n.DisconnectAtMsg > 0 {
			k += fmt.Sprintf("(drop-at-handshake-message-%d)", n.DisconnectAtMsg)
		}
		if n.CloseAfterVersion {
			k += "(lost-between-version-and-verack)"
		}
		if n.SilentFirst {
			k += "(first-connection-stalls)"
		}
		if n.IgnoreStop {
			k += "(ignores-stop)"
		}
		if n.DropAfterHeight > 0 {
			k += "(drop-after-checkpoint-reply)"
		}
		if n.VersionLag > 0 {
			k += "(grows-during-sync)"
		}
		if n.Silent {
			k += "(stall)"
		}
		kinds = append(kinds, k)
	}
	ann := []string{}
	for _, a := range s.Announce {
		m := a.Mode
		if a.Reorg > 0 {
			m += "(reorg)"
		}
		if len(a.Nodes) > 1 {
			m += "x2"
		}
		ann = append(ann, m)
	}
	cp := fmt.Sprintf("cp%d", len(s.CheckpointHeights))
	if len(s.CheckpointHeights) == 1 && int(s.CheckpointHeights[0]) == s.HonestLen {
		cp = "cp@tip"
	}
	if s.DisableCheckpoints {
		cp += ",disabled"
	}
	lenClass := "short"
	switch {
	case s.HonestLen > 2001:
		lenClass = ">cap"
	case s.HonestLen >= 1999:
		lenClass = "~cap"
	}
	if s.DropNode0AfterSync {
		kinds = append(kinds, "node0-goes-away")
	}
	if s.HeldWebhook {
		cp += ",webhook-unanswered"
	}
	if s.IdleSec > 0 {
		cp += ",idle-period"
	}
	if s.AgeHours > 0 {
		cp += ",old-chain"
	}
	return strings.Join([]string{s.Engine, cp, s.InitialStore, lenClass, strings.Join(kinds, "+"), strings.Join(ann, ",")}, "|")
}

// Record merges a scenario result into the run (shared with C07/C15).
func Record(r *ev.Run, s *p2prig.Scenario, res *p2prig.Result, crash string, only func(sig string) bool) {
	if res == nil {
		site := "scenario-child"
		for _, l := range strings.Split(crash, "\n") {
			if strings.HasPrefix(l, "fatal error:") || strings.HasPrefix(l, "panic:") {
				site = strings.TrimSpace(l)
				if len(site) > 90 {
					site = site[:90]
				}
				break
			}
		}
		r.Violate("crash|"+s.Engine+"|"+site, "the service process crashed during the scenario", s.ID, map[string]any{"scenario": s, "log_tail": crash})
		return
	}
	for k, v := range res.Counters {
		r.Count(k, v)
	}
	switch res.Verdict {
	case "inconclusive":
		r.Inconclusive(s.ID, res.What)
		if res.Panic != "" && os.Getenv("VERIF_KEEP_DUMPS") != "" {
			_ = os.WriteFile(fmt.Sprintf("/tmp/me/inconclusive-%s.txt", strings.ReplaceAll(s.ID, "/", "_")), []byte(res.What+"\n"+res.Panic), 0o644)
		}
		r.Count("inconclusive_scenarios", 1)
		return
	case "violated":
		seen := map[string]bool{}
		vs := res.Violations
		if len(vs) == 0 {
			vs = []p2prig.Finding{{Sig: res.Sig, What: res.What}}
		}
		for _, f := range vs {
			if seen[f.Sig] || (only != nil && !only(f.Sig)) {
				continue
			}
			seen[f.Sig] = true
			r.Violate(f.Sig, f.What, s.ID, map[string]any{"scenario": s, "last_events": res.Events, "panic": res.Panic})
		}
	}
}

func body(r *ev.Run) {
	r.Rule("with a single honest peer and nothing scripted to go wrong the store must hold that peer's chain at quiescence BEFORE anything is announced (announcements would deliver the missing blocks by another path); initial stores incl. a stale fork reaching above the peer's tip and a lighter fork ending exactly at the peer's height. scenarios = seeded draws over engine {legacy full server, experimental Peer} x checkpoints {enabled, disabled (legacy)} x checkpoint list {one, several, at the honest tip, none (experimental)} x initial store {genesis, honest prefix, stale fork present, on a lighter fork} x 1..4 scripted peers {honest, laggards, lighter forkers above the last checkpoint} x reply cap {2000; 1/7/500 for linear catch-up} x chain length {short, around the cap, beyond it} x announcement rounds {inv, headers, conformant; one or two peers announce} x faults {honest peer drops the connection at message i (re-dial awaited); stalling peer (thorough)}; every scenario ends with an honest announcement round. One scenario = one child process running the real engine against loopback scripted nodes; verdict at logical quiescence (ping/pong per connection + sync-manager round trip until two rounds change nothing). distinct = distinct structural classes; non-trivial = all (each has >=1 sync + >=1 announcement).")
	r.Assume("honest blocks carry strictly more work than competing ones and the honest chain extends at least as far past a fork point as the competing branch (a competing fork is adoptable from one reply)", "laggards' tips and fork points lie above the last checkpoint; tips are within the 24 h 'current' window", "experimental engine: one outbound peer, announcements by headers/conformant only", "timer-driven behaviour longer than the scenario waits for (3-minute sync-peer rotation) is out of reach")
	r.Require("converged", 10)
	n := r.Pick(128, 1500)
	for i := 0; i < n; i++ {
		caseID := fmt.Sprintf("s/%d", i)
		r.Do(caseID, func() {
			s := Generate(r.Rand(caseID), i, r.Thorough())
			wd := time.Duration(150+s.SlowConvergeWaitSec+s.IdleSec) * time.Second
			res, crash := p2prig.RunScenarioChild(r.Scratch, s, wd)
			Record(r, s, res, crash, func(sig string) bool {
				// containment oracles (forbidden header, checkpoint mismatch/advance) are C07's; C06 decides convergence
				for _, p := range []string{"not-converged|", "not-converged-before-any-announcement|", "sync-waits-for-webhook-answers|", "closed-outbound-connection-not-replaced|", "ichain|", "panic", "reader-5xx|"} {
					if strings.HasPrefix(sig, p) {
						return true
					}
				}
				return false
			})
			r.Case(Classify(s), true)
			if res != nil && res.Verdict == "held" && r.WantSample() {
				r.Sample(map[string]any{"scenario": s, "counters": res.Counters})
			}
			// C13 side-check on the locators the engine actually sent
			if res != nil {
				for _, g := range res.GetHeaders {
					if bad := locatorShape(g); bad != "" {
						r.Violate("wire-locator|"+strings.Fields(bad)[0], "getheaders locator sent by the service: "+bad, s.ID, map[string]any{"scenario": s, "heights": g.Heights})
					}
					r.Count("wire_locators_checked", 1)
				}
			}
		})
	}
}

// locatorShape checks a multi-entry wire locator: strictly descending heights, every entry an
// ancestor of the previous, ending at genesis.
func locatorShape(g p2prig.GetHeadersShape) string {
	if !g.OnBest {
		// entries outside the rig's tree (the private initial branch) cannot be judged
		for _, h := range g.Heights {
			if h < 0 {
				return ""
			}
		}
		return "entries-not-on-one-chain: a locator entry is not an ancestor of the previous one"
	}
	for i := 1; i < len(g.Heights); i++ {
		if g.Heights[i] >= g.Heights[i-1] {
			return fmt.Sprintf("not-descending: heights %v", g.Heights)
		}
	}
	if g.Heights[len(g.Heights)-1] != 0 {
		return fmt.Sprintf("no-genesis: last entry at height %d", g.Heights[len(g.Heights)-1])
	}
	return ""
}
