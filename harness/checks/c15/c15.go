// Package c15: concurrent ingestion/reads/peer churn: no races, valid views, serial outcome.
// Three monitors: (1) the Go race detector over free-running P2P rigs with concurrent HTTP
// readers, (2) a harness-controlled scheduler at the repository boundary with the structural
// invariant evaluated after every granted step, (3) porcupine linearizability checking of the
// recorded Add/GetTip histories against the reference model.
package c15

import (
	"fmt"
	"math/rand"
	"sort"
	"strings"
	"sync/atomic"
	"time"

	"github.com/anishathalye/porcupine"
	"github.com/bitcoin-sv/block-headers-service/verifharness/checks/c06"
	"github.com/bitcoin-sv/block-headers-service/verifharness/deco"
	"github.com/bitcoin-sv/block-headers-service/verifharness/ev"
	"github.com/bitcoin-sv/block-headers-service/verifharness/gen"
	"github.com/bitcoin-sv/block-headers-service/verifharness/mb"
	"github.com/bitcoin-sv/block-headers-service/verifharness/p2prig"
	"github.com/bitcoin-sv/block-headers-service/verifharness/refmodel"
	"github.com/bitcoin-sv/block-headers-service/verifharness/rig"
	"github.com/bitcoin-sv/block-headers-service/verifharness/snap"
)

// Spec registers the check.
func Spec() ev.Spec {
	return ev.Spec{Prop: "C15", Level: "exploration", Workers: -1, Race: true, Body: body}
}

// ---- scenarios ------------------------------------------------------------------

type op struct {
	Add   *refmodel.Hdr
	IsTip bool
	IsLoc bool // build a block locator (tip, then one look-up per locator height: several repository calls)
}

type scenario struct {
	Name    string
	Initial []refmodel.Hdr
	Threads [][]op
}

type builder struct {
	n   int
	rng *rand.Rand
}

func (b *builder) mk(prev refmodel.Hash, bits uint32) refmodel.Hdr {
	b.n++
	h := refmodel.Hdr{Version: 0x20000000, Prev: prev, Bits: bits, Nonce: uint32(b.n), Time: 1231006505 + uint32(b.n)*600}
	for k := range h.Merkle {
		h.Merkle[k] = byte(b.n*7 + k)
	}
	return h
}

func add(h refmodel.Hdr) op { return op{Add: &h} }

func scenarios() []scenario {
	g := rig.Genesis().HashOf()
	b := &builder{}
	var out []scenario
	a := b.mk(g, gen.BitsNormal)
	bb := b.mk(a.HashOf(), gen.BitsNormal)
	// 1: both extend the tip
	out = append(out, scenario{"both-extend-tip", []refmodel.Hdr{a}, [][]op{{add(b.mk(a.HashOf(), gen.BitsNormal))}, {add(b.mk(a.HashOf(), gen.BitsNormal))}}})
	// 2: extend vs heavier fork
	out = append(out, scenario{"extend-vs-heavier-fork", []refmodel.Hdr{a, bb}, [][]op{{add(b.mk(bb.HashOf(), gen.BitsNormal))}, {add(b.mk(a.HashOf(), gen.BitsHeavy))}}})
	// 3: two forks that each trigger a reorganisation
	out = append(out, scenario{"two-reorg-forks", []refmodel.Hdr{a, bb}, [][]op{{add(b.mk(g, gen.BitsHeavy))}, {add(b.mk(a.HashOf(), gen.BitsHeavy))}}})
	// 4: same header twice
	same := b.mk(a.HashOf(), gen.BitsNormal)
	out = append(out, scenario{"same-header-twice", []refmodel.Hdr{a}, [][]op{{add(same)}, {add(same)}}})
	// 5: child and parent
	p := b.mk(a.HashOf(), gen.BitsNormal)
	c := b.mk(p.HashOf(), gen.BitsNormal)
	out = append(out, scenario{"child-and-parent", []refmodel.Hdr{a}, [][]op{{add(p)}, {add(c)}}})
	// 6: a two-header chain vs a heavy fork
	x1 := b.mk(bb.HashOf(), gen.BitsNormal)
	x2 := b.mk(x1.HashOf(), gen.BitsNormal)
	out = append(out, scenario{"chain-vs-heavy-fork", []refmodel.Hdr{a, bb}, [][]op{{add(x1), add(x2)}, {add(b.mk(a.HashOf(), gen.BitsHeavy))}}})
	// 7: stale branch growing into a reorganisation vs tip extension
	s1 := b.mk(a.HashOf(), gen.BitsNormal)
	s2 := b.mk(s1.HashOf(), gen.BitsNormal)
	out = append(out, scenario{"stale-overtakes-vs-extend", []refmodel.Hdr{a, bb, s1}, [][]op{{add(s2), add(b.mk(s2.HashOf(), gen.BitsNormal))}, {add(b.mk(bb.HashOf(), gen.BitsNormal))}}})
	// 8: reader during a reorganisation
	out = append(out, scenario{"reader-during-reorg", []refmodel.Hdr{a, bb}, [][]op{{add(b.mk(g, gen.BitsHeavy))}, {{IsTip: true}, {IsTip: true}, {IsTip: true}}}})
	// 9: reader during two concurrent extensions
	out = append(out, scenario{"reader-during-extensions", []refmodel.Hdr{a}, [][]op{{add(b.mk(a.HashOf(), gen.BitsNormal))}, {add(b.mk(a.HashOf(), gen.BitsNormal))}, {{IsTip: true}, {IsTip: true}}}})
	// 10: three submitters: two extensions and a heavy fork
	out = append(out, scenario{"three-submitters", []refmodel.Hdr{a, bb}, [][]op{{add(b.mk(bb.HashOf(), gen.BitsNormal))}, {add(b.mk(bb.HashOf(), gen.BitsLight))}, {add(b.mk(a.HashOf(), gen.BitsHeavy))}}})
	// 11: zero-work extension vs normal extension
	out = append(out, scenario{"zero-work-vs-extension", []refmodel.Hdr{a}, [][]op{{add(b.mk(a.HashOf(), gen.BitsZero))}, {add(b.mk(a.HashOf(), gen.BitsNormal))}}})
	// 13/14: a locator is built while a reorganisation / an extension is in progress
	l1 := b.mk(bb.HashOf(), gen.BitsNormal)
	out = append(out, scenario{"locator-during-reorg", []refmodel.Hdr{a, bb, l1}, [][]op{{add(b.mk(g, gen.BitsHeavy))}, {{IsLoc: true}}}})
	out = append(out, scenario{"locator-during-reorg-down", []refmodel.Hdr{a, bb, l1}, [][]op{{add(b.mk(a.HashOf(), gen.BitsHeavy))}, {{IsLoc: true}, {IsLoc: true}}}})
	// 15: a header on the forbidden list next to an ordinary extension (the refused submission must not hold anything back)
	out = append(out, scenario{"forbidden-vs-extension", []refmodel.Hdr{a}, [][]op{{add(mb.ForbiddenHeaders()[0]), add(mb.ForbiddenHeaders()[1])}, {add(b.mk(a.HashOf(), gen.BitsNormal)), {IsTip: true}}}})
	// 12: orphan and its would-be parent
	par := b.mk(a.HashOf(), gen.BitsNormal)
	out = append(out, scenario{"orphan-and-late-parent", []refmodel.Hdr{a}, [][]op{{add(b.mk(par.HashOf(), gen.BitsNormal))}, {add(par)}, {{IsTip: true}}}})
	return out
}

// ---- one controlled execution ---------------------------------------------------------

type event struct {
	client    int
	input     histIn
	call, ret int64
	output    histOut
}

type histIn struct {
	Kind string // add | tip | final
	Hdr  refmodel.Hdr
}

type histOut struct {
	Code  string
	State string
	Hash  string
	Table string // final: canonical labels
}

type execResult struct {
	decisions []Decision
	trace     []string
	events    []event
	viol      string // first invariant violation
	violSig   string
	err       error
}

func canonLabels(t snap.Headers) string {
	var ls []string
	for h, r := range t {
		ls = append(ls, h[len(h)-8:]+":"+r.State)
	}
	sort.Strings(ls)
	return strings.Join(ls, ",")
}

func modelLabels(m *refmodel.Model) string {
	var ls []string
	for _, n := range m.Order {
		h := n.Hash.String()
		ls = append(ls, h[len(h)-8:]+":"+n.State)
	}
	sort.Strings(ls)
	return strings.Join(ls, ",")
}

type env struct {
	r     *ev.Run
	st    *rig.Stack
	sched *Sched // current scheduler (swapped per execution)
}

func (e *env) execute(sc scenario, choose func(i int, enabled []int, last int) int) execResult {
	var res execResult
	if err := e.st.Reset(); err != nil {
		res.err = err
		return res
	}
	for _, h := range sc.Initial {
		if r := e.st.Add(h); r.Err != nil || r.Panic != nil {
			res.err = fmt.Errorf("initial history failed: %v %v", r.Err, r.Panic)
			return res
		}
	}
	s := NewSched()
	e.sched = s
	var clock int64
	evs := make([][]event, len(sc.Threads))
	lastTip := make([]string, len(sc.Threads))
	var locBad atomic.Value
	for ti, ops := range sc.Threads {
		ti, ops := ti, ops
		s.Go(fmt.Sprintf("T%d", ti), func() {
			for _, o := range ops {
				ev := event{client: ti, call: atomic.AddInt64(&clock, 1)}
				if o.IsLoc {
					ev.input = histIn{Kind: "tip"} // a read: left out of the linearizability history like GetTip
					func() {
						defer func() {
							if p := recover(); p != nil {
								locBad.CompareAndSwap(nil, fmt.Sprintf("LatestHeaderLocator panicked: %v", p))
							}
						}()
						for i, h := range e.st.Svc.Headers.LatestHeaderLocator() {
							if h == nil {
								locBad.CompareAndSwap(nil, fmt.Sprintf("locator entry %d is nil", i))
							}
						}
					}()
					e.r.Count("locators_built_under_the_scheduler", 1)
				} else if o.IsTip {
					ev.input = histIn{Kind: "tip"}
					tip := e.st.Svc.Headers.GetTip()
					if tip != nil {
						ev.output.Hash = tip.Hash.String()
					}
					lastTip[ti] = ev.output.Hash
				} else {
					ev.input = histIn{Kind: "add", Hdr: *o.Add}
					r := e.st.Add(*o.Add)
					ev.output.Code = r.Code()
					if r.Header != nil && r.Err == nil {
						ev.output.State = string(r.Header.State)
					}
				}
				ev.ret = atomic.AddInt64(&clock, 1)
				evs[ti] = append(evs[ti], ev)
			}
		})
	}
	isReader := func(t int) bool { return len(sc.Threads[t]) > 0 && sc.Threads[t][0].IsTip }
	decisions, err := s.Run(choose, func(step int, t int, opName string) {
		if res.viol != "" {
			return
		}
		tb, err := snap.TakeHeaders(e.st.DB)
		if err != nil {
			res.viol, res.violSig = "snapshot failed: "+err.Error(), "harness|snapshot"
			return
		}
		e.r.Count("invariant_evaluations", 1)
		if bad := tb.IChain(); bad != "" {
			kind := "gap"
			if strings.Contains(bad, "LONGEST_CHAIN rows at height") {
				kind = "two-longest-at-one-height"
			} else if strings.Contains(bad, "parent-linked") {
				kind = "not-parent-linked"
			}
			res.viol = fmt.Sprintf("after step %d (T%d %s): %s", step, t, opName, bad)
			res.violSig = "ichain|" + sc.Name + "|" + kind
			return
		}
		if isReader(t) && opName == "GetTip" && lastTip[t] != "" {
			e.r.Count("reader_observations", 1)
			if row, ok := tb[lastTip[t]]; !ok || row.State != "LONGEST_CHAIN" {
				st := "absent"
				if ok {
					st = row.State
				}
				res.viol = fmt.Sprintf("reader T%d observed tip %s which is %s in the table at that moment", t, lastTip[t], st)
				res.violSig = "reader-tip-not-longest|" + sc.Name
			}
		}
	})
	res.decisions, res.trace, res.err = decisions, s.Trace(), err
	e.sched = nil
	if b := locBad.Load(); b != nil && res.viol == "" {
		res.viol, res.violSig = "a reader building a block locator during this schedule: "+b.(string), "reader-locator|"+sc.Name
	}
	if err != nil {
		return res
	}
	for _, l := range evs {
		res.events = append(res.events, l...)
	}
	// final observation
	tb, terr := snap.TakeHeaders(e.st.DB)
	if terr == nil {
		c := atomic.AddInt64(&clock, 1)
		res.events = append(res.events, event{client: len(sc.Threads), input: histIn{Kind: "final"}, call: c, ret: atomic.AddInt64(&clock, 1), output: histOut{Table: canonLabels(tb)}})
	}
	return res
}

// ---- porcupine model -------------------------------------------------------------------

type pstate struct {
	m   *refmodel.Model
	key string
}

func newPState(m *refmodel.Model) pstate { return pstate{m: m, key: modelLabels(m)} }

func porcModel(initial *refmodel.Model) porcupine.Model {
	return porcupine.Model{
		Init: func() interface{} { return newPState(initial) },
		Step: func(state, input, output interface{}) (bool, interface{}) {
			s := state.(pstate)
			in := input.(histIn)
			out := output.(histOut)
			switch in.Kind {
			case "tip":
				return out.Hash == s.m.Best().Hash.String(), s
			case "final":
				return out.Table == s.key, s
			default:
				c := s.m.Clone()
				outcome, node, _ := c.Submit(in.Hdr)
				if out.Code != mb.WantCode(outcome) {
					return false, s
				}
				if outcome == refmodel.Stored && out.State != node.State {
					return false, s
				}
				return true, newPState(c)
			}
		},
		Equal: func(a, b interface{}) bool { return a.(pstate).key == b.(pstate).key },
		DescribeOperation: func(input, output interface{}) string {
			in := input.(histIn)
			out := output.(histOut)
			switch in.Kind {
			case "tip":
				return "GetTip -> " + short(out.Hash)
			case "final":
				return "final table " + out.Table
			}
			return fmt.Sprintf("Add(%s) -> %s %s", short(in.Hdr.HashOf().String()), out.Code, out.State)
		},
	}
}

func short(h string) string {
	if len(h) > 8 {
		return h[len(h)-8:]
	}
	return h
}

func (e *env) linearizable(sc scenario, res execResult) (porcupine.CheckResult, []string) {
	m := mb.NewModel()
	for _, h := range sc.Initial {
		m.Submit(h)
	}
	var ops []porcupine.Operation
	var desc []string
	for _, ev := range res.events {
		if ev.input.Kind == "tip" {
			// reads are judged by the per-step monitor ("a longest-chain header of a structurally valid chain");
			// the statement's serial-outcome clause is about the submissions and the final store
			continue
		}
		ops = append(ops, porcupine.Operation{ClientId: ev.client, Input: ev.input, Call: ev.call, Output: ev.output, Return: ev.ret})
	}
	pm := porcModel(m)
	sort.Slice(res.events, func(i, j int) bool { return res.events[i].call < res.events[j].call })
	for _, ev := range res.events {
		desc = append(desc, fmt.Sprintf("[%d..%d] client %d: %s", ev.call, ev.ret, ev.client, pm.DescribeOperation(ev.input, ev.output)))
	}
	r, _ := porcupine.CheckOperationsVerbose(pm, ops, 2*time.Minute)
	return r, desc
}

// ---- exploration ---------------------------------------------------------------------------

func preemptions(ds []Decision) int {
	n := 0
	last := -1
	for _, d := range ds {
		if last >= 0 && d.Chosen != last {
			for _, e := range d.Enabled {
				if e == last {
					n++
				}
			}
		}
		last = d.Chosen
	}
	return n
}

func (e *env) judge(sc scenario, caseID string, res execResult, sched []int) bool {
	r := e.r
	detail := map[string]any{"scenario": sc.Name, "schedule_choices": sched, "granted_steps": res.trace}
	if res.err != nil {
		if res.err == ErrWatchdog {
			r.Inconclusive(caseID, "scheduler watchdog fired")
			return true
		}
		r.Violate("scheduler|"+sc.Name+"|"+strings.SplitN(res.err.Error(), ":", 2)[0], res.err.Error(), caseID, detail)
		return false
	}
	r.Count("schedules_executed", 1)
	r.Count("granted_steps", int64(len(res.trace)))
	r.Distinct(sc.Name + "|" + strings.Join(res.trace, ","))
	if res.viol != "" {
		r.Violate(res.violSig, res.viol, caseID, detail)
		return false
	}
	cr, desc := e.linearizable(sc, res)
	switch cr {
	case porcupine.Unknown:
		r.Inconclusive(caseID, "porcupine timed out")
	case porcupine.Illegal:
		detail["history"] = desc
		r.Violate("not-linearizable|"+sc.Name, "the recorded Add/GetTip history with its final table is not the outcome of any sequential order: "+strings.Join(desc, " ; "), caseID, detail)
		return false
	default:
		r.Count("histories_linearizable", 1)
	}
	return true
}

// exploreDFS enumerates schedules depth first. The tree is split between nShards cases (worker processes): every shard
// executes the root schedule and keeps the sub-trees of the root's alternatives whose index is congruent to its number.
func (e *env) exploreDFS(sc scenario, caseID string, maxPreempt int, maxRuns int, shard, nShards int) {
	type node struct{ prefix []int }
	stack := []node{{}}
	runs := 0
	for len(stack) > 0 && runs < maxRuns {
		nd := stack[len(stack)-1]
		stack = stack[:len(stack)-1]
		choose := func(i int, enabled []int, last int) int {
			if i < len(nd.prefix) {
				return nd.prefix[i]
			}
			for _, en := range enabled {
				if en == last {
					return last
				}
			}
			return enabled[0]
		}
		res := e.execute(sc, choose)
		runs++
		e.r.Cases(1)
		var chosen []int
		for _, d := range res.decisions {
			chosen = append(chosen, d.Chosen)
		}
		if !e.judge(sc, fmt.Sprintf("%s/%d", caseID, runs), res, chosen) {
			return
		}
		if e.r.WantSample() && runs == 3 {
			e.r.Sample(map[string]any{"scenario": sc.Name, "schedule": res.trace})
		}
		// children: alternatives at decisions beyond the prefix
		for i := len(res.decisions) - 1; i >= len(nd.prefix); i-- {
			for _, alt := range res.decisions[i].Enabled {
				if alt == res.decisions[i].Chosen {
					continue
				}
				np := append(append([]int(nil), chosen[:i]...), alt)
				// preemption bound on the prefix
				pd := append([]Decision(nil), res.decisions[:i]...)
				pd = append(pd, Decision{Enabled: res.decisions[i].Enabled, Chosen: alt})
				if preemptions(pd) > maxPreempt {
					continue
				}
				stack = append(stack, node{prefix: np})
			}
		}
		if runs == 1 && nShards > 1 {
			kept := stack[:0]
			for i, c := range stack {
				if i%nShards == shard {
					kept = append(kept, c)
				}
			}
			stack = kept
		}
	}
	e.r.Count("dfs_runs_"+sc.Name, int64(runs))
	if len(stack) == 0 {
		e.r.Count("dfs_shards_fully_enumerated_within_bound", 1)
	} else {
		e.r.Count("dfs_shards_cut_off_by_the_run_budget", 1)
	}
}

func (e *env) exploreRandom(sc scenario, caseID string, n int) {
	for i := 0; i < n; i++ {
		id := fmt.Sprintf("%s/r%d", caseID, i)
		rng := e.r.Rand(id)
		var chosen []int
		choose := func(_ int, enabled []int, _ int) int {
			c := enabled[rng.Intn(len(enabled))]
			chosen = append(chosen, c)
			return c
		}
		res := e.execute(sc, choose)
		e.r.Cases(1)
		if !e.judge(sc, id, res, chosen) {
			return
		}
	}
}

// ---- free-running monitor --------------------------------------------------------------------

func freeRunning(r *ev.Run, i int) *p2prig.Scenario {
	rng := r.Rand(fmt.Sprintf("free/%d", i))
	s := &p2prig.Scenario{ID: fmt.Sprintf("free/%d", i), Seed: rng.Int63(), Readers: 3, InitialStore: "genesis"}
	if i%3 == 2 {
		s.Engine = "exp"
		s.HonestLen = 150 + rng.Intn(300)
		s.CheckpointHeights = []int32{int32(10 + rng.Intn(100))}
		// outbound and inbound peer delivering competing branches at once
		s.Nodes = []p2prig.NodeSpec{{Kind: "honest"}, {Kind: "forker", ForkAt: 120 + rng.Intn(20), ForkLen: 3 + rng.Intn(5), Inbound: true}}
		s.Announce = []p2prig.AnnounceSpec{{Blocks: 2, Mode: "conformant"}}
		return s
	}
	if i%5 == 1 {
		// many peers at once: eight hosts (the service's time source starts adjusting its offset with the fifth sample, one
		// sample per host) connect while the service, whose store is already past its last checkpoint, keeps asking whether
		// its chain is current (every inv, every barrier of this harness)
		s.Engine = "legacy"
		s.HonestLen = 150 + rng.Intn(200)
		s.CheckpointHeights = []int32{int32(10 + rng.Intn(20))}
		s.InitialStore, s.PrefixLen = "prefix", 40+rng.Intn(60)
		s.Nodes = []p2prig.NodeSpec{{Kind: "honest"}}
		for k := 0; k < 6; k++ {
			s.Nodes = append(s.Nodes, p2prig.NodeSpec{Kind: "laggard", Lag: 1 + k, MaxLive: 1})
		}
		s.Nodes = append(s.Nodes, p2prig.NodeSpec{Kind: "laggard", Lag: 2, Inbound: true})
		s.Announce = []p2prig.AnnounceSpec{{Blocks: 1, Mode: "inv", Nodes: []int{0, 1}}, {Blocks: 2, Mode: "headers"}, {Blocks: 1, Mode: "conformant", Nodes: []int{0, 3}}}
		return s
	}
	s.Engine = "legacy"
	s.HonestLen = 200 + rng.Intn(600)
	s.CheckpointHeights = []int32{int32(20 + rng.Intn(100))}
	// (the other nodes accept two connections each: with eight outbound slots and no limit they can take them all, and the
	// service would never be connected to the honest peer - seen as an inconclusive scenario in about one run in four)
	s.Nodes = []p2prig.NodeSpec{{Kind: "honest", DisconnectAtMsg: 4 + rng.Intn(5)}, {Kind: "laggard", Lag: 1 + rng.Intn(5), MaxLive: 2}, {Kind: "forker", ForkAt: 150 + rng.Intn(20), ForkLen: 2 + rng.Intn(6), MaxLive: 2}, {Kind: "laggard", Lag: 2, Inbound: true}}
	s.WaitReconnect = true
	s.Announce = []p2prig.AnnounceSpec{{Blocks: 1, Mode: "inv", Nodes: []int{0, 1}}, {Blocks: 2, Mode: "headers"}, {Blocks: 1, Mode: "conformant", Nodes: []int{0, 3}},
		// the peer on the losing branch announces its own tip: the service fetches that branch (new headers, all stale)
		{Blocks: 0, Mode: "inv", Nodes: []int{2}}, {Blocks: 1, Mode: "conformant", Nodes: []int{0, 2}},
		// the honest peer announces, by inv, a block the service already has (twice), then a new one
		{Blocks: 0, Mode: "inv", Nodes: []int{0}}, {Blocks: 0, Mode: "inv", Nodes: []int{0, 1}}, {Blocks: 1, Mode: "inv", Nodes: []int{0}}}
	return s
}

func body(r *ev.Run) {
	r.Rule("(1) free-running: legacy full server / experimental peers against 2-4 scripted nodes that connect, announce (inv and headers, two peers at once), drop and get re-dialled, an inbound peer (every fifth scenario: eight hosts connecting at once to a service whose store is past its last checkpoint), and 3 concurrent HTTP readers on /network/peer, /network/peer/count, tips and headers; built with -race (thorough: 3 scenarios in which the peer synced from goes quiet for 135 s, so that the sync manager's 30-second sync-peer check judges it, drops it with no other candidate connected, and it is dialled again), every report attributed by innermost repository functions. (2) controlled scheduler at the repository interface: 15 scenarios of 2-3 submitters/readers (both extend the tip; extend vs heavier fork; two reorganising forks; same header twice; child and parent; chain vs fork; stale branch overtaking; readers (tip, block locator) during reorganisation/extensions; zero-work; orphan and late parent; forbidden headers next to an extension), depth-first enumeration of all schedules within a pre-emption bound for two-thread scenarios, seeded random schedules otherwise; after EVERY granted step, with the world stopped, the table must satisfy the structural invariant and a reader's tip must be a LONGEST row. (4) free-running reorganisation storms: one submitter flips the best chain between a tall light branch and a lower heavier one while 6 readers ask for the tip (HTTP and service layer) as fast as they can - every read must name a stored header, and the submitter (the only writer) reads the tip back after each of its submissions has returned: it must be that submission's outcome; a submission that comes out differently from the model is replayed with no reader active - if it then agrees, the readers changed the outcome. and reorganisations over exactly 500 and 1000 heights (thorough: 499..2001) with readers, after which the table must be one chain labelled as the model says. (5) thousands of peers each disconnected by six goroutines at the same moment (nobody may panic). (3) every execution's Add/GetTip history plus the final table is checked for linearizability against the reference model with porcupine. evaluations = controlled executions + free-running scenarios; distinct = distinct granted-step sequences; non-trivial = all.")
	r.Assume("scheduling granularity = calls of repository.Headers (each one SQL statement/transaction)", "a thread blocked on a Go mutex is treated as disabled (goroutine status from runtime.Stack)", "free-running schedules are whatever the real goroutines/sockets produce under load")
	r.Require("schedules_executed", 200)
	r.Require("invariant_evaluations", 1000)
	r.Require("histories_linearizable", 100)
	r.Require("storm_reorganisations_to_a_lower_height", 100)
	r.Require("storm_tip_reads", 1000)
	mb.ForbiddenHeaders()
	var e *env
	hooks := &deco.Hooks{Before: func(op string, write bool, arg string) error {
		if e != nil && e.sched != nil {
			e.sched.Yield(op)
		}
		return nil
	}}
	st, err := rig.New(rig.Options{Dir: r.Scratch, NoHTTP: true, WrapHeaders: deco.Wrap(hooks)})
	if err != nil {
		r.Violate("harness|rig", err.Error(), "", nil)
		return
	}
	defer st.Destroy()
	e = &env{r: r, st: st}
	// (2)+(3)
	for si, sc := range scenarios() {
		sc := sc
		nShards := r.Pick(2, 8)
		for sh := 0; sh < nShards; sh++ {
			sh := sh
			caseID := fmt.Sprintf("sched/%s/shard%d", sc.Name, sh)
			r.Do(caseID, func() {
				if len(sc.Threads) == 2 {
					e.exploreDFS(sc, caseID, r.Pick(2, 6), r.Pick(400, 24000)/nShards, sh, nShards)
				} else {
					e.exploreDFS(sc, caseID, 1, r.Pick(150, 3000)/nShards, sh, nShards)
					e.exploreRandom(sc, caseID, r.Pick(150, 8000)/nShards)
				}
			})
		}
		_ = si
	}
	// (4) free-running reorganisation storms with tip readers
	for i := 0; i < r.Pick(4, 32); i++ {
		caseID := fmt.Sprintf("storm/%d", i)
		r.Do(caseID, func() { reorgStorm(r, caseID) })
	}
	depths := []int{500, 1000}
	if r.Thorough() {
		depths = []int{499, 500, 501, 1000, 1500, 2000, 2001}
	}
	for _, d := range depths {
		caseID := fmt.Sprintf("deep/%d", d)
		r.Do(caseID, func() { deepStorm(r, caseID, d) })
	}
	r.Do("disconnect-storm", func() { disconnectStorm(r, "disconnect-storm") })
	// (1)
	n := r.Pick(10, 150)
	for i := 0; i < n; i++ {
		caseID := fmt.Sprintf("free/%d", i)
		r.Do(caseID, func() {
			s := freeRunning(r, i)
			// every other scenario has a registered webhook whose target refuses connections: a failed delivery is an
			// error to log, nothing more
			s.DeadWebhook = i%2 == 0
			if r.Thorough() && i%50 == 7 {
				// peer churn driven by the sync manager's own timer: the peer it synced from reported, at the handshake, fewer
				// blocks than it has now; after the sync it goes quiet, the periodic check judges it after three ticks and drops
				// it while no other peer is a candidate (all report a height below the store's), and it is dialled again
				s.Engine = "legacy"
				s.HonestLen = 40 + (i/50)*13
				s.CheckpointHeights = []int32{10}
				s.Nodes = []p2prig.NodeSpec{{Kind: "honest", VersionLag: 5 + i/50}}
				s.WaitReconnect, s.Churn = false, false
				s.IdleSec = 135
				s.Announce = []p2prig.AnnounceSpec{{Blocks: 1, Mode: "conformant"}}
				r.Count("free_running_scenarios_with_a_sync_peer_check_after_an_idle_period", 1)
			}
			res, crash := p2prig.RunScenarioChild(r.Scratch, s, time.Duration(200+s.IdleSec)*time.Second)
			c06.Record(r, s, res, crash, func(sig string) bool {
				return strings.HasPrefix(sig, "panic") || strings.HasPrefix(sig, "reader-5xx|") || strings.HasPrefix(sig, "ichain|") || strings.HasPrefix(sig, "hang|")
			})
			r.Cases(1)
			r.Count("free_running_scenarios", 1)
		})
	}
}
