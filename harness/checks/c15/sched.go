package c15

import (
	"bytes"
	"fmt"
	"runtime"
	"strconv"
	"strings"
	"sync"
	"time"
)

// Sched is a controlled scheduler: worker goroutines park at every repository call and
// run only when granted. Between two grants the world is stopped.
type Sched struct {
	mu      sync.Mutex
	threads []*thread
	byGoid  map[int64]*thread
	trace   []string // granted steps "T<id>:<op>"
	steps   int
}

type thread struct {
	id       int
	goid     int64
	name     string
	parked   bool
	finished bool
	blocked  bool // blocked on a Go sync primitive (e.g. a mutex held by another thread)
	op       string
	grant    chan struct{}
	fn       func()
}

func goid() int64 {
	var buf [64]byte
	n := runtime.Stack(buf[:], false)
	// "goroutine 123 [running]:"
	f := bytes.Fields(buf[:n])
	if len(f) < 2 {
		return -1
	}
	id, _ := strconv.ParseInt(string(f[1]), 10, 64)
	return id
}

// NewSched creates a scheduler.
func NewSched() *Sched { return &Sched{byGoid: map[int64]*thread{}} }

// Go registers a worker; it starts parked at a virtual "start" point.
func (s *Sched) Go(name string, fn func()) {
	t := &thread{id: len(s.threads), name: name, grant: make(chan struct{}), fn: fn}
	s.threads = append(s.threads, t)
}

// Yield is called from the repository decorator (Before hook) by worker goroutines.
// Calls from unregistered goroutines pass through.
func (s *Sched) Yield(op string) {
	g := goid()
	s.mu.Lock()
	t := s.byGoid[g]
	if t == nil {
		s.mu.Unlock()
		return
	}
	t.parked, t.op = true, op
	s.mu.Unlock()
	<-t.grant
}

func (s *Sched) start() {
	for _, t := range s.threads {
		t := t
		ready := make(chan struct{})
		go func() {
			s.mu.Lock()
			t.goid = goid()
			s.byGoid[t.goid] = t
			t.parked, t.op = true, "start"
			s.mu.Unlock()
			close(ready)
			<-t.grant
			t.fn()
			s.mu.Lock()
			t.finished, t.parked = true, false
			s.mu.Unlock()
		}()
		<-ready
	}
}

// statuses of our goroutines from a full stack dump: goid -> status text.
func goroutineStatuses() map[int64]string {
	buf := make([]byte, 1<<20)
	n := runtime.Stack(buf, true)
	out := map[int64]string{}
	for _, blk := range strings.Split(string(buf[:n]), "\n\n") {
		if !strings.HasPrefix(blk, "goroutine ") {
			continue
		}
		line := blk[:strings.IndexByte(blk+"\n", '\n')]
		f := strings.Fields(line)
		if len(f) < 3 {
			continue
		}
		id, _ := strconv.ParseInt(f[1], 10, 64)
		st := line[strings.IndexByte(line, '[')+1:]
		st = strings.TrimSuffix(strings.TrimSuffix(st, ":"), "]")
		out[id] = st
	}
	return out
}

// settle waits until the running thread t has parked again, finished, or is blocked on a
// sync primitive. Returns false on watchdog.
func (s *Sched) settle(t *thread) bool {
	deadline := time.Now().Add(30 * time.Second)
	spins := 0
	for {
		s.mu.Lock()
		done := t.parked || t.finished
		s.mu.Unlock()
		if done {
			return true
		}
		spins++
		if spins < 200 {
			runtime.Gosched()
			continue
		}
		time.Sleep(50 * time.Microsecond)
		if spins%40 == 0 {
			st := goroutineStatuses()[t.goid]
			if strings.HasPrefix(st, "sync.Mutex.Lock") || strings.HasPrefix(st, "semacquire") || strings.HasPrefix(st, "sync.RWMutex") {
				// confirm twice to avoid a transient reading
				time.Sleep(200 * time.Microsecond)
				st2 := goroutineStatuses()[t.goid]
				s.mu.Lock()
				stillRunning := !t.parked && !t.finished
				s.mu.Unlock()
				if stillRunning && st2 == st {
					s.mu.Lock()
					t.blocked = true
					s.mu.Unlock()
					return true
				}
			}
		}
		if time.Now().After(deadline) {
			return false
		}
	}
}

// Decision is one scheduling decision point.
type Decision struct {
	Enabled []int // ids of enabled threads
	Chosen  int
}

// ErrWatchdog means a thread neither parked nor finished nor blocked within the watchdog.
var ErrWatchdog = fmt.Errorf("scheduler watchdog fired")

// Run executes all threads under the given choice function. choose gets the decision index,
// the enabled thread ids (sorted) and the id of the thread that ran last (-1 at start) and
// returns the id to run. afterStep is called with the world stopped after every granted step.
func (s *Sched) Run(choose func(i int, enabled []int, last int) int, afterStep func(step int, t int, op string)) ([]Decision, error) {
	s.start()
	var decisions []Decision
	last := -1
	for {
		s.mu.Lock()
		var enabled []int
		live := 0
		for _, t := range s.threads {
			if t.finished {
				continue
			}
			live++
			if t.parked && !t.blocked {
				enabled = append(enabled, t.id)
			}
		}
		s.mu.Unlock()
		if live == 0 {
			return decisions, nil
		}
		if len(enabled) == 0 {
			// every live thread is blocked on a primitive: re-probe the blocked ones (the holder may have released)
			progressed := false
			for _, t := range s.threads {
				s.mu.Lock()
				b := t.blocked && !t.finished
				s.mu.Unlock()
				if b {
					s.mu.Lock()
					t.blocked = false
					s.mu.Unlock()
					if !s.settle(t) {
						return decisions, ErrWatchdog
					}
					s.mu.Lock()
					if t.parked || t.finished {
						progressed = true
					}
					s.mu.Unlock()
				}
			}
			if !progressed {
				return decisions, fmt.Errorf("deadlock: all live threads blocked")
			}
			continue
		}
		c := choose(len(decisions), enabled, last)
		ok := false
		for _, e := range enabled {
			if e == c {
				ok = true
			}
		}
		if !ok {
			c = enabled[0]
		}
		decisions = append(decisions, Decision{Enabled: enabled, Chosen: c})
		t := s.threads[c]
		s.mu.Lock()
		op := t.op
		t.parked = false
		s.trace = append(s.trace, fmt.Sprintf("T%d:%s", t.id, op))
		s.steps++
		step := s.steps
		s.mu.Unlock()
		t.grant <- struct{}{}
		if !s.settle(t) {
			return decisions, ErrWatchdog
		}
		// a thread that released a mutex may have unblocked others: let blocked ones settle too
		for _, o := range s.threads {
			s.mu.Lock()
			b := o.blocked && !o.finished && o != t
			s.mu.Unlock()
			if b {
				s.mu.Lock()
				o.blocked = false
				s.mu.Unlock()
				if !s.settle(o) {
					return decisions, ErrWatchdog
				}
			}
		}
		if afterStep != nil {
			afterStep(step, t.id, op)
		}
		last = c
	}
}

// Trace returns the granted steps.
func (s *Sched) Trace() []string {
	s.mu.Lock()
	defer s.mu.Unlock()
	return append([]string(nil), s.trace...)
}

// Step returns the current logical step counter.
func (s *Sched) Step() int { s.mu.Lock(); defer s.mu.Unlock(); return s.steps }
