package c15

import (
	"fmt"
	"sync"
	"sync/atomic"

	"github.com/bitcoin-sv/block-headers-service/internal/chaincfg"
	"github.com/bitcoin-sv/block-headers-service/transports/p2p/peer"
	"github.com/bitcoin-sv/block-headers-service/verifharness/ev"
	"github.com/rs/zerolog"
)

// disconnectStorm: a peer is dropped by several parties at the same moment (the sync manager dropping a misbehaving peer,
// the peer's own handlers reacting to the remote end going away, the server shutting down): the process survives, whoever
// comes first.
func disconnectStorm(r *ev.Run, caseID string) {
	log := zerolog.Nop()
	n := r.Pick(4000, 40000)
	var panics atomic.Int64
	var first atomic.Value
	for i := 0; i < n && panics.Load() == 0; i++ {
		p, err := peer.NewOutboundPeer(&peer.Config{ChainParams: &chaincfg.MainNetParams, Log: &log}, fmt.Sprintf("50.7.%d.%d:8333", (i/250)%250, 1+i%250))
		if err != nil {
			r.Violate("harness|peer", err.Error(), caseID, nil)
			return
		}
		var wg sync.WaitGroup
		start := make(chan struct{})
		for g := 0; g < 6; g++ {
			wg.Add(1)
			go func() {
				defer wg.Done()
				defer func() {
					if x := recover(); x != nil {
						panics.Add(1)
						first.CompareAndSwap(nil, fmt.Sprint(x))
					}
				}()
				<-start
				p.Disconnect()
			}()
		}
		close(start)
		wg.Wait()
		r.Count("peers_disconnected_by_six_goroutines_at_once", 1)
	}
	if panics.Load() > 0 {
		r.Violate("panic|Peer.Disconnect|concurrent", fmt.Sprintf("six goroutines disconnected one peer at the same moment and %d of them panicked: %v (in the service this ends the process)", panics.Load(), first.Load()), caseID, nil)
		return
	}
	r.Cases(1)
	r.Distinct("disconnect-storm")
}
