package c15

import (
	"encoding/json"
	"fmt"
	"sync"
	"sync/atomic"

	"github.com/bitcoin-sv/block-headers-service/verifharness/ev"
	"github.com/bitcoin-sv/block-headers-service/verifharness/gen"
	"github.com/bitcoin-sv/block-headers-service/verifharness/mb"
	"github.com/bitcoin-sv/block-headers-service/verifharness/refmodel"
	"github.com/bitcoin-sv/block-headers-service/verifharness/rig"
	"github.com/bitcoin-sv/block-headers-service/verifharness/snap"
)

// reorgStorm: one submitter keeps the best chain flipping between a tall branch of light headers and a lower branch of
// heavier ones (every second reorganisation goes DOWN in height), free-running, while readers ask for the tip through
// the HTTP API and the service layer as fast as they can. One reader builds block locators. A reader must always be told a tip: a stored header of one of
// the two branches (or the fork point, in the middle of a reorganisation). Statement-level interleavings inside one
// repository call are out of the controlled scheduler's reach; this workload reaches them by volume, under -race.
func reorgStorm(r *ev.Run, caseID string) {
	rng := r.Rand(caseID)
	st, err := rig.New(rig.Options{Dir: r.Scratch, Name: "c15-storm.db"})
	if err != nil {
		r.Violate("harness|rig", err.Error(), caseID, nil)
		return
	}
	defer st.Destroy()
	m := mb.NewModel()
	counter := 0
	mk := func(prev refmodel.Hash, bits uint32) refmodel.Hdr {
		counter++
		h := refmodel.Hdr{Prev: prev, Bits: bits}
		gen.Fields(rng, &h, false, counter)
		return h
	}
	known := map[string]bool{m.Genesis.Hash.String(): true}
	prev := m.Genesis.Hash
	var submitted []refmodel.Hdr // everything handed to Chains.Add, in order (for the replay without readers)
	for i := 0; i < 2+rng.Intn(4); i++ {
		h := mk(prev, gen.BitsNormal)
		submitted = append(submitted, h)
		mb.Step(st, m, h)
		known[h.HashOf().String()] = true
		prev = h.HashOf()
	}
	// the two branches, generated up front so that the readers' set of known hashes is read-only while they run
	nFlips := r.Pick(120, 800)
	var light, heavy []refmodel.Hdr
	lp, hp := prev, prev
	for i := 0; i < 3*nFlips+8; i++ {
		h := mk(lp, gen.BitsLight)
		light = append(light, h)
		lp = h.HashOf()
		known[lp.String()] = true
	}
	for i := 0; i < 2*nFlips+8; i++ {
		h := mk(hp, gen.BitsNormal)
		heavy = append(heavy, h)
		hp = h.HashOf()
		known[hp.String()] = true
	}
	var stop atomic.Bool
	var reads, nilTips, bad5xx, unknown, panics atomic.Int64
	var firstBad atomic.Value
	var wg sync.WaitGroup
	for g := 0; g < 6; g++ {
		g := g
		wg.Add(1)
		go func() {
			defer wg.Done()
			for !stop.Load() {
				reads.Add(1)
				if g == 5 {
					// the block locator (what the sync engines send to peers) is read the same way
					func() {
						defer func() {
							if p := recover(); p != nil {
								panics.Add(1)
								firstBad.CompareAndSwap(nil, fmt.Sprintf("Headers.LatestHeaderLocator() panicked: %v", p))
							}
						}()
						for _, h := range st.Svc.Headers.LatestHeaderLocator() {
							if h == nil || !known[h.String()] {
								unknown.Add(1)
								firstBad.CompareAndSwap(nil, fmt.Sprintf("Headers.LatestHeaderLocator() holds %v", h))
							}
						}
					}()
					continue
				}
				if g%2 == 0 {
					w := st.GET("/api/v1/chain/tip/longest")
					if w.Code != 200 {
						bad5xx.Add(1)
						firstBad.CompareAndSwap(nil, fmt.Sprintf("GET /api/v1/chain/tip/longest -> %d %s", w.Code, w.Body.String()))
						continue
					}
					var sj mb.StateJSON
					if err := json.Unmarshal(w.Body.Bytes(), &sj); err != nil || !known[sj.Header.Hash] {
						unknown.Add(1)
						firstBad.CompareAndSwap(nil, "GET /api/v1/chain/tip/longest -> "+w.Body.String())
					}
					continue
				}
				t := st.Svc.Headers.GetTip()
				if t == nil {
					nilTips.Add(1)
					firstBad.CompareAndSwap(nil, "Headers.GetTip() returned nil")
				} else if !known[t.Hash.String()] {
					unknown.Add(1)
					firstBad.CompareAndSwap(nil, "Headers.GetTip() returned "+t.Hash.String())
				}
			}
		}()
	}
	li, hi, flips, down := 0, 0, 0, 0
	diverged := false
	failedCode := ""
	staleAfter, tipChecks, staleWhat := 0, 0, ""
	for flips < nFlips && li < len(light) && hi < len(heavy) && !diverged {
		onLight := li > 0 && refmodel.IsAncestor(m.Nodes[light[0].HashOf()], m.Best())
		var h refmodel.Hdr
		if onLight {
			h = heavy[hi]
			hi++
		} else {
			h = light[li]
			li++
		}
		if (li+hi)%40 == 39 {
			// now and then a peer delivers a header on the forbidden list: refused, and nothing else is held back
			fb := mb.ForbiddenHeaders()[(li+hi)/40%2]
			submitted = append(submitted, fb)
			if si := mb.Step(st, m, fb); si.Res.Panic != nil || si.Res.Code() != mb.WantCode(si.Outcome) {
				diverged = true
				break
			}
		}
		before := m.Best()
		submitted = append(submitted, h)
		si := mb.Step(st, m, h)
		if si.Res.Panic != nil || si.Res.Code() != mb.WantCode(si.Outcome) {
			diverged = true
			if c := si.Res.Code(); si.Res.Panic != nil || c == "HeaderSaveFail" || c == "ChainUpdateFail" || c == "HeaderCreationFail" {
				failedCode = c
				if si.Res.Panic != nil {
					failedCode = "panic"
				}
				firstBad.CompareAndSwap(nil, fmt.Sprintf("Chains.Add: %v %v", si.Res.Err, si.Res.Panic))
			}
		}
		if !diverged {
			// the submitter is the only writer: once Add has returned, the tip IS the outcome of that submission - whatever
			// the readers asked for while it was being written
			tipChecks++
			if t := st.Svc.Headers.GetTip(); t == nil || refmodel.Hash(t.Hash) != m.Best().Hash {
				staleAfter++
				if staleWhat == "" {
					got := "<nil>"
					if t != nil {
						got = fmt.Sprintf("%s (height %d)", t.Hash.String(), t.Height)
					}
					staleWhat = fmt.Sprintf("after submission #%d had returned, Headers.GetTip() answered %s; the tip is %s (height %d)", len(submitted), got, m.Best().Hash.String(), m.Best().Height)
				}
			}
		}
		if si.Reorg {
			flips++
			if m.Best().Height < before.Height {
				down++
			}
		}
	}
	stop.Store(true)
	wg.Wait()
	r.Count("storm_reorganisations", int64(flips))
	r.Count("storm_reorganisations_to_a_lower_height", int64(down))
	r.Count("storm_tip_reads", reads.Load())
	r.Count("storm_tip_checks_by_the_submitter", int64(tipChecks))
	detail := map[string]any{"reorganisations": flips, "to_a_lower_height": down, "tip_reads": reads.Load(), "first_bad_answer": firstBad.Load()}
	switch {
	case failedCode != "":
		r.Violate("storm|submission-failed-while-readers-were-active|"+failedCode, fmt.Sprintf("a submission that the store accepts when it is alone failed while tip readers were active: %v", firstBad.Load()), caseID, detail)
		return
	case panics.Load() > 0:
		r.Violate("storm|reader-panicked", fmt.Sprintf("%d locator reads panicked while the best chain flipped between two branches: %v", panics.Load(), firstBad.Load()), caseID, detail)
		return
	case staleAfter > 0:
		r.Violate("storm|tip-after-a-completed-submission-is-not-its-outcome", fmt.Sprintf("%d of %d tip reads made by the only submitter right after its own submission had returned named another header than that submission's outcome (6 readers were asking for the tip meanwhile): %s", staleAfter, tipChecks, staleWhat), caseID, detail)
		return
	case diverged:
		// The same submissions, in the same order, with nobody reading: if the store then does what the model says, the
		// readers changed the outcome.
		if replayAlone(r, submitted) {
			r.Violate("storm|outcome-differs-while-readers-are-active", fmt.Sprintf("submission #%d was answered or stored differently from a sequential ingestion of the same %d headers; replayed on a fresh store with no reader active, all %d submissions come out as the model says", len(submitted), len(submitted), len(submitted)), caseID, detail)
			return
		}
		r.Count("storms_cut_short_by_ingest_divergence", 1)
		return
	case nilTips.Load() > 0 || bad5xx.Load() > 0:
		r.Violate("storm|reader-told-no-tip", fmt.Sprintf("while the best chain flipped between two branches %d of %d tip reads were answered with no tip (%d nil, %d non-200): %v", nilTips.Load()+bad5xx.Load(), reads.Load(), nilTips.Load(), bad5xx.Load(), firstBad.Load()), caseID, detail)
		return
	case unknown.Load() > 0:
		r.Violate("storm|reader-told-unknown-tip", fmt.Sprintf("%d tip reads named a header that was never stored: %v", unknown.Load(), firstBad.Load()), caseID, detail)
		return
	}
	t, err := snap.TakeHeaders(st.DB)
	if err == nil {
		if bad := t.IChain(); bad != "" {
			r.Violate("ichain|storm", bad, caseID, detail)
			return
		}
	}
	r.Count("storms_completed", 1)
	r.Cases(1)
	r.Distinct(fmt.Sprintf("storm|flips=%d|down=%d", flips, down))
}

// replayAlone ingests the headers into a fresh store with no reader active and reports whether every answer and the
// final table agree with the model.
func replayAlone(r *ev.Run, hs []refmodel.Hdr) bool {
	st, err := rig.New(rig.Options{Dir: r.Scratch, Name: "c15-storm-replay.db", NoHTTP: true})
	if err != nil {
		return false
	}
	defer st.Destroy()
	m := mb.NewModel()
	for _, h := range hs {
		si := mb.Step(st, m, h)
		if si.Res.Panic != nil || si.Res.Code() != mb.WantCode(si.Outcome) {
			return false
		}
	}
	t, err := snap.TakeHeaders(st.DB)
	if err != nil {
		return false
	}
	return len(mb.CompareTable(m, t, false)) == 0
}

var _ = ev.Spec{}

// deepStorm: one reorganisation over exactly `depth` heights (the sizes at which relabelling statements get batched)
// while readers ask for the tip; afterwards the table is one chain, labelled as the model says.
func deepStorm(r *ev.Run, caseID string, depth int) {
	rng := r.Rand(caseID)
	st, err := rig.New(rig.Options{Dir: r.Scratch, Name: "c15-deep.db"})
	if err != nil {
		r.Violate("harness|rig", err.Error(), caseID, nil)
		return
	}
	defer st.Destroy()
	m := mb.NewModel()
	hist := gen.DeepReorg(rng, rig.Genesis(), 2+rng.Intn(3), depth)
	var stop atomic.Bool
	var nilTips, reads atomic.Int64
	var wg sync.WaitGroup
	for g := 0; g < 4; g++ {
		wg.Add(1)
		go func() {
			defer wg.Done()
			for !stop.Load() {
				reads.Add(1)
				if st.Svc.Headers.GetTip() == nil {
					nilTips.Add(1)
				}
			}
		}()
	}
	diverged := false
	for _, h := range hist.Hdrs {
		si := mb.Step(st, m, h)
		if si.Res.Panic != nil || si.Res.Code() != mb.WantCode(si.Outcome) {
			diverged = true
			break
		}
	}
	stop.Store(true)
	wg.Wait()
	r.Count("storm_tip_reads", reads.Load())
	detail := map[string]any{"reorganisation_depth": depth, "tip_reads": reads.Load()}
	if diverged {
		r.Count("storms_cut_short_by_ingest_divergence", 1)
		return
	}
	if nilTips.Load() > 0 {
		r.Violate("storm|reader-told-no-tip", fmt.Sprintf("%d tip reads were answered with no tip during a reorganisation over %d heights", nilTips.Load(), depth), caseID, detail)
		return
	}
	t, err := snap.TakeHeaders(st.DB)
	if err != nil {
		r.Violate("harness|snapshot", err.Error(), caseID, nil)
		return
	}
	if bad := t.IChain(); bad != "" {
		r.Violate("ichain|deep-reorganisation", fmt.Sprintf("after a reorganisation over %d heights: %s", depth, bad), caseID, detail)
		return
	}
	if ds := mb.CompareTable(m, t, true); len(ds) > 0 {
		r.Violate("labels|deep-reorganisation", fmt.Sprintf("after a reorganisation over %d heights: %s", depth, mb.DescribeDiffs(ds, 4)), caseID, detail)
		return
	}
	r.Count("deep_reorganisations_with_readers", 1)
	r.Cases(1)
	r.Distinct(fmt.Sprintf("deep-storm|%d", depth))
}
