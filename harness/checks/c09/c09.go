// Package c09: every API route is mediated by authentication; admin routes by the admin token.
//
// Runtime monitoring over the REAL gin routing table: engine.Routes() is enumerated at run
// time (so new routes are picked up), every route under the API prefix is requested with
// every credential class under every configuration point, and the monitors watch the
// status / body shape, the table digests around the request and the repository calls made
// while the request was served.
package c09

import (
	"bytes"
	"encoding/json"
	"fmt"
	"io"
	"math/rand"
	"net/http"
	"net/http/httptest"
	"net/url"
	"sort"
	"strings"

	"github.com/bitcoin-sv/block-headers-service/config"
	"github.com/bitcoin-sv/block-headers-service/domains"
	"github.com/bitcoin-sv/block-headers-service/metrics"
	"github.com/bitcoin-sv/block-headers-service/notification"
	"github.com/bitcoin-sv/block-headers-service/repository"
	"github.com/bitcoin-sv/block-headers-service/service"
	"github.com/bitcoin-sv/block-headers-service/transports/http/endpoints"
	httpserver "github.com/bitcoin-sv/block-headers-service/transports/http/server"
	"github.com/bitcoin-sv/block-headers-service/transports/websocket"
	"github.com/bitcoin-sv/block-headers-service/verifharness/deco"
	"github.com/bitcoin-sv/block-headers-service/verifharness/ev"
	"github.com/bitcoin-sv/block-headers-service/verifharness/gen"
	"github.com/bitcoin-sv/block-headers-service/verifharness/refmodel"
	"github.com/bitcoin-sv/block-headers-service/verifharness/rig"
	"github.com/bitcoin-sv/block-headers-service/verifharness/snap"
	"github.com/gin-gonic/gin"
	"github.com/rs/zerolog"
)

var nopLog = zerolog.Nop()

// Spec registers the check.
func Spec() ev.Spec {
	return ev.Spec{Prop: "C09", Level: "exploration", Workers: -1, Body: body}
}

const prefix = "/api/v1"

// credential classes
const (
	clNone    = "none"
	clEmpty   = "empty"
	clScheme  = "wrong-scheme"
	clExtra   = "extra-parts"
	clUnknown = "unknown-token"
	clRevoked = "revoked-token"
	clUser    = "valid-user"
	clAdmin   = "admin"
)

var classes = []string{clNone, clEmpty, clScheme, clExtra, clUnknown, clRevoked, clUser, clAdmin}

type point struct {
	Auth, Prof, Metrics bool
	DebugLog            bool // logging.level = debug (gin in debug mode while the engine is built): the default of a deployment
}

func onoff(b bool) string {
	if b {
		return "on"
	}
	return "off"
}

func (p point) String() string {
	s := fmt.Sprintf("auth=%s,prof=%s,metrics=%s", onoff(p.Auth), onoff(p.Prof), onoff(p.Metrics))
	if p.DebugLog {
		s += ",loglevel=debug"
	}
	return s
}

// calls counts repository calls made while one request is served (single goroutine:
// requests are served synchronously through engine.ServeHTTP).
type calls struct {
	headers, tokenReads, tokenWrites, webhooks int
	ops                                        []string
}

func (c *calls) note(op string) {
	if len(c.ops) < 12 {
		c.ops = append(c.ops, op)
	}
}

type tokRepo struct {
	in repository.Tokens
	c  *calls
}

func (t tokRepo) AddTokenToDatabase(x *domains.Token) error {
	t.c.tokenWrites++
	t.c.note("Tokens.AddTokenToDatabase")
	return t.in.AddTokenToDatabase(x)
}
func (t tokRepo) GetTokenByValue(v string) (*domains.Token, error) {
	t.c.tokenReads++
	return t.in.GetTokenByValue(v)
}
func (t tokRepo) DeleteToken(v string) error {
	t.c.tokenWrites++
	t.c.note("Tokens.DeleteToken")
	return t.in.DeleteToken(v)
}

type whRepo struct {
	in notification.Webhooks
	c  *calls
}

func (w whRepo) AddWebhookToDatabase(x *notification.Webhook) error {
	w.c.webhooks++
	w.c.note("Webhooks.AddWebhookToDatabase")
	return w.in.AddWebhookToDatabase(x)
}
func (w whRepo) DeleteWebhookByURL(u string) error {
	w.c.webhooks++
	w.c.note("Webhooks.DeleteWebhookByURL")
	return w.in.DeleteWebhookByURL(u)
}
func (w whRepo) GetWebhookByURL(u string) (*notification.Webhook, error) {
	w.c.webhooks++
	w.c.note("Webhooks.GetWebhookByURL")
	return w.in.GetWebhookByURL(u)
}
func (w whRepo) GetAllWebhooks() ([]*notification.Webhook, error) {
	w.c.webhooks++
	w.c.note("Webhooks.GetAllWebhooks")
	return w.in.GetAllWebhooks()
}
func (w whRepo) UpdateWebhook(x *notification.Webhook) error {
	w.c.webhooks++
	w.c.note("Webhooks.UpdateWebhook")
	return w.in.UpdateWebhook(x)
}

// fixture is the observable content of the store: a small forked history, tokens, a webhook.
type fixture struct {
	tip, stale, anc, genesis, unknownHash string
	tipMR, staleMR, unknownMR             string
	tipHeight, staleHeight                int
	user, revoked, victim, unknownTok     string
	hookURL                               string
	fresh                                 int
}

type env struct {
	r     *ev.Run
	p     point
	st    *rig.Stack
	calls *calls
	fx    fixture
	case0 string
	// the next request carries the headers of a websocket upgrade
	upgrade bool
	spoof   bool // the request also carries headers with which a client claims a role for itself
	// when set, the configured admin token of the next start (the operator rotated it)
	adminOverride string
}

func isAPI(path string) bool { return path == prefix || strings.HasPrefix(path, prefix+"/") }

func isAdminRoute(method, path string) bool {
	return (method == http.MethodPost && path == prefix+"/access") ||
		(method == http.MethodDelete && strings.HasPrefix(path, prefix+"/access/"))
}

// buildMainOrder builds the engine in exactly cmd/main.go's order (metrics.Register before
// SetupRoutes, websocket entrypoint last); used when metrics are enabled, because rig does
// not call metrics.Register (a no-op while metrics are disabled).
func buildMainOrder(st *rig.Stack, ws websocket.Server) *gin.Engine {
	srv := httpserver.NewHTTPServer(st.Cfg.HTTP, &st.Log)
	srv.ApplyConfiguration(metrics.Register)
	srv.ApplyConfiguration(endpoints.SetupRoutes(st.Svc, st.Cfg.HTTP))
	srv.ApplyConfiguration(ws.SetupEntrypoint)
	var e *gin.Engine
	srv.ApplyConfiguration(func(en *gin.Engine) { e = en })
	return e
}

func randToken(rng *rand.Rand, n int) string {
	const al = "ABCDEFGHIJKLMNOPQRSTUVWXYZabcdefghijklmnopqrstuvwxyz0123456789"
	b := make([]byte, n)
	for i := range b {
		b[i] = al[rng.Intn(len(al))]
	}
	return string(b)
}

// ingest stores a forked history: main chain of 7, a stale branch of 2 forking at height 3, an orphan.
func (e *env) ingest(rng *rand.Rand) error {
	g := rig.Genesis()
	counter := 0
	mk := func(prev refmodel.Hash) refmodel.Hdr {
		counter++
		h := refmodel.Hdr{Prev: prev, Bits: gen.BitsNormal}
		gen.Fields(rng, &h, false, counter)
		return h
	}
	add := func(h refmodel.Hdr) error {
		res := e.st.Add(h)
		if res.Panic != nil || res.Err != nil {
			return fmt.Errorf("fixture ingestion answered %s (%v)", res.Code(), res.Err)
		}
		return nil
	}
	main := []refmodel.Hdr{g}
	for i := 0; i < 7; i++ {
		h := mk(main[len(main)-1].HashOf())
		if err := add(h); err != nil {
			return err
		}
		main = append(main, h)
	}
	s1 := mk(main[3].HashOf())
	s2 := mk(s1.HashOf())
	for _, h := range []refmodel.Hdr{s1, s2} {
		if err := add(h); err != nil {
			return err
		}
	}
	var unk refmodel.Hash
	rng.Read(unk[:])
	if err := add(mk(unk)); err != nil {
		return err
	}
	t, err := snap.TakeHeaders(e.st.DB)
	if err != nil {
		return err
	}
	tip, stale := main[7], s2
	if row, ok := t[tip.HashOf().String()]; !ok || row.State != "LONGEST_CHAIN" {
		return fmt.Errorf("fixture: expected the 7th main-chain header to be LONGEST_CHAIN, got %+v", row)
	}
	if row, ok := t[stale.HashOf().String()]; !ok || row.State != "STALE" {
		return fmt.Errorf("fixture: expected the side-branch header to be STALE, got %+v", row)
	}
	var u2, u3 refmodel.Hash
	rng.Read(u2[:])
	rng.Read(u3[:])
	e.fx.tip, e.fx.stale = tip.HashOf().String(), stale.HashOf().String()
	e.fx.anc, e.fx.genesis = main[2].HashOf().String(), g.HashOf().String()
	e.fx.unknownHash = u2.String()
	e.fx.tipMR, e.fx.staleMR, e.fx.unknownMR = tip.Merkle.String(), stale.Merkle.String(), u3.String()
	e.fx.tipHeight, e.fx.staleHeight = 7, 5
	return nil
}

func tokenFrom(w *httptest.ResponseRecorder) string {
	var v struct {
		Token string `json:"token"`
	}
	_ = json.Unmarshal(w.Body.Bytes(), &v)
	return v.Token
}

func (e *env) tokenInDB(tok string) bool {
	var n int
	if err := e.st.DB.Get(&n, `SELECT count(*) FROM tokens WHERE token = ?`, tok); err != nil {
		return false
	}
	return n > 0
}

// fixtureFailure reports a fixture request with the admin token that did not succeed, under the
// signature the main loop would use for the same observation.
func (e *env) fixtureFailure(method, path string, w *httptest.ResponseRecorder) {
	routeSig := method + " " + path
	sig := fmt.Sprintf("fixture|%s|class=%s|status=%d", routeSig, clAdmin, w.Code)
	if w.Code == http.StatusUnauthorized {
		if e.p.Auth {
			sig = fmt.Sprintf("valid-credential-refused|%s|class=%s", routeSig, clAdmin)
		} else {
			sig = fmt.Sprintf("auth-off-demands-credentials|%s|class=%s", routeSig, clAdmin)
		}
	}
	e.r.Violate(sig, fmt.Sprintf("%s with the admin token answered %d %s while preparing the fixture (use_auth %s)", routeSig, w.Code, clip(w.Body.String()), onoff(e.p.Auth)),
		e.case0+"/"+routeSig+"/"+clAdmin+"/fixture", map[string]any{"config": e.p.String(), "status": w.Code, "response": clip(w.Body.String())})
}

// setupFixture creates the tokens through the real endpoints with the admin token (falling back to
// the service layer after reporting, so that the enumeration still runs) and registers a webhook.
func (e *env) setupFixture(rng *rand.Rand) bool {
	r := e.r
	mkTok := func() (string, bool) {
		w := e.st.POST(prefix+"/access", []byte("{}"))
		tok := tokenFrom(w)
		if w.Code == 200 && tok != "" && e.tokenInDB(tok) {
			return tok, true
		}
		e.fixtureFailure(http.MethodPost, prefix+"/access", w)
		t, err := e.st.Svc.Tokens.GenerateToken()
		if err != nil {
			r.Violate("harness|fixture-token", err.Error(), e.case0, nil)
			return "", false
		}
		return t.Token, true
	}
	var ok bool
	if e.fx.user, ok = mkTok(); !ok {
		return false
	}
	if e.fx.victim, ok = mkTok(); !ok {
		return false
	}
	if e.fx.revoked, ok = mkTok(); !ok {
		return false
	}
	// the revoked-token class is "issued, USED, then revoked": authenticate with it once before revoking it
	if e.p.Auth {
		if wu := e.st.HTTP(http.MethodGet, prefix+"/access", nil, map[string]string{"Authorization": "Bearer " + e.fx.revoked}); wu.Code != 200 {
			e.fixtureFailure(http.MethodGet, prefix+"/access", wu)
		}
		_ = e.st.HTTP(http.MethodGet, prefix+"/chain/tip/longest", nil, map[string]string{"Authorization": "Bearer " + e.fx.revoked})
	}
	w := e.st.HTTP(http.MethodDelete, prefix+"/access/"+e.fx.revoked, nil, rig.Admin())
	if w.Code != 200 || e.tokenInDB(e.fx.revoked) {
		e.fixtureFailure(http.MethodDelete, prefix+"/access/:token", w)
		if err := e.st.Svc.Tokens.DeleteToken(e.fx.revoked); err != nil || e.tokenInDB(e.fx.revoked) {
			r.Violate("harness|fixture-revoke", fmt.Sprint(err), e.case0, nil)
			return false
		}
	}
	e.fx.unknownTok = randToken(rng, 32)
	e.fx.hookURL = "http://127.0.0.1:1/verif-c09-hook"
	if _, err := e.st.Svc.Webhooks.CreateWebhook("BEARER", "", "hooktoken", e.fx.hookURL); err != nil {
		r.Violate("harness|fixture-webhook", err.Error(), e.case0, nil)
		return false
	}
	return true
}

// ensureFixture re-establishes what an ACCEPTED request may have consumed.
func (e *env) ensureFixture() {
	if !e.tokenInDB(e.fx.user) {
		if t, err := e.st.Svc.Tokens.GenerateToken(); err == nil {
			e.fx.user = t.Token
		}
	}
	if !e.tokenInDB(e.fx.victim) {
		if t, err := e.st.Svc.Tokens.GenerateToken(); err == nil {
			e.fx.victim = t.Token
		}
	}
	if e.tokenInDB(e.fx.revoked) {
		_ = e.st.Svc.Tokens.DeleteToken(e.fx.revoked)
	}
	if _, err := e.st.Svc.Webhooks.GetWebhookByURL(e.fx.hookURL); err != nil {
		_, _ = e.st.Svc.Webhooks.CreateWebhook("BEARER", "", "hooktoken", e.fx.hookURL)
	}
}

// filling is one way of instantiating a route's path parameters, query and body.
type filling struct {
	kind   string // valid | stale | unknown
	target string
	body   []byte
	shape  string // target/body with run-specific values abstracted, for de-duplication
}

var variantKinds = []string{"valid", "stale", "unknown"}

func (e *env) fill(rt gin.RouteInfo, v int) filling {
	fx := &e.fx
	param := func(name string) (val, shape string) {
		switch strings.ToLower(name) {
		case "hash":
			return []string{fx.tip, fx.stale, fx.unknownHash}[v], []string{"<tip>", "<stale>", "<unknown>"}[v]
		case "ancestorhash":
			return []string{fx.anc, fx.genesis, fx.unknownHash}[v], []string{"<ancestor>", "<genesis>", "<unknown>"}[v]
		case "token":
			// (the second variant names the caller's own user token: revoking oneself needs the admin token too)
			return []string{fx.victim, fx.user, fx.unknownTok}[v], []string{"<issued>", "<the user token itself>", "<unknown>"}[v]
		}
		x := []string{"1", "x", "zzz"}[v]
		return x, x
	}
	segs := strings.Split(rt.Path, "/")
	shp := make([]string, len(segs))
	for i, s := range segs {
		shp[i] = s
		if strings.HasPrefix(s, ":") || strings.HasPrefix(s, "*") {
			segs[i], shp[i] = param(s[1:])
		}
	}
	f := filling{kind: variantKinds[v], target: strings.Join(segs, "/"), shape: strings.Join(shp, "/")}
	rel := strings.TrimPrefix(rt.Path, prefix)
	hasBody := rt.Method == http.MethodPost || rt.Method == http.MethodPut || rt.Method == http.MethodPatch
	q, qs := "", ""
	switch {
	case rel == "/chain/header/byHeight":
		q = fmt.Sprintf("?height=%d&count=2", []int{1, 4, 99999}[v])
		qs = q
	case rel == "/chain/merkleroot" && !hasBody:
		q = []string{"?batchSize=2", "?batchSize=3&lastEvaluatedKey=" + fx.tipMR, "?batchSize=1&lastEvaluatedKey=" + fx.unknownMR}[v]
		qs = []string{"?batchSize=2", "?batchSize=3&lastEvaluatedKey=<tip mr>", "?batchSize=1&lastEvaluatedKey=<unknown>"}[v]
	case rel == "/webhook" && !hasBody:
		u := []string{fx.hookURL, fx.hookURL, "http://127.0.0.1:1/unknown-hook"}[v]
		q = "?url=" + url.QueryEscape(u)
		qs = []string{"?url=<registered>", "?url=<registered>", "?url=<unknown>"}[v]
	}
	f.target += q
	f.shape += qs
	if hasBody {
		var b any = map[string]any{}
		bs := "{}"
		switch rel {
		case "/chain/header/commonAncestor":
			b = [][]string{{fx.tip, fx.stale}, {fx.stale, fx.tip}, {fx.unknownHash}}[v]
			bs = []string{"[tip,stale]", "[stale,tip]", "[unknown]"}[v]
		case "/chain/merkleroot/verify":
			b = []map[string]any{{"merkleRoot": []string{fx.tipMR, fx.staleMR, fx.unknownMR}[v], "blockHeight": []int{fx.tipHeight, fx.staleHeight, 1}[v]}}
			bs = []string{"[{tip mr}]", "[{stale mr}]", "[{unknown mr}]"}[v]
		case "/webhook":
			fx.fresh++
			b = map[string]any{"url": fmt.Sprintf("http://127.0.0.1:1/verif-c09-fresh-%d", fx.fresh), "requiredAuth": map[string]any{"type": "BEARER", "token": "t", "header": ""}}
			bs = "{fresh url}"
		}
		f.body, _ = json.Marshal(b)
		f.shape += " " + bs
	}
	return f
}

// fillings returns the distinct instantiations of a route (1..3).
func (e *env) fillings(rt gin.RouteInfo) []filling {
	var out []filling
	seen := map[string]bool{}
	for v := range variantKinds {
		f := e.fill(rt, v)
		if seen[f.shape] {
			continue
		}
		seen[f.shape] = true
		out = append(out, f)
	}
	return out
}

type cred struct {
	class string // one of classes, or malformed:<template>
	has   bool
	value string
	shape string
}

// creds returns the Authorization values representing a class (computed from the current fixture).
func (e *env) creds(class string) []cred {
	fx := &e.fx
	switch class {
	case clNone:
		return []cred{{class, false, "", "<no header>"}}
	case clEmpty:
		return []cred{{class, true, "", `""`}}
	case clScheme:
		return []cred{{class, true, "Basic " + fx.user, "Basic <user>"}, {class, true, "Basic " + rig.AdminToken, "Basic <admin>"}, {class, true, fx.user, "<user> (no scheme)"}}
	case clExtra:
		return []cred{{class, true, "Bearer " + fx.user + " x", "Bearer <user> x"}, {class, true, "Bearer " + rig.AdminToken + " " + rig.AdminToken, "Bearer <admin> <admin>"}}
	case clUnknown:
		// a random value, and values that are nearly a valid credential: the admin / a user token with a character added
		// in front or behind, or with the last character cut
		return []cred{{class, true, "Bearer " + fx.unknownTok, "Bearer <unknown>"},
			{class, true, "Bearer " + rig.AdminToken + "x", "Bearer <admin>x"}, {class, true, "Bearer x" + rig.AdminToken, "Bearer x<admin>"},
			{class, true, "Bearer " + rig.AdminToken[:len(rig.AdminToken)-1], "Bearer <admin minus last character>"},
			{class, true, "Bearer " + fx.user + "x", "Bearer <user>x"}, {class, true, "Bearer " + fx.user[:len(fx.user)-1], "Bearer <user minus last character>"},
			{class, true, "Bearer " + swapCase(fx.user), "Bearer <user, letter case swapped>"}, {class, true, "Bearer " + swapCase(rig.AdminToken), "Bearer <admin, letter case swapped>"}}
	case clRevoked:
		return []cred{{class, true, "Bearer " + fx.revoked, "Bearer <revoked>"}}
	case clUser:
		return []cred{{class, true, "Bearer " + fx.user, "Bearer <user>"}}
	case clAdmin:
		return []cred{{class, true, "Bearer " + rig.AdminToken, "Bearer <admin>"}}
	}
	return nil
}

func swapCase(s string) string {
	b := []byte(s)
	for i := range b {
		switch {
		case b[i] >= 'a' && b[i] <= 'z':
			b[i] -= 32
		case b[i] >= 'A' && b[i] <= 'Z':
			b[i] += 32
		}
	}
	return string(b)
}

// malformed draws one random malformed Authorization value. Nothing here differs from a
// valid credential only by whitespace or letter case of the scheme (a lenient but correct
// parser may accept those): every value is structurally not 'Bearer <valid token>'.
func (e *env) malformed(rng *rand.Rand) cred {
	fx := &e.fx
	valid := []string{fx.user, rig.AdminToken}[rng.Intn(2)]
	vs := "<user>"
	if valid == rig.AdminToken {
		vs = "<admin>"
	}
	mk := func(tmpl, value string) cred { return cred{"malformed:" + tmpl, true, value, tmpl} }
	switch rng.Intn(12) {
	case 0:
		s := []string{"Basic", "Digest", "Token", "JWT", "Bearerx", "xBearer", "Bear", "BearerBearer", "Bearer:", "Negotiate"}[rng.Intn(10)]
		return mk(s+" "+vs, s+" "+valid)
	case 1:
		s := randToken(rng, 1+rng.Intn(8))
		if s == "Bearer" {
			s = "Bearex"
		}
		return mk("<random scheme> "+vs, s+" "+valid)
	case 2:
		return mk("Bearer (alone)", "Bearer")
	case 3:
		sep := []string{"", ":", "=", ",", "/", "+"}[rng.Intn(6)]
		return mk("Bearer"+sep+vs+" (no space)", "Bearer"+sep+valid)
	case 4:
		return mk(vs+" (no scheme)", valid)
	case 5:
		return mk("Bearer "+vs+" minus last char", "Bearer "+valid[:len(valid)-1])
	case 6:
		return mk("Bearer "+vs+" plus one char", "Bearer "+valid+randToken(rng, 1))
	case 7:
		n := []int{1, 8, 31, 32, 33, 64, 255, 256, 4096}[rng.Intn(9)]
		return mk("Bearer <random token>", "Bearer "+randToken(rng, n))
	case 8:
		g := randToken(rng, 1+rng.Intn(6))
		if rng.Intn(2) == 0 {
			return mk("Bearer "+vs+" <garbage>", "Bearer "+valid+" "+g)
		}
		return mk("Bearer <garbage> "+vs, "Bearer "+g+" "+valid)
	case 9:
		x := []string{"'OR'1'='1", "%", strings.Repeat("_", len(valid)), "*", "NULL", `"` + valid + `"`, "'" + valid + "'"}[rng.Intn(7)]
		return mk("Bearer <sql-ish / quoted>", "Bearer "+x)
	case 10:
		// percent-encoded valid token: a different string
		var sb strings.Builder
		for i := 0; i < len(valid); i++ {
			if i%5 == 0 {
				fmt.Fprintf(&sb, "%%%02X", valid[i])
			} else {
				sb.WriteByte(valid[i])
			}
		}
		return mk("Bearer <percent-encoded "+vs+">", "Bearer "+sb.String())
	default:
		b := []byte(valid)
		i := rng.Intn(len(b))
		c := b[i]
		switch {
		case c >= 'a' && c <= 'z':
			b[i] = c - 32
		case c >= 'A' && c <= 'Z':
			b[i] = c + 32
		default:
			b[i] = 'q'
		}
		return mk("Bearer "+vs+" with one char changed", "Bearer "+string(b))
	}
}

func (e *env) do(method, target string, body []byte, c cred) *httptest.ResponseRecorder {
	var rd io.Reader
	if body != nil {
		rd = bytes.NewReader(body)
	}
	req := httptest.NewRequest(method, target, rd)
	if c.has {
		req.Header["Authorization"] = []string{c.value}
	}
	if body != nil {
		req.Header.Set("Content-Type", "application/json")
	}
	if e.upgrade {
		req.Header.Set("Connection", "Upgrade")
		req.Header.Set("Upgrade", "websocket")
		req.Header.Set("Sec-WebSocket-Version", "13")
		req.Header.Set("Sec-WebSocket-Key", "dGhlIHNhbXBsZSBub25jZQ==")
	}
	if e.spoof {
		// nothing a client sends besides its credential says who it is
		for _, h := range []string{"X-Auth-Role", "X-Role", "X-User-Role", "X-Auth-Admin", "X-Is-Admin", "X-Admin", "X-Forwarded-User", "X-Authenticated-User", "X-Token-Role"} {
			req.Header.Set(h, "admin")
		}
		req.Header.Set("X-Is-Admin", "true")
		req.Header.Set("X-Auth-Admin", "1")
	}
	w := httptest.NewRecorder()
	e.st.Engine.ServeHTTP(w, req)
	return w
}

// errorShape tells whether the body is exactly one JSON object with string fields code and message.
func errorShape(b []byte) string {
	d := json.NewDecoder(bytes.NewReader(b))
	var m map[string]any
	if err := d.Decode(&m); err != nil {
		return "body is not a JSON object"
	}
	var extra json.RawMessage
	if err := d.Decode(&extra); err != io.EOF {
		return "more than one JSON document in the body"
	}
	for _, k := range []string{"code", "message"} {
		if s, ok := m[k].(string); !ok || s == "" {
			return "field " + k + " missing or not a non-empty string"
		}
	}
	return ""
}

func tableDigests(st *rig.Stack) (map[string]string, error) {
	out := map[string]string{}
	for _, t := range []string{"headers", "tokens", "webhooks"} {
		d, _, err := snap.TableDigest(st.DB, t)
		if err != nil {
			return nil, err
		}
		out[t] = d
	}
	return out, nil
}

func clip(s string) string {
	if len(s) > 300 {
		return s[:300]
	}
	return s
}

// probe performs one request and applies the oracle.
func (e *env) probe(rt gin.RouteInfo, f filling, c cred) {
	r := e.r
	routeSig := rt.Method + " " + rt.Path
	caseID := fmt.Sprintf("%s/%s/%s/%s", e.case0, routeSig, c.class, f.kind)
	all0, err := snap.AllDigest(e.st.DB)
	if err != nil {
		r.Violate("harness|digest", err.Error(), caseID, nil)
		return
	}
	per0, _ := tableDigests(e.st)
	*e.calls = calls{}
	w := e.do(rt.Method, f.target, f.body, c)
	cl := *e.calls
	all1, err := snap.AllDigest(e.st.DB)
	if err != nil {
		r.Violate("harness|digest", err.Error(), caseID, nil)
		return
	}
	detail := func() map[string]any {
		d := map[string]any{
			"config": e.p.String(), "request": rt.Method + " " + f.target, "request_shape": rt.Method + " " + f.shape,
			"authorization_present": c.has, "authorization": c.value, "authorization_shape": c.shape,
			"body": string(f.body), "status": w.Code, "response": clip(w.Body.String()),
			"repository_calls": cl.ops,
		}
		return d
	}
	changed := func() string {
		per1, _ := tableDigests(e.st)
		var ts []string
		for t, d := range per0 {
			if per1[t] != d {
				ts = append(ts, t)
			}
		}
		sort.Strings(ts)
		return strings.Join(ts, ",")
	}
	admin := isAdminRoute(rt.Method, rt.Path)
	accepted := c.class == clAdmin || (c.class == clUser && !admin)
	nontrivial := false
	switch {
	case !e.p.Auth:
		// the same routes must be reachable without (or with any) credentials
		if w.Code == http.StatusUnauthorized {
			r.Violate(fmt.Sprintf("auth-off-demands-credentials|%s|class=%s", routeSig, c.class),
				fmt.Sprintf("with use_auth=false %s answered 401 %s for credential class %s", routeSig, clip(w.Body.String()), c.class), caseID, detail())
		}
		r.Count("requests_auth_off", 1)
		if all0 != all1 {
			r.Count("auth_off_requests_that_changed_the_store", 1)
		}
	case accepted:
		if w.Code == http.StatusUnauthorized {
			r.Violate(fmt.Sprintf("valid-credential-refused|%s|class=%s", routeSig, c.class),
				fmt.Sprintf("%s answered 401 %s for a request carrying %s", routeSig, clip(w.Body.String()), c.shape), caseID, detail())
		}
		r.Count("requests_accepted_class", 1)
		r.Count(fmt.Sprintf("accepted_class_status_%d", w.Code), 1)
		if admin {
			r.Count("admin_route_requests_with_admin_token", 1)
		}
		if all0 != all1 {
			r.Count("accepted_requests_that_changed_the_store", 1)
		}
	default:
		nontrivial = true
		what := "credential class " + c.class
		kind := "class=" + c.class
		if admin && c.class == clUser {
			what = "a valid NON-admin token on an admin route"
			kind = "admin-route,class=" + c.class
			r.Count("admin_route_requests_with_user_token", 1)
		}
		if w.Code != http.StatusUnauthorized {
			r.Violate(fmt.Sprintf("not-401|%s|%s|status=%d", routeSig, kind, w.Code),
				fmt.Sprintf("%s answered %d %s for %s (%s); expected 401", routeSig, w.Code, clip(w.Body.String()), what, c.shape), caseID, detail())
		} else if bad := errorShape(w.Body.Bytes()); bad != "" {
			r.Violate(fmt.Sprintf("body-shape|%s|%s", routeSig, kind),
				fmt.Sprintf("%s answered 401 for %s but the body is not one structured error: %s: %s", routeSig, what, bad, clip(w.Body.String())), caseID, detail())
		}
		if all0 != all1 {
			r.Violate(fmt.Sprintf("state-changed|%s|%s|tables=%s", routeSig, kind, changed()),
				fmt.Sprintf("%s with %s (answer %d) changed the store", routeSig, what, w.Code), caseID, detail())
		}
		if cl.headers+cl.tokenWrites+cl.webhooks > 0 {
			r.Violate(fmt.Sprintf("handler-ran|%s|%s", routeSig, kind),
				fmt.Sprintf("%s with %s (answer %d): handler logic ran, repository calls %v", routeSig, what, w.Code, cl.ops), caseID, detail())
		}
		r.Count("requests_refused_class", 1)
		r.Count("digest_comparisons", 1)
	}
	r.Case(fmt.Sprintf("%s|%s|%s|%s", e.p, routeSig, c.class+"/"+c.shape, f.shape), nontrivial)
	if nontrivial && r.WantSample() && rt.Method != http.MethodGet && c.class == clRevoked {
		r.Sample(map[string]any{"case": caseID, "request": rt.Method + " " + f.shape, "authorization": c.shape, "status": w.Code, "response": clip(w.Body.String())})
	}
	if all0 != all1 {
		e.ensureFixture()
	}
}

// revokeCommitRefused: a revocation whose DELETE statement goes through but whose COMMIT is refused by SQLite (a deferred
// foreign-key reference to the token row). If the API acknowledges the revocation, the token is a revoked token and must be
// refused on every API route from then on; if it reports an error, nothing is asserted about the token.
func (e *env) revokeCommitRefused(routes []gin.RouteInfo) {
	r := e.r
	t, err := e.st.Svc.Tokens.GenerateToken()
	if err != nil {
		r.Violate("harness|fixture-token", err.Error(), e.case0, nil)
		return
	}
	tok := t.Token
	_ = e.st.HTTP(http.MethodGet, prefix+"/access", nil, map[string]string{"Authorization": "Bearer " + tok})
	if _, err := e.st.DB.Exec(`CREATE TABLE IF NOT EXISTS verif_tokref(token VARCHAR(255) REFERENCES tokens(token) DEFERRABLE INITIALLY DEFERRED)`); err != nil {
		r.Violate("harness|commit-fault", err.Error(), e.case0, nil)
		return
	}
	defer func() {
		_, _ = e.st.DB.Exec(`DROP TABLE IF EXISTS verif_tokref`)
		_ = e.st.Svc.Tokens.DeleteToken(tok)
	}()
	if _, err := e.st.DB.Exec(`INSERT INTO verif_tokref VALUES (?)`, tok); err != nil {
		r.Violate("harness|commit-fault", err.Error(), e.case0, nil)
		return
	}
	w := e.st.HTTP(http.MethodDelete, prefix+"/access/"+tok, nil, rig.Admin())
	_, _ = e.st.DB.Exec(`DELETE FROM verif_tokref`)
	r.Count("revocations_with_refused_commit", 1)
	r.Count(fmt.Sprintf("revocations_with_refused_commit_answered_%dxx", w.Code/100), 1)
	if w.Code != http.StatusOK {
		return
	}
	for _, rt := range routes {
		if !isAPI(rt.Path) {
			continue
		}
		fs := e.fillings(rt)
		if len(fs) == 0 {
			continue
		}
		f := fs[0]
		routeSig := rt.Method + " " + rt.Path
		caseID := fmt.Sprintf("%s/%s/revoked-with-refused-commit", e.case0, routeSig)
		wa := e.do(rt.Method, f.target, f.body, cred{class: clRevoked, has: true, value: "Bearer " + tok, shape: "Bearer <token whose revocation was acknowledged>"})
		r.Count("requests_with_token_revoked_under_refused_commit", 1)
		if wa.Code != http.StatusUnauthorized {
			r.Violate("revocation-acknowledged-but-token-accepted|commit-refused", fmt.Sprintf("DELETE %s/access/:token answered 200 although the database refused the commit; %s with that token then answered %d, expected 401", prefix, routeSig, wa.Code),
				caseID, map[string]any{"config": e.p.String(), "request": rt.Method + " " + f.target, "status": wa.Code, "token_row_present": e.tokenInDB(tok)})
			return
		}
	}
}

// revokeWhileStoreAway: the tokens table is away for the duration of one revocation request (the DELETE and any look-up
// made while serving it fail) and back afterwards. If the revocation was acknowledged with 200 the token must be refused
// from then on; any other answer leaves the token as it was.
func (e *env) revokeWhileStoreAway(routes []gin.RouteInfo) {
	r := e.r
	t, err := e.st.Svc.Tokens.GenerateToken()
	if err != nil {
		r.Violate("harness|fixture-token", err.Error(), e.case0, nil)
		return
	}
	tok := t.Token
	defer func() { _ = e.st.Svc.Tokens.DeleteToken(tok) }()
	if _, err := e.st.DB.Exec(`ALTER TABLE tokens RENAME TO tokens_verif_away`); err != nil {
		r.Violate("harness|rename-tokens", err.Error(), e.case0, nil)
		return
	}
	w := e.st.HTTP(http.MethodDelete, prefix+"/access/"+tok, nil, rig.Admin())
	if _, err := e.st.DB.Exec(`ALTER TABLE tokens_verif_away RENAME TO tokens`); err != nil {
		r.Violate("harness|rename-tokens-back", err.Error(), e.case0, nil)
		return
	}
	r.Count("revocations_while_the_token_store_was_away", 1)
	r.Count(fmt.Sprintf("revocations_while_the_token_store_was_away_answered_%dxx", w.Code/100), 1)
	if w.Code != http.StatusOK {
		return
	}
	for _, rt := range routes {
		if !isAPI(rt.Path) {
			continue
		}
		fs := e.fillings(rt)
		if len(fs) == 0 {
			continue
		}
		f := fs[0]
		routeSig := rt.Method + " " + rt.Path
		wa := e.do(rt.Method, f.target, f.body, cred{class: clRevoked, has: true, value: "Bearer " + tok, shape: "Bearer <token whose revocation was acknowledged>"})
		if wa.Code != http.StatusUnauthorized {
			r.Violate("revocation-acknowledged-but-token-accepted|store-away", fmt.Sprintf("DELETE %s/access/:token answered 200 although the tokens table was unavailable while it was served; %s with that token then answered %d, expected 401", prefix, routeSig, wa.Code),
				fmt.Sprintf("%s/%s/revoked-while-store-away", e.case0, routeSig), map[string]any{"config": e.p.String(), "request": rt.Method + " " + f.target, "status": wa.Code, "token_row_present": e.tokenInDB(tok)})
			return
		}
	}
}

// rotatedAdminToken: the operator changes http.auth_token and restarts the service on the same database. The former admin
// token is then neither the configured admin token nor an issued token: 401 on every API route; the new one is admin.
func (e *env) rotatedAdminToken(routes []gin.RouteInfo) {
	r := e.r
	const rotated = "verif-admin-token-after-rotation-42"
	e.adminOverride = rotated
	defer func() { e.adminOverride = "" }()
	if err := e.st.Restart(); err != nil {
		r.Violate("harness|restart-with-rotated-admin-token", err.Error(), e.case0, nil)
		return
	}
	r.Count("restarts_with_a_rotated_admin_token", 1)
	wn := e.do(http.MethodGet, prefix+"/access", nil, cred{class: clAdmin, has: true, value: "Bearer " + rotated})
	if wn.Code != http.StatusOK {
		r.Violate("rotated-admin-token|new-token-refused", fmt.Sprintf("after a restart with http.auth_token changed, GET %s/access with the new admin token answered %d %s", prefix, wn.Code, clip(wn.Body.String())), e.case0+"/rotated-admin", map[string]any{"config": e.p.String()})
		return
	}
	for _, rt := range routes {
		if !isAPI(rt.Path) {
			continue
		}
		fs := e.fillings(rt)
		if len(fs) == 0 {
			continue
		}
		f := fs[0]
		routeSig := rt.Method + " " + rt.Path
		before, _ := tableDigests(e.st)
		wa := e.do(rt.Method, f.target, f.body, cred{class: clUnknown, has: true, value: "Bearer " + rig.AdminToken, shape: "Bearer <former admin token>"})
		after, _ := tableDigests(e.st)
		r.Count("requests_with_the_former_admin_token", 1)
		changed := false
		for k, v := range before {
			if after[k] != v {
				changed = true
			}
		}
		if wa.Code != http.StatusUnauthorized || changed {
			r.Violate("former-admin-token-accepted|"+routeSig, fmt.Sprintf("after a restart with http.auth_token changed, %s with the former admin token answered %d (tables changed: %v), expected 401 and no change", routeSig, wa.Code, changed),
				fmt.Sprintf("%s/%s/former-admin-token", e.case0, routeSig), map[string]any{"config": e.p.String(), "request": rt.Method + " " + f.target, "status": wa.Code, "former_admin_token_row_present": e.tokenInDB(rig.AdminToken)})
			return
		}
	}
}

// failingTokenStore: while the token look-up itself fails inside the SQL layer (the tokens table is renamed away, so
// every SELECT errors), a request whose token is NOT known to be valid must still be refused before any handler logic
// runs: 401 or a 5xx are acceptable, reaching the handler is not (fail closed).
func (e *env) failingTokenStore(routes []gin.RouteInfo) {
	r := e.r
	if _, err := e.st.DB.Exec(`ALTER TABLE tokens RENAME TO tokens_verif_away`); err != nil {
		r.Violate("harness|rename-tokens", err.Error(), e.case0, nil)
		return
	}
	defer func() {
		if _, err := e.st.DB.Exec(`ALTER TABLE tokens_verif_away RENAME TO tokens`); err != nil {
			r.Violate("harness|rename-tokens-back", err.Error(), e.case0, nil)
		}
	}()
	for _, rt := range routes {
		if !isAPI(rt.Path) {
			continue
		}
		fs := e.fillings(rt)
		if len(fs) == 0 {
			continue
		}
		f := fs[0]
		for _, class := range []string{clUnknown, clRevoked} {
			cs := e.creds(class)
			if len(cs) == 0 {
				continue
			}
			c := cs[0]
			routeSig := rt.Method + " " + rt.Path
			caseID := fmt.Sprintf("%s/%s/%s/token-store-failing", e.case0, routeSig, class)
			d0, _, _ := snap.TableDigest(e.st.DB, "webhooks")
			h0, _, _ := snap.TableDigest(e.st.DB, "headers")
			*e.calls = calls{}
			w := e.do(rt.Method, f.target, f.body, c)
			cl := *e.calls
			d1, _, _ := snap.TableDigest(e.st.DB, "webhooks")
			h1, _, _ := snap.TableDigest(e.st.DB, "headers")
			r.Count("requests_with_failing_token_store", 1)
			detail := map[string]any{"config": e.p.String(), "request": rt.Method + " " + f.target, "authorization_shape": c.shape, "status": w.Code, "response": clip(w.Body.String()), "repository_calls": cl.ops}
			if w.Code != http.StatusUnauthorized && w.Code < 500 {
				r.Violate(fmt.Sprintf("token-store-failing|not-refused|%s|class=%s|status=%d", routeSig, class, w.Code),
					fmt.Sprintf("%s answered %d for %s while the token look-up fails; expected 401 (or a 5xx), never acceptance", routeSig, w.Code, c.shape), caseID, detail)
			}
			if cl.headers+cl.tokenWrites+cl.webhooks > 0 || d0 != d1 || h0 != h1 {
				r.Violate(fmt.Sprintf("token-store-failing|handler-ran|%s|class=%s", routeSig, class),
					fmt.Sprintf("%s with %s while the token look-up fails: handler logic ran (repository calls %v)", routeSig, c.shape, cl.ops), caseID, detail)
			}
		}
	}
}

// allowListed classifies a route outside the API prefix; "" = allowed.
func (e *env) allowListed(rt gin.RouteInfo) (kind, bad string) {
	p := rt.Path
	switch {
	case p == "/status":
		return "status", ""
	case p == "/swagger" || strings.HasPrefix(p, "/swagger/"):
		return "swagger", ""
	case p == "/connection/websocket":
		return "websocket", ""
	case p == "/metrics" || strings.HasPrefix(p, "/metrics/"):
		if !e.p.Metrics {
			return "metrics", "metrics-route-while-disabled"
		}
		return "metrics", ""
	case p == "/pprof" || strings.HasPrefix(p, "/pprof/") || strings.HasPrefix(p, "/debug/pprof"):
		if !e.p.Prof {
			return "profiling", "profiling-route-while-disabled"
		}
		return "profiling", ""
	}
	return "other", "unlisted-route-outside-prefix"
}

func (e *env) runPoint() {
	r := e.r
	rng := r.Rand(e.case0)
	e.calls = &calls{}
	var ws websocket.Server
	opts := rig.Options{
		Dir:      r.Scratch,
		Name:     "c09.db",
		DebugLog: e.p.DebugLog,
		Config: func(c *config.AppConfig) {
			c.HTTP.UseAuth = e.p.Auth
			c.HTTP.ProfilingEndpointsEnabled = e.p.Prof
			c.Metrics.Enabled = e.p.Metrics
			if e.adminOverride != "" {
				c.HTTP.AuthToken = e.adminOverride
			}
		},
		WrapHeaders: deco.Wrap(&deco.Hooks{Before: func(op string, write bool, arg string) error {
			e.calls.headers++
			e.calls.note("Headers." + op)
			return nil
		}}),
		WrapRepos: func(rp *repository.Repositories) {
			rp.Tokens = tokRepo{rp.Tokens, e.calls}
			rp.Webhooks = whRepo{rp.Webhooks, e.calls}
		},
		AfterSvc: func(s *service.Services, c *config.AppConfig) {
			var err error
			ws, err = websocket.NewServer(&nopLog, s, c.HTTP.UseAuth)
			if err != nil {
				panic(err)
			}
		},
		EngineOpts: []func(*gin.Engine){func(en *gin.Engine) { ws.SetupEntrypoint(en) }},
	}
	if e.p.Metrics {
		metrics.EnableMetrics() // as cmd/main.go does when cfg.Metrics.Enabled
	}
	st, err := rig.New(opts)
	if err != nil {
		r.Violate("harness|rig", err.Error(), e.case0, nil)
		return
	}
	defer st.Destroy()
	e.st = st
	if e.p.Metrics {
		st.Engine = buildMainOrder(st, ws)
	}
	if err := e.ingest(rng); err != nil {
		r.Violate("harness|fixture-history", err.Error(), e.case0, nil)
		return
	}
	if !e.setupFixture(rng) {
		return
	}

	routes := st.Engine.Routes()
	sort.Slice(routes, func(i, j int) bool {
		if routes[i].Path != routes[j].Path {
			return routes[i].Path < routes[j].Path
		}
		return routes[i].Method < routes[j].Method
	})
	nAPI, nAdmin := 0, 0
	var table []string
	for _, rt := range routes {
		table = append(table, rt.Method+" "+rt.Path)
		if !isAPI(rt.Path) {
			kind, bad := e.allowListed(rt)
			r.Count("routes_outside_prefix_"+kind, 1)
			if bad != "" {
				r.Violate(fmt.Sprintf("%s|%s %s", bad, rt.Method, rt.Path),
					fmt.Sprintf("route %s %s exists outside %s under configuration %s and is not on the allow-list {status, swagger, metrics (enabled), profiling (enabled), websocket upgrade}", rt.Method, rt.Path, prefix, e.p),
					e.case0+"/"+rt.Method+" "+rt.Path, map[string]any{"config": e.p.String(), "handler": rt.Handler})
			}
			r.Case(fmt.Sprintf("%s|%s %s|allow-list", e.p, rt.Method, rt.Path), false)
			continue
		}
		nAPI++
		if isAdminRoute(rt.Method, rt.Path) {
			nAdmin++
		}
		nf := len(e.fillings(rt))
		for fi := 0; fi < nf; fi++ {
			for _, class := range classes {
				ncred := len(e.creds(class))
				for ci := 0; ci < ncred; ci++ {
					// fillings / credentials are recomputed from the current fixture for every request
					fs := e.fillings(rt)
					cs := e.creds(class)
					if fi >= len(fs) || ci >= len(cs) {
						continue
					}
					e.probe(rt, fs[fi], cs[ci])
					if class != clAdmin {
						// the same request with headers in which the client calls itself an administrator
						fs, cs = e.fillings(rt), e.creds(class)
						if fi < len(fs) && ci < len(cs) {
							e.spoof = true
							c := cs[ci]
							c.shape += " + X-Auth-Role: admin (and similar self-declared role headers)"
							e.probe(rt, fs[fi], c)
							e.spoof = false
							r.Count("requests_with_self_declared_role_headers", 1)
						}
					}
					if class == clNone || class == clUnknown || class == clRevoked {
						// the same request dressed up as a websocket upgrade: still an API request
						fs, cs = e.fillings(rt), e.creds(class)
						if fi < len(fs) && ci < len(cs) {
							e.upgrade = true
							c := cs[ci]
							c.shape += " + Connection: Upgrade, Upgrade: websocket"
							e.probe(rt, fs[fi], c)
							e.upgrade = false
							r.Count("requests_dressed_as_websocket_upgrade", 1)
						}
					}
				}
			}
		}
		if r.Thorough() {
			mrng := r.Rand(e.case0 + "/" + rt.Method + " " + rt.Path + "/malformed")
			for k := 0; k < 50; k++ {
				fs := e.fillings(rt)
				e.probe(rt, fs[k%len(fs)], e.malformed(mrng))
				r.Count("random_malformed_authorization_values", 1)
			}
		}
	}
	if e.p.Auth {
		e.failingTokenStore(routes)
		e.revokeCommitRefused(routes)
		e.revokeWhileStoreAway(routes)
		if !e.p.Metrics {
			e.rotatedAdminToken(routes)
		}
	}
	r.Count("configurations", 1)
	r.Count("api_routes_enumerated", int64(nAPI))
	r.Count("admin_routes_enumerated", int64(nAdmin))
	if e.p.Auth && e.p.Prof && e.p.Metrics {
		r.Extra("routing_table_all_enabled", table)
	}
}

func body(r *ev.Run) {
	r.Rule("for each of the 8 configuration points {use_auth} x {profiling endpoints} x {metrics} plus 2 points with logging.level = debug (gin in debug mode while the engine is built, as in a default deployment) x {profiling endpoints}: the real engine is built (metrics-on points in cmd/main.go's order), its routing table engine.Routes() is enumerated at run time; every route under /api/v1 x 1..3 parameter fillings (path parameters from the stored forked history / issued tokens: valid, stale, unknown; bodies and queries valid JSON that a handler would act on) x every representative of the 8 credential classes is requested; every other route is matched against the allow-list. evaluations = requests + allow-list decisions; distinct = distinct (configuration, method, route, credential shape, filling shape); non-trivial = requests that must be refused (auth on, class not in {valid user, admin}, or valid user on an admin route), each with a digest comparison of headers/tokens/webhooks and a repository-call count around it. The route x class x configuration product is exhaustive; thorough adds 50 random malformed Authorization values per API route and configuration.")
	r.Assume(
		"admin routes = POST /api/v1/access and DELETE /api/v1/access/:token (from the statement)",
		"'handler logic ran' is observed as a call of the headers repository, a write call of the tokens repository or any call of the webhooks repository while a refused request is served (token look-ups belong to the middleware)",
		"requests are served in-process through engine.ServeHTTP (no wire-level header normalisation); malformed values never differ from a valid credential only by whitespace or by the letter case of the scheme",
		"routes outside the prefix are judged by the routing table only (profiling handlers are not invoked)",
		"metrics-on configurations call metrics.EnableMetrics() and build the engine in cmd/main.go's order; the websocket entrypoint is added through websocket.Server.SetupEntrypoint as cmd/main.go does",
	)
	r.Exhaustive(true)
	if r.Only == "" {
		r.Require("configurations", 10)
		r.Require("api_routes_enumerated", 10*10)
		r.Require("admin_routes_enumerated", 10*2)
		r.Require("requests_refused_class", 800)
		r.Require("admin_route_requests_with_user_token", 8)
		r.Require("requests_auth_off", 1000)
		r.Require("revocations_with_refused_commit", 4)
		r.Require("routes_outside_prefix_websocket", 8)
		r.Require("routes_outside_prefix_profiling", 4)
		r.Require("routes_outside_prefix_metrics", 4)
	}
	for _, auth := range []bool{true, false} {
		for _, prof := range []bool{false, true} {
			for _, met := range []bool{false, true} {
				p := point{Auth: auth, Prof: prof, Metrics: met}
				caseID := "cfg/" + p.String()
				r.Do(caseID, func() {
					e := &env{r: r, p: p, case0: caseID}
					e.runPoint()
				})
			}
		}
	}
	// logging.level = debug (a deployment's default; the engine is then built with gin in debug mode)
	for _, prof := range []bool{false, true} {
		p := point{Auth: true, Prof: prof, Metrics: false, DebugLog: true}
		caseID := "cfg/" + p.String()
		r.Do(caseID, func() {
			e := &env{r: r, p: p, case0: caseID}
			e.runPoint()
		})
	}
}
