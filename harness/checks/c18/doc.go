// Package c18: peer management — outbound target kept; bans, per-host and total limits hold.
//
// Two runtime monitors (DESIGN.md §5 C18):
//
//  1. book.go — the UNMODIFIED admission handlers of transports/p2p (handleAddPeerMsg,
//     handleDonePeerMsg, handleBanPeerMsg on a fresh peerState, reached through the
//     build-tag-guarded hook transports/p2p/hooks_verif.go) are driven with seeded
//     add/done/ban/pause sequences over real serverPeers (real version handshake over a
//     pipe whose remote address is a host of a 6-host / 3-group universe) and compared,
//     after every event, with a counting model written from the statement.
//  2. cm.go — the exported connection manager (transports/p2p/connmgr) is run with a
//     scripted Dial / GetNewAddress / BanAddress and harness-issued Disconnect/Remove;
//     monitors: never more than the target open, the target is (re)established after
//     refusals and closes (bounded progress, confirmed by a re-run).
//
// The files that need the hook are guarded by the additional tag c18hook until the hook
// file is part of /repo (see /verif/harness/hooks).
package c18
