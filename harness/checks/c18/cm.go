//go:build verif

package c18

import (
	"encoding/gob"
	"encoding/json"
	"errors"
	"fmt"
	"math/rand"
	"net"
	"os"
	"runtime"
	"sort"
	"sync"
	"time"

	"github.com/bitcoin-sv/block-headers-service/transports/p2p/connmgr"
	"github.com/bitcoin-sv/block-headers-service/verifharness/ev"
	"github.com/rs/zerolog"
)

func init() {
	// violation details travel from the worker processes to the parent as gob
	gob.Register(map[string]any{})
	gob.Register([]any{})
}

// generic turns a detail value into plain JSON-shaped data (maps, slices, scalars).
func generic(v any) any {
	b, err := json.Marshal(v)
	if err != nil {
		return fmt.Sprint(v)
	}
	var out any
	if err := json.Unmarshal(b, &out); err != nil {
		return string(b)
	}
	return out
}

const (
	cmRetry      = time.Millisecond
	cmIdleFactor = 200 // dialling idle for 200x the retry interval = the manager has stopped
)

// fakeConn is the connection object handed to the manager by the scripted Dial.
type fakeConn struct {
	h      *cmHarness
	addr   net.Addr
	id     int
	closed bool // under h.mu
}

func (c *fakeConn) Read([]byte) (int, error)         { return 0, errors.New("c18: scripted connection") }
func (c *fakeConn) Write(b []byte) (int, error)      { return len(b), nil }
func (c *fakeConn) LocalAddr() net.Addr              { return &net.TCPAddr{IP: net.IPv4(127, 0, 0, 1)} }
func (c *fakeConn) RemoteAddr() net.Addr             { return c.addr }
func (c *fakeConn) SetDeadline(time.Time) error      { return nil }
func (c *fakeConn) SetReadDeadline(time.Time) error  { return nil }
func (c *fakeConn) SetWriteDeadline(time.Time) error { return nil }
func (c *fakeConn) Close() error {
	h := c.h
	h.mu.Lock()
	defer h.mu.Unlock()
	h.touch()
	if c.closed {
		return nil
	}
	c.closed = true
	h.dialOpen--
	h.closes++
	for id, fc := range h.cbOpen {
		if fc == c {
			delete(h.cbOpen, id)
		}
	}
	return nil
}

type cmParams struct {
	T          int
	Flavour    string // random | bad-address | no-banaddress | remove
	BanAddress bool   // a BanAddress callback is configured (as the real server does)
	HonourBan  bool   // GetNewAddress stops handing out banned addresses (as the real address manager does)
	RefuseRate int    // percent, scripted refusals
	Script     int    // scripted dial outcomes in the initial phase
	BadQ       int    // percent of GetNewAddress calls answered with the persistently refused address
	BadRefuse  int    // how many dials to the bad address are refused before it would succeed
	AddrErr    int    // percent of GetNewAddress calls that fail while a script is active
	Rounds     int
}

type cmHarness struct {
	p  cmParams
	mu sync.Mutex

	rng       *rand.Rand
	script    []bool // true = refuse
	badLeft   map[string]int
	banned    map[string]bool
	good      []string
	bad       string
	last      time.Time
	dialOpen  int
	cbOpen    map[uint64]*fakeConn
	connSeq   int
	exceed    string // first "more than target" observation
	exceedN   int
	maxOpen   int
	dials     int64
	successes int64
	refusals  int64
	addrCalls int64
	addrErrs  int64
	bans      int64
	onConn    int64
	onDisc    int64
	closes    int64
	log       []string
}

func (h *cmHarness) touch() { h.last = time.Now() }

func (h *cmHarness) logf(f string, a ...any) {
	if len(h.log) < 600 {
		h.log = append(h.log, fmt.Sprintf(f, a...))
	}
}

func tcp(s string) net.Addr {
	a, _ := net.ResolveTCPAddr("tcp", s)
	return a
}

func (h *cmHarness) getNewAddress() (net.Addr, error) {
	h.mu.Lock()
	defer h.mu.Unlock()
	h.touch()
	h.addrCalls++
	if len(h.script) > 0 && h.p.AddrErr > 0 && h.rng.Intn(100) < h.p.AddrErr {
		h.addrErrs++
		h.logf("getaddr -> error")
		return nil, errors.New("c18: no address available")
	}
	if h.bad != "" && !(h.p.HonourBan && h.banned[h.bad]) && h.rng.Intn(100) < h.p.BadQ {
		return tcp(h.bad), nil
	}
	return tcp(h.good[h.rng.Intn(len(h.good))]), nil
}

func (h *cmHarness) banAddress(a string) {
	h.mu.Lock()
	defer h.mu.Unlock()
	h.touch()
	h.bans++
	h.banned[a] = true
	h.logf("BanAddress(%s)", a)
}

func (h *cmHarness) dial(a net.Addr) (net.Conn, error) {
	h.mu.Lock()
	defer h.mu.Unlock()
	h.touch()
	h.dials++
	refuse := false
	if n := h.badLeft[a.String()]; n > 0 {
		h.badLeft[a.String()] = n - 1
		refuse = true
	} else if len(h.script) > 0 {
		refuse = h.script[0]
		h.script = h.script[1:]
	}
	if refuse {
		h.refusals++
		h.logf("dial %s -> refused", a)
		return nil, errors.New("c18: connection refused")
	}
	h.successes++
	h.connSeq++
	c := &fakeConn{h: h, addr: a, id: h.connSeq}
	h.dialOpen++
	if h.dialOpen > h.maxOpen {
		h.maxOpen = h.dialOpen
	}
	if h.dialOpen > h.p.T {
		h.exceedN++
		if h.exceed == "" {
			h.exceed = "dial"
		}
	}
	h.logf("dial %s -> conn#%d (open=%d)", a, c.id, h.dialOpen)
	return c, nil
}

func (h *cmHarness) onConnection(req *connmgr.ConnReq, conn net.Conn, _ *zerolog.Logger) {
	h.mu.Lock()
	defer h.mu.Unlock()
	h.touch()
	h.onConn++
	fc := conn.(*fakeConn)
	if !fc.closed {
		h.cbOpen[req.ID()] = fc
	}
	if len(h.cbOpen) > h.p.T {
		h.exceedN++
		if h.exceed == "" {
			h.exceed = "onconnection"
		}
	}
}

func (h *cmHarness) onDisconnection(*connmgr.ConnReq) {
	h.mu.Lock()
	defer h.mu.Unlock()
	h.touch()
	h.onDisc++
}

// canary performs one round of what a request slot of the manager needs from the Go
// scheduler to make a step: a 1 ms timer, then a chain of goroutine hand-offs over
// unbuffered channels. It returns when the round has completed.
func canary() {
	done := make(chan struct{})
	time.AfterFunc(cmRetry, func() {
		ch := make(chan int)
		for i := 0; i < 8; i++ {
			go func() { ch <- 1 }()
			<-ch
		}
		close(done)
	})
	<-done
}

// quiesce waits until no callback has fired for the idle window. false = watchdog.
// To tell "the manager is idle" from "this process is starved of CPU", the window is
// also measured in scheduler progress: at least 40 canary rounds (timer + goroutine
// hand-offs, the same work a pending request needs to get to its next Dial) must have
// completed since the last activity. On an idle host that is far less than the window.
func (h *cmHarness) quiesce(idle time.Duration) bool {
	deadline := time.Now().Add(120 * time.Second)
	var seen time.Time
	rounds := 0
	for {
		h.mu.Lock()
		last := h.last
		h.mu.Unlock()
		if last.Equal(seen) {
			rounds++
		} else {
			seen, rounds = last, 0
		}
		if time.Since(last) >= idle && rounds >= 40 {
			return true
		}
		if time.Now().After(deadline) {
			return false
		}
		canary()
		time.Sleep(time.Millisecond)
	}
}

func (h *cmHarness) newScript(n, rate int) {
	h.mu.Lock()
	defer h.mu.Unlock()
	h.script = h.script[:0]
	for i := 0; i < n; i++ {
		h.script = append(h.script, h.rng.Intn(100) < rate)
	}
}

type cmOutcome struct {
	miss      string // "" or the phase at which the target was not (re)established
	missOpen  int
	exceed    string
	watchdog  bool
	h         *cmHarness
	replaced  int64
	slow      int64
	checks    int64
	discs     int64
	removes   int64
	removeBad string
}

var cmNop = zerolog.Nop()

func cmParamsFor(rng *rand.Rand, idx int) cmParams {
	p := cmParams{T: 1 + rng.Intn(8), BanAddress: true, HonourBan: true, Rounds: 1 + rng.Intn(3)}
	p.RefuseRate = []int{30, 60, 90}[rng.Intn(3)]
	p.Script = rng.Intn(120)
	switch idx % 4 {
	case 0:
		p.Flavour = "random"
		p.AddrErr = []int{0, 5, 20}[rng.Intn(3)]
	case 1:
		p.Flavour = "bad-address"
		p.BadQ = []int{50, 80, 100}[rng.Intn(3)]
		p.BadRefuse = 25 + rng.Intn(40)
		p.HonourBan = rng.Intn(4) != 0
		p.Script = rng.Intn(40)
	case 2:
		p.Flavour = "no-banaddress"
		p.BanAddress = false
		p.AddrErr = []int{0, 10}[rng.Intn(2)]
		if rng.Intn(2) == 0 { // a persistently refused address is harmless on this path
			p.BadQ, p.BadRefuse = 60, 25+rng.Intn(30)
		}
	case 3:
		p.Flavour = "remove"
	}
	return p
}

// runCM executes one scripted connection-manager scenario against the real manager.
func runCM(p cmParams, seed int64, idle time.Duration, extend bool) (res cmOutcome) {
	h := &cmHarness{p: p, rng: rand.New(rand.NewSource(seed)), badLeft: map[string]int{}, banned: map[string]bool{},
		cbOpen: map[uint64]*fakeConn{}, last: time.Now()}
	for i := 0; i < 12; i++ {
		h.good = append(h.good, fmt.Sprintf("8.%d.%d.1:8333", 1+i%3, i))
	}
	if p.BadQ > 0 {
		h.bad = "23.5.1.1:8333"
		h.badLeft[h.bad] = p.BadRefuse
	}
	out := cmOutcome{h: h}
	h.newScript(p.Script, p.RefuseRate)
	cfg := &connmgr.Config{
		TargetOutbound: uint32(p.T), RetryDuration: cmRetry, Dial: h.dial, GetNewAddress: h.getNewAddress,
		OnConnection: h.onConnection, OnDisconnection: h.onDisconnection, Logger: &cmNop,
	}
	if p.BanAddress {
		cfg.BanAddress = h.banAddress
	}
	cm, err := connmgr.New(cfg)
	if err != nil {
		out.watchdog = true
		return out
	}
	cm.Start()
	defer func() {
		cm.Stop()
		done := make(chan struct{})
		go func() { cm.Wait(); close(done) }()
		select {
		case <-done:
		case <-time.After(10 * time.Second):
			res.watchdog = true
		}
	}()
	atTarget := func(phase string) bool {
		if !h.quiesce(idle) {
			out.watchdog = true
			return false
		}
		h.mu.Lock()
		short := h.dialOpen != p.T || len(h.cbOpen) != p.T
		h.mu.Unlock()
		if short && extend {
			// Off target after the idle window: keep observing the SAME execution for a
			// 5x longer window before calling it "stopped" (the statement has no time bound;
			// a scheduling stall of the host must not look like a lost request).
			if !h.quiesce(5 * idle) {
				out.watchdog = true
				return false
			}
			h.mu.Lock()
			if h.dialOpen == p.T && len(h.cbOpen) == p.T {
				out.slow++
			} else if os.Getenv("C18_DEBUG") != "" {
				buf := make([]byte, 1<<20)
				fmt.Fprintf(os.Stderr, "c18: below target after the extended window (open %d/%d); goroutines:\n%s\n", h.dialOpen, p.T, buf[:runtime.Stack(buf, true)])
			}
			h.mu.Unlock()
		}
		h.mu.Lock()
		defer h.mu.Unlock()
		out.checks++
		h.logf("-- quiescent in phase %s: open(dial side)=%d open(OnConnection side)=%d target=%d", phase, h.dialOpen, len(h.cbOpen), p.T)
		if h.dialOpen != p.T || len(h.cbOpen) != p.T {
			out.miss, out.missOpen = phase, h.dialOpen
			if len(h.cbOpen) < h.dialOpen {
				out.missOpen = len(h.cbOpen)
			}
			return false
		}
		return true
	}
	if !atTarget("initial-fill") {
		return finishCM(&out)
	}
	for round := 0; round < p.Rounds; round++ {
		h.newScript(h.rngIntn(40), p.RefuseRate)
		h.mu.Lock()
		var ids []uint64
		for id := range h.cbOpen {
			ids = append(ids, id)
		}
		sort.Slice(ids, func(i, j int) bool { return ids[i] < ids[j] })
		h.rng.Shuffle(len(ids), func(i, j int) { ids[i], ids[j] = ids[j], ids[i] })
		k := 1 + h.rng.Intn(3)
		if k > len(ids) {
			k = len(ids)
		}
		victims := make([]*fakeConn, 0, k)
		for _, id := range ids[:k] {
			victims = append(victims, h.cbOpen[id])
		}
		double := h.rng.Intn(10) == 0
		before := h.successes
		useRemove := p.Flavour == "remove" && round == p.Rounds-1
		h.touch() // the idle window restarts with the harness action
		h.logf("-- round %d: %s of %d open connection(s)", round, map[bool]string{true: "Remove", false: "Disconnect"}[useRemove], k)
		h.mu.Unlock()
		for _, id := range ids[:k] {
			if useRemove {
				cm.Remove(id)
				out.removes++
			} else {
				cm.Disconnect(id)
				out.discs++
				if double {
					cm.Disconnect(id)
				}
			}
		}
		if useRemove {
			// Remove means "make no further attempts with this request": only the upper
			// bound and the close of the removed connections are asserted afterwards.
			if !h.quiesce(idle) {
				out.watchdog = true
			}
			h.mu.Lock()
			for _, v := range victims {
				if !v.closed {
					out.removeBad = "removed-connection-not-closed"
				}
			}
			h.mu.Unlock()
			break
		}
		if !atTarget("after-disconnect") {
			break
		}
		h.mu.Lock()
		for _, v := range victims {
			if !v.closed {
				out.miss, out.missOpen = "disconnected-connection-not-closed", h.dialOpen
			}
		}
		out.replaced += h.successes - before
		if h.successes-before < int64(k) && out.miss == "" {
			out.miss, out.missOpen = "closed-connection-not-replaced", h.dialOpen
		}
		h.mu.Unlock()
		if out.miss != "" {
			break
		}
	}
	return finishCM(&out)
}

func (h *cmHarness) rngIntn(n int) int {
	h.mu.Lock()
	defer h.mu.Unlock()
	return h.rng.Intn(n)
}

func finishCM(out *cmOutcome) cmOutcome {
	h := out.h
	h.mu.Lock()
	out.exceed = h.exceed
	h.mu.Unlock()
	return *out
}

func runCMCase(r *ev.Run, id string, idx int) {
	rng := r.Rand(id)
	p := cmParamsFor(rng, idx)
	seed := rng.Int63()
	idle := cmIdleFactor * cmRetry
	out := runCM(p, seed, idle, true)
	h := out.h
	detail := func(o cmOutcome) any {
		o.h.mu.Lock()
		defer o.h.mu.Unlock()
		return generic(map[string]any{"params": p, "harness_seed": fmt.Sprint(seed), "phase": o.miss, "open_at_quiescence": o.missOpen,
			"dials": o.h.dials, "refusals": o.h.refusals, "successes": o.h.successes, "address_bans": o.h.bans,
			"max_open": o.h.maxOpen, "callback_log": append([]string(nil), o.h.log...)})
	}
	if out.miss != "" && !out.watchdog {
		// Bounded progress: a single miss is inconclusive — confirm by one re-run of the same
		// scenario with a 5x longer idle window before reporting.
		again := runCM(p, seed, 5*idle, false)
		r.Count("cm_reruns_to_confirm", 1)
		switch {
		case again.watchdog:
			r.Inconclusive(id, "confirmation re-run hit the watchdog")
		case again.miss == "":
			out.h.mu.Lock()
			tail := out.h.log
			if len(tail) > 6 {
				tail = tail[len(tail)-6:]
			}
			r.Inconclusive(id, fmt.Sprintf("target not reached once (flavour %s, phase %s, open %d/%d, dials %d, refusals %d, bans %d, last callbacks %q) but reached in the confirmation re-run",
				p.Flavour, out.miss, out.missOpen, p.T, out.h.dials, out.h.refusals, out.h.bans, tail))
			out.h.mu.Unlock()
		default:
			rel := "below"
			if again.missOpen > p.T {
				rel = "above"
			}
			sig := fmt.Sprintf("connmgr|idle-%s-target|phase=%s|banaddress=%s", rel, again.miss, map[bool]string{true: "set", false: "nil"}[p.BanAddress])
			what := fmt.Sprintf("target %d: the manager stopped dialling (idle for %d retry intervals) with %d open connections in phase %s", p.T, 5*cmIdleFactor, again.missOpen, again.miss)
			if again.miss != "initial-fill" && again.miss != "after-disconnect" {
				sig = "connmgr|" + again.miss
				what = fmt.Sprintf("target %d: %s (open connections %d)", p.T, again.miss, again.missOpen)
			}
			again.h.mu.Lock()
			bans := again.h.bans
			again.h.mu.Unlock()
			// Fingerprint of the lost-slot defect: every BanAddress call costs exactly one
			// request slot for good, so the shortfall equals the number of address bans.
			if bans > 0 && int64(p.T-again.missOpen) == bans && (again.miss == "initial-fill" || again.miss == "after-disconnect") {
				sig = "connmgr|slot-lost-after-address-ban|target-not-reached"
				what += fmt.Sprintf("; BanAddress was called %d time(s) and exactly that many request slots are gone — the slot of a banned address is never replaced although later dials would succeed", bans)
				r.Count("cm_slot_lost_after_address_ban", 1)
			}
			r.Violate(sig, what, id, detail(again))
		}
	} else if out.watchdog {
		r.Inconclusive(id, "connection-manager scenario hit the watchdog")
	}
	if out.exceed != "" {
		r.Violate("connmgr|open-exceeds-target|at="+out.exceed,
			fmt.Sprintf("more than the target of %d connections were open at a %s callback (max %d)", p.T, out.exceed, h.maxOpen), id, detail(out))
	}
	if out.removeBad != "" {
		r.Violate("connmgr|"+out.removeBad, "a connection removed with Remove was not closed by the manager", id, detail(out))
	}
	h.mu.Lock()
	r.Count("cm_dial_attempts", h.dials)
	r.Count("cm_dial_successes", h.successes)
	r.Count("cm_dial_refusals", h.refusals)
	r.Count("cm_getnewaddress_calls", h.addrCalls)
	r.Count("cm_getnewaddress_errors", h.addrErrs)
	r.Count("cm_address_bans", h.bans)
	r.Count("cm_onconnection_callbacks", h.onConn)
	r.Count("cm_ondisconnection_callbacks", h.onDisc)
	r.Count("cm_connections_closed_by_manager", h.closes)
	if h.maxOpen == p.T {
		r.Count("cm_cases_max_open_eq_target", 1)
	}
	refusedSome, banned := h.refusals > 0, h.bans > 0
	h.mu.Unlock()
	r.Count("cm_disconnects_issued", out.discs)
	r.Count("cm_removes_issued", out.removes)
	r.Count("cm_replacements_observed", out.replaced)
	r.Count("cm_target_reached_only_in_extended_window", out.slow)
	r.Count("cm_target_checks_at_quiescence", out.checks)
	r.Count("cm_cases_"+p.Flavour, 1)
	r.Case(fmt.Sprintf("cm|%s|T=%d|rate=%d|banaddr=%v|honour=%v|banned=%v|rounds=%d", p.Flavour, p.T, p.RefuseRate, p.BanAddress, p.HonourBan, banned, p.Rounds),
		refusedSome && out.discs+out.removes > 0)
}
