//go:build verif

package c18

import (
	"fmt"
	"runtime"

	"github.com/bitcoin-sv/block-headers-service/config"
	"github.com/bitcoin-sv/block-headers-service/verifharness/ev"
)

// Spec is the check registration. The binary is expected to be built with -race.
func Spec() ev.Spec {
	return ev.Spec{Prop: "C18", Level: "exploration", Workers: -1, Race: true, Body: body}
}

func body(r *ev.Run) {
	r.Rule("a peer-book sequence is non-trivial if it contains at least one refusal (banned / per-host / total) and at least one done of an admitted peer; " +
		"one outbound/persistent peer in ten stops half way through the handshake (it sends its version and never acknowledges the service's); " +
		"address selection (monitor 4): p2putil.NewAddressFunc over the real address manager with address books in which every address is on a non-default port / was tried a moment ago / both: within 400 calls (the connection manager asks again whenever a draw of 100 comes back empty) an address of a group not yet connected to must be handed out; wiring (monitor 5): the real server against one scripted node whose first connection goes away before its version / between version and verack / right after the handshake / mid-sync / after two version messages instead of version + verack - the service must dial again (no connection, an address known and not one dial attempt in 75 s = the slot is lost); " +
		"re-ban cases: a host is banned (3 s), the ban elapses with no connection attempt of that host, a peer of the host connected since before gets it banned again, and a newcomer of that host asks for admission at once; " +
		"a connection-manager scenario is non-trivial if at least one dial was refused and at least one Disconnect/Remove was issued; " +
		"distinct = distinct (flavour, length bucket, set of refusal reasons and limit states reached) resp. (flavour, target, refusal rate, ban configuration, rounds)")
	r.Assume(
		"peer book: the three handlers are called from one goroutine on a fresh peerState through the verif hook (as peerHandler does); peers are real serverPeers after a real version handshake over net.Pipe with a scripted remote end; the message listeners (OnVersion → AddPeer, sync manager) are not installed — admission is driven by the harness",
		fmt.Sprintf("limits read from config: MaxPeers=%d MaxPeersPerIP=%d; weakest reading of the per-host limit: persistent peers are exempt from the per-host count (states where a host exceeds the limit when persistent peers are counted are reported as an informational counter only)", config.MaxPeers, config.MaxPeersPerIP),
		"ban timing: the system under test reads the wall clock; 'still banned' is asserted with a 1 h ban only, 'ban elapsed' with a 1 ms ban followed by a 50 ms pause — never near the threshold; the re-ban cases use a 3 s ban: 'elapsed' after 3.5 s, 'banned again' only when the admission verdict came less than 1.5 s after the second ban (else inconclusive); another peer of the host asks 2.6 s into that 3 s ban and must be refused if the verdict arrives less than 2.9 s after the clock reading that preceded the ban",
		"address manager (monitor 3): address books of 2300-3200 addresses of one group found good one after the other (the tried buckets of a group hold 2048), all banned afterwards, one good address of another group left: GetAddress returns it, every time; seeded sequences of AddAddresses/Attempt/Good/Connected/BanAddress/GetAddress on the real addrmgr; a GetAddress call that has not returned after 3 s + 25 s is reported (it spins under the manager's lock)",
		"connection manager: bounded progress — 'stopped dialling' means no Dial/GetNewAddress/OnConnection/Close activity for 200 retry intervals (1 ms each); a miss is only reported after a confirming re-run with a 5x longer window; Remove()d connections are not expected to be replaced; permanent (backoff) requests are not exercised",
	)
	if r.Workers > 1 {
		// one worker process per CPU: keep each worker's thread count low so that the
		// bounded-progress monitor is not disturbed by host oversubscription
		runtime.GOMAXPROCS(4)
	}
	nBook := r.Pick(300, 10000)
	nCM := r.Pick(200, 5000)
	for i := 0; i < nBook; i++ {
		id := fmt.Sprintf("book/%05d", i)
		i := i
		r.Do(id, func() { runBookCase(r, id, i) })
	}
	for i := 0; i < r.Pick(16, 160); i++ {
		id := fmt.Sprintf("reban/%05d", i)
		i := i
		r.Do(id, func() { runRebanCase(r, id, i) })
	}
	for i := 0; i < nCM; i++ {
		id := fmt.Sprintf("cm/%05d", i)
		i := i
		r.Do(id, func() { runCMCase(r, id, i) })
	}
	for i := 0; i < r.Pick(200, 4000); i++ {
		id := fmt.Sprintf("pick/%05d", i)
		i := i
		r.Do(id, func() { runAddrPickCase(r, id, i) })
	}
	for i := 0; i < r.Pick(10, 80); i++ {
		id := fmt.Sprintf("wiring/%05d", i)
		i := i
		r.Do(id, func() { runWiringCase(r, id, i) })
	}
	nAM := r.Pick(400, 8000)
	for i := 0; i < nAM; i++ {
		id := fmt.Sprintf("am/%05d", i)
		i := i
		r.Do(id, func() { runAddrMgrCase(r, id, i) })
	}
	for i := 0; i < r.Pick(3, 24); i++ {
		id := fmt.Sprintf("amscale/%05d", i)
		i := i
		r.Do(id, func() { runAddrMgrScaleCase(r, id, i) })
	}
	r.Require("am_books_with_overflowing_tried_buckets", 3)
	r.Require("wiring_replacements_observed", 8)
	r.Require("am_getaddress_calls", 500)
	r.Require("address_picks_ok", 100)
	r.Require("am_bans_of_tried_address", 50)
	r.Require("book_admitted", 1000)
	r.Require("book_events_done", 500)
	r.Require("book_events_ban", 50)
	r.Require("book_refused_banned", 20)
	r.Require("book_refused_after_second_ban", 8)
	r.Require("book_refused_late_in_the_ban", 6)
	r.Require("book_refused_perhost", 50)
	r.Require("book_refused_total", 10)
	r.Require("book_readmitted_after_ban_elapsed", 10)
	r.Require("book_all_left_all_zero", 100)
	r.Require("cm_dial_refusals", 500)
	r.Require("cm_replacements_observed", 50)
	r.Require("cm_target_checks_at_quiescence", 100)
	r.Require("cm_address_bans", 5)
}
