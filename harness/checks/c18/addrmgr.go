//go:build verif

package c18

import (
	"fmt"
	"net"
	"time"

	"github.com/bitcoin-sv/block-headers-service/internal/wire"
	"github.com/bitcoin-sv/block-headers-service/transports/p2p/addrmgr"
	"github.com/bitcoin-sv/block-headers-service/verifharness/ev"
	"github.com/rs/zerolog"
)

// Monitor 3: the real address manager under the operations the server and the connection
// manager perform on it (AddAddresses, Attempt, Good, Connected, BanAddress, GetAddress).
// "Keeps asking for addresses": GetAddress must always return (it is called with the
// manager's lock held, so a call that never returns wedges every outbound handshake),
// must never hand out a banned address, and must return an address while an unbanned
// one is known.

var amWedged bool // a previous case left a spinning GetAddress behind: skip further cases in this worker

func runAddrMgrCase(r *ev.Run, id string, i int) {
	if amWedged {
		return
	}
	rng := r.Rand(id)
	log := zerolog.Nop()
	am := addrmgr.New(func(string) ([]net.IP, error) { return nil, fmt.Errorf("no dns") }, &log)
	nAddr := 1 + rng.Intn(6)
	if i%4 == 0 {
		nAddr = 1
	}
	var addrs []*wire.NetAddress
	for k := 0; k < nAddr; k++ {
		ip := net.IPv4(byte(60+k), byte(1+rng.Intn(200)), 0, byte(1+rng.Intn(200)))
		addrs = append(addrs, wire.NewNetAddressTimestamp(time.Now().Add(-time.Hour), wire.SFNodeNetwork, ip, 8333))
	}
	src := wire.NewNetAddressTimestamp(time.Now(), wire.SFNodeNetwork, net.IPv4(70, 1, 1, 1), 8333)
	am.AddAddresses(addrs, src)
	banned := map[string]bool{}
	tried := map[string]bool{}
	var ops []string
	get := func() (*addrmgr.KnownAddress, bool) {
		ch := make(chan *addrmgr.KnownAddress, 1)
		go func() { ch <- am.GetAddress() }()
		select {
		case ka := <-ch:
			return ka, true
		case <-time.After(3 * time.Second):
		}
		// confirm: a livelock never ends, load does
		select {
		case ka := <-ch:
			return ka, true
		case <-time.After(25 * time.Second):
			return nil, false
		}
	}
	n := 10 + rng.Intn(40)
	for step := 0; step < n; step++ {
		a := addrs[rng.Intn(len(addrs))]
		key := addrmgr.NetAddressKey(a)
		switch k := rng.Intn(10); {
		case k < 2:
			am.Attempt(a)
			ops = append(ops, "attempt:"+key)
		case k < 4:
			if !banned[key] {
				am.Good(a)
				tried[key] = true
				ops = append(ops, "good:"+key)
			}
		case k < 5:
			am.Connected(a)
			ops = append(ops, "connected:"+key)
		case k < 7:
			am.BanAddress(key)
			ops = append(ops, "ban:"+key)
			cls := "new"
			if tried[key] {
				cls = "tried"
			}
			r.Count("am_bans_of_"+cls+"_address", 1)
			banned[key] = true
			tried[key] = false
		default:
			ka, ok := get()
			ops = append(ops, "get")
			r.Count("am_getaddress_calls", 1)
			if !ok {
				amWedged = true
				r.Violate("addrmgr|ban-of-tried-address|GetAddress-does-not-return", "AddrManager.GetAddress did not return within 28 s (it holds the address manager's lock while it spins)", id, map[string]any{"ops": ops})
				return
			}
			unbanned := 0
			for _, x := range addrs {
				if !banned[addrmgr.NetAddressKey(x)] {
					unbanned++
				}
			}
			if ka != nil && banned[addrmgr.NetAddressKey(ka.NetAddress())] {
				r.Violate("addrmgr|banned-address-handed-out", "GetAddress returned an address that was banned (24 h) a moment ago", id, map[string]any{"ops": ops})
				return
			}
			if ka == nil && unbanned > 0 {
				r.Violate("addrmgr|no-address-although-known", fmt.Sprintf("GetAddress returned nil although %d unbanned address(es) are known", unbanned), id, map[string]any{"ops": ops})
				return
			}
			if ka != nil {
				r.Count("am_addresses_handed_out", 1)
			} else {
				r.Count("am_getaddress_nil_all_banned", 1)
			}
		}
	}
	// final probe
	if _, ok := get(); !ok {
		amWedged = true
		r.Violate("addrmgr|ban-of-tried-address|GetAddress-does-not-return", "AddrManager.GetAddress did not return within 28 s at the end of the sequence", id, map[string]any{"ops": ops})
		return
	}
	r.Case(fmt.Sprintf("am|addrs=%d|bans=%d", nAddr, len(banned)), len(banned) > 0)
}

// runAddrMgrScaleCase: the address book of a long-running node. More than two thousand addresses of one network group are
// learnt, dialled and found good one after the other - more than the tried buckets of one group hold (8 x 256), so the
// oldest tried entries are pushed back into the table of new addresses. Then all of them turn bad and are banned, and a
// single good address of another group remains: GetAddress must hand that one out, every time, and return.
func runAddrMgrScaleCase(r *ev.Run, id string, i int) {
	if amWedged {
		return
	}
	rng := r.Rand(id)
	log := zerolog.Nop()
	am := addrmgr.New(func(string) ([]net.IP, error) { return nil, fmt.Errorf("no dns") }, &log)
	src := wire.NewNetAddressTimestamp(time.Now(), wire.SFNodeNetwork, net.IPv4(70, 1, 1, 1), 8333)
	n := 2300 + rng.Intn(900)
	b1 := byte(1 + rng.Intn(200))
	var keys []string
	for k := 0; k < n; k++ {
		ip := net.IPv4(81, b1, byte(k/250), byte(1+k%250))
		a := wire.NewNetAddressTimestamp(time.Now().Add(-time.Duration(1+rng.Intn(3000))*time.Second), wire.SFNodeNetwork, ip, 8333)
		am.AddAddresses([]*wire.NetAddress{a}, src)
		am.Attempt(a)
		am.Good(a)
		keys = append(keys, addrmgr.NetAddressKey(a))
	}
	for _, k := range keys {
		am.BanAddress(k)
	}
	last := wire.NewNetAddressTimestamp(time.Now().Add(-time.Hour), wire.SFNodeNetwork, net.IPv4(90, byte(1+rng.Intn(200)), 3, 4), 8333)
	am.AddAddresses([]*wire.NetAddress{last}, src)
	am.Attempt(last)
	am.Good(last)
	want := addrmgr.NetAddressKey(last)
	detail := map[string]any{"addresses_of_one_group_found_good_then_banned": n, "remaining_good_address": want}
	for c := 0; c < 40; c++ {
		ch := make(chan *addrmgr.KnownAddress, 1)
		go func() { ch <- am.GetAddress() }()
		var ka *addrmgr.KnownAddress
		select {
		case ka = <-ch:
		case <-time.After(3 * time.Second):
			select {
			case ka = <-ch:
			case <-time.After(25 * time.Second):
				amWedged = true
				r.Violate("addrmgr|after-tried-bucket-overflow|GetAddress-does-not-return", fmt.Sprintf("after %d addresses of one group had been found good (tried buckets overflowed) and banned, with one good address left, call %d of AddrManager.GetAddress did not return within 28 s (it spins under the address manager's lock)", n, c+1), id, detail)
				return
			}
		}
		r.Count("am_getaddress_calls", 1)
		if ka == nil {
			r.Violate("addrmgr|after-tried-bucket-overflow|no-address", "GetAddress returned nothing although one good, unbanned address is known", id, detail)
			return
		}
		if got := addrmgr.NetAddressKey(ka.NetAddress()); got != want {
			r.Violate("addrmgr|after-tried-bucket-overflow|banned-address-handed-out", fmt.Sprintf("GetAddress handed out %s, which was banned; the only unbanned address is %s", got, want), id, detail)
			return
		}
	}
	r.Count("am_books_with_overflowing_tried_buckets", 1)
	r.Case("addrmgr|scale|overflow-then-ban", true)
}
