//go:build verif

package c18

import (
	"fmt"
	"io"
	"math/rand"
	"net"
	"os"
	"sort"
	"strings"
	"time"

	"github.com/bitcoin-sv/block-headers-service/config"
	"github.com/bitcoin-sv/block-headers-service/internal/wire"
	"github.com/bitcoin-sv/block-headers-service/transports/p2p"
	"github.com/bitcoin-sv/block-headers-service/verifharness/ev"
	"github.com/rs/zerolog"
)

// ---------------------------------------------------------------------------
// Host universe: 6 routable IPv4 hosts in 3 /16 groups and 2 routable IPv6 hosts in one /32 group.

type hostInfo struct{ ip, group string }

var universe = []hostInfo{
	{"8.1.0.1", "8.1.0.0"}, {"8.1.77.2", "8.1.0.0"},
	{"23.5.1.1", "23.5.0.0"}, {"23.5.200.9", "23.5.0.0"},
	{"45.33.2.7", "45.33.0.0"}, {"45.33.250.250", "45.33.0.0"},
	// two IPv6 hosts of one /32 (their peer addresses read "[host]:port")
	{"2a01:4f8:1::7", "2a01:4f8::"}, {"2a01:4f8:2::9", "2a01:4f8::"},
}

const (
	kInbound    = "inbound"
	kOutbound   = "outbound"
	kPersistent = "persistent"
)

// ---------------------------------------------------------------------------
// The scripted remote end of a peer connection (raw wire messages over a pipe).

type addrConn struct {
	net.Conn
	remote net.Addr
}

func (c addrConn) RemoteAddr() net.Addr { return c.remote }

// Write drops zero-length writes (empty message payloads): on a net.Pipe they would
// block until the other side issues a Read, which a wire reader never does for them.
func (c addrConn) Write(b []byte) (int, error) {
	if len(b) == 0 {
		return 0, nil
	}
	return c.Conn.Write(b)
}

func remoteVersion(nonce uint64) *wire.MsgVersion {
	me := wire.NewNetAddressIPPort(net.ParseIP("0.0.0.0"), 0, 0)
	msg := wire.NewMsgVersion(me, me, nonce, 0)
	msg.ProtocolVersion = int32(wire.ProtocolVersion)
	_ = msg.AddUserAgent("c18remote", "1.0.0")
	return msg
}

// remoteSide plays the other end of the handshake, reports on hs, then drains.
// half: the remote end sends its version and never acknowledges the service's version (the connection goes away between
// the two halves of the handshake).
func remoteSide(c net.Conn, sutInbound bool, nonce uint64, hs chan<- error, half bool) {
	pver, bnet := wire.ProtocolVersion, wire.MainNet
	err := func() error {
		if half && !sutInbound {
			if _, _, err := wire.ReadMessage(c, pver, bnet); err != nil { // version
				return err
			}
			// (the service acknowledges only after it has received both our version and our verack: nothing more to read)
			return wire.WriteMessage(c, remoteVersion(nonce), pver, bnet)
		}
		if sutInbound {
			if err := wire.WriteMessage(c, remoteVersion(nonce), pver, bnet); err != nil {
				return err
			}
			for i := 0; i < 2; i++ { // verack + version
				if _, _, err := wire.ReadMessage(c, pver, bnet); err != nil {
					return err
				}
			}
			return wire.WriteMessage(c, wire.NewMsgVerAck(), pver, bnet)
		}
		if _, _, err := wire.ReadMessage(c, pver, bnet); err != nil { // version
			return err
		}
		if err := wire.WriteMessage(c, remoteVersion(nonce), pver, bnet); err != nil {
			return err
		}
		if err := wire.WriteMessage(c, wire.NewMsgVerAck(), pver, bnet); err != nil {
			return err
		}
		_, _, err := wire.ReadMessage(c, pver, bnet) // verack
		return err
	}()
	hs <- err
	_, _ = io.Copy(io.Discard, c)
	_ = c.Close()
}

// ---------------------------------------------------------------------------
// Counting model, written from the statement.

type bookPeer struct {
	vp       *p2p.VerifPeer
	host     int
	kind     string
	admitted bool
	done     bool
}

type bookModel struct {
	perHost    map[string]int  // admitted non-persistent peers per host (weakest reading: operator-configured persistent peers are exempt)
	allPerHost map[string]int  // admitted peers per host including persistent (informational)
	perGroup   map[string]int  // admitted outbound (incl. persistent) peers per /16 group
	total      int             // admitted peers
	banned     map[string]bool // host currently banned
	everBanned map[string]bool
	elapsed    map[string]bool // a ban on this host has elapsed and no peer has been admitted since
}

func newBookModel() *bookModel {
	return &bookModel{perHost: map[string]int{}, allPerHost: map[string]int{}, perGroup: map[string]int{},
		banned: map[string]bool{}, everBanned: map[string]bool{}, elapsed: map[string]bool{}}
}

// verdict: "" = admit, otherwise the refusal reason.
func (m *bookModel) verdict(host string) string {
	switch {
	case m.banned[host]:
		return "banned"
	case m.perHost[host] >= config.MaxPeersPerIP:
		return "perhost"
	case m.total >= config.MaxPeers:
		return "total"
	}
	return ""
}

func (m *bookModel) add(h hostInfo, kind string) {
	m.total++
	m.allPerHost[h.ip]++
	if kind != kPersistent {
		m.perHost[h.ip]++
	}
	if kind != kInbound {
		m.perGroup[h.group]++
	}
}

func (m *bookModel) remove(h hostInfo, kind string) {
	m.total--
	m.allPerHost[h.ip]--
	if kind != kPersistent {
		m.perHost[h.ip]--
	}
	if kind != kInbound {
		m.perGroup[h.group]--
	}
}

// ---------------------------------------------------------------------------

type bookCase struct {
	r        *ev.Run
	id       string
	rng      *rand.Rand
	flavour  string
	longBan  bool
	book     *p2p.VerifPeerBook
	m        *bookModel
	live     []*bookPeer // admitted, not yet done
	refused  []*bookPeer // refused, not yet done
	trace    []string
	nonce    uint64
	port     int
	hosts    []int // indices into universe this case draws from
	shape    map[string]bool
	bansLeft int
	stop     bool
	halfNext bool // the next outbound peer stops half way through the handshake
}

func (c *bookCase) logf(f string, a ...any) {
	c.trace = append(c.trace, fmt.Sprintf(f, a...))
}

func (c *bookCase) violate(sig, what string) {
	tr := c.trace
	if len(tr) > 400 {
		tr = append([]string{fmt.Sprintf("… %d earlier events omitted (replay the case id for all) …", len(tr)-400)}, tr[len(tr)-400:]...)
	}
	c.r.Violate(sig, what, c.id, generic(map[string]any{
		"flavour": c.flavour, "ban_duration": map[bool]string{true: "1h", false: "1ms"}[c.longBan],
		"events": tr, "limits": map[string]int{"MaxPeers": config.MaxPeers, "MaxPeersPerIP": config.MaxPeersPerIP},
	}))
	c.stop = true
}

// newPeer builds a real serverPeer through the hook and completes the handshake.
func (c *bookCase) newPeer(host int, kind string) *bookPeer {
	h := universe[host]
	c.port++
	c.nonce++
	remote := &net.TCPAddr{IP: net.ParseIP(h.ip), Port: 20000 + c.port%40000}
	sut, far := net.Pipe()
	hs := make(chan error, 1)
	half := c.halfNext && kind != kInbound
	c.halfNext = false
	go remoteSide(addrConn{Conn: far, remote: remote}, kind == kInbound, c.nonce<<20|uint64(c.port), hs, half)
	vp := c.book.NewPeer(kind == kInbound, kind == kPersistent, remote.String(), addrConn{Conn: sut, remote: remote})
	if vp == nil {
		_ = sut.Close()
		c.r.Inconclusive(c.id, "hook could not build an outbound peer for "+remote.String())
		c.stop = true
		return nil
	}
	select {
	case err := <-hs:
		if err != nil {
			c.r.Inconclusive(c.id, "handshake with the real peer failed on the scripted side: "+err.Error())
			c.stop = true
			return nil
		}
	case <-time.After(20 * time.Second):
		c.r.Inconclusive(c.id, "handshake watchdog (20s)")
		dbg("handshake watchdog kind=%s trace=%v", kind, c.trace)
		c.stop = true
		return nil
	}
	if half {
		// the peer id is assigned when the remote version has been processed
		for i := 0; vp.ID() == 0; i++ {
			if i > 400000 {
				c.r.Inconclusive(c.id, "the remote version was never processed")
				c.stop = true
				return nil
			}
			time.Sleep(50 * time.Microsecond)
		}
		c.r.Count("book_peers_with_half_a_handshake", 1)
		c.logf("(the next peer sends its version but never acknowledges ours)")
		return &bookPeer{vp: vp, host: host, kind: kind}
	}
	for i := 0; !vp.Ready(); i++ {
		if i > 400000 {
			c.r.Inconclusive(c.id, "peer never became ready after a completed handshake")
			c.stop = true
			return nil
		}
		time.Sleep(50 * time.Microsecond)
	}
	return &bookPeer{vp: vp, host: host, kind: kind}
}

// compare checks every counter of the system under test against the model.
func (c *bookCase) compare(after string) {
	total, perHost, perGroup, banned := c.book.Counts()
	if total != c.m.total {
		c.violate("book|counter|total|"+cmpWord(total, c.m.total)+"|after="+after,
			fmt.Sprintf("Count()=%d but %d peers are admitted and have not left (after %s)", total, c.m.total, after))
		return
	}
	check := func(name string, got map[string]int, want map[string]int, keys []string) bool {
		known := map[string]bool{}
		for _, k := range keys {
			known[k] = true
			if got[k] != want[k] {
				w := cmpWord(got[k], want[k])
				if got[k] < 0 {
					w = "negative"
				}
				c.violate("book|counter|"+name+"|"+w+"|after="+after,
					fmt.Sprintf("%s counter for %s is %d, model says %d (after %s)", name, k, got[k], want[k], after))
				return false
			}
		}
		for k, v := range got {
			if !known[k] && v != 0 {
				c.violate("book|counter|"+name+"|foreign-key|after="+after,
					fmt.Sprintf("%s counter has entry %q=%d for a key no peer ever had", name, k, v))
				return false
			}
		}
		return true
	}
	var hosts, groups []string
	gs := map[string]bool{}
	for _, h := range universe {
		hosts = append(hosts, h.ip)
		if !gs[h.group] {
			gs[h.group] = true
			groups = append(groups, h.group)
		}
	}
	if !check("perhost", perHost, c.m.perHost, hosts) || !check("pergroup", perGroup, c.m.perGroup, groups) {
		return
	}
	for h := range banned {
		if !c.m.everBanned[h] {
			c.violate("book|banned-set|phantom", fmt.Sprintf("host %s is in the ban list but was never banned", h))
			return
		}
	}
	if c.longBan {
		for h := range c.m.banned {
			if _, ok := banned[h]; !ok {
				c.violate("book|banned-set|missing", fmt.Sprintf("host %s was banned for 1h but is not in the ban list", h))
				return
			}
		}
	}
	for _, h := range universe {
		if c.m.allPerHost[h.ip] > config.MaxPeersPerIP {
			c.r.Count("book_info_states_host_over_limit_counting_persistent", 1)
			break
		}
	}
}

func cmpWord(got, want int) string {
	if got > want {
		return "higher"
	}
	return "lower"
}

func (c *bookCase) evAdd(host int, kind string) {
	h := universe[host]
	p := c.newPeer(host, kind)
	if p == nil {
		return
	}
	want := c.m.verdict(h.ip)
	got := c.book.Add(p.vp)
	c.logf("add %s %s -> admitted=%v (model: %s; host=%d total=%d)", kind, h.ip, got, orAdmit(want), c.m.perHost[h.ip], c.m.total)
	c.r.Count("book_events_add_"+kind, 1)
	if got != (want == "") {
		c.violate(fmt.Sprintf("book|admission|model=%s|got=%s|kind=%s", orAdmit(want), map[bool]string{true: "admit", false: "refuse"}[got], kind),
			fmt.Sprintf("add(%s,%s): handleAddPeerMsg returned %v but the model says %s (banned=%v, per-host %d/%d, total %d/%d)",
				kind, h.ip, got, orAdmit(want), c.m.banned[h.ip], c.m.perHost[h.ip], config.MaxPeersPerIP, c.m.total, config.MaxPeers))
		return
	}
	if got {
		c.m.add(h, kind)
		p.admitted = true
		c.live = append(c.live, p)
		c.r.Count("book_admitted", 1)
		if c.m.elapsed[h.ip] {
			c.r.Count("book_readmitted_after_ban_elapsed", 1)
			c.shape["readmit"] = true
			delete(c.m.elapsed, h.ip)
		}
		if !p.vp.Connected() {
			c.violate("book|admitted-peer-disconnected|kind="+kind, "an admitted peer is not Connected() right after admission")
			return
		}
		if c.m.total == config.MaxPeers {
			c.shape["at-total"] = true
		}
		if c.m.perHost[h.ip] == config.MaxPeersPerIP {
			c.shape["at-perhost"] = true
		}
	} else {
		c.r.Count("book_refused_"+want, 1)
		c.shape["refused-"+want] = true
		c.refused = append(c.refused, p)
		if p.vp.Connected() {
			c.violate("book|refused-peer-left-connected|reason="+want, "a refused peer is still Connected() after handleAddPeerMsg returned false")
			return
		}
	}
	c.compare("add")
}

func orAdmit(reason string) string {
	if reason == "" {
		return "admit"
	}
	return "refuse:" + reason
}

func (c *bookCase) evDone(p *bookPeer) {
	h := universe[p.host]
	c.book.Done(p.vp)
	p.done = true
	if p.admitted {
		c.m.remove(h, p.kind)
		c.r.Count("book_events_done", 1)
		c.logf("done %s %s", p.kind, h.ip)
		c.shape["done"] = true
		c.compare("done")
	} else {
		c.r.Count("book_events_done_of_refused", 1)
		c.logf("done-of-refused %s %s", p.kind, h.ip)
		c.compare("done-of-refused")
	}
}

func (c *bookCase) evBan(p *bookPeer) {
	h := universe[p.host]
	c.book.Ban(p.vp)
	c.m.banned[h.ip] = true
	c.m.everBanned[h.ip] = true
	delete(c.m.elapsed, h.ip)
	c.r.Count("book_events_ban", 1)
	c.logf("ban %s", h.ip)
	c.shape["ban"] = true
	c.compare("ban")
	if !c.longBan && !c.stop {
		// 1 ms ban: never assert near the threshold — pause 50 ms right away, after
		// which every 1 ms ban of this book has elapsed.
		time.Sleep(50 * time.Millisecond)
		for host := range c.m.banned {
			delete(c.m.banned, host)
			c.m.elapsed[host] = true
		}
		c.r.Count("book_events_pause", 1)
		c.logf("pause 50ms (all 1ms bans elapsed)")
	}
}

func takeAt(l *[]*bookPeer, i int) *bookPeer {
	p := (*l)[i]
	(*l)[i] = (*l)[len(*l)-1]
	*l = (*l)[:len(*l)-1]
	return p
}

// bookFlavours: weights are add / done / ban out of 100; kinds are the add-kind weights.
type flavourSpec struct {
	name              string
	hosts             int // how many hosts of the universe are used
	add, done, ban    int
	in, out, pers     int
	minLen, maxLenQ   int
	longBan           bool
	maxBans           int
	doneRefusedAtOnce int // percent
}

var bookFlavours = []flavourSpec{
	{name: "mixed-ban1h", hosts: 6, add: 57, done: 38, ban: 5, in: 45, out: 40, pers: 15, minLen: 50, maxLenQ: 2000, longBan: true, maxBans: 3, doneRefusedAtOnce: 50},
	{name: "mixed-ban1ms", hosts: 6, add: 55, done: 37, ban: 8, in: 45, out: 40, pers: 15, minLen: 50, maxLenQ: 2000, longBan: false, maxBans: 8, doneRefusedAtOnce: 50},
	{name: "host-pressure", hosts: 2, add: 60, done: 36, ban: 4, in: 50, out: 45, pers: 5, minLen: 50, maxLenQ: 600, longBan: false, maxBans: 4, doneRefusedAtOnce: 70},
	{name: "fill-total-ban1h", hosts: 6, add: 78, done: 20, ban: 2, in: 10, out: 10, pers: 80, minLen: 300, maxLenQ: 2000, longBan: true, maxBans: 2, doneRefusedAtOnce: 80},
	{name: "fill-total-ban1ms", hosts: 6, add: 78, done: 20, ban: 2, in: 10, out: 10, pers: 80, minLen: 300, maxLenQ: 2000, longBan: false, maxBans: 3, doneRefusedAtOnce: 80},
}

func seqLen(rng *rand.Rand, f flavourSpec) int {
	hi := f.maxLenQ
	// skew towards short sequences: 60 % in the lowest fifth, 30 % up to half, 10 % full range
	switch x := rng.Intn(10); {
	case x < 6:
		hi = f.minLen + (f.maxLenQ-f.minLen)/8
	case x < 9:
		hi = f.minLen + (f.maxLenQ-f.minLen)/3
	}
	return f.minLen + rng.Intn(hi-f.minLen+1)
}

var nopLog = zerolog.Nop()

func dbg(f string, a ...any) {
	if os.Getenv("C18_DEBUG") != "" {
		fmt.Fprintf(os.Stderr, "c18: "+f+"\n", a...)
	}
}

func runBookCase(r *ev.Run, id string, idx int) {
	rng := r.Rand(id)
	f := bookFlavours[idx%len(bookFlavours)]
	n := seqLen(rng, f)
	ban := time.Millisecond
	if f.longBan {
		ban = time.Hour
	}
	c := &bookCase{r: r, id: id, rng: rng, flavour: f.name, longBan: f.longBan, m: newBookModel(),
		book: p2p.VerifNewPeerBook(ban, &nopLog), shape: map[string]bool{}, bansLeft: f.maxBans}
	perm := rng.Perm(len(universe))
	c.hosts = perm[:f.hosts]
	pickKind := func() string {
		x := rng.Intn(f.in + f.out + f.pers)
		switch {
		case x < f.in:
			return kInbound
		case x < f.in+f.out:
			return kOutbound
		}
		return kPersistent
	}
	events := 0
	for events < n && !c.stop {
		events++
		x := rng.Intn(100)
		switch {
		case x < f.add || len(c.live) == 0:
			c.halfNext = rng.Intn(10) == 0
			c.evAdd(c.hosts[rng.Intn(len(c.hosts))], pickKind())
			if !c.stop && len(c.refused) > 0 && rng.Intn(100) < f.doneRefusedAtOnce {
				c.evDone(takeAt(&c.refused, len(c.refused)-1))
			}
		case x < f.add+f.done:
			if len(c.refused) > 0 && rng.Intn(4) == 0 {
				c.evDone(takeAt(&c.refused, rng.Intn(len(c.refused))))
			} else {
				c.evDone(takeAt(&c.live, rng.Intn(len(c.live))))
			}
		default:
			if c.bansLeft <= 0 {
				c.evDone(takeAt(&c.live, rng.Intn(len(c.live))))
				break
			}
			c.bansLeft--
			i := rng.Intn(len(c.live))
			c.evBan(c.live[i])
			if !c.stop && rng.Intn(2) == 0 { // the real flow disconnects a banned peer
				c.evDone(takeAt(&c.live, i))
			}
		}
	}
	// Everybody leaves: every counter must be back to zero.
	for len(c.refused) > 0 && !c.stop {
		c.evDone(takeAt(&c.refused, len(c.refused)-1))
	}
	for len(c.live) > 0 && !c.stop {
		c.evDone(takeAt(&c.live, rng.Intn(len(c.live))))
	}
	if !c.stop {
		total, perHost, perGroup, _ := c.book.Counts()
		leak := ""
		if total != 0 {
			leak = fmt.Sprintf("Count()=%d", total)
		}
		for k, v := range perHost {
			if v != 0 {
				leak += fmt.Sprintf(" perhost[%s]=%d", k, v)
			}
		}
		for k, v := range perGroup {
			if v != 0 {
				leak += fmt.Sprintf(" pergroup[%s]=%d", k, v)
			}
		}
		if leak != "" {
			c.violate("book|leak|nonzero-after-all-left", "all peers have left but "+leak)
		} else {
			r.Count("book_all_left_all_zero", 1)
		}
	} else {
		// release the real peers of an aborted case
		for _, p := range append(c.live, c.refused...) {
			c.book.Done(p.vp)
		}
	}
	r.Count("book_events_total", int64(events))
	var ks []string
	for k := range c.shape {
		ks = append(ks, k)
	}
	sort.Strings(ks)
	lb := "len<200"
	if events >= 600 {
		lb = "len>=600"
	} else if events >= 200 {
		lb = "len200-599"
	}
	nontrivial := c.shape["done"] && (c.shape["refused-banned"] || c.shape["refused-perhost"] || c.shape["refused-total"])
	r.Case("book|"+f.name+"|"+lb+"|"+strings.Join(ks, ","), nontrivial)
	if r.WantSample() && nontrivial && len(c.trace) > 12 {
		r.Sample(map[string]any{"case": id, "flavour": f.name, "events": events, "first_events": c.trace[:12], "shape": ks})
	}
}
