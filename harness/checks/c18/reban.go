package c18

import (
	"fmt"
	"time"

	"github.com/bitcoin-sv/block-headers-service/transports/p2p"
	"github.com/bitcoin-sv/block-headers-service/verifharness/ev"
)

// runRebanCase: a host is banned, the ban elapses while nobody of that host tries to connect, and a second peer of
// the host (connected since before the first ban) then gets the host banned again. A peer of that host that asks for
// admission right after the second ban must be refused. The ban lasts 3 s; "still banned" is only asserted when less
// than half of that has passed between the second ban and the admission verdict (otherwise: inconclusive), "elapsed" only
// after 3.5 s.
func runRebanCase(r *ev.Run, id string, idx int) {
	const ban = 3 * time.Second
	rng := r.Rand(id)
	c := &bookCase{r: r, id: id, rng: rng, flavour: "re-ban-after-elapsed-ban", longBan: true, m: newBookModel(),
		book: p2p.VerifNewPeerBook(ban, &nopLog), shape: map[string]bool{}}
	defer func() {
		for _, p := range append(c.live, c.refused...) {
			if !p.done {
				c.book.Done(p.vp)
			}
		}
	}()
	host := rng.Intn(len(universe))
	other := (host + 1 + rng.Intn(len(universe)-1)) % len(universe)
	kinds := []string{kInbound, kOutbound}
	// two or three peers of the host, one of another host
	nPeers := 2 + rng.Intn(2)
	for i := 0; i < nPeers && !c.stop; i++ {
		c.evAdd(host, kinds[rng.Intn(2)])
	}
	c.evAdd(other, kinds[rng.Intn(2)])
	if c.stop || len(c.live) < 3 {
		return
	}
	// first ban (the banned peer is disconnected, as the real flow does)
	c.evBan(c.live[0])
	if c.stop {
		return
	}
	c.evDone(takeAt(&c.live, 0))
	if rng.Intn(2) == 0 && !c.stop {
		c.evAdd(host, kinds[rng.Intn(2)]) // refused: banned a moment ago (not an attempt after the ban elapsed)
	}
	if c.stop {
		return
	}
	time.Sleep(ban + 500*time.Millisecond)
	delete(c.m.banned, universe[host].ip)
	c.logf("pause %v (the ban of %s has elapsed; nobody of that host tried to connect)", ban+500*time.Millisecond, universe[host].ip)
	// second ban, by a peer of the same host that has been connected all along; the newcomer has completed its
	// handshake beforehand so that nothing but the admission decision lies between the ban and the verdict
	newcomer := c.newPeer(host, kinds[rng.Intn(2)])
	if newcomer == nil {
		return
	}
	c.refused = append(c.refused, newcomer) // released at the end whatever happens
	// a second newcomer of the host, for an attempt late in the ban (2.6 s of 3 s)
	latecomer := c.newPeer(host, kinds[rng.Intn(2)])
	if latecomer == nil {
		return
	}
	c.refused = append(c.refused, latecomer)
	var second *bookPeer
	for _, p := range c.live {
		if p.host == host {
			second = p
		}
	}
	if second == nil {
		return
	}
	t2 := time.Now()
	c.book.Ban(second.vp)
	admitted := c.book.Add(newcomer.vp)
	dt := time.Since(t2)
	c.m.banned[universe[host].ip] = true
	c.m.everBanned[universe[host].ip] = true
	c.logf("ban %s again (by a peer connected since before the first ban); add %s %s -> admitted=%v after %v", universe[host].ip, newcomer.kind, universe[host].ip, admitted, dt)
	r.Count("book_second_bans_after_an_elapsed_ban", 1)
	switch {
	case dt > ban/2:
		r.Inconclusive(id, fmt.Sprintf("%v passed between the second ban and the admission verdict (ban lasts %v)", dt, ban))
	case admitted:
		newcomer.admitted = true
		c.m.add(universe[host], newcomer.kind)
		c.violate("book|admission|model=refuse:banned|got=admit|second-ban-after-elapsed-ban", fmt.Sprintf("host %s was banned again %v ago (its first ban had elapsed, with no connection attempt in between) and a peer of that host was admitted", universe[host].ip, dt))
	default:
		r.Count("book_refused_after_second_ban", 1)
		r.Case("book|re-ban-after-elapsed-ban", true)
		// "no peer from a banned host is admitted before the ban duration has elapsed": the clock was read before the ban
		// was pronounced, so a verdict that arrives less than 2.9 s after that reading was taken inside the 3 s ban
		if rest := 2600*time.Millisecond - time.Since(t2); rest > 0 {
			time.Sleep(rest)
		}
		late := c.book.Add(latecomer.vp)
		dt2 := time.Since(t2)
		c.logf("add %s %s %v after the ban -> admitted=%v", latecomer.kind, universe[host].ip, dt2, late)
		switch {
		case dt2 >= 2900*time.Millisecond:
			r.Count("book_late_attempts_too_late_to_judge", 1)
			if late {
				latecomer.admitted = true
				c.m.add(universe[host], latecomer.kind)
			}
		case late:
			latecomer.admitted = true
			c.m.add(universe[host], latecomer.kind)
			c.violate("book|admission|model=refuse:banned|got=admit|before-the-ban-duration-has-elapsed", fmt.Sprintf("host %s was banned for %v; %v after the clock reading that preceded the ban a peer of that host was admitted", universe[host].ip, ban, dt2))
		default:
			r.Count("book_refused_late_in_the_ban", 1)
		}
	}
}
