//go:build verif

package c18

import (
	"fmt"
	"net"
	"time"

	"github.com/bitcoin-sv/block-headers-service/config"
	"github.com/bitcoin-sv/block-headers-service/internal/wire"
	"github.com/bitcoin-sv/block-headers-service/transports/p2p/addrmgr"
	"github.com/bitcoin-sv/block-headers-service/transports/p2p/p2putil"
	"github.com/bitcoin-sv/block-headers-service/verifharness/ev"
	"github.com/rs/zerolog"
)

// Monitor 4: the function the connection manager asks for the next address to dial (p2putil.NewAddressFunc over the real
// address manager). The outbound target can only be kept if that function hands out an address whenever the address
// book holds one in a network group the service is not connected to yet - also when every known address is on a
// non-default port, or was tried a moment ago (the function prefers others, it must not insist).
const maxPickCalls = 400

func runAddrPickCase(r *ev.Run, id string, i int) {
	rng := r.Rand(id)
	log := zerolog.Nop()
	am := addrmgr.New(func(string) ([]net.IP, error) { return nil, fmt.Errorf("no dns") }, &log)
	defPort := 8333
	fmt.Sscan(config.ActiveNetParams.DefaultPort, &defPort)
	flavour := []string{"all-on-another-port", "all-tried-a-moment-ago", "both", "mixed"}[i%4]
	n := 1 + rng.Intn(5)
	var addrs []*wire.NetAddress
	for k := 0; k < n; k++ {
		ip := net.IPv4(byte(80+k), byte(1+rng.Intn(200)), 0, byte(1+rng.Intn(200)))
		port := uint16(defPort)
		if flavour == "all-on-another-port" || flavour == "both" || (flavour == "mixed" && k%2 == 0) {
			port = uint16(defPort + 1 + rng.Intn(1000))
		}
		addrs = append(addrs, wire.NewNetAddressTimestamp(time.Now().Add(-time.Hour), wire.SFNodeNetwork, ip, port))
	}
	src := wire.NewNetAddressTimestamp(time.Now(), wire.SFNodeNetwork, net.IPv4(70, 1, 1, 1), uint16(defPort))
	am.AddAddresses(addrs, src)
	if flavour == "all-tried-a-moment-ago" || flavour == "both" || flavour == "mixed" {
		for k, a := range addrs {
			if flavour == "mixed" && k%2 == 0 {
				continue
			}
			am.Attempt(a)
		}
	}
	connected := map[string]bool{} // groups the service is connected to
	if rng.Intn(3) == 0 && n > 1 {
		connected[addrmgr.GroupKey(addrs[0])] = true
	}
	eligible := 0
	for _, a := range addrs {
		if !connected[addrmgr.GroupKey(a)] {
			eligible++
		}
	}
	pick := p2putil.NewAddressFunc(am.GetAddress, func(g string) int {
		if connected[g] {
			return 1
		}
		return 0
	}, func(string) ([]net.IP, error) { return nil, fmt.Errorf("no dns") })
	var got net.Addr
	calls := 0
	// The function draws at random and gives up after 100 draws: an address that was tried a moment ago is drawn with
	// probability below 1 % when it competes with a fresh address of a connected group, so a single call comes back empty
	// more often than not. The connection manager simply asks again; so does this monitor (400 calls: the chance that a
	// function that can hand the address out never does is below 1e-90).
	for calls < maxPickCalls && got == nil {
		calls++
		if a, err := pick(); err == nil && a != nil {
			got = a
		}
	}
	r.Count("address_pick_calls", int64(calls))
	r.Count("address_pick_cases_"+flavour, 1)
	detail := map[string]any{"flavour": flavour, "known_addresses": n, "in_groups_not_connected_to": eligible, "default_port": defPort}
	switch {
	case eligible == 0:
		if got != nil {
			r.Violate("addrpick|address-of-a-connected-group-handed-out", fmt.Sprintf("every known address is in a network group the service is connected to, yet %s was handed out", got), id, detail)
			return
		}
	case got == nil:
		r.Violate("addrpick|no-address-although-eligible|"+flavour, fmt.Sprintf("%d calls in a row found no address to dial although %d of the %d known addresses are in groups the service is not connected to (%s)", calls, eligible, n, flavour), id, detail)
		return
	default:
		host, _, _ := net.SplitHostPort(got.String())
		ok := false
		for _, a := range addrs {
			if a.IP.String() == host && !connected[addrmgr.GroupKey(a)] {
				ok = true
			}
		}
		if !ok {
			r.Violate("addrpick|unknown-or-connected-address-handed-out", fmt.Sprintf("%s was handed out: not a known address of a group the service is not connected to", got), id, detail)
			return
		}
		r.Count("address_picks_ok", 1)
	}
	r.Case("addrpick|"+flavour, flavour != "mixed")
}
