//go:build verif

package c18

import (
	"fmt"
	"strings"
	"time"

	"github.com/bitcoin-sv/block-headers-service/verifharness/checks/c06"
	"github.com/bitcoin-sv/block-headers-service/verifharness/ev"
	"github.com/bitcoin-sv/block-headers-service/verifharness/p2prig"
)

// Monitor 5: the wiring between the pieces the other monitors drive one by one. The real server (connection manager,
// address manager, peer handler, sync manager) runs against one scripted node on loopback, the only address it knows.
// The node's first connection goes away at one of five points - before the node has sent its version message, after its
// version and before its verack, right after the handshake, in the middle of the sync, or after the node has answered the
// service's version with two version messages of its own. "Replaces an outbound connection
// that closes": the service must dial again. The verdict is bounded progress with a witness: a service that holds no
// connection, knows the address and makes not a single dial attempt in 75 s (retry interval 5 s) has lost the slot.
func wiringScenario(r *ev.Run, id string, i int) *p2prig.Scenario {
	rng := r.Rand(id)
	s := &p2prig.Scenario{ID: id, Seed: rng.Int63(), Engine: "legacy", InitialStore: "genesis", WaitReconnect: true}
	s.HonestLen = 20 + rng.Intn(60)
	s.CheckpointHeights = []int32{int32(1 + rng.Intn(s.HonestLen-12))}
	s.DisableCheckpoints = rng.Intn(3) == 0
	n0 := p2prig.NodeSpec{Kind: "honest", Cap: []int{0, 7, 12}[rng.Intn(3)]}
	switch i % 5 {
	case 4:
		// answers the service's version with two version messages and no verack, and hangs up when the service goes on
		n0.VersionTwice, n0.DisconnectAtMsg = true, 2
	case 0:
		n0.DisconnectAtMsg = 1
	case 1:
		n0.CloseAfterVersion = true
	case 2:
		n0.DisconnectAtMsg = 2
	default:
		n0.DisconnectAtMsg = 3 + rng.Intn(4)
	}
	// the target is 8 outbound connections: a slot that is lost each time shows once all of them are gone
	if i%5 != 3 && (i/5)%2 == 0 {
		n0.LoseFirstN = 9 + rng.Intn(4)
	}
	if (i/5)%2 == 0 && i%5 != 3 {
		// the goroutine that reports a closed connection pauses for a moment right after telling the peer handler, so that
		// "reported as gone" and "announced as new" reach the peer handler in either order, with time in between
		s.DelayPoints = map[string]int{"peerDone.reported": 2}
	}
	s.Nodes = []p2prig.NodeSpec{n0}
	s.Announce = []p2prig.AnnounceSpec{{Blocks: 1, Mode: "conformant"}}
	return s
}

func runWiringCase(r *ev.Run, id string, i int) {
	s := wiringScenario(r, id, i)
	res, crash := p2prig.RunScenarioChild(r.Scratch, s, 220*time.Second)
	c06.Record(r, s, res, crash, func(sig string) bool {
		return strings.HasPrefix(sig, "closed-outbound-connection-not-replaced|") || strings.HasPrefix(sig, "panic")
	})
	stage := []string{"before-its-version", "between-version-and-verack", "right-after-the-handshake", "mid-sync", "after-two-version-messages"}[i%5]
	if res != nil && res.Verdict != "inconclusive" {
		r.Count("wiring_first_connection_lost_"+stage, 1)
		if s.Nodes[0].LoseFirstN > 1 {
			r.Count("wiring_nine_or_more_connections_in_a_row_lost", 1)
		}
		if res.Counters["reconnects_observed"] > 0 {
			r.Count("wiring_replacements_observed", 1)
		}
	}
	r.Case(fmt.Sprintf("wiring|%s|repeated=%v", stage, s.Nodes[0].LoseFirstN > 1), true)
}
