// Package c20: configuration resolves as environment over file over defaults, for every key;
// invalid database sections are refused at validation.
//
// Every case drives the REAL start-up path of cmd/main.go: viper.Reset, scrubbed BHS_*
// environment, config.SetDefaults, os.Args = {bin, -C, file} -> cli.LoadFlags(defaultCfg),
// config.Load(defaultCfg), then (validation cases) cfg.Validate(). The oracle is the rule of the
// statement applied to values the harness chose: env value if given, else file value if given,
// else config.GetDefaultAppConfig(); every other key keeps its default. The WHOLE resulting
// struct is compared. viper, os.Args, the environment and the working directory are process
// global: the check runs in-process and sequentially (Workers: 0).
package c20

import (
	"encoding/json"
	"fmt"
	"os"
	"path/filepath"
	"reflect"
	"sort"
	"strings"
	"time"

	"github.com/rs/zerolog"
	"github.com/spf13/viper"
	"gopkg.in/yaml.v3"

	"github.com/bitcoin-sv/block-headers-service/cli"
	"github.com/bitcoin-sv/block-headers-service/config"
	"github.com/bitcoin-sv/block-headers-service/verifharness/ev"
)

// Spec is the check registration.
func Spec() ev.Spec {
	return ev.Spec{Prop: "C20", Level: "exploration", Workers: 0, Body: body}
}

const appVersion = "verif-c20-1.2.3"

// ---------------------------------------------------------------------------
// leaf keys by reflection

type leaf struct {
	path string       // dotted mapstructure path, e.g. db.postgres.host
	typ  reflect.Type // leaf Go type
}

var durationType = reflect.TypeOf(time.Duration(0))

func tagName(f reflect.StructField) string {
	t := f.Tag.Get("mapstructure")
	if i := strings.Index(t, ","); i >= 0 {
		t = t[:i]
	}
	if t == "" {
		t = strings.ToLower(f.Name)
	}
	return t
}

func walk(t reflect.Type, prefix string, out *[]leaf) {
	for t.Kind() == reflect.Ptr {
		t = t.Elem()
	}
	for i := 0; i < t.NumField(); i++ {
		f := t.Field(i)
		if !f.IsExported() {
			continue
		}
		name := tagName(f)
		if name == "-" {
			continue
		}
		ft := f.Type
		for ft.Kind() == reflect.Ptr {
			ft = ft.Elem()
		}
		p := name
		if prefix != "" {
			p = prefix + "." + name
		}
		if ft.Kind() == reflect.Struct {
			walk(ft, p, out)
			continue
		}
		*out = append(*out, leaf{path: p, typ: ft})
	}
}

func leaves() []leaf {
	var out []leaf
	walk(reflect.TypeOf(config.AppConfig{}), "", &out)
	sort.Slice(out, func(i, j int) bool { return out[i].path < out[j].path })
	return out
}

// field navigates to the leaf of cfg named by the dotted path, allocating nil sections.
func field(cfg *config.AppConfig, path string) (reflect.Value, bool) {
	v := reflect.ValueOf(cfg).Elem()
	for _, part := range strings.Split(path, ".") {
		for v.Kind() == reflect.Ptr {
			if v.IsNil() {
				if !v.CanSet() {
					return reflect.Value{}, false
				}
				v.Set(reflect.New(v.Type().Elem()))
			}
			v = v.Elem()
		}
		if v.Kind() != reflect.Struct {
			return reflect.Value{}, false
		}
		found := false
		for i := 0; i < v.NumField(); i++ {
			if f := v.Type().Field(i); f.IsExported() && tagName(f) == part {
				v = v.Field(i)
				found = true
				break
			}
		}
		if !found {
			return reflect.Value{}, false
		}
	}
	for v.Kind() == reflect.Ptr {
		if v.IsNil() {
			v.Set(reflect.New(v.Type().Elem()))
		}
		v = v.Elem()
	}
	return v, true
}

// flatten renders every leaf of cfg (nil sections render as "<nil section>").
func flatten(cfg *config.AppConfig, ls []leaf) map[string]string {
	out := map[string]string{}
	for _, l := range ls {
		out[l.path] = leafString(cfg, l.path)
	}
	return out
}

func leafString(cfg *config.AppConfig, path string) string {
	if cfg == nil {
		return "<nil config>"
	}
	v := reflect.ValueOf(cfg).Elem()
	for _, part := range strings.Split(path, ".") {
		for v.Kind() == reflect.Ptr {
			if v.IsNil() {
				return "<nil section>"
			}
			v = v.Elem()
		}
		ok := false
		for i := 0; i < v.NumField(); i++ {
			if f := v.Type().Field(i); f.IsExported() && tagName(f) == part {
				v = v.Field(i)
				ok = true
				break
			}
		}
		if !ok {
			return "<no such field>"
		}
	}
	return render(v)
}

func render(v reflect.Value) string {
	for v.Kind() == reflect.Ptr {
		if v.IsNil() {
			return "<nil>"
		}
		v = v.Elem()
	}
	return fmt.Sprintf("%s(%v)", v.Type().String(), v.Interface())
}

// ---------------------------------------------------------------------------
// value domains

// enumOf returns the closed set of valid values of a key, or nil for open domains.
func enumOf(l leaf) []string {
	switch l.typ {
	case reflect.TypeOf(config.DbEngine("")):
		return []string{string(config.DBSQLite), string(config.DBPostgreSQL)}
	case reflect.TypeOf(config.NetworkType("")):
		return []string{string(config.MainNet), string(config.TestNet), string(config.RegTestNet), string(config.SimulationNet)}
	}
	switch l.path {
	case "logging.level": // config.Load refuses a level zerolog cannot parse
		return []string{"trace", "debug", "info", "warn", "error", "fatal", "panic"}
	case "logging.format":
		return []string{"console", "json"}
	}
	return nil
}

// candidate returns the i-th valid value of the key's type that differs from the default
// (pairwise distinct for different i where the domain allows it) and whether it exists.
// tag makes string values recognisable in replay files.
func candidate(l leaf, def reflect.Value, i int, tag string) (reflect.Value, bool) {
	v := reflect.New(l.typ).Elem()
	if en := enumOf(l); en != nil {
		var others []string
		for _, e := range en {
			if e != def.String() {
				others = append(others, e)
			}
		}
		if i >= len(others) {
			return v, false
		}
		v.SetString(others[i])
		return v, true
	}
	switch {
	case l.typ == durationType:
		v.SetInt(def.Int() + int64(i+1)*int64(time.Hour) + int64(i+1)*int64(time.Second))
	case l.typ.Kind() == reflect.Bool:
		if i > 0 {
			return v, false
		}
		v.SetBool(!def.Bool())
	case l.typ.Kind() >= reflect.Int && l.typ.Kind() <= reflect.Int64:
		v.SetInt(def.Int() + int64(i+1))
	case l.typ.Kind() >= reflect.Uint && l.typ.Kind() <= reflect.Uint64:
		v.SetUint(def.Uint() + uint64(i+1))
	case l.typ.Kind() == reflect.String:
		v.SetString(fmt.Sprintf("%s_%s_%d", tag, strings.ReplaceAll(l.path, ".", "-"), i))
	case l.typ.Kind() == reflect.Float32 || l.typ.Kind() == reflect.Float64:
		v.SetFloat(def.Float() + float64(i+1))
	default:
		return v, false
	}
	return v, true
}

// randomValue draws a valid value (may coincide with the default for closed domains).
func randomValue(l leaf, def reflect.Value, rnd interface{ Intn(int) int }, tag string) (reflect.Value, bool) {
	v := reflect.New(l.typ).Elem()
	if en := enumOf(l); en != nil {
		v.SetString(en[rnd.Intn(len(en))])
		return v, true
	}
	switch {
	case l.typ == durationType:
		v.SetInt(int64(1+rnd.Intn(200000)) * int64(time.Second))
	case l.typ.Kind() == reflect.Bool:
		v.SetBool(rnd.Intn(2) == 1)
	case l.typ.Kind() >= reflect.Int && l.typ.Kind() <= reflect.Int64:
		v.SetInt(int64(1 + rnd.Intn(60000)))
	case l.typ.Kind() >= reflect.Uint && l.typ.Kind() <= reflect.Uint64:
		v.SetUint(uint64(1 + rnd.Intn(60000)))
	case l.typ.Kind() == reflect.String:
		base := fmt.Sprintf("%s_%s_r%d", tag, strings.ReplaceAll(l.path, ".", "-"), rnd.Intn(1<<20))
		// a value is taken as written: nothing in it is expanded, trimmed or re-interpreted
		switch rnd.Intn(8) {
		case 0:
			base = "$HOME/" + base
		case 1:
			base += "${PATH}x"
		case 2:
			base = "pa$$w0rd" + base + "$"
		case 3:
			base = "%s%d " + base + " #not-a-comment"
		}
		v.SetString(base)
	default:
		return v, false
	}
	return v, true
}

// decoy turns the content of a configuration file into a different, well-formed content for the same keys.
func decoy(m map[string]any) map[string]any {
	out := map[string]any{}
	for k, v := range m {
		switch x := v.(type) {
		case map[string]any:
			out[k] = decoy(x)
		case bool:
			out[k] = !x
		case int64:
			out[k] = x + 7777
		case uint64:
			out[k] = x + 7777
		case float64:
			out[k] = x + 7777
		default:
			out[k] = "decoy"
		}
	}
	return out
}

// yamlForm is the value as it is written to the YAML file (durations in the documented "24h" form).
func yamlForm(v reflect.Value) any {
	switch {
	case v.Type() == durationType:
		return time.Duration(v.Int()).String()
	case v.Kind() == reflect.Bool:
		return v.Bool()
	case v.Kind() >= reflect.Int && v.Kind() <= reflect.Int64:
		return v.Int()
	case v.Kind() >= reflect.Uint && v.Kind() <= reflect.Uint64:
		return v.Uint()
	case v.Kind() == reflect.String:
		return v.String()
	case v.Kind() == reflect.Float32 || v.Kind() == reflect.Float64:
		return v.Float()
	}
	return fmt.Sprint(v.Interface())
}

// envForm is the value as text of an environment variable.
func envForm(v reflect.Value) string {
	if v.Type() == durationType {
		return time.Duration(v.Int()).String()
	}
	if v.Kind() == reflect.String {
		return v.String()
	}
	return fmt.Sprint(v.Interface())
}

// envName follows the README: BHS_ + the mapstructure path in upper case with "_" as delimiter.
func envName(path string) string {
	return "BHS_" + strings.ToUpper(strings.ReplaceAll(path, ".", "_"))
}

// ---------------------------------------------------------------------------
// the real start-up path

type harness struct {
	r       *ev.Run
	ls      []leaf
	dir     string
	nfile   int
	devnull *os.File
	defSnap *config.AppConfig // first answer of GetDefaultAppConfig in this process
	nStart  int
}

type assignment struct {
	key  string
	file *reflect.Value
	env  *reflect.Value
}

func (a assignment) sources() string {
	switch {
	case a.file != nil && a.env != nil:
		return "env+file"
	case a.env != nil:
		return "env"
	case a.file != nil:
		return "file"
	}
	return "none"
}

func putNested(m map[string]any, path string, v any) {
	parts := strings.Split(path, ".")
	for _, p := range parts[:len(parts)-1] {
		n, ok := m[p].(map[string]any)
		if !ok {
			n = map[string]any{}
			m[p] = n
		}
		m = n
	}
	m[parts[len(parts)-1]] = v
}

func scrubEnv() {
	for _, kv := range os.Environ() {
		if i := strings.Index(kv, "="); i > 0 {
			if k := kv[:i]; strings.HasPrefix(strings.ToUpper(k), "BHS_") {
				_ = os.Unsetenv(k)
			}
		}
	}
}

type loadResult struct {
	cfg      *config.AppConfig
	err      error
	yamlText string
	env      map[string]string
	args     []string
}

// startup runs the sequence of cmd/main.go up to config.Load.
// form selects how the config-file option is written; form < 0 passes no option at all.
func (h *harness) startup(fileYAML map[string]any, rawYAML string, env map[string]string, form int, explicitPath string) loadResult {
	res := loadResult{env: env}
	viper.Reset()
	scrubEnv()
	defer scrubEnv()
	for k, v := range env {
		_ = os.Setenv(k, v)
	}
	path := explicitPath
	if path == "" && form >= 0 {
		h.nfile++
		path = filepath.Join(h.dir, fmt.Sprintf("cfg-%d.yaml", h.nfile))
		if h.nfile%5 == 2 {
			// the selected file carries the default file's NAME (config.yaml) but lies in another directory, and the
			// working directory holds a different config.yaml: the selected one counts
			sub := filepath.Join(h.dir, fmt.Sprintf("d%d", h.nfile))
			cwd := filepath.Join(h.dir, fmt.Sprintf("cwd%d", h.nfile))
			if os.MkdirAll(sub, 0o755) == nil && os.MkdirAll(cwd, 0o755) == nil {
				if b, err := yaml.Marshal(decoy(fileYAML)); err == nil && os.WriteFile(filepath.Join(cwd, "config.yaml"), b, 0o600) == nil {
					if old, err := os.Getwd(); err == nil && os.Chdir(cwd) == nil {
						defer func() { _ = os.Chdir(old); _ = os.RemoveAll(cwd); _ = os.RemoveAll(sub) }()
						path = filepath.Join(sub, "config.yaml")
						h.r.Count("start_ups_with_a_selected_config_yaml_elsewhere_and_another_in_the_working_directory", 1)
					}
				}
			}
		}
		text := rawYAML
		if text == "" {
			b, err := yaml.Marshal(fileYAML)
			if err != nil {
				res.err = fmt.Errorf("harness: yaml marshal: %w", err)
				return res
			}
			text = string(b)
			if h.nfile%6 == 4 {
				// sections the file names but leaves empty (every key of the section commented out): they provide no value,
				// so environment and defaults decide as if the section were not there
				seen := map[string]bool{}
				for _, l := range h.ls {
					i := strings.Index(l.path, ".")
					if i < 0 {
						continue
					}
					sec := l.path[:i]
					if _, inFile := fileYAML[sec]; inFile || seen[sec] {
						continue
					}
					seen[sec] = true
					text += sec + ":\n"
				}
				if len(seen) > 0 {
					h.r.Count("start_ups_with_empty_sections_in_the_file", 1)
				}
			}
		}
		res.yamlText = text
		if err := os.WriteFile(path, []byte(text), 0o600); err != nil {
			res.err = fmt.Errorf("harness: write config: %w", err)
			return res
		}
		defer os.Remove(path)
		if h.nfile%3 == 0 {
			// files next to the selected one that share its base name (other formats) are none of the service's business
			stem := strings.TrimSuffix(path, filepath.Ext(path))
			if b, err := json.Marshal(decoy(fileYAML)); err == nil {
				for _, ext := range []string{".json", ".yml"} {
					if os.WriteFile(stem+ext, b, 0o600) == nil { // JSON is also valid YAML
						defer os.Remove(stem + ext)
					}
				}
				h.r.Count("start_ups_with_decoy_files_next_to_the_selected_one", 1)
			}
		}
	}
	byEnv := path != "" && form >= 0 && h.nfile%4 == 1 && env["BHS_CONFIG_FILE"] == ""
	if path != "" && explicitPath == "" && form >= 0 && h.nfile%7 == 3 && !byEnv {
		// the option names the file; an environment variable BHS_CONFIG_FILE pointing elsewhere does not change that
		dp := filepath.Join(h.dir, fmt.Sprintf("decoy-env-%d.yaml", h.nfile))
		if b, err := yaml.Marshal(decoy(fileYAML)); err == nil && os.WriteFile(dp, b, 0o600) == nil {
			defer os.Remove(dp)
			_ = os.Setenv("BHS_CONFIG_FILE", dp)
			h.r.Count("start_ups_with_the_option_and_BHS_CONFIG_FILE_pointing_elsewhere", 1)
		}
	}
	if path != "" && explicitPath == "" && form >= 0 && h.nfile%5 == 4 {
		// the file is named relative to the working directory (as in `cd /etc/bhs && block-headers-service -C my.yaml`);
		// the program's own directory (where the test binary lies) is elsewhere
		if old, err := os.Getwd(); err == nil && os.Chdir(filepath.Dir(path)) == nil {
			defer func() { _ = os.Chdir(old) }()
			path = []string{"", "./"}[h.nfile%2] + filepath.Base(path)
			h.r.Count("start_ups_with_the_file_named_relative_to_the_working_directory", 1)
		}
	}
	oldArgs, oldStdout := os.Args, os.Stdout
	defer func() { os.Args, os.Stdout = oldArgs, oldStdout }()
	os.Stdout = h.devnull // the repo's default logger writes to os.Stdout
	switch {
	case form < 0:
		os.Args = []string{"block-headers-service"}
	case byEnv:
		// no option at all: the file is selected through the environment (config_file is a key like every other)
		os.Args = []string{"block-headers-service"}
		_ = os.Setenv("BHS_CONFIG_FILE", path)
		h.r.Count("start_ups_with_the_file_selected_through_BHS_CONFIG_FILE", 1)
	case form%3 == 0:
		os.Args = []string{"block-headers-service", "-C", path}
	case form%3 == 1:
		os.Args = []string{"block-headers-service", "--config_file", path}
	default:
		os.Args = []string{"block-headers-service", "--config_file=" + path}
	}
	res.args = os.Args
	nop := zerolog.Nop()
	if err := config.SetDefaults(appVersion, &nop); err != nil {
		res.err = fmt.Errorf("SetDefaults: %w", err)
		return res
	}
	defaultCfg := config.GetDefaultAppConfig()
	if err := cli.LoadFlags(defaultCfg); err != nil {
		res.err = fmt.Errorf("LoadFlags: %w", err)
		return res
	}
	cfg, _, err := config.Load(defaultCfg)
	res.cfg, res.err = cfg, err
	h.nStart++
	if h.nStart%16 == 0 {
		h.defaultsIntact(fmt.Sprintf("defaults-after-resolution/%d", h.nStart))
	}
	if form >= 0 {
		h.r.Count(fmt.Sprintf("flag_form_%d_used", form%3), 1)
	}
	return res
}

// defaults is the documented default configuration (config/defaults.go) for appVersion: a private deep copy of what
// GetDefaultAppConfig answered the first time it was asked in this process, before any configuration was resolved.
func (h *harness) defaults() *config.AppConfig {
	if h.defSnap == nil {
		nop := zerolog.Nop()
		_ = config.SetDefaults(appVersion, &nop) // sets the version the default user agent refers to
		h.defSnap = deepCopy(reflect.ValueOf(config.GetDefaultAppConfig())).Interface().(*config.AppConfig)
	}
	return deepCopy(reflect.ValueOf(h.defSnap)).Interface().(*config.AppConfig)
}

// defaultsIntact compares what GetDefaultAppConfig answers now with the first answer: resolving one configuration must not
// change the defaults the next resolution starts from.
func (h *harness) defaultsIntact(caseID string) bool {
	if h.defSnap == nil || h.ls == nil {
		return true
	}
	nop := zerolog.Nop()
	_ = config.SetDefaults(appVersion, &nop)
	now, first := flatten(config.GetDefaultAppConfig(), h.ls), flatten(h.defSnap, h.ls)
	for _, l := range h.ls {
		if now[l.path] != first[l.path] {
			h.r.Violate("defaults-changed-by-an-earlier-resolution|key="+l.path, fmt.Sprintf("the default of %s is now %s; it was %s before the first configuration was resolved in this process", l.path, now[l.path], first[l.path]), caseID, map[string]any{"key": l.path, "now": now[l.path], "first": first[l.path]})
			return false
		}
	}
	h.r.Count("defaults_compared_with_first_answer", 1)
	return true
}

func deepCopy(v reflect.Value) reflect.Value {
	switch v.Kind() {
	case reflect.Ptr:
		if v.IsNil() {
			return v
		}
		n := reflect.New(v.Type().Elem())
		n.Elem().Set(deepCopy(v.Elem()))
		return n
	case reflect.Struct:
		n := reflect.New(v.Type()).Elem()
		n.Set(v) // unexported fields by value
		for i := 0; i < v.NumField(); i++ {
			if n.Field(i).CanSet() {
				n.Field(i).Set(deepCopy(v.Field(i)))
			}
		}
		return n
	case reflect.Slice:
		if v.IsNil() {
			return v
		}
		n := reflect.MakeSlice(v.Type(), v.Len(), v.Len())
		for i := 0; i < v.Len(); i++ {
			n.Index(i).Set(deepCopy(v.Index(i)))
		}
		return n
	case reflect.Map:
		if v.IsNil() {
			return v
		}
		n := reflect.MakeMapWithSize(v.Type(), v.Len())
		for _, k := range v.MapKeys() {
			n.SetMapIndex(k, deepCopy(v.MapIndex(k)))
		}
		return n
	case reflect.Interface:
		if v.IsNil() {
			return v
		}
		n := reflect.New(v.Type()).Elem()
		n.Set(deepCopy(v.Elem()))
		return n
	}
	return v
}

// runAssign executes one case with the given per-key sources and compares the whole struct.
func (h *harness) runAssign(caseID, kind string, as []assignment, form int) bool {
	r := h.r
	fileMap := map[string]any{}
	env := map[string]string{}
	want := h.defaults()
	def := h.defaults()
	expectSrc := map[string]string{}
	for _, a := range as {
		if a.file != nil {
			putNested(fileMap, a.key, yamlForm(*a.file))
		}
		if a.env != nil {
			env[envName(a.key)] = envForm(*a.env)
		}
		f, ok := field(want, a.key)
		if !ok {
			r.Violate("harness|no-field", "cannot address "+a.key, caseID, nil)
			return false
		}
		switch {
		case a.env != nil:
			f.Set(*a.env)
			expectSrc[a.key] = "env"
		case a.file != nil:
			f.Set(*a.file)
			expectSrc[a.key] = "file"
		default:
			expectSrc[a.key] = "default"
		}
	}
	res := h.startup(fileMap, "", env, form, "")
	detail := map[string]any{"yaml": res.yamlText, "env": res.env, "args": strings.Join(res.args, " ")}
	if res.err != nil {
		srcs := []string{}
		for _, a := range as {
			srcs = append(srcs, a.key+":"+a.sources())
		}
		sig := "load-error|" + kind
		if len(as) == 1 {
			sig += "|key=" + as[0].key + "|sources=" + as[0].sources()
		}
		detail["error"] = res.err.Error()
		r.Violate(sig, "start-up sequence failed on a valid configuration: "+res.err.Error(), caseID, detail)
		return false
	}
	got, wantF, defF := flatten(res.cfg, h.ls), flatten(want, h.ls), flatten(def, h.ls)
	under := map[string]assignment{}
	for _, a := range as {
		under[a.key] = a
	}
	ok := true
	for _, l := range h.ls {
		g, w := got[l.path], wantF[l.path]
		if a, isUnder := under[l.path]; isUnder {
			if g == w {
				switch expectSrc[l.path] {
				case "env":
					if a.file != nil {
						r.Count("env_over_file_observed", 1)
					} else {
						r.Count("env_over_default_observed", 1)
					}
				case "file":
					r.Count("file_over_default_observed", 1)
				default:
					r.Count("default_observed_for_key_under_test", 1)
				}
				continue
			}
			from := "other"
			switch {
			case a.file != nil && g == render(*a.file):
				from = "file"
			case a.env != nil && g == render(*a.env):
				from = "env"
			case g == defF[l.path]:
				from = "default"
			}
			ok = false
			d := copyDetail(detail)
			d["key"], d["got"], d["want"], d["default"] = l.path, g, w, defF[l.path]
			r.Violate(fmt.Sprintf("precedence|%s|key=%s|sources=%s|want=%s|got=%s", kind, l.path, a.sources(), expectSrc[l.path], from),
				fmt.Sprintf("key %s with sources {%s}: effective value %s, expected %s (from %s)", l.path, a.sources(), g, w, expectSrc[l.path]), caseID, d)
			continue
		}
		if g != w {
			ok = false
			d := copyDetail(detail)
			d["key"], d["got"], d["want"] = l.path, g, w
			r.Violate(fmt.Sprintf("collateral|%s|changed=%s", kind, l.path),
				fmt.Sprintf("key %s was not overridden but is %s instead of its default %s", l.path, g, w), caseID, d)
			continue
		}
		r.Count("untouched_keys_compared", 1)
	}
	if ok && !reflect.DeepEqual(res.cfg, want) {
		ok = false
		r.Violate("struct|"+kind+"|differs-outside-leaves", "resulting AppConfig differs from the expected one although every leaf is equal", caseID, detail)
	}
	r.Count("whole_struct_comparisons", 1)
	return ok
}

func copyDetail(d map[string]any) map[string]any {
	out := map[string]any{}
	for k, v := range d {
		out[k] = v
	}
	return out
}

// ---------------------------------------------------------------------------

func body(r *ev.Run) {
	r.Rule("precedence: every leaf key of config.AppConfig (reflection over mapstructure tags) x every subset of {env, file} providing a value of the key's type " +
		"(values valid, different from the default and from each other; for two-valued domains (bool, db.engine, logging.format) the subset {env,file} is run in both variants env=default/file=other and env=other/file=default so that env-over-file is distinguishable); " +
		"the subset {env,file} is run in both orders of the two values; the three spellings of the config-file option (-C f, --config_file f, --config_file=f) rotate over the cases, and every fourth file is selected through BHS_CONFIG_FILE with no option at all; every sixth file also names the sections it gives no value for, empty (`section:`); plus the no-option start, an empty file, /repo/config.example.yaml, and seeded random multi-key assignments. " +
		"validation: generated DbConfig sections (unsupported engines, empty SQLite path, every non-empty subset of missing required Postgres fields, prepared_db with empty path / missing file of four kinds) and their valid neighbours, each checked directly, through AppConfig.Validate and after being delivered through a YAML file and the real start-up path; plus seeded random sections against a predicate oracle. " +
		"evaluations = start-ups / Validate calls judged; distinct = distinct (key, subset, variant), multi-key source patterns, validation classes; non-trivial = at least one source overrides a key, or a validation verdict.")
	r.Assume("the documented defaults are those of config/defaults.go (README: 'it will use the default configuration from file defaults.go'); config.example.yaml is compared for information only",
		"environment variable names follow the README rule BHS_ + upper-case mapstructure path joined by '_'",
		"an environment variable set to the empty string is outside the statement (viper treats it as unset)",
		"required Postgres fields = host, port, user, db_name (weakest reading of 'incomplete'; empty password / ssl_mode are observed, not judged)",
		"a case-variant or empty engine name is observed, not judged")
	r.Exhaustive(true)

	cwd, _ := os.Getwd()
	work := filepath.Join(r.Scratch, "c20")
	if err := os.MkdirAll(work, 0o755); err != nil {
		r.Violate("harness|scratch", err.Error(), "", nil)
		return
	}
	// the default config file name is relative ("config.yaml"): run in an empty directory
	if err := os.Chdir(work); err != nil {
		r.Violate("harness|chdir", err.Error(), "", nil)
		return
	}
	defer func() { _ = os.Chdir(cwd); _ = os.RemoveAll(work) }()
	devnull, err := os.OpenFile(os.DevNull, os.O_WRONLY, 0)
	if err != nil {
		r.Violate("harness|devnull", err.Error(), "", nil)
		return
	}
	defer devnull.Close()
	savedEnv := map[string]string{}
	for _, kv := range os.Environ() {
		if i := strings.Index(kv, "="); i > 0 && strings.HasPrefix(strings.ToUpper(kv[:i]), "BHS_") {
			savedEnv[kv[:i]] = kv[i+1:]
		}
	}
	defer func() {
		for k, v := range savedEnv {
			_ = os.Setenv(k, v)
		}
		viper.Reset()
	}()

	h := &harness{r: r, ls: leaves(), dir: work, devnull: devnull}
	r.Count("leaf_keys_enumerated", int64(len(h.ls)))
	r.Require("leaf_keys_enumerated", 30)
	r.Require("env_over_file_observed", int64(len(h.ls)))
	r.Require("env_over_default_observed", int64(len(h.ls)))
	r.Require("file_over_default_observed", int64(len(h.ls)))
	r.Require("default_observed_for_key_under_test", int64(len(h.ls)))
	r.Require("flag_form_0_used", 10)
	r.Require("flag_form_1_used", 10)
	r.Require("flag_form_2_used", 10)
	r.Require("validate_invalid_refused", 30)
	r.Require("validate_valid_accepted", 10)
	r.Require("validate_delivered_through_file", 30)
	{
		keys := []string{}
		for _, l := range h.ls {
			keys = append(keys, l.path+" "+l.typ.String())
		}
		r.Extra("leaf_keys", keys)
	}

	h.baselineCases()
	h.precedenceCases()
	h.multiKeyCases()
	h.validateCases()
}

// baselineCases: no option at all, empty file, the repository's example file.
func (h *harness) baselineCases() {
	r := h.r
	r.Do("base/no-option", func() {
		res := h.startup(nil, "", nil, -1, "")
		h.compareWhole("base/no-option", "no-option", res, h.defaults())
		r.Case("base/no-option", false)
	})
	for form := 0; form < 3; form++ {
		id := fmt.Sprintf("base/empty-file/%d", form)
		r.Do(id, func() {
			res := h.startup(map[string]any{}, "", nil, form, "")
			h.compareWhole(id, "empty-file", res, h.defaults())
			r.Case(id, false)
		})
	}
	r.Do("base/example-yaml", func() { h.exampleYAML("base/example-yaml") })
}

func (h *harness) compareWhole(caseID, kind string, res loadResult, want *config.AppConfig) bool {
	r := h.r
	detail := map[string]any{"yaml": res.yamlText, "env": res.env, "args": strings.Join(res.args, " ")}
	if res.err != nil {
		detail["error"] = res.err.Error()
		r.Violate("load-error|"+kind, "start-up sequence failed: "+res.err.Error(), caseID, detail)
		return false
	}
	got, wantF := flatten(res.cfg, h.ls), flatten(want, h.ls)
	ok := true
	for _, l := range h.ls {
		if got[l.path] != wantF[l.path] {
			ok = false
			d := copyDetail(detail)
			d["key"], d["got"], d["want"] = l.path, got[l.path], wantF[l.path]
			r.Violate(fmt.Sprintf("value|%s|key=%s", kind, l.path), fmt.Sprintf("key %s is %s, expected %s", l.path, got[l.path], wantF[l.path]), caseID, d)
		} else {
			r.Count("untouched_keys_compared", 1)
		}
	}
	if ok && !reflect.DeepEqual(res.cfg, want) {
		ok = false
		r.Violate("struct|"+kind+"|differs-outside-leaves", "resulting AppConfig differs from the expected one although every leaf is equal", caseID, detail)
	}
	r.Count("whole_struct_comparisons", 1)
	return ok
}

// exampleYAML loads /repo/config.example.yaml through the real path; expected = defaults
// overlaid with the values written in that file (parsed independently with yaml.v3).
func (h *harness) exampleYAML(caseID string) {
	r := h.r
	path := filepath.Join(ev.RepoDir(), "config.example.yaml")
	b, err := os.ReadFile(path)
	if err != nil {
		r.Inconclusive(caseID, "config.example.yaml not readable: "+err.Error())
		return
	}
	var tree map[string]any
	if err := yaml.Unmarshal(b, &tree); err != nil {
		r.Inconclusive(caseID, "config.example.yaml not parseable: "+err.Error())
		return
	}
	want, def := h.defaults(), h.defaults()
	var missing, differing []string
	for _, l := range h.ls {
		var cur any = tree
		found := true
		for _, p := range strings.Split(l.path, ".") {
			m, ok := cur.(map[string]any)
			if !ok {
				found = false
				break
			}
			if cur, ok = m[p]; !ok {
				found = false
				break
			}
		}
		if !found {
			missing = append(missing, l.path)
			continue
		}
		f, _ := field(want, l.path)
		if !setFromText(f, cur) {
			r.Inconclusive(caseID, fmt.Sprintf("cannot interpret example value %v for %s", cur, l.path))
			return
		}
		if leafString(want, l.path) != leafString(def, l.path) {
			differing = append(differing, fmt.Sprintf("%s: example %s, defaults.go %s", l.path, leafString(want, l.path), leafString(def, l.path)))
		}
	}
	// the other way round: every key the example file documents is a key of the configuration (a key that is written in
	// the file and unknown to the structure is dropped without a word, and so is its BHS_ variable)
	known := map[string]bool{}
	for _, l := range h.ls {
		known[l.path] = true
	}
	var walk func(prefix string, v any)
	walk = func(prefix string, v any) {
		if m, ok := v.(map[string]any); ok {
			for k, c := range m {
				p := k
				if prefix != "" {
					p = prefix + "." + k
				}
				walk(p, c)
			}
			return
		}
		if prefix == "" {
			return
		}
		r.Count("documented_keys_looked_up", 1)
		if !known[prefix] {
			r.Violate("documented-key-unknown|key="+prefix, fmt.Sprintf("config.example.yaml documents the key %s (value %v); the configuration structure has no such key, so neither the file value nor %s has any effect", prefix, v, envName(prefix)), caseID, map[string]any{"key": prefix})
		}
	}
	walk("", tree)
	r.Extra("example_yaml_keys_not_listed", missing)
	r.Extra("example_yaml_values_differing_from_defaults_go", differing)
	res := h.startup(nil, "", nil, 0, path)
	if h.compareWhole(caseID, "example-yaml", res, want) {
		r.Count("example_yaml_loaded_as_written", 1)
	}
	r.Case(caseID, len(differing) > 0)
}

func setFromText(f reflect.Value, v any) bool {
	s := fmt.Sprint(v)
	switch {
	case f.Type() == durationType:
		d, err := time.ParseDuration(s)
		if err != nil {
			return false
		}
		f.SetInt(int64(d))
	case f.Kind() == reflect.Bool:
		b, ok := v.(bool)
		if !ok {
			return false
		}
		f.SetBool(b)
	case f.Kind() >= reflect.Int && f.Kind() <= reflect.Int64:
		n, ok := v.(int)
		if !ok {
			return false
		}
		f.SetInt(int64(n))
	case f.Kind() >= reflect.Uint && f.Kind() <= reflect.Uint64:
		n, ok := v.(int)
		if !ok || n < 0 {
			return false
		}
		f.SetUint(uint64(n))
	case f.Kind() == reflect.String:
		str, ok := v.(string)
		if !ok {
			return false
		}
		f.SetString(str)
	default:
		return false
	}
	return true
}

// precedenceCases: keys x subsets of {env, file} (complete product).
func (h *harness) precedenceCases() {
	r := h.r
	def := h.defaults()
	form := 0
	for _, l := range h.ls {
		dv, ok := field(def, l.path)
		if !ok {
			r.Violate("harness|no-field", "cannot address "+l.path, "prec/"+l.path, nil)
			continue
		}
		c0, ok0 := candidate(l, dv, 0, "file")
		c1, ok1 := candidate(l, dv, 1, "env")
		if !ok0 {
			r.Violate("harness|no-values|type="+l.typ.String(), "no value generator for the type of "+l.path, "prec/"+l.path, nil)
			continue
		}
		e0, _ := candidate(l, dv, 0, "env")
		dcopy := reflect.New(l.typ).Elem()
		dcopy.Set(dv)
		type variant struct {
			name      string
			file, env *reflect.Value
		}
		vs := []variant{
			{"none", nil, nil},
			{"file", &c0, nil},
			{"env", nil, &e0},
		}
		if ok1 {
			f1, _ := candidate(l, dv, 1, "file")
			vs = append(vs, variant{"env+file/a", &c0, &c1}, variant{"env+file/b", &f1, &e0})
			r.Count("keys_with_three_distinct_values", 1)
		} else {
			// two-valued domain: env=default over file=other, and env=other over file=default
			vs = append(vs, variant{"env+file/env=default", &c0, &dcopy}, variant{"env+file/file=default", &dcopy, &e0})
			r.Count("keys_with_two_valued_domain", 1)
		}
		for _, v := range vs {
			id := "prec/" + l.path + "/" + v.name
			form++
			f := form
			r.Do(id, func() {
				h.runAssign(id, "single", []assignment{{key: l.path, file: v.file, env: v.env}}, f)
				r.Case(id, v.file != nil || v.env != nil)
				r.Count("precedence_cases", 1)
				if r.WantSample() && v.file != nil && v.env != nil {
					r.Sample(map[string]any{"case": id, "file_value": yamlForm(*v.file), "env": envName(l.path) + "=" + envForm(*v.env), "expected_effective": envForm(*v.env)})
				}
			})
		}
	}
}

// multiKeyCases: seeded random assignments to several keys at once.
func (h *harness) multiKeyCases() {
	r := h.r
	def := h.defaults()
	n := r.Pick(200, 5000)
	for i := 0; i < n; i++ {
		id := fmt.Sprintf("multi/%d", i)
		r.Do(id, func() {
			rng := r.Rand(id)
			k := 1 + rng.Intn(8)
			if rng.Intn(10) == 0 {
				k = len(h.ls) // every key at once
			}
			perm := rng.Perm(len(h.ls))[:k]
			var as []assignment
			var pat []string
			for _, li := range perm {
				l := h.ls[li]
				dv, _ := field(def, l.path)
				a := assignment{key: l.path}
				src := 1 + rng.Intn(3) // 1 file, 2 env, 3 both
				if src&1 != 0 {
					if v, ok := randomValue(l, dv, rng, "file"); ok {
						a.file = &v
					}
				}
				if src&2 != 0 {
					if v, ok := randomValue(l, dv, rng, "env"); ok {
						a.env = &v
					}
				}
				as = append(as, a)
				pat = append(pat, l.path+":"+a.sources())
			}
			sort.Strings(pat)
			h.runAssign(id, "multi", as, rng.Intn(3))
			r.Case("multi|"+strings.Join(pat, ","), true)
			r.Count("multi_key_cases", 1)
			r.Count("multi_key_assignments", int64(len(as)))
		})
	}
}
