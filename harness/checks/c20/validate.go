package c20

import (
	"fmt"
	"os"
	"path/filepath"
	"reflect"
	"sort"
	"strings"

	"github.com/bitcoin-sv/block-headers-service/config"
	"github.com/bitcoin-sv/block-headers-service/database"
	"github.com/bitcoin-sv/block-headers-service/verifharness/rig"
	"github.com/rs/zerolog"
)

// dbCase is one generated database section with the verdict the statement demands.
type dbCase struct {
	id    string
	class string // structural class, used in signatures
	cfg   config.DbConfig
	// verdict: "refuse" (statement: must be refused), "accept" (valid neighbour), "observe" (not judged)
	verdict string
}

type files struct {
	existing     string // a regular, non-empty file
	existingZero string // a regular, empty file
	enoent       string // missing name in an existing directory
	enoentDir    string // missing directory
	enotdir      string // path below a regular file
	toolong      string // file name longer than NAME_MAX
}

func (h *harness) makeFiles() (files, error) {
	d := filepath.Join(h.dir, "prepared")
	if err := os.MkdirAll(d, 0o755); err != nil {
		return files{}, err
	}
	f := files{
		existing:     filepath.Join(d, "headers.csv.gz"),
		existingZero: filepath.Join(d, "empty.csv.gz"),
		enoent:       filepath.Join(d, "not-there.csv.gz"),
		enoentDir:    filepath.Join(d, "no-such-dir", "headers.csv.gz"),
		toolong:      filepath.Join(d, strings.Repeat("x", 300)+".csv.gz"),
	}
	f.enotdir = filepath.Join(f.existing, "headers.csv.gz")
	if err := os.WriteFile(f.existing, []byte("not really gzip\n"), 0o600); err != nil {
		return f, err
	}
	if err := os.WriteFile(f.existingZero, nil, 0o600); err != nil {
		return f, err
	}
	return f, nil
}

func validSQLite() config.DbConfig {
	return config.DbConfig{
		Engine: config.DBSQLite, SchemaPath: "./database/migrations", PreparedDb: false, PreparedDbFilePath: "./data/blockheaders.csv.gz",
		SQLite:   config.SQLiteConfig{FilePath: "./data/c20.db"},
		Postgres: config.PostgreSQLConfig{Host: "localhost", Port: 5432, User: "user", Password: "password", DbName: "bhs", Sslmode: "disable"},
	}
}

func validPostgres() config.DbConfig {
	c := validSQLite()
	c.Engine = config.DBPostgreSQL
	c.Postgres = config.PostgreSQLConfig{Host: "db.internal", Port: 6543, User: "bhs_user", Password: "s3cret", DbName: "headers", Sslmode: "require"}
	return c
}

// blankPostgres empties the named required fields.
func blankPostgres(c *config.DbConfig, fields []string) {
	for _, f := range fields {
		switch f {
		case "host":
			c.Postgres.Host = ""
		case "port":
			c.Postgres.Port = 0
		case "user":
			c.Postgres.User = ""
		case "db_name":
			c.Postgres.DbName = ""
		case "password":
			c.Postgres.Password = ""
		case "ssl_mode":
			c.Postgres.Sslmode = ""
		}
	}
}

func (h *harness) dbCases(fs files) []dbCase {
	var out []dbCase
	add := func(id, class, verdict string, c config.DbConfig) {
		out = append(out, dbCase{id: "validate/" + id, class: class, verdict: verdict, cfg: c})
	}
	// valid neighbours
	add("ok/sqlite", "valid:sqlite", "accept", validSQLite())
	add("ok/postgres", "valid:postgres", "accept", validPostgres())
	{
		c := validSQLite()
		c.SQLite.FilePath = "/var/lib/bhs/headers.db"
		add("ok/sqlite-absolute-path", "valid:sqlite", "accept", c)
		c = validSQLite()
		c.Postgres = config.PostgreSQLConfig{}
		add("ok/sqlite-with-blank-postgres-section", "valid:sqlite,postgres-section-blank", "accept", c)
		c = validPostgres()
		c.SQLite.FilePath = ""
		add("ok/postgres-with-blank-sqlite-path", "valid:postgres,sqlite-path-blank", "accept", c)
		for _, eng := range []string{"sqlite", "postgres"} {
			base := validSQLite()
			if eng == "postgres" {
				base = validPostgres()
			}
			c = base
			c.PreparedDb, c.PreparedDbFilePath = true, fs.existing
			add("ok/"+eng+"-prepared-existing-file", "valid:"+eng+",prepared-file-exists", "accept", c)
			c = base
			c.PreparedDb, c.PreparedDbFilePath = true, fs.existingZero
			add("ok/"+eng+"-prepared-existing-empty-file", "valid:"+eng+",prepared-file-exists-empty", "accept", c)
			c = base
			c.PreparedDb, c.PreparedDbFilePath = false, ""
			add("ok/"+eng+"-prepared-off-blank-path", "valid:"+eng+",prepared-off-blank-path", "accept", c)
			c = base
			c.PreparedDb, c.PreparedDbFilePath = false, fs.enoent
			add("ok/"+eng+"-prepared-off-missing-file", "valid:"+eng+",prepared-off-missing-file", "accept", c)
		}
	}
	// unsupported engines
	rng := h.r.Rand("validate/engines")
	engines := []string{"mysql", "mariadb", "mssql", "oracle", "mongodb", "bolt", "leveldb", "cockroach", "sqlite-or-postgres"}
	for i := 0; i < 6; i++ {
		b := make([]byte, 4+rng.Intn(8))
		for j := range b {
			b[j] = byte('a' + rng.Intn(26))
		}
		engines = append(engines, "x"+string(b))
	}
	for i, e := range engines {
		for _, base := range []config.DbConfig{validSQLite(), validPostgres()} {
			c := base
			other := string(base.Engine)
			c.Engine = config.DbEngine(e)
			add(fmt.Sprintf("bad/engine/%d/rest-valid-for-%s", i, other), "engine-unsupported", "refuse", c)
		}
	}
	for _, e := range []string{"", "SQLITE", "SQLite", "Sqlite", "Postgres", "POSTGRES", " sqlite", "sqlite ", "sqlite3", "postgresql"} {
		c := validSQLite()
		c.Engine = config.DbEngine(e)
		add("observe/engine/"+strings.TrimSpace(strings.ToLower(e))+fmt.Sprint(len(e)), "engine-variant", "observe", c)
	}
	// SQLite with an empty path
	{
		c := validSQLite()
		c.SQLite.FilePath = ""
		add("bad/sqlite-empty-path", "sqlite-empty-path", "refuse", c)
		c.Postgres = config.PostgreSQLConfig{}
		add("bad/sqlite-empty-path-blank-postgres", "sqlite-empty-path", "refuse", c)
		c = validSQLite()
		c.SQLite.FilePath = ""
		c.PreparedDb, c.PreparedDbFilePath = true, fs.existing
		add("bad/sqlite-empty-path-prepared-ok", "sqlite-empty-path", "refuse", c)
	}
	// Postgres: every non-empty subset of the required fields missing
	req := []string{"host", "port", "user", "db_name"}
	for mask := 1; mask < 1<<len(req); mask++ {
		var miss []string
		for i, f := range req {
			if mask&(1<<i) != 0 {
				miss = append(miss, f)
			}
		}
		c := validPostgres()
		blankPostgres(&c, miss)
		add("bad/postgres-missing/"+strings.Join(miss, "+"), "postgres-incomplete:"+strings.Join(miss, "+"), "refuse", c)
	}
	for _, opt := range [][]string{{"password"}, {"ssl_mode"}, {"password", "ssl_mode"}} {
		c := validPostgres()
		blankPostgres(&c, opt)
		add("observe/postgres-blank/"+strings.Join(opt, "+"), "postgres-optional-blank:"+strings.Join(opt, "+"), "observe", c)
	}
	// prepared database enabled with an empty path / a missing file
	for _, eng := range []string{"sqlite", "postgres"} {
		base := validSQLite()
		if eng == "postgres" {
			base = validPostgres()
		}
		for _, m := range []struct{ kind, path string }{
			{"empty-path", ""},
			{"missing-file:no-such-name", fs.enoent},
			{"missing-file:no-such-directory", fs.enoentDir},
			{"missing-file:parent-is-a-regular-file", fs.enotdir},
			{"missing-file:name-too-long", fs.toolong},
		} {
			c := base
			c.PreparedDb, c.PreparedDbFilePath = true, m.path
			add("bad/prepared/"+eng+"/"+m.kind, "prepared-db-"+m.kind, "refuse", c)
		}
	}
	return out
}

// oraclePredicate decides validity of a random section from the statement; exists is known
// by construction (the harness created the file or did not), not by asking the file system.
func oraclePredicate(c config.DbConfig, exists bool) (valid bool, class string) {
	var why []string
	if c.PreparedDb {
		if c.PreparedDbFilePath == "" {
			why = append(why, "prepared-db-empty-path")
		} else if !exists {
			why = append(why, "prepared-db-missing-file")
		}
	}
	switch c.Engine {
	case config.DBSQLite:
		if c.SQLite.FilePath == "" {
			why = append(why, "sqlite-empty-path")
		}
	case config.DBPostgreSQL:
		if c.Postgres.Host == "" || c.Postgres.Port == 0 || c.Postgres.User == "" || c.Postgres.DbName == "" {
			why = append(why, "postgres-incomplete")
		}
	default:
		why = append(why, "engine-unsupported")
	}
	if len(why) == 0 {
		return true, "valid:" + string(c.Engine)
	}
	sort.Strings(why)
	return false, strings.Join(why, "&")
}

func dbDetail(c config.DbConfig) map[string]any {
	return map[string]any{"db": fmt.Sprintf("%+v", c)}
}

// dbYAML writes every leaf of the db section explicitly.
func (h *harness) dbYAML(c config.DbConfig) map[string]any {
	m := map[string]any{}
	cfg := &config.AppConfig{Db: &c}
	for _, l := range h.ls {
		if !strings.HasPrefix(l.path, "db.") {
			continue
		}
		f, ok := field(cfg, l.path)
		if ok {
			putNested(m, l.path, yamlForm(f))
		}
	}
	return m
}

func (h *harness) judge(caseID, class, verdict, route string, err error, c config.DbConfig) {
	r := h.r
	d := dbDetail(c)
	d["route"] = route
	if err != nil {
		d["error"] = err.Error()
	}
	switch verdict {
	case "refuse":
		if err == nil {
			r.Violate("validate|accepted|"+class, "an invalid database section ("+class+") passed validation", caseID, d)
			return
		}
		r.Count("validate_invalid_refused", 1)
	case "accept":
		if err != nil {
			r.Violate("validate|refused|"+class, "a valid database section ("+class+") was refused: "+err.Error(), caseID, d)
			return
		}
		r.Count("validate_valid_accepted", 1)
	default:
		if err == nil {
			r.Count("validate_observed_only_accepted", 1)
			// spellings of an engine name the statement does not rule on: whatever validation decides, it must agree
			// with the database layer - a section that passes validation names an engine the service can open
			if class == "engine-variant" {
				app := rig.NewConfig(filepath.Join(h.dir, "engine-variant.db"))
				app.Db.Engine = c.Engine
				nop := zerolog.Nop()
				db, ierr := database.Init(app, &nop)
				if db != nil {
					_ = db.Close()
				}
				_ = os.Remove(filepath.Join(h.dir, "engine-variant.db"))
				if ierr != nil && strings.Contains(ierr.Error(), "unsupported database engine") {
					d["database_layer"] = ierr.Error()
					r.Violate("validate|accepted|engine-the-database-layer-does-not-support", fmt.Sprintf("db.engine %q passed validation but the database layer refuses it: %v", c.Engine, ierr), caseID, d)
					return
				}
				r.Count("accepted_engine_spellings_opened_by_the_database_layer", 1)
			}
		} else {
			r.Count("validate_observed_only_refused", 1)
		}
	}
}

func (h *harness) runDbCase(dc dbCase, viaFile bool, form int) {
	r := h.r
	// (a) direct, (b) through AppConfig.Validate
	c1 := dc.cfg
	h.judge(dc.id, dc.class, dc.verdict, "DbConfig.Validate", (&c1).Validate(), dc.cfg)
	c2 := dc.cfg
	h.judge(dc.id, dc.class, dc.verdict, "AppConfig.Validate", (&config.AppConfig{Db: &c2}).Validate(), dc.cfg)
	if !reflect.DeepEqual(c1, dc.cfg) || !reflect.DeepEqual(c2, dc.cfg) {
		r.Violate("validate|mutates-config|"+dc.class, "Validate changed the configuration it was asked to validate", dc.id, dbDetail(dc.cfg))
	}
	r.Count("validate_calls", 2)
	if !viaFile {
		return
	}
	// (c) the section written to a YAML file, loaded by the real start-up path, then cfg.Validate() as main does
	res := h.startup(h.dbYAML(dc.cfg), "", nil, form, "")
	if res.err != nil {
		if dc.verdict == "refuse" {
			// refused even earlier than Validate: still a refusal
			r.Count("validate_invalid_refused", 1)
			r.Count("validate_refused_by_load", 1)
			return
		}
		r.Violate("load-error|validate|"+dc.class, "start-up sequence failed before validation: "+res.err.Error(), dc.id, map[string]any{"yaml": res.yamlText})
		return
	}
	want := h.defaults()
	cc := dc.cfg
	want.Db = &cc
	if !h.compareWhole(dc.id, "db-section-from-file", res, want) {
		return // the section did not arrive as written: reported as a value violation
	}
	r.Count("validate_delivered_through_file", 1)
	h.judge(dc.id, dc.class, dc.verdict, "file+Load+AppConfig.Validate", res.cfg.Validate(), dc.cfg)
}

func (h *harness) validateCases() {
	r := h.r
	fs, err := h.makeFiles()
	if err != nil {
		r.Violate("harness|files", err.Error(), "validate", nil)
		return
	}
	// sanity of the fixture, by construction and cross-checked once
	if _, err := os.Stat(fs.existing); err != nil {
		r.Violate("harness|files", "fixture file missing: "+err.Error(), "validate", nil)
		return
	}
	for _, p := range []string{fs.enoent, fs.enoentDir, fs.enotdir, fs.toolong} {
		if f, err := os.Open(p); err == nil {
			f.Close()
			r.Violate("harness|files", "fixture path unexpectedly opens: "+p, "validate", nil)
			return
		}
	}
	for i, dc := range h.dbCases(fs) {
		dc := dc
		r.Do(dc.id, func() {
			h.runDbCase(dc, true, i)
			r.Case("validate|"+dc.class+"|"+string(dc.cfg.Engine)+"|"+dc.verdict, dc.verdict != "observe")
			r.Count("validate_generated_sections", 1)
		})
	}
	// nil section (not part of the statement; observed)
	r.Do("validate/observe/nil-section", func() {
		err := (&config.AppConfig{}).Validate()
		if err == nil {
			r.Count("validate_observed_only_accepted", 1)
		} else {
			r.Count("validate_observed_only_refused", 1)
		}
		r.Case("validate|nil-section", false)
	})
	// random sections against the predicate oracle
	n := r.Pick(300, 5000)
	for i := 0; i < n; i++ {
		id := fmt.Sprintf("validate/rnd/%d", i)
		r.Do(id, func() {
			rng := r.Rand(id)
			pick := func(xs ...string) string { return xs[rng.Intn(len(xs))] }
			c := config.DbConfig{
				Engine:     config.DbEngine(pick("sqlite", "sqlite", "postgres", "postgres", "mysql", "oracle", "mongodb")),
				SchemaPath: pick("./database/migrations", "", "/migrations"),
				PreparedDb: rng.Intn(2) == 1,
				SQLite:     config.SQLiteConfig{FilePath: pick("./data/x.db", "", "/tmp/y.db")},
				Postgres: config.PostgreSQLConfig{
					Host: pick("localhost", "", "10.0.0.5"), Port: uint16([]int{5432, 0, 1, 65535}[rng.Intn(4)]),
					User: pick("user", "", "bhs"), Password: pick("password", ""), DbName: pick("bhs", "", "headers"), Sslmode: pick("disable", "", "require"),
				},
			}
			exists := false
			switch rng.Intn(4) {
			case 0:
				c.PreparedDbFilePath, exists = fs.existing, true
			case 1:
				c.PreparedDbFilePath = fs.enoent
			case 2:
				c.PreparedDbFilePath = fs.enoentDir
			default:
				c.PreparedDbFilePath = ""
			}
			valid, class := oraclePredicate(c, exists)
			verdict := "refuse"
			if valid {
				verdict = "accept"
			}
			h.runDbCase(dbCase{id: id, class: class, cfg: c, verdict: verdict}, i%4 == 0, i)
			r.Case("validate|rnd|"+class+"|"+string(c.Engine), true)
			r.Count("validate_random_sections", 1)
		})
	}
}
