// Package c10: issued tokens authenticate from creation until revocation, and never after.
//
// Runtime monitoring of seeded operation sequences (create / revoke / authenticate over HTTP /
// authenticate over the websocket connect handshake / restart) against a set model
// (valid = issued \ revoked; the admin token is always valid and admin). Everything goes
// through the real endpoints, the real SQL token repository and a real centrifuge-go client
// connecting to an httptest server that serves the real engine.
package c10

import (
	"encoding/json"
	"fmt"
	"io"
	"math/rand"
	"net/http"
	"net/http/httptest"
	"net/url"
	"strings"
	"sync"
	"sync/atomic"
	"time"

	"github.com/bitcoin-sv/block-headers-service/config"
	"github.com/bitcoin-sv/block-headers-service/service"
	"github.com/bitcoin-sv/block-headers-service/transports/websocket"
	"github.com/bitcoin-sv/block-headers-service/verifharness/ev"
	"github.com/bitcoin-sv/block-headers-service/verifharness/rig"
	"github.com/centrifugal/centrifuge-go"
	"github.com/gin-gonic/gin"
	"github.com/jmoiron/sqlx"
	"github.com/rs/zerolog"
)

// Spec registers the check.
func Spec() ev.Spec {
	return ev.Spec{Prop: "C10", Level: "exploration", Workers: -1, Body: body}
}

const (
	prefix     = "/api/v1"
	accessPath = prefix + "/access"
	otherRoute = prefix + "/chain/tip/longest"
	wsPath     = "/connection/websocket"
	watchdog   = 4 * time.Second
	wsRetries  = 3
)

var nopLog = zerolog.Nop()

// ---------------------------------------------------------------------------
// environment: real stack + websocket node + TCP test server, re-wired on restart

type env struct {
	r   *ev.Run
	st  *rig.Stack
	ws  websocket.Server // set by AfterSvc on every (re)open
	srv *httptest.Server
}

func newEnv(r *ev.Run) (*env, error) {
	e := &env{r: r}
	st, err := rig.New(rig.Options{
		Dir:  r.Scratch,
		Name: "c10.db",
		Config: func(c *config.AppConfig) {
			c.HTTP.UseAuth = true
		},
		AfterSvc: func(s *service.Services, c *config.AppConfig) {
			ws, err := websocket.NewServer(&nopLog, s, c.HTTP.UseAuth)
			if err != nil {
				panic(err)
			}
			e.ws = ws
		},
		// as cmd/main.go: server.ApplyConfiguration(ws.SetupEntrypoint)
		EngineOpts: []func(*gin.Engine){func(en *gin.Engine) { e.ws.SetupEntrypoint(en) }},
	})
	if err != nil {
		return nil, err
	}
	e.st = st
	if err := e.serve(); err != nil {
		st.Destroy()
		return nil, err
	}
	return e, nil
}

// serve starts the websocket node and the TCP server for the current engine.
func (e *env) serve() error {
	if err := e.ws.Start(); err != nil {
		return err
	}
	e.srv = httptest.NewServer(e.st.Engine)
	return nil
}

func (e *env) stopServing() {
	if e.srv != nil {
		e.srv.CloseClientConnections()
		e.srv.Close()
		e.srv = nil
	}
	if e.ws != nil {
		_ = e.ws.Shutdown()
		e.ws = nil
	}
}

// restart = stop listeners, close the database handle, database.Init on the same file, new
// services, new engine, new websocket node, new listener.
func (e *env) restart() error {
	e.stopServing()
	if err := e.st.Restart(); err != nil {
		return err
	}
	return e.serve()
}

func (e *env) destroy() {
	e.stopServing()
	e.st.Destroy()
}

func bearer(tok string) map[string]string { return map[string]string{"Authorization": "Bearer " + tok} }

type accessAnswer struct {
	Status  int
	Token   string
	IsAdmin *bool
	Raw     string
}

func parseAccess(status int, b []byte) accessAnswer {
	a := accessAnswer{Status: status, Raw: clip(string(b))}
	var v struct {
		Token   string `json:"token"`
		IsAdmin *bool  `json:"isAdmin"`
	}
	if json.Unmarshal(b, &v) == nil {
		a.Token, a.IsAdmin = v.Token, v.IsAdmin
	}
	return a
}

// whoAmI authenticates over HTTP in-process: GET /api/v1/access.
func (e *env) whoAmI(tok string) accessAnswer {
	w := e.st.HTTP(http.MethodGet, accessPath, nil, bearer(tok))
	return parseAccess(w.Code, w.Body.Bytes())
}

// whoAmITCP does the same over the TCP listener.
func (e *env) whoAmITCP(tok, path string) (accessAnswer, error) {
	req, err := http.NewRequest(http.MethodGet, e.srv.URL+path, nil)
	if err != nil {
		return accessAnswer{}, err
	}
	req.Header.Set("Authorization", "Bearer "+tok)
	resp, err := e.srv.Client().Do(req)
	if err != nil {
		return accessAnswer{}, err
	}
	defer resp.Body.Close()
	b, _ := io.ReadAll(io.LimitReader(resp.Body, 1<<16))
	return parseAccess(resp.StatusCode, b), nil
}

// wsResult is the outcome of one websocket connect handshake.
type wsResult struct {
	Kind   string // connected | disconnected | timeout | dial-error
	Code   uint32
	Reason string
	Errors []string
}

func (w wsResult) String() string {
	switch w.Kind {
	case "disconnected":
		return fmt.Sprintf("disconnected(code=%d)", w.Code)
	}
	return w.Kind
}

// wsConnectOnce runs one real centrifuge-go client against the TCP listener.
func (e *env) wsConnectOnce(tok string) wsResult {
	u := "ws" + strings.TrimPrefix(e.srv.URL, "http") + wsPath
	c := centrifuge.NewJsonClient(u, centrifuge.Config{
		Token: tok,
		Proxy: func(*http.Request) (*url.URL, error) { return nil, nil },
	})
	ch := make(chan wsResult, 16)
	var mu sync.Mutex
	var errs []string
	c.OnConnected(func(centrifuge.ConnectedEvent) {
		select {
		case ch <- wsResult{Kind: "connected"}:
		default:
		}
	})
	c.OnDisconnected(func(d centrifuge.DisconnectedEvent) {
		select {
		case ch <- wsResult{Kind: "disconnected", Code: d.Code, Reason: d.Reason}:
		default:
		}
	})
	c.OnError(func(ee centrifuge.ErrorEvent) {
		mu.Lock()
		if len(errs) < 4 {
			errs = append(errs, ee.Error.Error())
		}
		mu.Unlock()
	})
	defer c.Close()
	if err := c.Connect(); err != nil {
		return wsResult{Kind: "dial-error", Errors: []string{err.Error()}}
	}
	var res wsResult
	select {
	case res = <-ch:
	case <-time.After(watchdog):
		res = wsResult{Kind: "timeout"}
	}
	mu.Lock()
	res.Errors = append([]string(nil), errs...)
	mu.Unlock()
	return res
}

// wsConnectMany opens n websocket connections with the same token and keeps all of them open until every one has
// reported connected / disconnected (or the watchdog fired).
func (e *env) wsConnectMany(tok string, n int) []wsResult {
	u := "ws" + strings.TrimPrefix(e.srv.URL, "http") + wsPath
	out := make([]wsResult, n)
	var clients []*centrifuge.Client
	var wg sync.WaitGroup
	for i := 0; i < n; i++ {
		i := i
		c := centrifuge.NewJsonClient(u, centrifuge.Config{Token: tok, Proxy: func(*http.Request) (*url.URL, error) { return nil, nil }})
		clients = append(clients, c)
		ch := make(chan wsResult, 16)
		c.OnConnected(func(centrifuge.ConnectedEvent) {
			select {
			case ch <- wsResult{Kind: "connected"}:
			default:
			}
		})
		c.OnDisconnected(func(d centrifuge.DisconnectedEvent) {
			select {
			case ch <- wsResult{Kind: "disconnected", Code: d.Code, Reason: d.Reason}:
			default:
			}
		})
		wg.Add(1)
		go func() {
			defer wg.Done()
			if err := c.Connect(); err != nil {
				out[i] = wsResult{Kind: "dial-error", Errors: []string{err.Error()}}
				return
			}
			select {
			case out[i] = <-ch:
			case <-time.After(watchdog):
				out[i] = wsResult{Kind: "timeout"}
			}
		}()
	}
	wg.Wait()
	for _, c := range clients {
		c.Close()
	}
	return out
}

// wsConnect retries inconclusive outcomes (timeout / dial error); ok=false if still undecided.
func (e *env) wsConnect(tok string) (res wsResult, ok bool) {
	for i := 0; i < wsRetries; i++ {
		res = e.wsConnectOnce(tok)
		e.r.Count("ws_connect_attempts", 1)
		if res.Kind == "connected" || res.Kind == "disconnected" {
			return res, true
		}
		e.r.Count("ws_connect_retries_after_"+res.Kind, 1)
	}
	return res, false
}

// ---------------------------------------------------------------------------
// set model

type model struct {
	issued   []string        // in order of issue; index = token number in logs
	valid    map[string]bool // issued \ revoked
	everSeen map[string]int  // token value -> index
	phantoms []string        // never-issued values that were used as targets
	phantomD []string        // their descriptions
}

func newModel() *model { return &model{valid: map[string]bool{}, everSeen: map[string]int{}} }

func (m *model) pick(rng *rand.Rand, valid bool) (string, int, bool) {
	var idx []int
	for i, t := range m.issued {
		if m.valid[t] == valid {
			idx = append(idx, i)
		}
	}
	if len(idx) == 0 {
		return "", -1, false
	}
	i := idx[rng.Intn(len(idx))]
	return m.issued[i], i, true
}

func (m *model) addPhantom(tok, desc string) {
	if _, issued := m.everSeen[tok]; issued || tok == rig.AdminToken {
		return
	}
	for _, p := range m.phantoms {
		if p == tok {
			return
		}
	}
	if len(m.phantoms) >= 24 {
		return
	}
	m.phantoms = append(m.phantoms, tok)
	m.phantomD = append(m.phantomD, desc)
}

func randAlnum(rng *rand.Rand, n int) string {
	const al = "ABCDEFGHIJKLMNOPQRSTUVWXYZabcdefghijklmnopqrstuvwxyz0123456789"
	b := make([]byte, n)
	for i := range b {
		b[i] = al[rng.Intn(len(al))]
	}
	return string(b)
}

// unknownToken derives a never-issued token value; several are close to existing ones.
func (m *model) unknownToken(rng *rand.Rand) (tok, desc string) {
	for tries := 0; tries < 8; tries++ {
		base, _, have := m.pick(rng, true)
		k := rng.Intn(10)
		if !have && k >= 1 && k <= 3 {
			k = 0
		}
		switch k {
		case 7:
			tok, desc = rig.AdminToken+randAlnum(rng, 1+rng.Intn(3)), "admin-plus-suffix"
		case 8:
			tok, desc = rig.AdminToken[:len(rig.AdminToken)-1], "admin-minus-last-char"
		case 9:
			tok, desc = randAlnum(rng, 1)+rig.AdminToken, "prefix-plus-admin"
		case 0:
			tok, desc = randAlnum(rng, 32), "random32"
		case 1:
			tok, desc = base[:len(base)-1], "valid-minus-last-char"
		case 2:
			tok, desc = base+"x", "valid-plus-char"
		case 3:
			b := []byte(base)
			for i := range b {
				switch {
				case b[i] >= 'a' && b[i] <= 'z':
					b[i] -= 32
				case b[i] >= 'A' && b[i] <= 'Z':
					b[i] += 32
				}
			}
			tok, desc = string(b), "valid-case-swapped"
		case 4:
			tok, desc = "%", "percent-wildcard"
		case 5:
			tok, desc = strings.Repeat("_", 32), "underscore-wildcards"
		default:
			tok, desc = randAlnum(rng, 1+rng.Intn(64)), "random-length"
		}
		if _, issued := m.everSeen[tok]; !issued && tok != rig.AdminToken && tok != "" {
			return tok, desc
		}
	}
	return randAlnum(rng, 40), "random40"
}

// ---------------------------------------------------------------------------
// one sequence

type seq struct {
	e       *env
	r       *ev.Run
	caseID  string
	m       *model
	log     []string
	last    string // kind of the last operation
	subj    string // token the last operation targeted ("" if none)
	sinceR  bool   // a restart happened since the last revoke/create (for signatures)
	failed  bool
	rot     int
	nops    map[string]int
	lockSeq bool // this sequence contains one revoke under a reader's lock
}

func (s *seq) detail(extra map[string]any) map[string]any {
	d := map[string]any{
		"operations":       s.log,
		"tokens_issued":    len(s.m.issued),
		"note":             "token values are generated by the service (crypto/rand) and differ between runs; '#n' is the n-th issued token of this sequence",
		"last_operation":   s.last,
		"replay_hint":      "the operation kinds of this case are a pure function of (seed, case id)",
		"tokens_valid_now": s.countValid(),
		"phantom_tokens":   s.m.phantomD,
	}
	for k, v := range extra {
		d[k] = v
	}
	return d
}

func (s *seq) countValid() int {
	n := 0
	for _, t := range s.m.issued {
		if s.m.valid[t] {
			n++
		}
	}
	return n
}

func (s *seq) violate(sig, what string, extra map[string]any) {
	s.failed = true
	s.r.Violate(sig, what, s.caseID, s.detail(extra))
}

func (s *seq) name(tok string) string {
	if tok == rig.AdminToken {
		return "admin"
	}
	if i, ok := s.m.everSeen[tok]; ok {
		return fmt.Sprintf("#%d", i)
	}
	return "unknown"
}

// relation of a probed token to the last operation, for structural signatures.
func (s *seq) relation(tok string) string {
	if s.subj != "" && tok == s.subj {
		return "subject"
	}
	return "other"
}

func clip(x string) string {
	if len(x) > 240 {
		return x[:240]
	}
	return x
}

func boolStr(b *bool) string {
	if b == nil {
		return "absent"
	}
	return fmt.Sprint(*b)
}

// checkHTTP judges one GET /api/v1/access answer against the model.
func (s *seq) checkHTTP(tok string, a accessAnswer, via string) bool {
	after := s.last
	switch {
	case tok == rig.AdminToken:
		if a.Status != 200 || a.IsAdmin == nil || !*a.IsAdmin {
			s.violate(fmt.Sprintf("admin-token|after=%s|%s GET /access->%d,isAdmin=%s", after, via, a.Status, boolStr(a.IsAdmin)),
				fmt.Sprintf("after %s the configured admin token answered %d %s on GET %s (expected 200 with isAdmin=true)", after, a.Status, a.Raw, accessPath), nil)
			return false
		}
	case s.m.valid[tok]:
		if a.Status != 200 || a.Token != tok || a.IsAdmin == nil || *a.IsAdmin {
			got := fmt.Sprintf("%d,isAdmin=%s", a.Status, boolStr(a.IsAdmin))
			if a.Status == 200 && a.Token != tok {
				got += ",other-token-in-body"
			}
			s.violate(fmt.Sprintf("valid-token-refused|after=%s|token=%s|%s GET /access->%s", after, s.relation(tok), via, got),
				fmt.Sprintf("after %s the issued, unrevoked token %s answered %d %s on GET %s (expected 200, its own value, isAdmin=false)", after, s.name(tok), a.Status, a.Raw, accessPath),
				map[string]any{"token_number": s.name(tok)})
			return false
		}
	default:
		kind := "revoked"
		if _, ok := s.m.everSeen[tok]; !ok {
			kind = "never-issued"
		}
		if a.Status != 401 {
			s.violate(fmt.Sprintf("%s-token-accepted|after=%s|token=%s|%s GET /access->%d", kind, after, s.relation(tok), via, a.Status),
				fmt.Sprintf("after %s the %s token %s answered %d %s on GET %s (expected 401)", after, kind, s.name(tok), a.Status, a.Raw, accessPath),
				map[string]any{"token_number": s.name(tok)})
			return false
		}
	}
	return true
}

// checkOther judges one answer of the second authenticated route.
func (s *seq) checkOther(tok string, status int, raw string) bool {
	want := tok == rig.AdminToken || s.m.valid[tok]
	if want && status == 401 {
		s.violate(fmt.Sprintf("valid-token-refused|after=%s|token=%s|GET /chain/tip/longest->401", s.last, s.relation(tok)),
			fmt.Sprintf("after %s token %s (valid) answered 401 %s on GET %s", s.last, s.name(tok), raw, otherRoute), map[string]any{"token_number": s.name(tok)})
		return false
	}
	if !want && status != 401 {
		s.violate(fmt.Sprintf("invalid-token-accepted|after=%s|token=%s|GET /chain/tip/longest->%d", s.last, s.relation(tok), status),
			fmt.Sprintf("after %s token %s (revoked or never issued) answered %d %s on GET %s", s.last, s.name(tok), status, raw, otherRoute), map[string]any{"token_number": s.name(tok)})
		return false
	}
	return true
}

func (s *seq) other(tok string) bool {
	w := s.e.st.HTTP(http.MethodGet, otherRoute, nil, bearer(tok))
	s.r.Count("http_probes_second_route", 1)
	return s.checkOther(tok, w.Code, clip(w.Body.String()))
}

// probeAll authenticates EVERY token ever issued (plus admin and the phantoms) over HTTP.
func (s *seq) probeAll() bool {
	if !s.checkHTTP(rig.AdminToken, s.e.whoAmI(rig.AdminToken), "inproc") {
		return false
	}
	nv, ni := 0, 0
	for _, t := range s.m.issued {
		if !s.checkHTTP(t, s.e.whoAmI(t), "inproc") {
			return false
		}
		if s.m.valid[t] {
			nv++
		} else {
			ni++
		}
	}
	for _, t := range s.m.phantoms {
		if !s.checkHTTP(t, s.e.whoAmI(t), "inproc") {
			return false
		}
	}
	s.r.Count("http_probes_valid_token", int64(nv))
	s.r.Count("http_probes_revoked_token", int64(ni))
	s.r.Count("http_probes_never_issued_token", int64(len(s.m.phantoms)))
	s.r.Count("http_probes_admin_token", 1)
	// second route: the subject of the operation plus a rotating sample
	if s.subj != "" && !s.other(s.subj) {
		return false
	}
	for k := 0; k < 3 && len(s.m.issued) > 0; k++ {
		s.rot++
		if !s.other(s.m.issued[s.rot%len(s.m.issued)]) {
			return false
		}
	}
	return true
}

// wsProbe authenticates over the websocket connect handshake.
func (s *seq) wsProbe(tok, class string) bool {
	res, ok := s.e.wsConnect(tok)
	if !ok {
		s.r.Inconclusive(s.caseID, fmt.Sprintf("websocket connect with a %s token undecided after %d attempts: %s %v", class, wsRetries, res.Kind, res.Errors))
		s.r.Count("ws_probes_inconclusive", 1)
		return true
	}
	s.r.Count("ws_probes_"+class, 1)
	want := tok == rig.AdminToken || s.m.valid[tok]
	if want && res.Kind != "connected" {
		s.violate(fmt.Sprintf("ws-valid-token-refused|after=%s|token=%s|%s", s.last, class, res),
			fmt.Sprintf("after %s a websocket connect with the %s token %s ended %s (%s); expected connected", s.last, class, s.name(tok), res, res.Reason),
			map[string]any{"token_number": s.name(tok), "client_errors": res.Errors})
		return false
	}
	if !want && res.Kind == "connected" {
		s.violate(fmt.Sprintf("ws-invalid-token-accepted|after=%s|token=%s", s.last, class),
			fmt.Sprintf("after %s a websocket connect with the %s token %s was accepted", s.last, class, s.name(tok)),
			map[string]any{"token_number": s.name(tok)})
		return false
	}
	if !want {
		s.r.Count(fmt.Sprintf("ws_refusals_code_%d", res.Code), 1)
	}
	return true
}

func tokenOf(b []byte) string {
	var v struct {
		Token string `json:"token"`
	}
	_ = json.Unmarshal(b, &v)
	return v.Token
}

// create issues a token with the given credentials; the model follows the API's answer.
func (s *seq) create(cred string, asUser bool) bool {
	w := s.e.st.HTTP(http.MethodPost, accessPath, nil, bearer(cred))
	tok := tokenOf(w.Body.Bytes())
	if w.Code < 200 || w.Code > 299 || tok == "" {
		s.log[len(s.log)-1] += fmt.Sprintf(" -> %d", w.Code)
		if asUser {
			s.r.Count("creates_by_user_token_refused", 1)
		} else {
			s.r.Count("creates_by_admin_refused", 1)
		}
		return true
	}
	if asUser {
		s.r.Count("creates_by_user_token_accepted", 1)
	}
	if prev, dup := s.m.everSeen[tok]; dup || tok == rig.AdminToken {
		st := "admin"
		if dup {
			st = "revoked"
			if s.m.valid[tok] {
				st = "valid"
			}
		}
		s.log[len(s.log)-1] += fmt.Sprintf(" -> %d DUPLICATE of #%d", w.Code, prev)
		s.violate("duplicate-token|equals="+st, fmt.Sprintf("the token-creation endpoint returned a token equal to the %s token #%d issued earlier", st, prev), map[string]any{"earlier_token_number": prev})
		return false
	}
	i := len(s.m.issued)
	s.m.issued = append(s.m.issued, tok)
	s.m.everSeen[tok] = i
	s.m.valid[tok] = true
	s.subj = tok
	s.log[len(s.log)-1] += fmt.Sprintf(" -> %d #%d", w.Code, i)
	s.r.Count("tokens_created", 1)
	return true
}

// revoke calls DELETE /access/:token; the model follows the API's answer (2xx = revoked).
func (s *seq) revoke(target, cred string) int {
	w := s.e.st.HTTP(http.MethodDelete, accessPath+"/"+url.PathEscape(target), nil, bearer(cred))
	s.log[len(s.log)-1] += fmt.Sprintf(" -> %d", w.Code)
	if w.Code >= 200 && w.Code <= 299 {
		if s.m.valid[target] {
			s.m.valid[target] = false
			s.r.Count("tokens_revoked", 1)
		}
	}
	return w.Code
}

func (s *seq) op(kind string, format string, a ...any) {
	s.last, s.subj = kind, ""
	s.log = append(s.log, fmt.Sprintf("%d:%s", len(s.log), fmt.Sprintf(format, a...)))
	s.nops[kind]++
	s.r.Count("op_"+kind, 1)
}

var opTable = []struct {
	kind string
	w    int
}{
	{"create", 24}, {"revoke-existing", 12}, {"revoke-unknown", 6}, {"revoke-admin", 3}, {"revoke-revoked", 5},
	{"http-auth", 12}, {"ws-auth", 10}, {"restart", 4}, {"create-as-user", 2}, {"revoke-as-user", 3}, {"revoke-commit-fails", 3}, {"create-insert-fails", 2}, {"revoke-delete-fails", 2}, {"create-burst", 3}, {"ws-many", 2}, {"revoke-during-lookups", 3}, {"lookup-next-to-open-write-transaction", 3},
}

// lockEvery: one sequence in lockEvery additionally revokes one token while a reader holds a lock (a busy timeout each)
const lockEvery = 10

// holdReadLock opens a second connection to the SQLite file and keeps a read cursor open on the tokens table (a SHARED
// lock) until release is called.
func holdReadLock(path string) (release func(), err error) {
	db, err := sqlx.Open("sqlite3", "file:"+path)
	if err != nil {
		return nil, err
	}
	tx, err := db.Begin()
	if err != nil {
		_ = db.Close()
		return nil, err
	}
	rows, err := tx.Query("SELECT token FROM tokens")
	if err != nil {
		_ = tx.Rollback()
		_ = db.Close()
		return nil, err
	}
	if !rows.Next() {
		_ = rows.Close()
		_ = tx.Rollback()
		_ = db.Close()
		return nil, fmt.Errorf("no token row to hold a cursor on")
	}
	return func() { _ = rows.Close(); _ = tx.Rollback(); _ = db.Close() }, nil
}

// holdExclusiveLock opens a second connection and takes the database's exclusive lock (every statement of the service,
// reads included, fails with "database is locked" after its busy timeout) until release is called.
func holdExclusiveLock(path string) (release func(), err error) {
	db, err := sqlx.Open("sqlite3", "file:"+path)
	if err != nil {
		return nil, err
	}
	db.SetMaxOpenConns(1)
	if _, err := db.Exec("BEGIN EXCLUSIVE"); err != nil {
		_ = db.Close()
		return nil, err
	}
	return func() { _, _ = db.Exec("ROLLBACK"); _ = db.Close() }, nil
}

// holdWriteTransaction opens a second connection and begins a write transaction on it (BEGIN IMMEDIATE: the writer's
// RESERVED lock, as held by a header import or a relabelling that has not committed yet). Readers are not held up by it.
func holdWriteTransaction(path string) (release func(), err error) {
	db, err := sqlx.Open("sqlite3", "file:"+path)
	if err != nil {
		return nil, err
	}
	db.SetMaxOpenConns(1)
	if _, err := db.Exec("BEGIN IMMEDIATE"); err != nil {
		_ = db.Close()
		return nil, err
	}
	return func() { _, _ = db.Exec("ROLLBACK"); _ = db.Close() }, nil
}

func pickOp(rng *rand.Rand) string {
	tot := 0
	for _, o := range opTable {
		tot += o.w
	}
	x := rng.Intn(tot)
	for _, o := range opTable {
		if x < o.w {
			return o.kind
		}
		x -= o.w
	}
	return "create"
}

func (s *seq) run(rng *rand.Rand, n int) {
	e, m := s.e, s.m
	for i := 0; i < n && !s.failed; i++ {
		kind := pickOp(rng)
		if i < 3 {
			kind = "create"
		}
		if i == 6 && s.lockSeq {
			kind = "revoke-under-reader-lock"
		}
		if i == 9 && s.lockSeq {
			kind = "revoke-under-exclusive-lock"
		}
		switch kind {
		case "create":
			s.op(kind, "create")
			if !s.create(rig.AdminToken, false) {
				return
			}
			if rng.Intn(7) == 0 && s.subj != "" {
				if !s.wsProbe(s.subj, "fresh") {
					return
				}
			}
		case "create-as-user":
			cred, ci, ok := m.pick(rng, true)
			if !ok {
				continue
			}
			s.op(kind, "create with user token #%d", ci)
			if !s.create(cred, true) {
				return
			}
		case "revoke-existing":
			t, ti, ok := m.pick(rng, true)
			if !ok {
				continue
			}
			s.op(kind, "revoke #%d", ti)
			s.subj = t
			code := s.revoke(t, rig.AdminToken)
			if code < 200 || code > 299 {
				s.r.Count("revokes_of_existing_refused", 1)
			} else if rng.Intn(4) == 0 {
				if !s.wsProbe(t, "revoked") {
					return
				}
			}
		case "revoke-under-reader-lock":
			// another connection holds an open read cursor on the database while the revocation commits: the commit can
			// fail (busy). Whatever happens, the API's answer must be truthful: 2xx => the token is revoked.
			if s.nops["revoke-under-reader-lock"] >= 1 {
				continue // costs a busy timeout (seconds): at most once per sequence
			}
			t, ti, ok := m.pick(rng, true)
			if !ok {
				continue
			}
			s.op(kind, "revoke #%d while a second connection holds a read cursor", ti)
			s.subj = t
			release, err := holdReadLock(s.e.st.Path)
			if err != nil {
				s.r.Count("reader_lock_not_taken", 1)
				continue
			}
			code := s.revoke(t, rig.AdminToken)
			release()
			s.r.Count("revokes_under_reader_lock", 1)
			s.r.Count(fmt.Sprintf("revokes_under_reader_lock_status_%dxx", code/100), 1)
		case "revoke-commit-fails":
			// the DELETE statement goes through but the COMMIT is refused by SQLite (a deferred foreign-key reference to the
			// token row, checked at commit time). Whatever the API answers must be truthful: 2xx => the token is revoked.
			t, ti, ok := m.pick(rng, true)
			if !ok {
				continue
			}
			s.op(kind, "revoke #%d while the commit of the deletion is refused by the database", ti)
			s.subj = t
			if _, err := e.st.DB.Exec(`CREATE TABLE IF NOT EXISTS verif_tokref(token VARCHAR(255) REFERENCES tokens(token) DEFERRABLE INITIALLY DEFERRED)`); err != nil {
				s.r.Count("commit_fault_not_installed", 1)
				continue
			}
			if _, err := e.st.DB.Exec(`INSERT INTO verif_tokref VALUES (?)`, t); err != nil {
				s.r.Count("commit_fault_not_installed", 1)
				continue
			}
			code := s.revoke(t, rig.AdminToken)
			_, _ = e.st.DB.Exec(`DELETE FROM verif_tokref`)
			s.r.Count("revokes_with_refused_commit", 1)
			s.r.Count(fmt.Sprintf("revokes_with_refused_commit_status_%dxx", code/100), 1)
		case "ws-many":
			// several clients share one token: each of them connects
			t, ti, ok := m.pick(rng, true)
			if !ok {
				continue
			}
			s.op(kind, "6 simultaneous websocket connections with valid token #%d", ti)
			s.subj = t
			undecided := false
			for k, res := range e.wsConnectMany(t, 6) {
				switch res.Kind {
				case "connected":
				case "disconnected":
					s.violate(fmt.Sprintf("ws-valid-token-refused|simultaneous-connections|%s", res), fmt.Sprintf("connection %d of 6 simultaneous websocket connections with the valid token %s ended %s; expected connected", k+1, s.name(t), res), nil)
					return
				default:
					undecided = true
				}
			}
			if undecided {
				s.r.Inconclusive(s.caseID, "simultaneous websocket connections: a handshake did not finish")
			} else {
				s.r.Count("ws_simultaneous_connection_sets", 1)
			}
		case "revoke-during-lookups":
			// clients keep authenticating with a token while it is revoked: a request that STARTS after the revocation was
			// acknowledged is refused
			t, ti, ok := m.pick(rng, true)
			if !ok {
				continue
			}
			s.op(kind, "revoke #%d while 4 clients keep authenticating with it", ti)
			s.subj = t
			var stop atomic.Bool
			var revoked atomic.Int64 // monotonic instant (ns) at which the revocation was acknowledged; 0 = not yet
			var late atomic.Int64    // requests started after that instant and answered 200
			var total atomic.Int64
			var wg sync.WaitGroup
			base := time.Now()
			for g := 0; g < 4; g++ {
				wg.Add(1)
				go func() {
					defer wg.Done()
					for !stop.Load() {
						start := time.Since(base).Nanoseconds()
						after := revoked.Load() != 0 && start > revoked.Load()
						w := e.st.HTTP(http.MethodGet, accessPath, nil, bearer(t))
						total.Add(1)
						if after && w.Code == 200 {
							late.Add(1)
						}
					}
				}()
			}
			time.Sleep(time.Duration(200+rng.Intn(800)) * time.Microsecond)
			code := s.revoke(t, rig.AdminToken)
			if code >= 200 && code <= 299 {
				revoked.Store(time.Since(base).Nanoseconds() + 1)
			}
			time.Sleep(2 * time.Millisecond)
			stop.Store(true)
			wg.Wait()
			s.r.Count("lookups_concurrent_with_a_revocation", total.Load())
			if late.Load() > 0 {
				s.violate("revoked-token-accepted|request-started-after-the-acknowledged-revocation", fmt.Sprintf("%d requests that started after the revocation of token %s had been acknowledged were answered 200", late.Load(), s.name(t)), nil)
				return
			}
		case "create-burst":
			// several clients ask for a token at the same moment: every answer is a different, working token
			s.op(kind, "create 16 tokens from 16 clients at once")
			type ans struct {
				code int
				tok  string
			}
			out := make([][]ans, 16)
			var wg sync.WaitGroup
			start := make(chan struct{})
			for g := range out {
				g := g
				wg.Add(1)
				go func() {
					defer wg.Done()
					<-start
					for k := 0; k < 1; k++ {
						w := e.st.HTTP(http.MethodPost, accessPath, []byte("{}"), bearer(rig.AdminToken))
						out[g] = append(out[g], ans{w.Code, tokenOf(w.Body.Bytes())})
					}
				}()
			}
			close(start)
			wg.Wait()
			s.r.Count("tokens_requested_concurrently", 16)
			for _, as := range out {
				for _, a := range as {
					if a.code < 200 || a.code > 299 || a.tok == "" {
						s.r.Count("creates_by_admin_refused", 1)
						continue
					}
					if prev, dup := m.everSeen[a.tok]; dup || a.tok == rig.AdminToken {
						s.violate("duplicate-token|issued-concurrently", fmt.Sprintf("two of the tokens handed out (one of them to concurrent clients) are equal (token #%d)", prev), map[string]any{"earlier_token_number": prev})
						return
					}
					i := len(m.issued)
					m.issued = append(m.issued, a.tok)
					m.everSeen[a.tok] = i
					m.valid[a.tok] = true
					s.r.Count("tokens_created", 1)
				}
			}
		case "create-insert-fails":
			// the INSERT of the new token aborts inside SQLite: a token handed out nevertheless would never authenticate
			s.op(kind, "create while the database refuses the INSERT")
			if _, err := e.st.DB.Exec(`CREATE TRIGGER IF NOT EXISTS verif_tok_ins BEFORE INSERT ON tokens BEGIN SELECT RAISE(ABORT, 'verif: injected insert failure'); END`); err != nil {
				s.r.Count("sql_fault_not_installed", 1)
				continue
			}
			before := len(m.issued)
			ok := s.create(rig.AdminToken, false)
			_, _ = e.st.DB.Exec(`DROP TRIGGER IF EXISTS verif_tok_ins`)
			s.r.Count("creates_with_refused_insert", 1)
			if len(m.issued) > before {
				s.r.Count("creates_with_refused_insert_answered_2xx", 1)
			}
			if !ok {
				return
			}
		case "revoke-delete-fails":
			t, ti, ok := m.pick(rng, true)
			if !ok {
				continue
			}
			s.op(kind, "revoke #%d while the database refuses the DELETE", ti)
			s.subj = t
			if _, err := e.st.DB.Exec(`CREATE TRIGGER IF NOT EXISTS verif_tok_del BEFORE DELETE ON tokens BEGIN SELECT RAISE(ABORT, 'verif: injected delete failure'); END`); err != nil {
				s.r.Count("sql_fault_not_installed", 1)
				continue
			}
			code := s.revoke(t, rig.AdminToken)
			_, _ = e.st.DB.Exec(`DROP TRIGGER IF EXISTS verif_tok_del`)
			s.r.Count("revokes_with_refused_delete", 1)
			s.r.Count(fmt.Sprintf("revokes_with_refused_delete_status_%dxx", code/100), 1)
		case "revoke-under-exclusive-lock":
			// another process holds the database's exclusive lock while the revocation is attempted: no statement of
			// the service succeeds. Whatever the API answers must be truthful: 2xx => the token is revoked.
			if s.nops["revoke-under-exclusive-lock"] >= 1 {
				continue // costs a busy timeout (seconds): at most once per sequence
			}
			t, ti, ok := m.pick(rng, true)
			if !ok {
				continue
			}
			s.op(kind, "revoke #%d while a second connection holds the exclusive lock", ti)
			s.subj = t
			release, err := holdExclusiveLock(s.e.st.Path)
			if err != nil {
				s.r.Count("exclusive_lock_not_taken", 1)
				continue
			}
			code := 0
			if len(s.caseID)%2 == 0 {
				code = s.revoke(t, rig.AdminToken)
			}
			// (every statement under the lock costs a busy timeout: half of these operations revoke, the other half look up)
			// while the lock is still held and every look-up fails: a revoked token and a string that was never issued must
			// not authenticate (any refusal will do - 401, 5xx)
			probes := []struct{ tok, what string }{}
			if rt, _, ok := m.pick(rng, false); ok {
				probes = append(probes, struct{ tok, what string }{rt, "revoked"})
			}
			ut, ud := m.unknownToken(rng)
			m.addPhantom(ut, ud)
			probes = append(probes, struct{ tok, what string }{ut, "never-issued"})
			if len(s.caseID)%2 == 0 {
				probes = nil
			} else if len(probes) > 1 {
				probes = probes[(len(s.caseID)/2)%2 : (len(s.caseID)/2)%2+1]
			}
			for _, pr := range probes {
				w := s.e.st.HTTP(http.MethodGet, accessPath, nil, bearer(pr.tok))
				s.r.Count("look_ups_while_the_database_is_locked", 1)
				if w.Code >= 200 && w.Code <= 299 {
					release()
					s.violate("invalid-token-accepted|while-the-database-is-locked|token="+pr.what, fmt.Sprintf("while another connection held the database's exclusive lock (every look-up fails), GET %s with a %s token answered %d %s", accessPath, pr.what, w.Code, clipBody(w.Body.String())), nil)
					return
				}
			}
			release()
			if code != 0 {
				s.r.Count("revokes_under_exclusive_lock", 1)
				s.r.Count(fmt.Sprintf("revokes_under_exclusive_lock_status_%dxx", code/100), 1)
			}
		case "lookup-next-to-open-write-transaction":
			// another connection is in the middle of a write transaction (it holds the writer's lock, nothing committed
			// yet): look-ups are reads and go on - an issued, unrevoked token authenticates as always
			t, ti, ok := m.pick(rng, true)
			if !ok {
				continue
			}
			s.op(kind, "authenticate with #%d while a second connection holds a write transaction open", ti)
			release, err := holdWriteTransaction(s.e.st.Path)
			if err != nil {
				s.r.Count("write_transaction_not_opened", 1)
				continue
			}
			w := s.e.st.HTTP(http.MethodGet, accessPath, nil, bearer(t))
			release()
			s.r.Count("look_ups_next_to_an_open_write_transaction", 1)
			if w.Code != http.StatusOK {
				s.violate("valid-token-refused|next-to-an-open-write-transaction", fmt.Sprintf("while another connection held a write transaction open (BEGIN IMMEDIATE, nothing committed), GET %s with an issued, unrevoked token answered %d %s", accessPath, w.Code, clipBody(w.Body.String())), nil)
				return
			}
		case "revoke-revoked":
			t, ti, ok := m.pick(rng, false)
			if !ok {
				continue
			}
			s.op(kind, "revoke #%d again", ti)
			s.subj = t
			s.revoke(t, rig.AdminToken)
		case "revoke-unknown":
			t, d := m.unknownToken(rng)
			s.op(kind, "revoke never-issued token (%s)", d)
			s.subj = t
			m.addPhantom(t, d)
			s.revoke(t, rig.AdminToken)
		case "revoke-admin":
			s.op(kind, "revoke the admin token")
			s.subj = rig.AdminToken
			s.revoke(rig.AdminToken, rig.AdminToken)
			if rng.Intn(3) == 0 {
				if !s.wsProbe(rig.AdminToken, "admin") {
					return
				}
			}
		case "revoke-as-user":
			cred, ci, ok := m.pick(rng, true)
			if !ok {
				continue
			}
			t, ti := cred, ci // self-revocation half of the time
			if rng.Intn(2) == 0 {
				t, ti, _ = m.pick(rng, true)
			}
			s.op(kind, "revoke #%d with user token #%d", ti, ci)
			s.subj = t
			if code := s.revoke(t, cred); code >= 200 && code <= 299 {
				s.r.Count("revokes_by_user_token_accepted", 1)
			} else {
				s.r.Count("revokes_by_user_token_refused", 1)
			}
		case "http-auth":
			// explicit authentication over the TCP listener (GET /access and the second route)
			var t string
			switch rng.Intn(4) {
			case 0:
				t = rig.AdminToken
			case 1:
				t, _, _ = m.pick(rng, false)
			default:
				t, _, _ = m.pick(rng, true)
			}
			if t == "" {
				t, _ = m.unknownToken(rng)
				m.addPhantom(t, "http-auth-unknown")
			}
			s.op(kind, "authenticate %s over TCP", s.name(t))
			last := s.last
			s.last = last + "(tcp)"
			a, err := e.whoAmITCP(t, accessPath)
			if err != nil {
				s.r.Inconclusive(s.caseID, "TCP request failed: "+err.Error())
			} else if !s.checkHTTP(t, a, "tcp") {
				return
			}
			b, err := e.whoAmITCP(t, otherRoute)
			if err != nil {
				s.r.Inconclusive(s.caseID, "TCP request failed: "+err.Error())
			} else if !s.checkOther(t, b.Status, b.Raw) {
				return
			}
			s.last = last
			s.r.Count("http_probes_over_tcp", 2)
		case "ws-auth":
			var t, class string
			switch rng.Intn(10) {
			case 0:
				t, class = rig.AdminToken, "admin"
			case 1:
				t, _ = m.unknownToken(rng)
				class = "never-issued"
			case 2:
				t, class = "", "empty"
			case 3, 4, 5:
				t, _, _ = m.pick(rng, false)
				class = "revoked"
			default:
				t, _, _ = m.pick(rng, true)
				class = "valid"
			}
			if t == "" && class != "empty" {
				continue
			}
			s.op(kind, "websocket connect with %s token %s", class, s.name(t))
			if !s.wsProbe(t, class) {
				return
			}
		case "restart":
			s.op(kind, "restart")
			if err := e.restart(); err != nil {
				s.violate("restart-failed", "restart (database.Init on the same file) failed: "+err.Error(), nil)
				return
			}
			if rng.Intn(2) == 0 {
				if t, _, ok := m.pick(rng, true); ok && !s.wsProbe(t, "valid") {
					return
				}
				if t, _, ok := m.pick(rng, false); ok && !s.wsProbe(t, "revoked") {
					return
				}
			}
		}
		if s.failed || !s.probeAll() {
			return
		}
	}
}

func body(r *ev.Run) {
	r.Rule("seeded operation sequences of length 20..200 over {create (admin), 12 creations from 6 concurrent clients, 6 simultaneous websocket connections with one token, a revocation while 4 clients keep authenticating with the token, create with a user token, revoke existing / already revoked / never-issued (random, near-miss and SQL-wildcard values) / the admin token itself, revoke with a user token (incl. self-revocation), revoke while SQLite refuses the COMMIT of the deletion (deferred foreign-key reference), aborts the DELETE statement (trigger) or while a second connection holds a read lock or the exclusive lock, create while SQLite aborts the INSERT (trigger), authenticate over TCP, websocket connect with valid / revoked / never-issued / empty / admin token, restart}; the set model follows the API's own answers (2xx create = issued, 2xx revoke = revoked). After EVERY operation every token ever issued, the admin token and the never-issued targets are authenticated on GET /api/v1/access (status, own value, isAdmin) and a rotating sample on GET /api/v1/chain/tip/longest; websocket handshakes are sampled. evaluations = sequences; distinct = distinct operation-kind strings; non-trivial = sequences with at least one create, one accepted revocation of an existing token and one restart or websocket probe.")
	r.Assume(
		"authentication is enabled (use_auth=true); SQLite token repository only",
		"restart = stop listeners, close the handle, database.Init on the same file, new services/engine/websocket node (no process kill: that is C05's business)",
		"a websocket connect that neither connects nor is disconnected within the watchdog (3 attempts) is inconclusive, never a violation",
		"an already established websocket connection is not expected to be dropped when its token is revoked (the statement speaks of the connect handshake)",
		"operations are sequential (no concurrent create/revoke)",
	)
	r.Require("tokens_created", 200)
	r.Require("tokens_revoked", 80)
	r.Require("op_restart", 20)
	r.Require("revokes_with_refused_commit", 50)
	r.Require("op_revoke-admin", 10)
	r.Require("http_probes_revoked_token", 1000)
	r.Require("ws_probes_valid", 20)
	r.Require("ws_probes_revoked", 20)
	r.Require("http_probes_over_tcp", 50)

	nSeq := r.Pick(160, 1500)
	var e *env
	defer func() {
		if e != nil {
			e.destroy()
		}
	}()
	for i := 0; i < nSeq; i++ {
		caseID := fmt.Sprintf("seq/%d", i)
		r.Do(caseID, func() {
			if e == nil {
				var err error
				if e, err = newEnv(r); err != nil {
					e = nil
					r.Violate("harness|rig", err.Error(), caseID, nil)
					return
				}
			}
			if err := e.st.Reset(); err != nil {
				r.Violate("harness|reset", err.Error(), caseID, nil)
				return
			}
			rng := r.Rand(caseID)
			n := 20 + rng.Intn(181)
			s := &seq{e: e, r: r, caseID: caseID, m: newModel(), nops: map[string]int{}, last: "start"}
			s.lockSeq = int(rng.Int63()%lockEvery) == 0
			s.run(rng, n)
			var sb strings.Builder
			for _, l := range s.log {
				// the kind letter string: shape of the sequence
				parts := strings.SplitN(l, ":", 2)
				if len(parts) == 2 && len(parts[1]) > 0 {
					w := strings.Fields(parts[1])
					sb.WriteString(w[0][:1])
					if len(w) > 1 {
						sb.WriteString(w[1][:1])
					}
				}
			}
			nontrivial := s.nops["create"] > 0 && s.nops["revoke-existing"] > 0 && (s.nops["restart"] > 0 || s.nops["ws-auth"] > 0)
			r.Case(sb.String(), nontrivial)
			r.Count("operations", int64(len(s.log)))
			if !s.failed && r.WantSample() && len(s.log) <= 40 && nontrivial {
				r.Sample(map[string]any{"case": caseID, "operations": s.log})
			}
			if s.failed {
				// do not carry a possibly inconsistent listener into the next sequence
				e.destroy()
				e = nil
			}
		})
	}
}

func clipBody(b string) string {
	if len(b) > 200 {
		return b[:200] + "..."
	}
	return b
}
