// Package c12: webhooks deactivate at max_tries consecutive failures, reset on success.
//
// Seeded sequences of register / delete / re-register / notify / query / restart are run
// against the REAL stack (SQLite webhooks table -> SQL webhooks repository ->
// notification.WebhooksService -> gin handlers of /api/v1/webhook), once with a scripted
// notification.WebhookTargetClient and once with the PRODUCTION client
// (transports/http/client) posting to an httptest server. The oracle is a counter model
// per URL written from the statement of the property.
package c12

import (
	"bytes"
	"encoding/gob"
	"encoding/json"
	"errors"
	"fmt"
	"io"
	"math/big"
	"math/rand"
	"net"
	"net/http"
	"net/http/httptest"
	"net/textproto"
	"net/url"
	"sort"
	"strconv"
	"strings"
	"sync"
	"sync/atomic"
	"time"

	"github.com/bitcoin-sv/block-headers-service/config"
	"github.com/bitcoin-sv/block-headers-service/domains"
	"github.com/bitcoin-sv/block-headers-service/notification"
	"github.com/bitcoin-sv/block-headers-service/repository"
	"github.com/bitcoin-sv/block-headers-service/service"
	"github.com/bitcoin-sv/block-headers-service/verifharness/ev"
	"github.com/bitcoin-sv/block-headers-service/verifharness/rig"
)

func init() {
	// violation details travel from the worker children to the parent as gob
	gob.Register([]opRec{})
	gob.Register([]call{})
	gob.Register([]auth{})
	gob.Register(webhookJSON{})
	gob.Register(map[string][]string{})
	gob.Register([]string{})
}

// Spec registers the check.
func Spec() ev.Spec {
	return ev.Spec{Prop: "C12", Level: "exploration", Workers: -1, Body: body}
}

// ---------------------------------------------------------------------------
// outcomes a webhook target can answer with

const (
	o200       = "200"
	o201       = "201"
	o500       = "500"
	o404       = "404"
	oTransport = "transport-error"
	oBadBody   = "unreadable-body"
)

var failureOutcomes = []string{o500, o404, oTransport, oBadBody, o201}

func isSuccess(o string) bool { return o == o200 }

func outcomeClass(o string) string {
	if isSuccess(o) {
		return "200"
	}
	return "failure"
}

// ---------------------------------------------------------------------------
// recorded call (one POST as seen by the target)

type call struct {
	URL          string
	Method       string
	Headers      map[string][]string // canonical names
	Body         []byte              // JSON as received (production) / marshalled (scripted)
	SameObj      bool                // scripted: body object identical to the event passed to Notify
	RawEmptyName bool                // scripted: the header map contained an entry with an empty name
}

// target is the scripted remote end of the webhooks.
type target interface {
	URLFor(i int) string
	Script(outcomes map[string]string) // per URL outcome for the next event; clears the call log
	Calls() []call
	Close()
}

// ---- scripted notification.WebhookTargetClient

// bracketSlack: the service stamps an attempt with time.Now() and stores it with full precision; the harness reads the same
// clock right before and right after the Notify call, so the reported instant lies between the two readings. The slack only
// covers a driver that rounds to a millisecond.
const bracketSlack = 2 * time.Millisecond

type scripted struct {
	mu    sync.Mutex
	out   map[string]string
	calls []call
	event any
}

// urlTails: the URL a webhook is registered with is the URL its events are POSTed to, character for character - a path that
// ends in a slash, upper-case letters in path and query.
var urlTails = []string{"/notify", "/notify/", "/Notify/V2?Key=AbC&x=1", "/hook/3"}

func (s *scripted) URLFor(i int) string {
	return fmt.Sprintf("http://hook-%d.verif.example%s", i, urlTails[i%len(urlTails)])
}
func (s *scripted) Close() {}
func (s *scripted) Script(o map[string]string) {
	s.mu.Lock()
	s.out, s.calls = o, nil
	s.mu.Unlock()
}
func (s *scripted) Calls() []call {
	s.mu.Lock()
	defer s.mu.Unlock()
	return append([]call(nil), s.calls...)
}

type errBody struct{ n int }

func (e *errBody) Read(p []byte) (int, error) {
	if e.n == 0 && len(p) > 0 {
		e.n++
		p[0] = 'x'
		return 1, nil
	}
	return 0, errors.New("verif: scripted body read error")
}
func (e *errBody) Close() error { return nil }

func (s *scripted) Call(headers map[string]string, method string, u string, body any) (*http.Response, error) {
	c := call{URL: u, Method: method, Headers: map[string][]string{}}
	for k, v := range headers {
		if k == "" {
			c.RawEmptyName = true
			if v == "" {
				continue // an empty name with an empty value cannot be put on the wire; tolerated here, judged with the production client
			}
		}
		ck := textproto.CanonicalMIMEHeaderKey(k)
		c.Headers[ck] = append(c.Headers[ck], v)
	}
	b, _ := json.Marshal(body)
	c.Body = b
	s.mu.Lock()
	c.SameObj = body == s.event
	o := s.out[u]
	s.calls = append(s.calls, c)
	s.mu.Unlock()
	mk := func(code int, text string) *http.Response {
		return &http.Response{StatusCode: code, Status: fmt.Sprintf("%d %s", code, http.StatusText(code)), Proto: "HTTP/1.1", ProtoMajor: 1, ProtoMinor: 1,
			Header: http.Header{}, Body: io.NopCloser(strings.NewReader(text))}
	}
	switch o {
	case o200:
		return mk(200, "ok"), nil
	case o201:
		return mk(201, "created"), nil
	case o500:
		return mk(500, "boom"), nil
	case o404:
		return mk(404, "nope"), nil
	case oBadBody:
		r := mk(200, "")
		r.Body = &errBody{}
		return r, nil
	default:
		return nil, errors.New("verif: scripted transport error")
	}
}

// ---- httptest server for the production client

type liveTarget struct {
	slow200 atomic.Int64
	srv     *httptest.Server
	mu      sync.Mutex
	out     map[string]string // keyed by path
	calls   []call
}

func newLiveTarget() *liveTarget {
	t := &liveTarget{}
	t.srv = httptest.NewServer(http.HandlerFunc(t.handle))
	return t
}

func (t *liveTarget) URLFor(i int) string {
	return fmt.Sprintf("%s/live%d%s", t.srv.URL, i, urlTails[i%len(urlTails)])
}
func (t *liveTarget) Close() { t.srv.Close() }
func (t *liveTarget) Script(o map[string]string) {
	t.mu.Lock()
	t.out = map[string]string{}
	for u, v := range o {
		if pu, err := url.Parse(u); err == nil {
			t.out[pu.RequestURI()] = v
		}
	}
	t.calls = nil
	t.mu.Unlock()
}
func (t *liveTarget) Calls() []call {
	t.mu.Lock()
	defer t.mu.Unlock()
	return append([]call(nil), t.calls...)
}

func (t *liveTarget) handle(w http.ResponseWriter, r *http.Request) {
	b, _ := io.ReadAll(r.Body)
	c := call{URL: t.srv.URL + r.URL.RequestURI(), Method: r.Method, Headers: map[string][]string{}, Body: b}
	for k, v := range r.Header {
		c.Headers[textproto.CanonicalMIMEHeaderKey(k)] = append([]string(nil), v...)
	}
	t.mu.Lock()
	o := t.out[r.URL.RequestURI()]
	t.calls = append(t.calls, c)
	t.mu.Unlock()
	hijack := func(raw string) {
		hj, ok := w.(http.Hijacker)
		if !ok {
			w.WriteHeader(599)
			return
		}
		conn, buf, err := hj.Hijack()
		if err != nil {
			return
		}
		if raw != "" {
			_, _ = buf.WriteString(raw)
			_ = buf.Flush()
		}
		if tc, ok := conn.(*net.TCPConn); ok {
			_ = tc.SetLinger(0)
		}
		_ = conn.Close()
	}
	switch o {
	case o200:
		w.WriteHeader(200)
		if t.slow200.Add(1)%3 == 0 {
			// a receiver whose answer does not arrive in one piece: headers first, then a body of a few kilobytes in
			// three flushed parts. It is a 200 all the same.
			fl, _ := w.(http.Flusher)
			if fl != nil {
				fl.Flush()
			}
			part := bytes.Repeat([]byte("ok "), 2048)
			for i := 0; i < 3; i++ {
				time.Sleep(300 * time.Microsecond)
				_, _ = w.Write(part)
				if fl != nil {
					fl.Flush()
				}
			}
			return
		}
		_, _ = w.Write([]byte("ok"))
	case o201:
		w.WriteHeader(201)
		_, _ = w.Write([]byte("created"))
	case o500:
		w.WriteHeader(500)
		_, _ = w.Write([]byte("boom"))
	case o404:
		w.WriteHeader(404)
		_, _ = w.Write([]byte("nope"))
	case oBadBody:
		hijack("HTTP/1.1 200 OK\r\nContent-Type: text/plain\r\nContent-Length: 64\r\n\r\npartial")
	default:
		hijack("")
	}
}

// ---------------------------------------------------------------------------
// the counter model (written from the statement)

type auth struct {
	Kind    string `json:"kind"` // bearer | custom | none
	TypeStr string `json:"type"`
	Header  string `json:"header"`
	Token   string `json:"token"`
}

func (a auth) wantHeader() (name, value string) {
	switch a.Kind {
	case "bearer":
		return "Authorization", "Bearer " + a.Token
	case "custom":
		return textproto.CanonicalMIMEHeaderKey(a.Header), a.Token
	}
	return "", ""
}

type hook struct {
	exists      bool
	active      bool
	count       int
	auths       []auth    // acceptable configurations (more than one only after re-registering an inactive URL with other credentials: the statement does not say which one wins)
	attempted   bool      // a delivery was attempted since the (re-)registration
	attFrom     time.Time // the last attempt happened between these two readings of the clock
	attTo       time.Time
	lastOutcome string
}

var customNames = []string{"X-Api-Key", "X-Hook-Token", "x-lower-case-key", "Authorization", "X-Verif-Auth"}

var authNameUniverse = func() map[string]bool {
	m := map[string]bool{"Authorization": true, "Proxy-Authorization": true}
	for _, n := range customNames {
		m[textproto.CanonicalMIMEHeaderKey(n)] = true
	}
	return m
}()

func randToken(rng *rand.Rand) string {
	const al = "abcdefghijklmnopqrstuvwxyzABCDEFGHIJKLMNOPQRSTUVWXYZ0123456789-._~"
	n := 8 + rng.Intn(24)
	if rng.Intn(8) == 0 { // around and beyond the declared column width (VARCHAR(255), not enforced by SQLite)
		n = []int{247, 253, 254, 255, 300, 1000}[rng.Intn(6)]
	}
	b := make([]byte, n)
	for i := range b {
		b[i] = al[rng.Intn(len(al))]
	}
	return "tk" + string(b)
}

func randAuth(rng *rand.Rand) auth {
	switch rng.Intn(3) {
	case 0:
		a := auth{Kind: "bearer", TypeStr: []string{"BEARER", "bearer", "Bearer"}[rng.Intn(3)], Token: randToken(rng)}
		if rng.Intn(3) == 0 {
			// a bearer registration that also fills in the header field: bearer means "Authorization: Bearer <token>"
			a.Header = customNames[rng.Intn(len(customNames))]
		}
		return a
	case 1:
		a := auth{Kind: "custom", TypeStr: []string{"CUSTOM_HEADER", "custom_header"}[rng.Intn(2)], Header: customNames[rng.Intn(len(customNames))], Token: randToken(rng)}
		if rng.Intn(6) == 0 {
			a.Token = "" // a custom header with an empty token: the header is configured, its value is empty
		}
		return a
	}
	return auth{Kind: "none"}
}

func (a auth) requestBody(u string) []byte {
	type ra struct {
		Type   string `json:"type,omitempty"`
		Token  string `json:"token,omitempty"`
		Header string `json:"header,omitempty"`
	}
	type req struct {
		URL  string `json:"url"`
		Auth *ra    `json:"requiredAuth,omitempty"`
	}
	q := req{URL: u}
	if a.Kind != "none" {
		q.Auth = &ra{Type: a.TypeStr, Token: a.Token, Header: a.Header}
	}
	b, _ := json.Marshal(q)
	return b
}

// ---------------------------------------------------------------------------

type webhookJSON struct {
	URL               *string `json:"url"`
	CreatedAt         *string `json:"createdAt"`
	LastEmitStatus    *string `json:"lastEmitStatus"`
	LastEmitTimestamp *string `json:"lastEmitTimestamp"`
	ErrorsCount       *int    `json:"errorsCount"`
	Active            *bool   `json:"active"`
}

type dbRow struct {
	present bool
	count   int64
	active  bool
}

type env struct {
	r        *ev.Run
	mode     string // scripted | production
	st       *rig.Stack
	tg       target
	maxTries int
	repos    *repository.Repositories
}

func (e *env) readRow(u string) (dbRow, error) {
	rows, err := e.st.DB.Queryx(`SELECT errors_count, is_active FROM webhooks WHERE url = ?`, u)
	if err != nil {
		return dbRow{}, err
	}
	defer rows.Close()
	if !rows.Next() {
		return dbRow{}, rows.Err()
	}
	cols, err := rows.SliceScan()
	if err != nil {
		return dbRow{}, err
	}
	row := dbRow{present: true}
	switch x := cols[0].(type) {
	case int64:
		row.count = x
	case []byte:
		row.count, _ = strconv.ParseInt(string(x), 10, 64)
	case nil:
		row.count = 0
	default:
		row.count, _ = strconv.ParseInt(fmt.Sprint(x), 10, 64)
	}
	switch x := cols[1].(type) {
	case bool:
		row.active = x
	case int64:
		row.active = x != 0
	case []byte:
		s := strings.ToLower(string(x))
		row.active = s == "1" || s == "true" || s == "t"
	case string:
		s := strings.ToLower(x)
		row.active = s == "1" || s == "true" || s == "t"
	}
	return row, nil
}

func newEnv(r *ev.Run, mode string) (*env, error) {
	e := &env{r: r, mode: mode, maxTries: 10}
	var sc *scripted
	if mode == "scripted" {
		sc = &scripted{}
		e.tg = sc
	} else {
		e.tg = newLiveTarget()
	}
	st, err := rig.New(rig.Options{
		Dir: r.Scratch, Name: "c12-" + mode + ".db",
		Config:    func(c *config.AppConfig) { c.Webhook.MaxTries = e.maxTries },
		WrapRepos: func(rp *repository.Repositories) { e.repos = rp },
		AfterSvc: func(s *service.Services, c *config.AppConfig) {
			if sc != nil {
				// the real WebhooksService over the real SQL repository, only the remote end is scripted
				lg := *s.Logger
				s.Webhooks = notification.NewWebhooksService(e.repos.Webhooks, sc, &lg, c.Webhook)
			}
		},
	})
	if err != nil {
		e.tg.Close()
		return nil, err
	}
	e.st = st
	return e, nil
}

func (e *env) close() {
	e.st.Destroy()
	e.tg.Close()
}

// ---------------------------------------------------------------------------

type opRec struct {
	Op       string            `json:"op"`
	URL      int               `json:"url,omitempty"`
	Auth     *auth             `json:"auth,omitempty"`
	Outcomes map[string]string `json:"outcomes,omitempty"`
}

func mkEvent(seq int) *domains.HeaderEvent {
	h := &domains.BlockHeader{
		Height: int32(1000 + seq), Version: 0x20000000, Nonce: uint32(seq) * 2654435761, State: domains.LongestChain,
		Timestamp: time.Unix(1600000000+int64(seq)*600, 0).UTC(), CumulatedWork: new(big.Int).Lsh(big.NewInt(int64(seq)+1), 70),
	}
	for i := range h.Hash {
		h.Hash[i] = byte(seq + i)
		h.MerkleRoot[i] = byte(seq*3 + i)
		h.PreviousBlock[i] = byte(seq*7 + i)
	}
	return domains.HeaderAdded(h)
}

func sortedKeys(m map[string]bool) string {
	var ks []string
	for k := range m {
		ks = append(ks, k)
	}
	sort.Strings(ks)
	return strings.Join(ks, "+")
}

func clip(s string) string {
	if len(s) > 300 {
		return s[:300]
	}
	return s
}

// runSequence executes one seeded sequence in the env's mode.
func (e *env) runSequence(caseID string, rng *rand.Rand, maxTries, nOps int) {
	r := e.r
	e.maxTries = maxTries
	if err := e.st.Reset(); err != nil {
		r.Violate("harness|reset", err.Error(), caseID, nil)
		return
	}
	e.st.Cfg.Webhook.MaxTries = maxTries
	const nURL = 4
	urls := make([]string, nURL)
	hooks := make([]*hook, nURL)
	for i := range urls {
		urls[i] = e.tg.URLFor(i)
		hooks[i] = &hook{}
	}
	pFail := []float64{0.25, 0.6, 0.9}[rng.Intn(3)]
	var log []opRec
	var shape strings.Builder
	fmt.Fprintf(&shape, "%s|mt=%d|", e.mode, maxTries)
	detail := func(extra map[string]any) map[string]any {
		d := map[string]any{"mode": e.mode, "max_tries": maxTries, "ops_so_far": log, "urls": urls}
		for k, v := range extra {
			d[k] = v
		}
		return d
	}
	mclass := "max_tries=1"
	if maxTries > 1 {
		mclass = "max_tries>1"
	}
	sawFailure, sawDeact, sawReact := false, false, false
	evSeq := 0

	query := func(i int) (webhookJSON, int, string) {
		w := e.st.GET("/api/v1/webhook?url=" + url.QueryEscape(urls[i]))
		var j webhookJSON
		if w.Code == 200 {
			if err := json.Unmarshal(w.Body.Bytes(), &j); err != nil {
				return j, -1, w.Body.String()
			}
		}
		return j, w.Code, w.Body.String()
	}
	// checkQuery compares the endpoint's report with the model; returns the set of wrong fields.
	checkQuery := func(i int, where string) (webhookJSON, bool) {
		h := hooks[i]
		j, code, raw := query(i)
		r.Count("queries", 1)
		if !h.exists {
			if code == 200 {
				r.Count("queries_of_absent_url_answered_200", 1) // not judged: the statement does not say what a deleted URL reports
			}
			return j, false
		}
		if code != 200 {
			r.Violate(where+"|existing-webhook|status="+strconv.Itoa(code), fmt.Sprintf("GET /api/v1/webhook?url= for a registered webhook answered %d %s", code, clip(raw)), caseID, detail(map[string]any{"url": urls[i]}))
			return j, false
		}
		wrong := map[string]bool{}
		if j.Active == nil || *j.Active != h.active {
			wrong["active"] = true
		}
		if j.ErrorsCount == nil || *j.ErrorsCount != h.count {
			wrong["errorsCount"] = true
		}
		if j.URL == nil || *j.URL != urls[i] {
			wrong["url"] = true
		}
		if h.attempted {
			r.Count("queries_after_an_attempt", 1)
			ok := false
			if j.LastEmitTimestamp != nil {
				if t, err := time.Parse(time.RFC3339Nano, *j.LastEmitTimestamp); err == nil && t.Year() > 1970 {
					ok = true
					// the reported instant is the instant of the attempt (bracketed by the harness around Notify; 2 ms of
					// slack for rounding), whatever time zone the process runs in
					if !h.attFrom.IsZero() && (t.Before(h.attFrom.Add(-bracketSlack)) || t.After(h.attTo.Add(bracketSlack))) {
						ok = false
						r.Count("reported_attempt_times_outside_the_bracket", 1)
					} else if !h.attFrom.IsZero() {
						r.Count("reported_attempt_times_inside_the_bracket", 1)
					}
				}
			}
			if !ok {
				wrong["lastEmitTimestamp"] = true
			}
			st := ""
			if j.LastEmitStatus != nil {
				st = *j.LastEmitStatus
			}
			switch h.lastOutcome {
			case o200, o201, o500, o404:
				if !strings.Contains(st, h.lastOutcome) {
					wrong["lastEmitStatus"] = true
				}
			default:
				if strings.TrimSpace(st) == "" {
					wrong["lastEmitStatus"] = true
				}
			}
		}
		if len(wrong) > 0 {
			r.Violate(where+"|wrong="+sortedKeys(wrong), fmt.Sprintf("GET /api/v1/webhook?url= reports %s; model: active=%v errorsCount=%d attempted=%v lastOutcome=%q", clip(raw), h.active, h.count, h.attempted, h.lastOutcome), caseID,
				detail(map[string]any{"url": urls[i], "reported": raw}))
			return j, false
		}
		return j, true
	}
	// resync: after a divergence has been REPORTED, the store is put into the state the model
	// expects (raw SQL), so that the rest of the sequence keeps exercising the states the
	// statement describes (e.g. 9 consecutive failures with max_tries=10) instead of following
	// the defect. Never executed on code that agrees with the model.
	resync := func(i int) {
		h := hooks[i]
		r.Count("store_forced_to_model_state_after_a_reported_divergence", 1)
		row, err := e.readRow(urls[i])
		if err != nil {
			return
		}
		switch {
		case !h.exists && row.present:
			_, _ = e.st.DB.Exec(`DELETE FROM webhooks WHERE url = ?`, urls[i])
		case h.exists && !row.present:
			*h = hook{} // cannot be re-created faithfully: follow the store
		case h.exists:
			_, _ = e.st.DB.Exec(`UPDATE webhooks SET errors_count = ?, is_active = ? WHERE url = ?`, h.count, h.active, urls[i])
		}
	}

	for step := 0; step < nOps; step++ {
		x := rng.Float64()
		i := rng.Intn(nURL)
		h := hooks[i]
		switch {
		case x < 0.22 || step == 0: // register / re-register
			a := randAuth(rng)
			if h.exists && rng.Intn(3) != 0 {
				a = h.auths[0] // mostly re-register with the same credentials
			}
			log = append(log, opRec{Op: "register", URL: i, Auth: &a})
			w := e.st.POST("/api/v1/webhook", a.requestBody(urls[i]))
			r.Count("registrations", 1)
			var j webhookJSON
			_ = json.Unmarshal(w.Body.Bytes(), &j)
			switch {
			case !h.exists:
				shape.WriteString("Rn" + a.Kind[:1])
				if w.Code != 200 || j.Active == nil || !*j.Active || j.ErrorsCount == nil || *j.ErrorsCount != 0 || j.URL == nil || *j.URL != urls[i] {
					r.Violate("register|new|auth="+a.Kind+"|status="+strconv.Itoa(w.Code), fmt.Sprintf("registering a new webhook answered %d %s", w.Code, clip(w.Body.String())), caseID, detail(nil))
					if row, err := e.readRow(urls[i]); err == nil && row.present {
						_, _ = e.st.DB.Exec(`DELETE FROM webhooks WHERE url = ?`, urls[i])
					}
					continue
				}
				*h = hook{exists: true, active: true, auths: []auth{a}}
				r.Count("registered_auth_"+a.Kind, 1)
			case h.active:
				shape.WriteString("Ra")
				r.Count("reregister_active_attempts", 1)
				row, _ := e.readRow(urls[i])
				if w.Code >= 200 && w.Code < 300 {
					r.Violate("reregister|active|accepted", fmt.Sprintf("re-registering an ACTIVE url was not refused: %d %s", w.Code, clip(w.Body.String())), caseID, detail(nil))
				} else if !row.present || row.active != h.active || int(row.count) != h.count {
					r.Violate("reregister|active|state-changed", fmt.Sprintf("a refused re-registration changed the stored state: active=%v count=%d, model active=%v count=%d", row.active, row.count, h.active, h.count), caseID, detail(nil))
					resync(i)
				} else {
					r.Count("reregister_active_refused", 1)
				}
			default: // inactive -> reactivated with zero count
				shape.WriteString("Ri")
				r.Count("reregister_inactive_attempts", 1)
				sawReact = true
				row, _ := e.readRow(urls[i])
				if w.Code != 200 || !row.present || !row.active || row.count != 0 {
					r.Violate("reregister|inactive|status="+strconv.Itoa(w.Code)+"|active="+fmt.Sprint(row.active)+"|count-zero="+fmt.Sprint(row.count == 0),
						fmt.Sprintf("re-registering an INACTIVE url: answered %d %s; stored active=%v errors_count=%d (expected reactivated with zero count)", w.Code, clip(w.Body.String()), row.active, row.count), caseID, detail(nil))
					h.active, h.count, h.attempted, h.attFrom = true, 0, false, time.Time{}
					resync(i)
					continue
				}
				if j.Active == nil || !*j.Active || j.ErrorsCount == nil || *j.ErrorsCount != 0 {
					r.Violate("reregister|inactive|response-body", fmt.Sprintf("re-registering an INACTIVE url answered %s (expected active=true, errorsCount=0)", clip(w.Body.String())), caseID, detail(nil))
				}
				h.active, h.count, h.attempted, h.attFrom = true, 0, false, time.Time{}
				same := false
				for _, x := range h.auths {
					if x == a {
						same = true
					}
				}
				if !same {
					h.auths = append(h.auths, a)
				}
				r.Count("reactivations", 1)
			}

		case x < 0.30: // delete
			log = append(log, opRec{Op: "delete", URL: i})
			shape.WriteString("D")
			w := e.st.HTTP(http.MethodDelete, "/api/v1/webhook?url="+url.QueryEscape(urls[i]), nil, rig.Admin())
			if h.exists {
				row, _ := e.readRow(urls[i])
				if w.Code != 200 || row.present {
					r.Violate("delete|existing|status="+strconv.Itoa(w.Code)+"|row-left="+fmt.Sprint(row.present), fmt.Sprintf("DELETE of a registered webhook answered %d %s, row still present: %v", w.Code, clip(w.Body.String()), row.present), caseID, detail(nil))
					*h = hook{}
					resync(i)
					continue
				}
				*h = hook{}
				r.Count("deletions", 1)
			} else {
				r.Count("deletions_of_absent_url", 1)
			}

		case x < 0.42: // query
			log = append(log, opRec{Op: "query", URL: i})
			shape.WriteString("Q")
			checkQuery(i, "query")

		case x < 0.47: // restart, then every URL must report what it reported before
			log = append(log, opRec{Op: "restart"})
			shape.WriteString("S")
			before := make([]webhookJSON, nURL)
			okBefore := make([]bool, nURL)
			for k := range urls {
				before[k], _, _ = query(k)
				okBefore[k] = hooks[k].exists
			}
			if err := e.st.Restart(); err != nil {
				r.Violate("restart|failed", err.Error(), caseID, detail(nil))
				return
			}
			r.Count("restarts", 1)
			for k := range urls {
				after, good := checkQuery(k, "query")
				if !hooks[k].exists || !okBefore[k] {
					continue
				}
				_ = good
				changed := map[string]bool{}
				cmpS := func(n string, a, b *string) {
					if (a == nil) != (b == nil) || (a != nil && *a != *b) {
						changed[n] = true
					}
				}
				cmpT := func(n string, a, b *string) {
					if a == nil || b == nil {
						if a != b {
							changed[n] = true
						}
						return
					}
					ta, e1 := time.Parse(time.RFC3339Nano, *a)
					tb, e2 := time.Parse(time.RFC3339Nano, *b)
					if e1 != nil || e2 != nil || !ta.Equal(tb) {
						changed[n] = true
					}
				}
				cmpS("lastEmitStatus", before[k].LastEmitStatus, after.LastEmitStatus)
				cmpT("lastEmitTimestamp", before[k].LastEmitTimestamp, after.LastEmitTimestamp)
				cmpT("createdAt", before[k].CreatedAt, after.CreatedAt)
				if (before[k].Active == nil) != (after.Active == nil) || (after.Active != nil && *before[k].Active != *after.Active) {
					changed["active"] = true
				}
				if (before[k].ErrorsCount == nil) != (after.ErrorsCount == nil) || (after.ErrorsCount != nil && *before[k].ErrorsCount != *after.ErrorsCount) {
					changed["errorsCount"] = true
				}
				if len(changed) > 0 {
					r.Violate("restart|report-changed="+sortedKeys(changed), "the webhook report changed across a restart although nothing happened in between", caseID, detail(map[string]any{"url": urls[k], "before": before[k], "after": after}))
				}
				r.Count("reports_compared_across_restart", 1)
			}

		default: // notify one event
			outs := map[string]string{}
			for k := range urls {
				if rng.Float64() < pFail {
					outs[urls[k]] = failureOutcomes[rng.Intn(len(failureOutcomes))]
				} else {
					outs[urls[k]] = o200
				}
			}
			lo := map[string]string{}
			for k := range urls {
				lo[strconv.Itoa(k)] = outs[urls[k]]
			}
			log = append(log, opRec{Op: "notify", Outcomes: lo})
			evSeq++
			event := mkEvent(evSeq)
			wantBody, _ := json.Marshal(event)
			e.tg.Script(outs)
			if sc, ok := e.tg.(*scripted); ok {
				sc.mu.Lock()
				sc.event = event
				sc.mu.Unlock()
			}
			notifyFrom := time.Now()
			e.st.Svc.Webhooks.Notify(event) // synchronous: events one at a time
			notifyTo := time.Now()
			r.Count("events_notified", 1)
			calls := e.tg.Calls()
			per := map[string][]call{}
			for _, c := range calls {
				per[c.URL] = append(per[c.URL], c)
			}
			shape.WriteString("N")
			for k := range urls {
				hk := hooks[k]
				cs := per[urls[k]]
				delete(per, urls[k])
				o := outs[urls[k]]
				stClass := "absent"
				if hk.exists {
					stClass = "inactive"
					if hk.active {
						stClass = "active"
					}
				}
				authKind := "-"
				if hk.exists {
					authKind = hk.auths[0].Kind
				}
				want := 0
				if hk.exists && hk.active {
					want = 1
				}
				if len(cs) != want {
					got := "0"
					if len(cs) == 1 {
						got = "1"
					} else if len(cs) > 1 {
						got = "2+"
					}
					r.Violate(fmt.Sprintf("delivery|client=%s|hook=%s|auth=%s|posts:%d->%s", e.mode, stClass, authKind, want, got),
						fmt.Sprintf("a webhook that is %s (auth %s) received %d POSTs for one event, expected %d", stClass, authKind, len(cs), want), caseID, detail(map[string]any{"url": urls[k], "calls": cs}))
					if want == 1 { // the model proceeds as if the scripted outcome had been delivered
						if isSuccess(o) {
							hk.count = 0
						} else {
							hk.count++
							if hk.count >= maxTries {
								hk.active = false
							}
						}
					}
					hk.attempted, hk.attFrom = false, time.Time{} // what was really attempted is unknown to the model
					resync(k)
					continue
				}
				if want == 0 {
					if hk.exists { // state must not move
						row, _ := e.readRow(urls[k])
						if !row.present || row.active != hk.active || int(row.count) != hk.count {
							r.Violate("state|after=not-called|"+mclass, fmt.Sprintf("an inactive webhook's stored state moved: active=%v count=%d, model active=%v count=%d", row.active, row.count, hk.active, hk.count), caseID, detail(map[string]any{"url": urls[k]}))
							resync(k)
						}
						r.Count("inactive_hooks_not_called", 1)
					}
					continue
				}
				c := cs[0]
				r.Count("posts_observed", 1)
				r.Count("posts_auth_"+authKind, 1)
				r.Count("outcome_"+o, 1)
				shape.WriteString(string(o[0]))
				// --- the request itself
				if c.Method != http.MethodPost {
					r.Violate("request|method", "webhook called with method "+c.Method, caseID, detail(map[string]any{"url": urls[k]}))
				}
				if ct := c.Headers["Content-Type"]; len(ct) != 1 || !strings.HasPrefix(ct[0], "application/json") {
					r.Violate("request|content-type|client="+e.mode, fmt.Sprintf("Content-Type = %q", ct), caseID, detail(map[string]any{"url": urls[k], "headers": c.Headers}))
				}
				if !bytes.Equal(bytes.TrimSpace(c.Body), wantBody) {
					r.Violate("request|body|client="+e.mode, fmt.Sprintf("POST body %s, expected the event %s", clip(string(c.Body)), clip(string(wantBody))), caseID, detail(map[string]any{"url": urls[k]}))
				}
				if c.RawEmptyName {
					r.Count("header_maps_with_empty_header_name", 1)
				}
				okAuth := false
				var why string
				for _, a := range hk.auths {
					if w := checkAuthHeaders(c.Headers, a, hk.auths); w == "" {
						okAuth = true
						break
					} else if why == "" {
						why = w
					}
				}
				if !okAuth {
					r.Violate("request|auth="+authKind+"|client="+e.mode+"|"+strings.SplitN(why, ":", 2)[0], "authorisation headers of the POST are not exactly the configured ones: "+why, caseID,
						detail(map[string]any{"url": urls[k], "headers": c.Headers, "configured": hk.auths}))
				}
				// --- the counter model
				if isSuccess(o) {
					if hk.count > 0 {
						r.Count("resets_after_failures", 1)
					}
					hk.count = 0
				} else {
					sawFailure = true
					hk.count++
					if hk.count >= maxTries {
						hk.active = false
						sawDeact = true
						r.Count("model_deactivations", 1)
						r.Count(fmt.Sprintf("model_deactivations_max_tries_%d", maxTries), 1)
					} else {
						r.Count("failures_below_max_tries", 1)
					}
				}
				hk.attempted, hk.lastOutcome = true, o
				hk.attFrom, hk.attTo = notifyFrom, notifyTo
				row, err := e.readRow(urls[k])
				if err != nil {
					r.Violate("harness|sql", err.Error(), caseID, nil)
					return
				}
				if !row.present || row.active != hk.active || int(row.count) != hk.count {
					cnt := "eq"
					if int(row.count) != hk.count {
						cnt = "ne"
					}
					r.Violate(fmt.Sprintf("state|after=%s|%s|active:%v->%v|count:%s", outcomeClass(o), mclass, hk.active, row.active, cnt),
						fmt.Sprintf("after outcome %s with max_tries=%d the stored state is active=%v errors_count=%d; counter model: active=%v count=%d", o, maxTries, row.active, row.count, hk.active, hk.count), caseID,
						detail(map[string]any{"url": urls[k]}))
					resync(k)
				} else {
					r.Count("state_checks_agreeing", 1)
				}
			}
			for u, cs := range per {
				r.Violate("delivery|client="+e.mode+"|unknown-url", fmt.Sprintf("%d POSTs to %s which is not a registered webhook of this sequence", len(cs), u), caseID, detail(nil))
			}
		}
	}
	// final query of every URL
	for k := range urls {
		checkQuery(k, "query")
	}
	r.Count("sequences_"+e.mode, 1)
	r.Case(shape.String(), sawFailure && (sawDeact || sawReact))
	if r.WantSample() && sawFailure {
		ops := log
		if len(ops) > 40 {
			ops = ops[:40]
		}
		r.Sample(map[string]any{"case": caseID, "mode": e.mode, "max_tries": maxTries, "deactivation_seen": sawDeact, "reactivation_seen": sawReact, "ops_total": len(log), "ops_first_40": ops})
	}
}

// checkAuthHeaders returns "" when the received headers carry exactly the authorisation
// configured by a; otherwise "<class>: text".
func checkAuthHeaders(h map[string][]string, a auth, all []auth) string {
	name, value := a.wantHeader()
	tokens := []string{}
	for _, x := range all {
		if x.Token != "" {
			tokens = append(tokens, x.Token)
		}
	}
	for k, vs := range h {
		if k == "" {
			return "empty-header-name: a header with an empty name and a non-empty value"
		}
		if k == name {
			if len(vs) != 1 || vs[0] != value {
				return fmt.Sprintf("wrong-value: header %s = %q, expected exactly [%q]", k, vs, value)
			}
			continue
		}
		if authNameUniverse[k] {
			return fmt.Sprintf("extra-auth-header: unexpected authorisation header %s = %q", k, vs)
		}
		for _, v := range vs {
			for _, t := range tokens {
				if strings.Contains(v, t) {
					return fmt.Sprintf("token-leak: the token appears in header %s", k)
				}
			}
		}
	}
	if name != "" {
		if _, ok := h[name]; !ok {
			return fmt.Sprintf("missing: header %s is missing", name)
		}
	}
	return ""
}

func body(r *ev.Run) {
	r.Rule("seeded sequences of N operations over 4 URLs: register (BEARER | CUSTOM_HEADER with 5 header names | no requiredAuth; re-registration mostly with the same, sometimes other credentials) through POST /api/v1/webhook, DELETE, GET ?url=, restart (database.Init on the same file + new services), and notify = synchronous WebhooksService.Notify(event) with a scripted per-URL outcome from {200, 201, 500, 404, transport error, unreadable body}; max_tries in {1,2,3,10}; failure probability in {0.25,0.6,0.9}. A third of the sequences runs with a process time zone other than UTC; the reported time of the last attempt must lie in the bracket the harness measured around the Notify call (2 ms of slack): an attempt that leaves the reported time where it was is reported. Plus stores of 3-5 active webhooks in which the write that records the outcome of one webhook's call fails (each position in turn): the others still get their POST. Custom-header registrations include an empty token (the header is sent with an empty value). Every sequence is executed twice: scripted WebhookTargetClient, and the production client against an httptest server. evaluations = executed (sequence, mode); distinct = distinct (mode, max_tries, operation/outcome string); non-trivial = the sequence delivered at least one failure and reached a deactivation or a reactivation in the model.")
	r.Assume("'non-200 reply' is taken literally (201 counts as a failure)",
		"after re-registering an inactive URL with different credentials either set of credentials is accepted on the POST (statement silent)",
		"last attempt status: must contain the HTTP status code for a reply, be non-empty for a transport/body error; last attempt time: any time after 1970",
		"a header-map entry with empty name and empty value handed to a WebhookTargetClient is judged on the wire (production client) only",
		"SQLite engine only")
	r.Require("model_deactivations", 20)
	r.Require("model_deactivations_max_tries_10", 1)
	r.Require("reactivations", 10)
	r.Require("reregister_active_attempts", 10)
	r.Require("resets_after_failures", 10)
	r.Require("restarts", 10)
	r.Require("posts_auth_bearer", 20)
	r.Require("posts_auth_custom", 20)
	r.Require("outcome_"+oTransport, 10)
	r.Require("outcome_"+oBadBody, 10)
	r.Require("sequences_production", 5)
	r.Require("sequences_scripted", 5)

	envs := map[string]*env{}
	defer func() {
		for _, e := range envs {
			e.close()
		}
	}()
	get := func(mode string) *env {
		if e, ok := envs[mode]; ok {
			return e
		}
		e, err := newEnv(r, mode)
		if err != nil {
			r.Violate("harness|rig", err.Error(), "", nil)
			return nil
		}
		envs[mode] = e
		return e
	}
	for i := 0; i < r.Pick(6, 60); i++ {
		caseID := fmt.Sprintf("bookkeeping/%d", i)
		r.Do(caseID, func() { bookkeepingFault(r, caseID, i) })
	}
	for i := 0; i < r.Pick(3, 12); i++ {
		caseID := fmt.Sprintf("many/%d", i+2)
		r.Do(caseID, func() { manyWebhooks(r, caseID, i+2) })
	}
	nSeq := r.Pick(400, 8000)
	nOps := 40
	tries := []int{1, 2, 3, 10}
	for i := 0; i < nSeq; i++ {
		for _, mode := range []string{"scripted", "production"} {
			caseID := fmt.Sprintf("seq/%d/%s", i, mode)
			r.Do(caseID, func() {
				e := get(mode)
				if e == nil {
					return
				}
				// both modes of a sequence draw from the same stream
				rng := r.Rand(fmt.Sprintf("seq/%d", i))
				if i%3 == 1 {
					// the service process runs in a time zone other than UTC
					old := time.Local
					time.Local = time.FixedZone("VERIF", []int{7200, -12600, 19800, 45900, -39600}[(i/3)%5])
					defer func() { time.Local = old }()
					r.Count("sequences_in_a_non_utc_time_zone", 1)
				}
				mt := tries[i%len(tries)]
				n := nOps
				if mt == 10 {
					n = nOps + 30
				}
				e.runSequence(caseID, rng, mt, n)
			})
		}
	}
}
