package c12

import (
	"fmt"
	"io"
	"net/http"
	"net/http/httptest"
	"strings"
	"sync"

	"github.com/bitcoin-sv/block-headers-service/config"
	"github.com/bitcoin-sv/block-headers-service/verifharness/ev"
	"github.com/bitcoin-sv/block-headers-service/verifharness/rig"
)

// manyWebhooks: 498..505 registered webhooks, the last few of them failing (their receiver answers 500), max_tries = 2.
// Every event: one POST per active webhook, whatever its position in the table. After two events the failing ones are
// inactive (two consecutive failures recorded), the healthy ones active with a count of zero; a third event is posted to the
// healthy ones only.
func manyWebhooks(r *ev.Run, caseID string, i int) {
	var mu sync.Mutex
	posts := map[string]int{}
	srv := httptest.NewServer(http.HandlerFunc(func(w http.ResponseWriter, q *http.Request) {
		_, _ = io.Copy(io.Discard, q.Body)
		mu.Lock()
		posts[q.URL.RequestURI()]++
		mu.Unlock()
		if strings.HasPrefix(q.URL.Path, "/many/bad") {
			w.WriteHeader(http.StatusInternalServerError)
			return
		}
		w.WriteHeader(http.StatusOK)
	}))
	defer srv.Close()
	st, err := rig.New(rig.Options{Dir: r.Scratch, Name: "c12-many.db", NoHTTP: true, Config: func(c *config.AppConfig) { c.Webhook.MaxTries = 2 }})
	if err != nil {
		r.Violate("harness|rig", err.Error(), caseID, nil)
		return
	}
	defer st.Destroy()
	n := []int{498, 500, 501, 502, 505, 640}[i%6]
	nBad := 3 + i%4
	var good, bad []string
	for k := 0; k < n; k++ {
		p := fmt.Sprintf("/many/ok%04d", k)
		if k >= n-nBad {
			p = fmt.Sprintf("/many/bad%04d", k)
			bad = append(bad, p)
		} else {
			good = append(good, p)
		}
		if _, err := st.Svc.Webhooks.CreateWebhook("BEARER", "", "c12-many", srv.URL+p); err != nil {
			r.Violate("harness|create-webhook", err.Error(), caseID, nil)
			return
		}
	}
	expectPosts := func(ev int, want map[string]int) bool {
		mu.Lock()
		defer mu.Unlock()
		var wrong []string
		for p, w := range want {
			if posts[p] != w {
				wrong = append(wrong, fmt.Sprintf("%s:%d (expected %d)", p, posts[p], w))
			}
		}
		for k := range posts {
			delete(posts, k)
		}
		if len(wrong) > 0 {
			if len(wrong) > 6 {
				wrong = append(wrong[:6], fmt.Sprintf("... %d in all", len(wrong)))
			}
			r.Violate(fmt.Sprintf("delivery|many-webhooks|n=%d|event=%d|posts", n, ev), fmt.Sprintf("%d webhooks registered (%d of them failing, max_tries 2); POSTs for event %d: %v", n, nBad, ev, wrong), caseID, map[string]any{"webhooks": n, "failing": bad})
			return false
		}
		return true
	}
	want := map[string]int{}
	for _, p := range good {
		want[p] = 1
	}
	for _, p := range bad {
		want[p] = 1
	}
	for e := 1; e <= 2; e++ {
		st.Svc.Webhooks.Notify(mkEvent(e))
		if !expectPosts(e, want) {
			return
		}
	}
	for _, p := range bad {
		w, err := st.Svc.Webhooks.GetWebhookByURL(srv.URL + p)
		if err != nil || w == nil || w.Active {
			r.Violate(fmt.Sprintf("state|many-webhooks|n=%d|failing-still-active", n), fmt.Sprintf("%d webhooks registered; %s failed twice in a row (max_tries 2) and is reported %+v (err %v), expected inactive", n, p, w, err), caseID, map[string]any{"webhooks": n})
			return
		}
	}
	for _, p := range []string{good[0], good[len(good)-1], good[len(good)/2]} {
		w, err := st.Svc.Webhooks.GetWebhookByURL(srv.URL + p)
		if err != nil || w == nil || !w.Active || w.ErrorsCount != 0 {
			r.Violate(fmt.Sprintf("state|many-webhooks|n=%d|healthy-not-active", n), fmt.Sprintf("%d webhooks registered; the healthy %s is reported %+v (err %v), expected active with a count of 0", n, p, w, err), caseID, map[string]any{"webhooks": n})
			return
		}
	}
	for _, p := range bad {
		want[p] = 0
	}
	st.Svc.Webhooks.Notify(mkEvent(3))
	if !expectPosts(3, want) {
		return
	}
	r.Count("stores_with_about_500_webhooks", 1)
	r.Case(fmt.Sprintf("many-webhooks|n=%d", n), true)
}
