package c12

import (
	"fmt"
	"io"
	"net/http"
	"net/http/httptest"
	"sync"

	"github.com/bitcoin-sv/block-headers-service/config"
	"github.com/bitcoin-sv/block-headers-service/verifharness/ev"
	"github.com/bitcoin-sv/block-headers-service/verifharness/rig"
)

// bookkeepingFault: "each active webhook receives one HTTP POST per event". The write that records the outcome of one
// webhook's call fails (a trigger aborts the UPDATE of that one row): every other active webhook still gets its POST for
// that event, whichever position the failing one has in the list.
func bookkeepingFault(r *ev.Run, caseID string, i int) {
	var mu sync.Mutex
	posts := map[string]int{}
	srv := httptest.NewServer(http.HandlerFunc(func(w http.ResponseWriter, q *http.Request) {
		_, _ = io.Copy(io.Discard, q.Body)
		mu.Lock()
		posts[q.URL.RequestURI()]++
		mu.Unlock()
		w.WriteHeader(http.StatusOK)
	}))
	defer srv.Close()
	st, err := rig.New(rig.Options{Dir: r.Scratch, Name: "c12-bookkeeping.db", NoHTTP: true, Config: func(c *config.AppConfig) { c.Webhook.MaxTries = 3 }})
	if err != nil {
		r.Violate("harness|rig", err.Error(), caseID, nil)
		return
	}
	defer st.Destroy()
	n := 3 + i%3
	var paths []string
	for k := 0; k < n; k++ {
		p := fmt.Sprintf("/bk/%c%d", 'a'+byte((k*5+i)%7), k)
		paths = append(paths, p)
		if _, err := st.Svc.Webhooks.CreateWebhook("BEARER", "", "c12-bk", srv.URL+p); err != nil {
			r.Violate("harness|create-webhook", err.Error(), caseID, nil)
			return
		}
	}
	for failing := 0; failing < n; failing++ {
		if _, err := st.DB.Exec(fmt.Sprintf(`DROP TRIGGER IF EXISTS verif_c12_bk; CREATE TRIGGER verif_c12_bk BEFORE UPDATE ON webhooks WHEN NEW.url = '%s' BEGIN SELECT RAISE(ABORT, 'verif: injected bookkeeping failure'); END;`, srv.URL+paths[failing])); err != nil {
			r.Violate("harness|sql", err.Error(), caseID, nil)
			return
		}
		mu.Lock()
		for k := range posts {
			delete(posts, k)
		}
		mu.Unlock()
		st.Svc.Webhooks.Notify(mkEvent(failing + 1)) // synchronous: events one at a time
		mu.Lock()
		var wrong []string
		for _, p := range paths {
			if posts[p] != 1 {
				wrong = append(wrong, fmt.Sprintf("%s:%d", p, posts[p]))
			}
		}
		mu.Unlock()
		r.Count("events_with_a_failing_bookkeeping_write", 1)
		if len(wrong) > 0 {
			r.Violate("delivery|bookkeeping-write-fails|others-not-called", fmt.Sprintf("%d active webhooks; the write that records the outcome of %s fails: POSTs per webhook for that event %v (expected one each)", n, paths[failing], wrong), caseID,
				map[string]any{"webhooks": paths, "failing_bookkeeping_for": paths[failing]})
			return
		}
	}
	_, _ = st.DB.Exec(`DROP TRIGGER IF EXISTS verif_c12_bk`)
	r.Case(fmt.Sprintf("bookkeeping|n=%d", n), true)
}

var _ = ev.Spec{}
