// Package c04: chain query endpoints answer as pure functions of the stored header tree.
package c04

import (
	"encoding/json"
	"fmt"
	"math/rand"
	"sort"
	"strings"

	"github.com/bitcoin-sv/block-headers-service/verifharness/ev"
	"github.com/bitcoin-sv/block-headers-service/verifharness/gen"
	"github.com/bitcoin-sv/block-headers-service/verifharness/mb"
	"github.com/bitcoin-sv/block-headers-service/verifharness/refmodel"
	"github.com/bitcoin-sv/block-headers-service/verifharness/rig"
	"github.com/bitcoin-sv/block-headers-service/verifharness/snap"
)

// Spec registers the check.
func Spec() ev.Spec {
	return ev.Spec{Prop: "C04", Level: "exploration", Workers: -1, Body: body}
}

type env struct {
	r      *ev.Run
	st     *rig.Stack
	m      *refmodel.Model
	hist   gen.History
	caseID string
	reads  int
	digest string
	failed bool
}

func (e *env) detail(req string, extra map[string]any) map[string]any {
	d := map[string]any{"history_hex": e.hist.Hex(), "request": req}
	for k, v := range extra {
		d[k] = v
	}
	return d
}

func (e *env) violate(sig, what, req string, extra map[string]any) {
	e.failed = true
	e.r.Violate(sig, what, e.caseID, e.detail(req, extra))
}

// tainted: the by-hash ancestry of n crosses a link to a parent that was stored after its child
// (stored heights are then unrelated and the statement does not say what a path is).
func (e *env) tainted(n *refmodel.Node) bool {
	for x := n; x != nil; {
		if e.m.HasLateParent(x) {
			return true
		}
		x = x.Parent
	}
	return false
}

func (e *env) get(path string) (int, []byte) {
	w := e.st.GET(path)
	e.afterRead(path)
	return w.Code, w.Body.Bytes()
}

func (e *env) post(path string, body []byte) (int, []byte) {
	w := e.st.POST(path, body)
	e.afterRead(path + " " + string(body))
	return w.Code, w.Body.Bytes()
}

func (e *env) afterRead(req string) {
	e.reads++
	e.r.Count("reads", 1)
	if e.reads <= 40 || e.reads%50 == 0 {
		e.checkDigest(req)
	}
}

func (e *env) checkDigest(req string) {
	t, err := snap.TakeHeaders(e.st.DB)
	if err != nil {
		e.violate("harness|snapshot", err.Error(), req, nil)
		return
	}
	if d := t.Digest(); d != e.digest {
		e.violate("read-modified-store", "the headers table changed during read requests (last: "+clip(req)+")", req, nil)
		e.digest = d
	}
	e.r.Count("digest_checks", 1)
}

func clip(s string) string {
	if len(s) > 200 {
		return s[:200]
	}
	return s
}

// ---- individual endpoint oracles --------------------------------------------

func (e *env) byHash(n *refmodel.Node) {
	code, b := e.get("/api/v1/chain/header/" + n.Hash.String())
	var hj mb.HeaderJSON
	if code != 200 {
		e.violate("header-by-hash|stored|status", fmt.Sprintf("GET header/%s -> %d %s", n.Hash, code, clip(string(b))), "GET header/"+n.Hash.String(), nil)
		return
	}
	if err := mb.DecodeOne(b, &hj); err != nil {
		e.violate("header-by-hash|json", err.Error(), "GET header/"+n.Hash.String(), nil)
		return
	}
	if bad := mb.CheckHeaderJSON(hj, n); bad != "" {
		e.violate("header-by-hash|field|"+strings.SplitN(bad, ":", 2)[0], bad, "GET header/"+n.Hash.String(), nil)
		return
	}
	code, b = e.get("/api/v1/chain/header/state/" + n.Hash.String())
	var sj mb.StateJSON
	if code != 200 {
		e.violate("state-by-hash|stored|status", fmt.Sprintf("GET state/%s -> %d %s", n.Hash, code, clip(string(b))), "GET state/"+n.Hash.String(), nil)
		return
	}
	if err := mb.DecodeOne(b, &sj); err != nil {
		e.violate("state-by-hash|json", err.Error(), "GET state/"+n.Hash.String(), nil)
		return
	}
	if bad := mb.CheckStateJSON(sj, n); bad != "" {
		e.violate("state-by-hash|field|"+strings.SplitN(bad, ":", 2)[0], bad, "GET state/"+n.Hash.String(), nil)
	}
}

func (e *env) unknownHash(rng *rand.Rand) {
	var h refmodel.Hash
	rng.Read(h[:])
	// absent hashes: a random one, and near-misses of a stored one (SQL wildcards, other letter case, one character
	// changed or dropped) - none of them is a stored hash, so each must be answered 404
	stored := e.m.Order[rng.Intn(len(e.m.Order))].Hash.String()
	i := rng.Intn(len(stored))
	flip := byte('0')
	if stored[i] == '0' {
		flip = '1'
	}
	absent := map[string]string{
		"random":          h.String(),
		"wildcard-_":      stored[:i] + "_" + stored[i+1:],
		"wildcard-%":      stored[:40] + "%",
		"wildcard-only-%": "%25",
		"upper-case":      strings.ToUpper(stored),
		"one-char-off":    stored[:i] + string(flip) + stored[i+1:],
		"prefix":          stored[:63],
	}
	if strings.ToUpper(stored) == stored {
		delete(absent, "upper-case")
	}
	for cls, hv := range absent {
		esc := strings.ReplaceAll(hv, "%", "%25")
		if cls == "wildcard-only-%" {
			esc = hv
		}
		for _, p := range []string{"/api/v1/chain/header/", "/api/v1/chain/header/state/"} {
			code, b := e.get(p + esc)
			if code != 404 {
				e.violate("by-hash|absent:"+cls+"|status", fmt.Sprintf("GET %s<%s> -> %d %s, expected 404 (not a stored hash)", p, cls, code, clip(string(b))), "GET "+p+esc, nil)
				return
			}
		}
		// ancestors with an absent argument must not answer 200
		q := fmt.Sprintf("/api/v1/chain/header/%s/%s/ancestor", stored, esc)
		if code, b := e.get(q); code == 200 {
			e.violate("ancestors|absent:"+cls+"|200", fmt.Sprintf("GET %s -> 200 %s although the ancestor argument is not a stored hash", q, clip(string(b))), "GET "+q, nil)
			return
		}
	}
	e.r.Count("absent_hash_probes", int64(len(absent)))
}

func (e *env) byHeight(height, count int, withCount bool) {
	q := fmt.Sprintf("/api/v1/chain/header/byHeight?height=%d", height)
	if withCount {
		q += fmt.Sprintf("&count=%d", count)
	} else {
		count = 1
	}
	code, b := e.get(q)
	lo, hi := int64(height), int64(height)+int64(count)-1
	var mustHave []*refmodel.Node
	allowed := map[string]*refmodel.Node{}
	for _, n := range e.m.Order {
		if int64(n.Height) >= lo && int64(n.Height) <= hi {
			allowed[n.Hash.String()] = n
			if n.State == refmodel.Longest {
				mustHave = append(mustHave, n)
			}
		}
	}
	cls := "window"
	if len(allowed) == 0 {
		cls = "empty-window"
	}
	if code >= 400 && code < 500 && len(mustHave) == 0 {
		return // nothing to return: a 4xx is an acceptable answer
	}
	if code != 200 {
		e.violate("by-height|"+cls+"|status", fmt.Sprintf("GET %s -> %d %s", q, code, clip(string(b))), "GET "+q, nil)
		return
	}
	var hs []mb.HeaderJSON
	if err := mb.DecodeOne(b, &hs); err != nil {
		e.violate("by-height|json", err.Error(), "GET "+q, nil)
		return
	}
	got := map[string]bool{}
	for _, h := range hs {
		n, ok := allowed[h.Hash]
		if !ok {
			e.violate("by-height|"+cls+"|outside-window-or-not-stored", fmt.Sprintf("GET %s returned %s which is not a stored header with height in [%d,%d]", q, h.Hash, lo, hi), "GET "+q, nil)
			return
		}
		if bad := mb.CheckHeaderJSON(h, n); bad != "" {
			e.violate("by-height|field|"+strings.SplitN(bad, ":", 2)[0], bad, "GET "+q, nil)
			return
		}
		if got[h.Hash] {
			e.violate("by-height|"+cls+"|listed-twice", fmt.Sprintf("GET %s lists header %s (height %d) twice", q, h.Hash, n.Height), "GET "+q, nil)
			return
		}
		got[h.Hash] = true
	}
	for _, n := range mustHave {
		if !got[n.Hash.String()] {
			e.violate("by-height|"+cls+"|missing-longest", fmt.Sprintf("GET %s misses longest-chain header %s at height %d", q, n.Hash, n.Height), "GET "+q, nil)
			return
		}
	}
}

func (e *env) tips() {
	code, b := e.get("/api/v1/chain/tip")
	if code != 200 {
		e.violate("tips|status", fmt.Sprintf("GET tip -> %d %s", code, clip(string(b))), "GET tip", nil)
		return
	}
	var ts []mb.StateJSON
	if err := mb.DecodeOne(b, &ts); err != nil {
		e.violate("tips|json", err.Error(), "GET tip", nil)
		return
	}
	want := map[string]*refmodel.Node{}
	for _, n := range e.m.Tips() {
		want[n.Hash.String()] = n
	}
	got := map[string]bool{}
	for _, t := range ts {
		n, ok := want[t.Header.Hash]
		if !ok {
			st := "not stored"
			if hh, ok2 := refmodel.ParseHash(t.Header.Hash); ok2 && e.m.Nodes[hh] != nil {
				st = e.m.Nodes[hh].State + " non-leaf"
			}
			e.violate("tips|extra|"+strings.Fields(st)[0], fmt.Sprintf("GET tip lists %s (%s) which is neither the longest tip nor a leaf of a stale/orphan branch", t.Header.Hash, st), "GET tip", nil)
			return
		}
		if got[t.Header.Hash] {
			e.violate("tips|duplicate", "GET tip lists "+t.Header.Hash+" twice", "GET tip", nil)
			return
		}
		got[t.Header.Hash] = true
		if bad := mb.CheckStateJSON(t, n); bad != "" {
			e.violate("tips|field|"+strings.SplitN(bad, ":", 2)[0], bad, "GET tip", nil)
			return
		}
	}
	for h, n := range want {
		if !got[h] {
			e.violate("tips|missing|"+n.State, fmt.Sprintf("GET tip misses %s (%s leaf/tip)", h, n.State), "GET tip", nil)
			return
		}
	}
	code, b = e.get("/api/v1/chain/tip/longest")
	var sj mb.StateJSON
	if code != 200 {
		e.violate("tip-longest|status", fmt.Sprintf("GET tip/longest -> %d", code), "GET tip/longest", nil)
		return
	}
	if err := mb.DecodeOne(b, &sj); err != nil {
		e.violate("tip-longest|json", err.Error(), "GET tip/longest", nil)
		return
	}
	if bad := mb.CheckStateJSON(sj, e.m.Best()); bad != "" {
		e.violate("tip-longest|field|"+strings.SplitN(bad, ":", 2)[0], bad, "GET tip/longest", nil)
	}
}

func (e *env) ancestors(x, a *refmodel.Node) {
	if e.tainted(x) || e.tainted(a) {
		e.r.Count("queries_skipped_late_parent", 1)
		return
	}
	q := fmt.Sprintf("/api/v1/chain/header/%s/%s/ancestor", x.Hash, a.Hash)
	code, b := e.get(q)
	rel := ""
	switch {
	case x == a:
		rel = "same"
	case refmodel.IsAncestor(a, x):
		rel = "descendant"
	case refmodel.IsAncestor(x, a):
		rel = "swapped"
	case x.Height == a.Height:
		rel = "unrelated-equal-height"
	case a.Height < x.Height:
		rel = "unrelated-ancestor-lower"
	default:
		rel = "unrelated-ancestor-higher"
	}
	e.r.Distinct("ancestors|" + rel + "|" + x.State + "|" + a.State)
	e.r.Count("ancestors_"+rel, 1)
	if code >= 500 {
		e.violate("ancestors|"+rel+"|5xx", fmt.Sprintf("GET %s -> %d %s", q, code, clip(string(b))), "GET "+q, nil)
		return
	}
	var hs []mb.HeaderJSON
	if code == 200 {
		if err := mb.DecodeOne(b, &hs); err != nil {
			e.violate("ancestors|json", err.Error(), "GET "+q, nil)
			return
		}
	}
	checkPath := func(lo, hi *refmodel.Node) {
		path := refmodel.Path(lo, hi)
		on := map[string]*refmodel.Node{}
		for _, p := range path {
			on[p.Hash.String()] = p
		}
		seen := map[string]bool{}
		for _, h := range hs {
			n, ok := on[h.Hash]
			if !ok {
				e.violate("ancestors|"+rel+"|off-path", fmt.Sprintf("GET %s returned %s which is not on the parent-linked path", q, h.Hash), "GET "+q, nil)
				return
			}
			if seen[h.Hash] {
				e.violate("ancestors|"+rel+"|duplicate", fmt.Sprintf("GET %s returned %s twice", q, h.Hash), "GET "+q, nil)
				return
			}
			seen[h.Hash] = true
			if bad := mb.CheckHeaderJSON(h, n); bad != "" {
				e.violate("ancestors|field|"+strings.SplitN(bad, ":", 2)[0], bad, "GET "+q, nil)
				return
			}
		}
		for i, p := range path {
			if i == 0 || i == len(path)-1 {
				continue // endpoints optional
			}
			if !seen[p.Hash.String()] {
				e.violate("ancestors|"+rel+"|missing-between", fmt.Sprintf("GET %s misses %s (height %d) which lies strictly between the two", q, p.Hash, p.Height), "GET "+q, nil)
				return
			}
		}
	}
	switch rel {
	case "descendant":
		if code != 200 {
			e.violate("ancestors|descendant|status", fmt.Sprintf("GET %s -> %d %s although %s descends from %s", q, code, clip(string(b)), x.Hash, a.Hash), "GET "+q, nil)
			return
		}
		checkPath(a, x)
	case "same":
		if code == 200 {
			checkPath(a, x)
		}
	case "swapped":
		if code == 200 {
			checkPath(x, a)
		}
	default: // unrelated: a same-chain error, never 200
		if code == 200 {
			e.violate("ancestors|"+rel+"|200", fmt.Sprintf("GET %s -> 200 %s although neither header descends from the other", q, clip(string(b))), "GET "+q, nil)
			return
		}
		// "... and a same-chain error otherwise": the structured error names that condition, whichever way the walk
		// down the parent links found it out (another header at the ancestor's height, or no header there at all)
		var ej struct {
			Code string `json:"code"`
		}
		_ = json.Unmarshal(b, &ej)
		if rel == "unrelated-ancestor-higher" {
			// the argument order alone rules the question out ("ancestor" above the header): a more specific client error
			// is as good an answer
			e.r.Count("ancestors_unrelated_and_higher_answered_"+ej.Code, 1)
			return
		}
		if ej.Code != "ErrHeadersNotPartOfTheSameChain" {
			e.violate("ancestors|"+rel+"|error-is-not-the-same-chain-error|"+x.State+"|"+a.State, fmt.Sprintf("GET %s -> %d %s although both headers are stored and neither descends from the other (expected the same-chain error)", q, code, clip(string(b))), "GET "+q, nil)
			return
		}
		e.r.Count("ancestors_same_chain_errors", 1)
	}
}

func (e *env) ancestorsUnknown(rng *rand.Rand, x *refmodel.Node) {
	var h refmodel.Hash
	rng.Read(h[:])
	for _, q := range []string{
		fmt.Sprintf("/api/v1/chain/header/%s/%s/ancestor", x.Hash, h),
		fmt.Sprintf("/api/v1/chain/header/%s/%s/ancestor", h, x.Hash),
		// the same unknown hash twice, and a stored hash in another letter case (a different string, not a stored hash)
		fmt.Sprintf("/api/v1/chain/header/%s/%s/ancestor", h, h),
	} {
		code, b := e.get(q)
		if code == 200 || code >= 500 {
			e.violate("ancestors|unknown-hash|"+fmt.Sprint(code), fmt.Sprintf("GET %s -> %d %s", q, code, clip(string(b))), "GET "+q, nil)
			return
		}
	}
}

func (e *env) commonAncestor(ns []*refmodel.Node) {
	minH := ns[0].Height
	for _, n := range ns {
		if e.tainted(n) {
			e.r.Count("queries_skipped_late_parent", 1)
			return
		}
		if n.Height < minH {
			minH = n.Height
		}
	}
	if minH < 1 {
		return // lists containing a height-0 header belong to C16
	}
	hashes := make([]string, len(ns))
	for i, n := range ns {
		hashes[i] = n.Hash.String()
	}
	body, _ := json.Marshal(hashes)
	code, b := e.post("/api/v1/chain/header/commonAncestor", body)
	want := e.m.CommonAncestor(ns)
	req := "POST commonAncestor " + string(body)
	cls := fmt.Sprintf("n=%d", len(ns))
	if len(ns) > 3 {
		cls = "n>3"
	}
	states := map[string]bool{}
	for _, n := range ns {
		states[n.State] = true
	}
	var sk []string
	for k := range states {
		sk = append(sk, k)
	}
	sort.Strings(sk)
	cls += "|" + strings.Join(sk, "+")
	e.r.Distinct("commonAncestor|" + cls + fmt.Sprint(want != nil))
	if want == nil {
		e.r.Count("common_ancestor_none", 1)
		if code == 200 {
			var hj mb.HeaderJSON
			if err := mb.DecodeOne(b, &hj); err == nil && hj.Hash != "" {
				e.violate("commonAncestor|"+cls+"|none-expected", fmt.Sprintf("%s -> 200 %s although the headers have no common ancestor", req, hj.Hash), req, nil)
			}
		}
		return
	}
	e.r.Count("common_ancestor_exists", 1)
	if code != 200 {
		e.violate("commonAncestor|"+cls+"|status", fmt.Sprintf("%s -> %d %s, expected %s", req, code, clip(string(b)), want.Hash), req, nil)
		return
	}
	var hj mb.HeaderJSON
	if err := mb.DecodeOne(b, &hj); err != nil {
		e.violate("commonAncestor|json", err.Error(), req, nil)
		return
	}
	if hj.Hash != want.Hash.String() {
		e.violate("commonAncestor|"+cls+"|wrong-header", fmt.Sprintf("%s -> %s, expected %s (height %d)", req, hj.Hash, want.Hash, want.Height), req, nil)
		return
	}
	if bad := mb.CheckHeaderJSON(hj, want); bad != "" {
		e.violate("commonAncestor|field|"+strings.SplitN(bad, ":", 2)[0], bad, req, nil)
	}
}

func (e *env) commonAncestorUnknown(rng *rand.Rand, x *refmodel.Node) {
	var h refmodel.Hash
	rng.Read(h[:])
	body, _ := json.Marshal([]string{x.Hash.String(), h.String()})
	code, b := e.post("/api/v1/chain/header/commonAncestor", body)
	if code == 200 {
		e.violate("commonAncestor|unknown-hash|200", fmt.Sprintf("POST commonAncestor with an unknown hash -> 200 %s", clip(string(b))), "POST commonAncestor "+string(body), nil)
	}
}

// ---- drivers -----------------------------------------------------------------

func (e *env) queryState(rng *rand.Rand, exhaustive bool) {
	t, err := snap.TakeHeaders(e.st.DB)
	if err != nil {
		e.violate("harness|snapshot", err.Error(), "", nil)
		return
	}
	e.digest = t.Digest()
	e.reads = 0
	nodes := e.m.Order
	tip := int(e.m.Best().Height)
	maxH := tip
	for _, n := range nodes {
		if int(n.Height) > maxH {
			maxH = int(n.Height)
		}
	}
	e.tips()
	e.unknownHash(rng)
	// windows whose start or length lies at or beyond the 32-bit limits
	for _, hc := range [][2]int{{0, -1}, {1, -1}, {tip, -3}, {tip, -1 << 31}, {-1, 3}, {-1 << 31, 5}, {1 << 31, 3}, {1<<31 - 1, 3}, {1 << 32, 3}, {1<<32 + 1, 2}, {1, 1<<32 + 1}, {0, 1 << 31}, {2, 1<<31 + 2}, {1 << 40, 1 << 33}} {
		if e.failed {
			return
		}
		e.byHeight(hc[0], hc[1], true)
	}
	if exhaustive {
		for _, n := range nodes {
			e.byHash(n)
		}
		for h := -1; h <= maxH+2 && !e.failed; h++ {
			for c := 0; c <= 5; c++ {
				e.byHeight(h, c, true)
			}
			e.byHeight(h, 0, false)
		}
		for _, x := range nodes {
			for _, a := range nodes {
				if e.failed {
					return
				}
				e.ancestors(x, a)
			}
		}
		e.ancestorsUnknown(rng, nodes[rng.Intn(len(nodes))])
		for i := range nodes {
			e.commonAncestor([]*refmodel.Node{nodes[i]})
			for j := i; j < len(nodes); j++ {
				e.commonAncestor([]*refmodel.Node{nodes[i], nodes[j]})
				if len(nodes) <= 10 {
					for k := j; k < len(nodes); k++ {
						if e.failed {
							return
						}
						e.commonAncestor([]*refmodel.Node{nodes[i], nodes[j], nodes[k]})
					}
				}
			}
		}
		e.commonAncestorUnknown(rng, nodes[rng.Intn(len(nodes))])
		if !e.failed {
			e.concurrentReads(rng, nodes)
		}
	} else {
		for i := 0; i < 30 && !e.failed; i++ {
			e.byHash(nodes[rng.Intn(len(nodes))])
		}
		for i := 0; i < 40 && !e.failed; i++ {
			e.byHeight(rng.Intn(maxH+4)-1, rng.Intn(8), rng.Intn(5) > 0)
		}
		e.byHeight(0, maxH+3, true)
		if maxH > 2100 {
			// windows of 1999..2002 and 4000+ heights (around the sizes at which a listing might be cut into pieces)
			for _, c := range []int{1999, 2000, 2001, 2002, 4001} {
				if !e.failed {
					e.byHeight(rng.Intn(maxH-2002), c, true)
				}
			}
			e.r.Count("by_height_windows_of_about_2000_heights", 5)
		}
		for i := 0; i < 150 && !e.failed; i++ {
			e.ancestors(nodes[rng.Intn(len(nodes))], nodes[rng.Intn(len(nodes))])
		}
		e.ancestorsUnknown(rng, nodes[rng.Intn(len(nodes))])
		for i := 0; i < 120 && !e.failed; i++ {
			k := 1 + rng.Intn(4)
			if rng.Intn(6) == 0 {
				k = 5 + rng.Intn(6)
			}
			ns := make([]*refmodel.Node, k)
			for j := range ns {
				ns[j] = nodes[rng.Intn(len(nodes))]
			}
			e.commonAncestor(ns)
		}
		e.commonAncestorUnknown(rng, nodes[rng.Intn(len(nodes))])
		if !e.failed {
			e.concurrentReads(rng, nodes)
		}
	}
	if !e.failed {
		e.checkDigest("end of state")
	}
}

func body(r *ev.Run) {
	r.Rule("states = end (after a restart in a quarter of them), one mid-history point and half of the reorganisation points of seeded random histories (forks of any depth, several stale branches, orphan chains, late parents, reorganisations, zero-work headers). Plus long stores (prefix of 30/800/1500 headers, then a reorganisation over 2050/700/520 heights) queried by sample and for their farthest pairs (tip / stale tip against genesis and the first blocks). Small states (<=12 headers): ALL queries — every hash for header/state, every ordered pair for ancestors, every multiset of size <=3 for common ancestor, every (height,count) window over -1..max+2 x 0..5, windows with a negative start or length, windows whose start or length is 2^31-1 / 2^31 / 2^32 / 2^32+1 / 2^40; large states (up to 120 headers): seeded samples. Oracle = reference model with weakest readings (by-height: subset of stored-in-window and superset of longest-in-window; ancestors: contains every strictly-between header, nothing off the path, no duplicates, endpoints optional, order free; unrelated headers => never 200, and the same-chain error whenever the would-be ancestor is not above the header; common ancestor asserted for lists with minimum height >= 1). Per state, four clients ask a handful of list queries at the same moment, 120 times each: every answer is byte for byte the one given when asked alone. Headers-table digest compared around reads. evaluations = states queried; distinct = distinct (endpoint, relation/state class) cells; non-trivial = all.")
	r.Assume("reference model transcribes the statement", "queries whose hash-linked ancestry crosses a parent stored after its child are skipped (stored heights unrelated; statement silent)", "5xx on degenerate arguments are C16's subject, not asserted here")
	r.Require("ancestors_descendant", 200)
	r.Require("ancestors_unrelated-equal-height", 20)
	r.Require("common_ancestor_exists", 200)
	mb.ForbiddenHeaders()
	st, err := rig.New(rig.Options{Dir: r.Scratch})
	if err != nil {
		r.Violate("harness|rig", err.Error(), "", nil)
		return
	}
	defer st.Destroy()
	// long stores: a reorganisation over hundreds of heights on top of a long prefix; answers span 1000+ headers
	for i := 0; i < r.Pick(1, 6); i++ {
		caseID := fmt.Sprintf("long/%d", i)
		r.Do(caseID, func() {
			rng := r.Rand(caseID)
			hist := gen.DeepReorg(rng, rig.Genesis(), []int{80, 800, 1500}[i%3], []int{2050, 700, 520}[i%3])
			if err := st.Reset(); err != nil {
				r.Violate("harness|reset", err.Error(), caseID, nil)
				return
			}
			m := mb.NewModel()
			e := &env{r: r, st: st, m: m, hist: gen.History{}, caseID: caseID} // (history left out of replay details: thousands of headers)
			for _, h := range hist.Hdrs {
				si := mb.Step(st, m, h)
				if si.Res.Panic != nil || si.Res.Code() != mb.WantCode(si.Outcome) {
					r.Count("histories_cut_short_by_ingest_divergence", 1)
					return
				}
			}
			e.queryState(rng, false)
			// the farthest pairs of the store: tip / stale tip against genesis and the first blocks (paths of 1500-2100 headers)
			if !e.failed {
				path := m.LongestPath()
				tipN := path[len(path)-1]
				var staleTop *refmodel.Node
				for _, n := range m.Order {
					if n.State == refmodel.Stale && (staleTop == nil || n.Height > staleTop.Height) {
						staleTop = n
					}
				}
				for _, lo := range []*refmodel.Node{path[0], path[1], path[2]} {
					for _, hi := range []*refmodel.Node{tipN, path[len(path)-2], staleTop} {
						if hi == nil || e.failed {
							continue
						}
						e.ancestors(hi, lo)
						e.commonAncestor([]*refmodel.Node{hi, lo})
					}
				}
				if staleTop != nil && !e.failed {
					e.commonAncestor([]*refmodel.Node{tipN, staleTop})
				}
				r.Count("farthest_pairs_queried", 1)
			}
			r.Count("long_stores_queried", 1)
			r.Case("", false)
		})
	}
	nHist := r.Pick(260, 5000)
	for i := 0; i < nHist; i++ {
		caseID := fmt.Sprintf("h/%d", i)
		r.Do(caseID, func() {
			rng := r.Rand(caseID)
			small := i%2 == 0
			o := gen.Opts{
				PDup:     0.03,
				PUnknown: []float64{0.03, 0.12}[rng.Intn(2)],
				PLate:    []float64{0, 0, 0.1}[rng.Intn(3)],
				PFork:    []float64{0.2, 0.5}[rng.Intn(2)],
				Classes:  []string{"M", "MH", "MHL", "MHLZ"}[rng.Intn(4)],
			}
			if small {
				o.N = 3 + rng.Intn(9)
			} else {
				o.N = 20 + rng.Intn(r.Pick(60, 100))
			}
			hist := gen.Random(rng, rig.Genesis(), o)
			if err := st.Reset(); err != nil {
				r.Violate("harness|reset", err.Error(), caseID, nil)
				return
			}
			m := mb.NewModel()
			e := &env{r: r, st: st, m: m, hist: hist, caseID: caseID}
			mid := len(hist.Hdrs) / 2
			for k, h := range hist.Hdrs {
				si := mb.Step(st, m, h)
				if si.Res.Panic != nil || si.Res.Code() != mb.WantCode(si.Outcome) {
					r.Count("histories_cut_short_by_ingest_divergence", 1)
					return
				}
				if (k == mid && !small) || (si.Reorg && k != len(hist.Hdrs)-1 && rng.Intn(2) == 0) {
					if si.Reorg {
						r.Count("states_queried_right_after_a_reorganisation", 1)
					}
					e.hist = gen.History{Hdrs: hist.Hdrs[:k+1]}
					e.queryState(rng, false)
					e.hist = hist
					r.Case("", false)
					if e.failed {
						return
					}
				}
			}
			if rng.Intn(4) == 0 {
				// the answers are functions of the stored tree: a restart (new process state, same file) changes nothing
				if err := st.Restart(); err != nil {
					r.Violate("restart-failed", err.Error(), caseID, map[string]any{"history_hex": hist.Hex()})
					return
				}
				r.Count("states_queried_after_a_restart", 1)
			}
			e.queryState(rng, small && len(m.Order) <= 13)
			r.Case("", false)
			if r.WantSample() && small && !e.failed {
				r.Sample(map[string]any{"case": caseID, "history_hex": hist.Hex(), "reads": e.reads})
			}
		})
	}
}
