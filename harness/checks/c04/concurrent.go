package c04

import (
	"bytes"
	"fmt"
	"math/rand"
	"sync"
	"sync/atomic"

	"github.com/bitcoin-sv/block-headers-service/verifharness/refmodel"
)

// concurrentReads: read endpoints are functions of the stored tree - also when several clients ask at the same moment.
// A handful of list queries (height windows, ancestor paths) is answered once, one after the other; then four clients ask
// the same questions over and over, at once, and every answer must be byte for byte the one given before.
func (e *env) concurrentReads(rng *rand.Rand, nodes []*refmodel.Node) {
	path := e.m.LongestPath()
	if len(path) < 8 {
		return
	}
	tip := path[len(path)-1]
	var qs []string
	for k := 0; k < 4; k++ {
		qs = append(qs, fmt.Sprintf("/api/v1/chain/header/byHeight?height=%d&count=%d", rng.Intn(len(path)-3), 2+rng.Intn(5)))
	}
	qs = append(qs,
		fmt.Sprintf("/api/v1/chain/header/%s/%s/ancestor", tip.Hash, path[0].Hash),
		fmt.Sprintf("/api/v1/chain/header/%s/%s/ancestor", path[len(path)/2].Hash, path[1].Hash),
		fmt.Sprintf("/api/v1/chain/header/%s/%s/ancestor", tip.Hash, path[len(path)/2].Hash))
	ref := make([][]byte, len(qs))
	codes := make([]int, len(qs))
	for i, q := range qs {
		w := e.st.GET(q)
		codes[i], ref[i] = w.Code, append([]byte(nil), w.Body.Bytes()...)
	}
	var bad atomic.Value
	var wg sync.WaitGroup
	var asked atomic.Int64
	for g := 0; g < 4; g++ {
		g := g
		wg.Add(1)
		go func() {
			defer wg.Done()
			for it := 0; it < 120 && bad.Load() == nil; it++ {
				i := (it + g*2) % len(qs)
				w := e.st.GET(qs[i])
				asked.Add(1)
				if w.Code != codes[i] || !bytes.Equal(w.Body.Bytes(), ref[i]) {
					bad.CompareAndSwap(nil, fmt.Sprintf("GET %s answered %d %s while other clients were asking; asked alone it had answered %d %s", qs[i], w.Code, clip(w.Body.String()), codes[i], clip(string(ref[i]))))
				}
			}
		}()
	}
	wg.Wait()
	e.r.Count("list_reads_by_four_clients_at_once", asked.Load())
	if b := bad.Load(); b != nil {
		e.violate("concurrent-read|differs-from-the-answer-given-alone", b.(string), "4 clients x list queries", nil)
	}
}
