// Package c11: exactly one ADD event per stored header on every notification channel.
//
// Histories (C01 generator: forks, orphans, late parents, duplicates, forbidden hashes) plus
// store failures injected at the repository interface are driven through the REAL
// Chains.Add of a rig stack whose REAL notification.Notifier carries five channels:
// three recording channels whose behaviour per history is drawn from {ok, error, slow,
// blocked-until-released}, the real websocket channel over a recording (and sometimes
// failing) WebsocketPublisher, and the real WebhooksService over the SQL webhooks
// repository with a recording WebhookTargetClient (one healthy and one always-failing
// webhook). The oracle works offline on the recorded delivery log after logical quiescence.
package c11

import (
	"encoding/gob"
	"encoding/json"
	"errors"
	"fmt"
	"io"
	"math/rand"
	"net/http"
	"net/http/httptest"
	"os"
	"runtime"
	"sort"
	"strings"
	"sync"
	"sync/atomic"
	"time"

	"github.com/bitcoin-sv/block-headers-service/config"
	"github.com/bitcoin-sv/block-headers-service/notification"
	"github.com/bitcoin-sv/block-headers-service/repository"
	"github.com/bitcoin-sv/block-headers-service/service"
	"github.com/bitcoin-sv/block-headers-service/transports/http/client"
	"github.com/bitcoin-sv/block-headers-service/transports/websocket"
	"github.com/bitcoin-sv/block-headers-service/verifharness/deco"
	"github.com/bitcoin-sv/block-headers-service/verifharness/ev"
	"github.com/bitcoin-sv/block-headers-service/verifharness/gen"
	"github.com/bitcoin-sv/block-headers-service/verifharness/mb"
	"github.com/bitcoin-sv/block-headers-service/verifharness/refmodel"
	"github.com/bitcoin-sv/block-headers-service/verifharness/rig"
	"github.com/bitcoin-sv/block-headers-service/verifharness/snap"
	"github.com/centrifugal/centrifuge"
	cfgo "github.com/centrifugal/centrifuge-go"
	"github.com/gin-gonic/gin"
)

func init() {
	gob.Register([]string{})
	gob.Register(map[string]string{})
	gob.Register(map[string]int{})
}

// Spec registers the check.
func Spec() ev.Spec {
	return ev.Spec{Prop: "C11", Level: "exploration", Workers: -1, Race: true, Body: body, WorkerEnv: func(i int) []string {
		// every third worker process runs east of UTC, every third west of it (a service's time zone is its operator's
		// business; an event's block time is the stored one wherever the process runs)
		switch i % 3 {
		case 1:
			return []string{"TZ=Asia/Kolkata"}
		case 2:
			return []string{"TZ=America/St_Johns"}
		}
		return []string{"TZ=UTC"}
	}}
}

// behaviours of a recording channel
const (
	bOK      = "ok"
	bError   = "error"
	bSlow    = "slow"
	bBlocked = "blocked"
)

var behaviours = []string{bOK, bError, bSlow, bBlocked}

const (
	chWS        = "websocket"
	chWSClient  = "websocket-client"
	chHookOK    = "webhook"
	chHookFail  = "webhook-failing"
	chHookOK2   = "webhook-2"
	urlHookOK2  = "http://hook-second.verif.example/Events/Second?Key=AbC"
	chHookOK3   = "webhook-3"
	urlHookOK3  = "http://a-hook-third.verif.example/events/"
	urlHookOK   = "http://hook-ok.verif.example/Events"
	urlHookFail = "http://hook-failing.verif.example/events"
)

// delivery is one event as it arrived at the far end of a channel.
type delivery struct {
	Channel string // recording channel name / websocket / webhook / webhook-failing
	Payload []byte // JSON of the event as delivered
	Sync    bool   // delivered on the goroutine that executes Chains.Add
	Extra   string // websocket: target channel name; webhook: method
}

// recorder is the (mutex-protected) delivery log shared by all channel ends.
type recorder struct {
	mu  sync.Mutex
	log []delivery
}

func (r *recorder) add(d delivery) {
	r.mu.Lock()
	r.log = append(r.log, d)
	r.mu.Unlock()
}

func (r *recorder) take() []delivery {
	r.mu.Lock()
	defer r.mu.Unlock()
	out := r.log
	r.log = nil
	return out
}

func (r *recorder) count(channel string) int {
	r.mu.Lock()
	defer r.mu.Unlock()
	n := 0
	for i := range r.log {
		if r.log[i].Channel == channel {
			n++
		}
	}
	return n
}

// insideAdd reports whether the caller runs on the stack of chainService.Add, i.e. the
// delivery is synchronous with ingestion.
func insideAdd() bool {
	var pcs [48]uintptr
	n := runtime.Callers(2, pcs[:])
	fr := runtime.CallersFrames(pcs[:n])
	for {
		f, more := fr.Next()
		if strings.HasSuffix(f.Function, "service.(*chainService).Add") {
			return true
		}
		if !more {
			return false
		}
	}
}

// ---- run-time switchboard shared by the channel ends of one stack

type board struct {
	misaddressed  atomic.Int64 // webhook POSTs to a URL nobody registered
	rec           recorder
	mu            sync.RWMutex
	beh           map[string]string // recording channel name -> behaviour for the current history
	release       chan struct{}     // closed when blocked deliveries may proceed
	parked        atomic.Int64      // deliveries currently parked in a blocked channel
	wsFail        atomic.Int64      // websocket publishes answered with an error
	wsSeq         atomic.Int64
	wsEvery       atomic.Int64 // every n-th publish fails (0: never)
	wsBlock       atomic.Bool  // the websocket publisher blocks every Publish call until the release (long-burst histories)
	noHiccups     bool         // max_tries = 0 workers: no webhook but the failing one ever fails
	flaky         atomic.Int64 // calls of the flaky healthy webhook
	flakyFailures atomic.Int64
}

func (b *board) behaviour(name string) (string, chan struct{}) {
	b.mu.RLock()
	defer b.mu.RUnlock()
	return b.beh[name], b.release
}

func marshal(e any) []byte {
	p, err := json.Marshal(e)
	if err != nil {
		return []byte(`{"marshal_error":` + fmt.Sprintf("%q", err.Error()) + `}`)
	}
	return p
}

// recChan is a recording notification.Channel.
type recChan struct {
	name string
	b    *board
}

func (c *recChan) Notify(e notification.Event) {
	sync := insideAdd()
	beh, release := c.b.behaviour(c.name)
	switch beh {
	case bSlow:
		for i := 0; i < 300; i++ {
			runtime.Gosched()
		}
		time.Sleep(150 * time.Microsecond)
	case bBlocked:
		if !sync { // never park the ingesting goroutine: a synchronous delivery is reported instead
			c.b.parked.Add(1)
			<-release
			c.b.parked.Add(-1)
		}
	case bError:
		// a channel whose own work fails after it received the event: it records the
		// receipt and gives up (Channel.Notify has no way to report an error)
		c.b.rec.add(delivery{Channel: c.name, Payload: marshal(e), Sync: sync, Extra: "failed"})
		return
	}
	c.b.rec.add(delivery{Channel: c.name, Payload: marshal(e), Sync: sync})
}

// recPublisher is a recording notification.WebsocketPublisher.
type recPublisher struct {
	b    *board
	next notification.WebsocketPublisher // live mode: the real centrifuge node
}

func (p *recPublisher) Publish(channel string, data []byte, opts ...centrifuge.PublishOption) (centrifuge.PublishResult, error) {
	p.b.rec.add(delivery{Channel: chWS, Payload: append([]byte(nil), data...), Sync: insideAdd(), Extra: channel})
	if p.b.wsBlock.Load() && !insideAdd() {
		// a publisher that does not come back for a while (a stalled broker): every publication waits here
		_, release := p.b.behaviour("")
		p.b.parked.Add(1)
		<-release
		p.b.parked.Add(-1)
	}
	n := p.b.wsSeq.Add(1)
	if every := p.b.wsEvery.Load(); every > 0 && n%every == 0 {
		p.b.wsFail.Add(1)
		return centrifuge.PublishResult{}, errors.New("verif: injected websocket publish failure")
	}
	if p.next != nil {
		return p.next.Publish(channel, data, opts...)
	}
	return centrifuge.PublishResult{}, nil
}

// liveWS is a live websocket node (transports/websocket server on a real listener) with a
// real centrifuge client subscribed to "headers".
type liveWS struct {
	ws     websocket.Server
	srv    *httptest.Server
	client *cfgo.Client
	sub    *cfgo.Subscription
	mu     sync.Mutex
	recv   [][]byte
	sent   chan string
	seq    int
}

const sentinelKey = "verif_sentinel"

func (l *liveWS) onPublication(e cfgo.PublicationEvent) {
	if strings.Contains(string(e.Data), sentinelKey) {
		select {
		case l.sent <- string(e.Data):
		default:
		}
		return
	}
	l.mu.Lock()
	l.recv = append(l.recv, append([]byte(nil), e.Data...))
	l.mu.Unlock()
}

func (l *liveWS) take() [][]byte {
	l.mu.Lock()
	defer l.mu.Unlock()
	out := l.recv
	l.recv = nil
	return out
}

// connect starts the node, serves its entry point and subscribes the client.
func (l *liveWS) connect() error {
	if err := l.ws.Start(); err != nil {
		return err
	}
	eng := gin.New()
	l.ws.SetupEntrypoint(eng)
	l.srv = httptest.NewServer(eng)
	l.sent = make(chan string, 4)
	l.client = cfgo.NewJsonClient("ws"+strings.TrimPrefix(l.srv.URL, "http")+"/connection/websocket", cfgo.Config{HandshakeTimeout: 15 * time.Second, ReadTimeout: 30 * time.Second, WriteTimeout: 15 * time.Second, MaxServerPingDelay: 60 * time.Second})
	sub, err := l.client.NewSubscription("headers", cfgo.SubscriptionConfig{})
	if err != nil {
		return err
	}
	l.sub = sub
	subscribed := make(chan struct{}, 1)
	sub.OnSubscribed(func(cfgo.SubscribedEvent) {
		select {
		case subscribed <- struct{}{}:
		default:
		}
	})
	sub.OnPublication(l.onPublication)
	if err := l.client.Connect(); err != nil {
		return err
	}
	if err := sub.Subscribe(); err != nil {
		return err
	}
	select {
	case <-subscribed:
		return nil
	case <-time.After(10 * time.Second):
		return errors.New("subscription to 'headers' not confirmed in time")
	}
}

// barrier publishes a sentinel on "headers" and waits until the client has seen it:
// publications of one channel reach a client in order, so everything published before has
// arrived (or never will).
func (l *liveWS) barrier() error {
	l.seq++
	want := fmt.Sprintf(`{"%s":%d}`, sentinelKey, l.seq)
	if _, err := l.ws.Publisher().Publish("headers", []byte(want)); err != nil {
		return err
	}
	deadline := time.After(20 * time.Second)
	for {
		select {
		case got := <-l.sent:
			if got == want {
				return nil
			}
		case <-deadline:
			return errors.New("sentinel not received by the websocket client")
		}
	}
}

func (l *liveWS) close() {
	if l.client != nil {
		l.client.Close()
	}
	if l.srv != nil {
		l.srv.Close()
	}
	_ = l.ws.Shutdown()
}

// faultyWebhooks wraps the SQL webhooks repository: UpdateWebhook (the bookkeeping write after a delivery) returns an
// error for one healthy webhook per armed event. The delivery itself has happened; the other webhooks must still be served.
type faultyWebhooks struct {
	notification.Webhooks
	e *env
}

func (f *faultyWebhooks) UpdateWebhook(w *notification.Webhook) error {
	if f.e.failHookUpdate.Load() && w.URL != f.e.urls[chHookFail] && f.e.failHookUpdate.CompareAndSwap(true, false) {
		f.e.hookUpdateFailures.Add(1)
		return errors.New("verif: injected webhook bookkeeping failure (database is locked)")
	}
	return f.Webhooks.UpdateWebhook(w)
}

// recClient is a recording notification.WebhookTargetClient.
type recClient struct{ b *board }

func (c *recClient) Call(_ map[string]string, method string, url string, body any) (*http.Response, error) {
	// a webhook's events go to the URL it was registered with, character for character (path case, trailing slash, query)
	ch := ""
	switch url {
	case urlHookOK:
		ch = chHookOK
	case urlHookFail:
		ch = chHookFail
	case urlHookOK2:
		ch = chHookOK2
	case urlHookOK3:
		ch = chHookOK3
	default:
		c.b.misaddressed.Add(1)
		return &http.Response{StatusCode: 404, Status: "404 Not Found", Header: http.Header{}, Body: io.NopCloser(strings.NewReader("no such receiver"))}, nil
	}
	c.b.rec.add(delivery{Channel: ch, Payload: marshal(body), Sync: insideAdd(), Extra: method})
	if ch == chHookFail {
		return nil, errors.New("verif: injected webhook transport failure")
	}
	if ch == chHookOK2 && !c.b.noHiccups && c.b.flaky.Add(1)%3 == 0 {
		// a healthy webhook with a hiccup now and then (never twice in a row): it must keep receiving every event
		c.b.flakyFailures.Add(1)
		return &http.Response{StatusCode: 500, Status: "500 Internal Server Error", Header: http.Header{}, Body: io.NopCloser(strings.NewReader("hiccup"))}, nil
	}
	return &http.Response{StatusCode: 200, Status: "200 OK", Header: http.Header{}, Body: io.NopCloser(strings.NewReader("ok"))}, nil
}

// ---------------------------------------------------------------------------

type eventJSON struct {
	Operation string `json:"operation"`
	Header    *struct {
		Height     json.Number `json:"height"`
		Hash       string      `json:"hash"`
		Version    json.Number `json:"version"`
		MerkleRoot string      `json:"merkleRoot"`
		Timestamp  string      `json:"creationTimestamp"`
		Nonce      json.Number `json:"nonce"`
		State      string      `json:"state"`
		Work       json.Number `json:"work"`
		Prev       string      `json:"prevBlockHash"`
	} `json:"header"`
}

func parseEvent(p []byte) (eventJSON, error) {
	var e eventJSON
	if err := mb.DecodeOne(p, &e); err != nil {
		return e, err
	}
	if e.Header == nil {
		return e, errors.New("event without header object")
	}
	return e, nil
}

// submission is one Chains.Add call as seen by the ingesting side.
type submission struct {
	Idx        int
	Hash       string
	Code       string // stored | HeaderAlreadyExists | BlockRejected | HeaderSaveFail | ... | panic
	Injected   string // fault injected into this submission, if any
	StateAfter string // header_state of the row right after Add returned (stored only)
	RetState   string // state of the header returned by Add
	Parked     int64  // deliveries parked in blocked channels when Add returned
}

func situation(code, injected string) string {
	switch {
	case code == service.HeaderAlreadyExists.String():
		return "duplicate"
	case code == service.BlockRejected.String():
		return "forbidden"
	case injected != "":
		return "store-failed"
	}
	return "not-stored"
}

type env struct {
	r     *ev.Run
	st    *rig.Stack
	b     *board
	repos *repository.Repositories
	names []string // recording channel names
	// fault injection (ingesting goroutine only)
	failInsert, failUpdate bool
	injected               string
	failHookUpdate         atomic.Bool  // the next UpdateWebhook of a healthy webhook fails (armed per submission)
	hookUpdateFailures     atomic.Int64 // how many were injected
	base                   int          // goroutine baseline
	live                   *liveWS
	// concurrent delivery of one header by two submitters: while pairHash is set, the first look-up of that hash waits
	// (bounded) for the second submitter to reach its own look-up, so that both decide "unknown" when nothing orders them
	// production-client mode: the webhooks are real HTTP servers, called by transports/http/client
	urls        map[string]string // channel -> registered URL
	servers     []*httptest.Server
	wsBlockNext bool // the next history runs with a blocked websocket publisher
	pairMu      sync.Mutex
	pairHash    string
	pairArrived int
	pairWaiting bool
	pairBoth    chan struct{}
	pairMet     atomic.Int64
}

// rendezvous is called from the repository decorator on GetHeaderByHash.
func (e *env) rendezvous(hash string) {
	e.pairMu.Lock()
	if e.pairHash == "" || e.pairHash != hash || e.pairArrived >= 2 {
		e.pairMu.Unlock()
		return
	}
	e.pairArrived++
	both := e.pairBoth
	if e.pairArrived == 2 {
		if e.pairWaiting { // the first submitter has not gone past its look-up yet
			close(both)
			e.pairMet.Add(1)
		}
		e.pairMu.Unlock()
		return
	}
	e.pairWaiting = true
	e.pairMu.Unlock()
	select {
	case <-both:
	case <-time.After(1500 * time.Microsecond): // the other submitter is held back by the service: go on alone
	}
	e.pairMu.Lock()
	e.pairWaiting = false
	e.pairMu.Unlock()
}

// addPair submits h from two goroutines at once and returns both answers.
func (e *env) addPair(h refmodel.Hdr) [2]rig.AddResult {
	e.pairMu.Lock()
	e.pairHash, e.pairArrived, e.pairWaiting, e.pairBoth = h.HashOf().String(), 0, false, make(chan struct{})
	e.pairMu.Unlock()
	var out [2]rig.AddResult
	var wg sync.WaitGroup
	start := make(chan struct{})
	for k := 0; k < 2; k++ {
		k := k
		wg.Add(1)
		go func() {
			defer wg.Done()
			<-start
			out[k] = e.st.Add(h)
		}()
	}
	close(start)
	wg.Wait()
	e.pairMu.Lock()
	e.pairHash = ""
	e.pairMu.Unlock()
	return out
}

func newEnv(r *ev.Run, live bool, prod ...bool) (*env, error) {
	e := &env{r: r, b: &board{beh: map[string]string{}, release: make(chan struct{}), noHiccups: r.Worker%4 == 3}, names: []string{"rec1", "rec2", "rec3"}}
	if r.Worker%4 == 3 {
		r.Count("environments_with_max_tries_zero", 1)
	}
	e.urls = map[string]string{chHookOK: urlHookOK, chHookFail: urlHookFail, chHookOK2: urlHookOK2, chHookOK3: urlHookOK3}
	var target notification.WebhookTargetClient = &recClient{b: e.b}
	if len(prod) > 0 && prod[0] {
		e.startHookServers()
		target = client.NewWebhookTargetClient()
	}
	var liveErr error
	name := "c11.db"
	if live {
		name = "c11-live.db"
	}
	if len(e.servers) > 0 {
		name = "c11-prod.db"
	}
	hooks := &deco.Hooks{Before: func(op string, write bool, arg string) error {
		if op == "GetHeaderByHash" {
			e.rendezvous(arg)
			return nil
		}
		if op == "AddHeaderToDatabase" && e.failInsert {
			e.failInsert, e.injected = false, "insert"
			return errors.New("verif: injected insert failure")
		}
		if op == "UpdateState" && e.failUpdate {
			e.failUpdate, e.injected = false, "update-state"
			return errors.New("verif: injected relabel failure")
		}
		return nil
	}}
	st, err := rig.New(rig.Options{
		Dir: r.Scratch, Name: name, NoHTTP: true,
		// the websocket history settings differ between worker processes (default 300 / none / one entry): delivery to
		// connected subscribers does not depend on them
		Config: func(c *config.AppConfig) {
			c.Websocket.HistoryMax = []int{300, 0, 1}[r.Worker%3]
			if r.Worker%4 == 3 {
				// webhook.max_tries = 0: a failing webhook is given up at once, a healthy one (no hiccups in these
				// workers) keeps receiving
				c.Webhook.MaxTries = 0
			}
		},
		WrapHeaders: deco.Wrap(hooks),
		WrapRepos: func(rp *repository.Repositories) {
			// bookkeeping failures of the webhooks store: UpdateWebhook of a healthy webhook fails now and then
			rp.Webhooks = &faultyWebhooks{Webhooks: rp.Webhooks, e: e}
			e.repos = rp
		},
		AfterSvc: func(s *service.Services, c *config.AppConfig) {
			lg := *s.Logger
			// same wiring as cmd/main.go: webhooks service + websocket channel on the real Notifier,
			// plus the recording channels
			s.Webhooks = notification.NewWebhooksService(e.repos.Webhooks, target, &lg, c.Webhook)
			s.Notifier.AddChannel(&recChan{name: e.names[0], b: e.b})
			s.Notifier.AddChannel(s.Webhooks)
			s.Notifier.AddChannel(&recChan{name: e.names[1], b: e.b})
			pub := &recPublisher{b: e.b}
			if live {
				ws, err := websocket.NewServer(&lg, s, false)
				if err != nil {
					liveErr = err
				} else {
					e.live = &liveWS{ws: ws}
					pub.next = ws.Publisher()
				}
			}
			s.Notifier.AddChannel(notification.NewWebsocketChannel(&lg, pub, c.Websocket))
			s.Notifier.AddChannel(&recChan{name: e.names[2], b: e.b})
		},
	})
	if err != nil {
		return nil, err
	}
	e.st = st
	// SQL-level insert failure: while armed, every INSERT into headers aborts inside SQLite (below the repository seam)
	if _, err := st.DB.Exec(`CREATE TABLE IF NOT EXISTS verif_c11(armed INTEGER); DELETE FROM verif_c11; INSERT INTO verif_c11 VALUES (0);
CREATE TRIGGER IF NOT EXISTS verif_c11_ins BEFORE INSERT ON headers WHEN (SELECT armed FROM verif_c11) = 1 BEGIN SELECT RAISE(ABORT, 'verif: injected insert failure inside sqlite'); END;`); err != nil {
		st.Destroy()
		return nil, err
	}
	if live {
		if liveErr == nil {
			liveErr = e.live.connect()
		}
		if liveErr != nil {
			e.close()
			return nil, liveErr
		}
	}
	e.settle()
	return e, nil
}

// startHookServers starts one real HTTP server per webhook. The healthy ones answer 200 (the third one slowly); the failing
// one takes the request in and then, in turn, answers 500, drops the connection without answering, answers 503.
func (e *env) startHookServers() {
	var failSeq atomic.Int64
	tails := map[string]string{chHookOK: "/Events", chHookFail: "/events", chHookOK2: "/Events/Second?Key=AbC", chHookOK3: "/events/"}
	for _, ch := range []string{chHookOK, chHookFail, chHookOK2, chHookOK3} {
		ch := ch
		srv := httptest.NewUnstartedServer(http.HandlerFunc(func(w http.ResponseWriter, q *http.Request) {
			body, _ := io.ReadAll(q.Body)
			if q.URL.RequestURI() != tails[ch] {
				e.b.misaddressed.Add(1)
				http.Error(w, "no such receiver", http.StatusNotFound)
				return
			}
			e.b.rec.add(delivery{Channel: ch, Payload: body, Extra: q.Method})
			switch ch {
			case chHookOK2:
				if !e.b.noHiccups && e.b.flaky.Add(1)%3 == 0 {
					e.b.flakyFailures.Add(1)
					http.Error(w, "hiccup", http.StatusInternalServerError)
					return
				}
			case chHookOK3:
				time.Sleep(300 * time.Microsecond)
			case chHookFail:
				switch failSeq.Add(1) % 3 {
				case 0:
					http.Error(w, "verif: injected webhook failure", http.StatusInternalServerError)
				case 1:
					if hj, ok := w.(http.Hijacker); ok {
						if c, _, err := hj.Hijack(); err == nil {
							e.r.Count("webhook_connections_dropped_after_the_request_was_read", 1)
							_ = c.Close()
							return
						}
					}
					http.Error(w, "verif: hijack unavailable", http.StatusBadGateway)
				default:
					http.Error(w, "verif: injected webhook failure", http.StatusServiceUnavailable)
				}
				return
			}
			w.WriteHeader(http.StatusOK)
		}))
		srv.Config.SetKeepAlivesEnabled(false) // no idle connections: the goroutine count goes back to the baseline
		srv.Start()
		e.servers = append(e.servers, srv)
		e.urls[ch] = srv.URL + tails[ch]
	}
}

func (e *env) close() {
	for _, s := range e.servers {
		s.Close()
	}
	if e.live != nil {
		e.live.close()
	}
	e.st.Destroy()
}

func (e *env) stateOf(hash string) string {
	var s string
	if err := e.st.DB.Get(&s, `SELECT header_state FROM headers WHERE hash = ?`, hash); err != nil {
		return "<" + err.Error() + ">"
	}
	return s
}

// settle measures the process's goroutine baseline: the minimum count seen while nothing
// of the harness is in flight.
func (e *env) settle() {
	e.base = runtime.NumGoroutine()
	same := 0
	for i := 0; i < 2000 && same < 200; i++ {
		time.Sleep(100 * time.Microsecond)
		g := runtime.NumGoroutine()
		if g < e.base {
			e.base, same = g, 0
		} else {
			same++
		}
	}
}

// quiesce waits until no delivery goroutine is left in flight: the goroutine count is back
// at the baseline (the minimum ever observed in this process since the stack was built)
// plus, while allowParked, the deliveries deliberately parked in blocked channels. want()
// tells whether every expected delivery has been recorded; when the goroutine count says
// "nothing in flight" but deliveries are missing, the verdict "missing" is only accepted
// after the no-goroutine-in-flight observation has been repeated many times.
// Returns how quiescence was established ("" = watchdog).
func (e *env) quiesce(allowParked bool, want func() bool) string {
	start := time.Now()
	quiet, stable, last := 0, 0, -1
	for {
		g := runtime.NumGoroutine()
		p := int(e.b.parked.Load())
		if g < e.base {
			e.base = g
		}
		if (allowParked && g <= e.base+p) || (!allowParked && p == 0 && g <= e.base) {
			quiet++
			if quiet >= 3 && want() {
				return "goroutines"
			}
			if quiet >= 400 {
				return "goroutines" // nothing in flight, deliveries missing: the oracle will say which
			}
		} else {
			quiet = 0
		}
		if g == last {
			stable++
		} else {
			stable, last = 0, g
		}
		// every expected delivery recorded and the goroutine count has not moved for a long
		// series of polls: something else in the process started a long-lived goroutine
		if stable >= 5000 && want() && (allowParked || p == 0) {
			return "count"
		}
		if time.Since(start) > 30*time.Second { // watchdog only, never decides a violation
			return ""
		}
		time.Sleep(100 * time.Microsecond)
	}
}

func short(h string) string {
	if len(h) > 12 {
		return h[len(h)-12:]
	}
	return h
}

// runHistory executes one history and evaluates the delivery log.
func (e *env) runHistory(caseID string, rng *rand.Rand, hist gen.History, pFail float64, failUpdates bool) {
	r, b := e.r, e.b
	if err := e.st.Reset(); err != nil {
		r.Violate("harness|reset", err.Error(), caseID, nil)
		return
	}
	for _, ch := range []string{chHookOK, chHookFail, chHookOK2, chHookOK3} {
		authType, header, token := "BEARER", "", "c11-token"
		switch ch {
		case chHookOK3: // registered without authorisation
			authType, token = "", ""
		case chHookOK2: // registered with a custom header
			authType, header = "CUSTOM_HEADER", "X-Verif-Key"
		}
		if _, err := e.st.Svc.Webhooks.CreateWebhook(authType, header, token, e.urls[ch]); err != nil {
			r.Violate("harness|create-webhook", err.Error(), caseID, nil)
			return
		}
	}
	// behaviours for this history: three of the four, in random order
	perm := rng.Perm(len(behaviours))
	beh := map[string]string{}
	kind := map[string]string{chWS: chWS, chHookOK: chHookOK, chHookFail: chHookFail, chHookOK2: chHookOK2, chHookOK3: chHookOK3}
	var blockedNames []string
	for i, n := range e.names {
		beh[n] = behaviours[perm[i]]
		kind[n] = "recording:" + beh[n]
		if beh[n] == bBlocked {
			blockedNames = append(blockedNames, n)
		}
	}
	release := make(chan struct{})
	b.mu.Lock()
	b.beh, b.release = beh, release
	b.mu.Unlock()
	b.wsEvery.Store([]int64{0, 2, 3}[rng.Intn(3)])
	b.wsBlock.Store(e.wsBlockNext)
	if e.wsBlockNext {
		b.wsEvery.Store(0)
		r.Count("histories_with_a_blocked_websocket_publisher", 1)
	}
	e.wsBlockNext = false
	defer b.wsBlock.Store(false)
	if e.live != nil {
		b.wsEvery.Store(0) // a failed publish is not delivered: no injected publish failures with the live node
		e.live.take()
	}
	b.rec.take()
	released := false
	defer func() {
		if !released {
			close(release)
		}
	}()

	detail := func(extra map[string]any) map[string]any {
		d := map[string]any{"history_hex": hist.Hex(), "behaviours": beh, "p_store_failure": fmt.Sprint(pFail), "inject_update_state": fmt.Sprint(failUpdates)}
		for k, v := range extra {
			d[k] = v
		}
		return d
	}

	// ---- ingestion
	subs := make([]submission, 0, len(hist.Hdrs)+8)
	stored := map[string]int{}       // hash -> number of submissions reported as stored
	notStored := map[string]string{} // hash -> situation of a submission that was not stored
	rows := map[string]submission{}
	nStored := 0
	returnedWhileBlocked := 0
	// a submission that failed because of an injected store failure is mostly redelivered
	// right away (as a peer would), so that "failed, then stored" is exercised too
	work := append([]refmodel.Hdr(nil), hist.Hdrs...)
	retried := map[int]bool{}
	for i := 0; i < len(work); i++ {
		h := work[i]
		e.failInsert, e.failUpdate, e.injected = false, false, ""
		sqlFail := false
		if pFail > 0 && !retried[i] && rng.Float64() < pFail {
			switch {
			case failUpdates && rng.Intn(2) == 0:
				e.failUpdate = true
			case rng.Intn(3) == 0:
				sqlFail = true // the INSERT itself fails inside SQLite
			default:
				e.failInsert = true
			}
		}
		if rng.Intn(8) == 0 {
			e.failHookUpdate.Store(true) // the bookkeeping write for one healthy webhook fails during this event's delivery
		}
		if sqlFail {
			_, _ = e.st.DB.Exec(`UPDATE verif_c11 SET armed = 1`)
		}
		var res rig.AddResult
		if !sqlFail && !e.failInsert && !e.failUpdate && rng.Intn(6) == 0 {
			// two peers deliver the same header at the same moment: one submission is the stored one, the other is
			// recorded below as a submission of its own
			pr := e.addPair(h)
			r.Count("concurrent_double_submissions", 1)
			res = pr[0]
			other := pr[1]
			if other.Code() == "stored" && res.Code() != "stored" {
				res, other = other, res
			}
			os := submission{Idx: i, Hash: h.HashOf().String(), Code: other.Code(), Parked: b.parked.Load()}
			if os.Code == "stored" {
				stored[os.Hash]++
			} else {
				sit := situation(os.Code, "")
				if _, ok := notStored[os.Hash]; !ok {
					notStored[os.Hash] = sit
				}
				r.Count("submissions_"+sit, 1)
			}
			subs = append(subs, os)
		} else {
			res = e.st.Add(h)
		}
		if sqlFail {
			_, _ = e.st.DB.Exec(`UPDATE verif_c11 SET armed = 0`)
			e.injected = "insert"
			r.Count("sql_level_insert_failures_injected", 1)
		}
		s := submission{Idx: i, Hash: h.HashOf().String(), Code: res.Code(), Injected: e.injected, Parked: b.parked.Load()}
		if s.Parked > 0 {
			returnedWhileBlocked++
		}
		if s.Code == "stored" {
			nStored++
			stored[s.Hash]++
			s.StateAfter = e.stateOf(s.Hash)
			if res.Header != nil {
				s.RetState = string(res.Header.State)
			}
			rows[s.Hash] = s
			r.Count("stored_state_"+s.StateAfter, 1)
		} else {
			sit := situation(s.Code, s.Injected)
			if _, ok := notStored[s.Hash]; !ok {
				notStored[s.Hash] = sit
			}
			r.Count("submissions_"+sit, 1)
			if s.Injected == "insert" && rng.Float64() < 0.7 {
				work = append(work[:i+1], append([]refmodel.Hdr{h}, work[i+1:]...)...)
				retried[i+1] = true
				r.Count("redeliveries_after_injected_failure", 1)
			}
		}
		subs = append(subs, s)
	}
	hist = gen.History{Hdrs: work} // what was really submitted (replay detail, shape signature)
	e.failInsert, e.failUpdate = false, false
	defer func() {
		e.failHookUpdate.Store(false)
		r.Count("webhook_bookkeeping_failures_injected", e.hookUpdateFailures.Swap(0))
	}()
	r.Count("submissions", int64(len(subs)))
	r.Count("double_submissions_where_both_looked_up_before_either_inserted", e.pairMet.Swap(0))
	r.Count("stored_headers", int64(nStored))
	r.Count("adds_returned_while_a_delivery_was_parked", int64(returnedWhileBlocked))

	// ---- phase 1: quiescence with the blocked channels still blocked
	nonBlocked := []string{chWS, chHookOK, chHookOK2, chHookOK3}
	for _, n := range e.names {
		if beh[n] != bBlocked {
			nonBlocked = append(nonBlocked, n)
		}
	}
	wantAll := func(chs []string) func() bool {
		return func() bool {
			for _, c := range chs {
				if b.rec.count(c) < len(stored) {
					return false
				}
			}
			return true
		}
	}
	how := e.quiesce(true, wantAll(nonBlocked))
	if how == "" {
		r.Inconclusive(caseID, "deliveries still in flight after the watchdog (phase 1)")
		return
	}
	r.Count("quiescence_by_"+how, 1)
	parkedAtEnd := int(b.parked.Load())
	phase1 := b.rec.take()
	if len(blockedNames) > 0 {
		r.Count("histories_with_a_blocked_channel", 1)
		r.Count("deliveries_parked_at_end_of_ingestion", int64(parkedAtEnd))
		for _, d := range phase1 {
			if kind[d.Channel] == "recording:"+bBlocked && !d.Sync {
				r.Violate("harness|blocked-channel-delivered-early", "a blocked channel recorded before release", caseID, nil)
				return
			}
		}
	}
	// ---- phase 2: release, wait for the parked deliveries
	released = true
	close(release)
	how = e.quiesce(false, wantAll(blockedNames))
	if how == "" {
		r.Inconclusive(caseID, "deliveries still in flight after the watchdog (phase 2)")
		return
	}
	phase2 := b.rec.take()
	if e.live != nil {
		if err := e.live.barrier(); err != nil {
			r.Inconclusive(caseID, "live websocket: "+err.Error())
			return
		}
		for _, p := range e.live.take() {
			phase1 = append(phase1, delivery{Channel: chWSClient, Payload: p, Extra: "headers"})
		}
		kind[chWSClient] = chWSClient
		r.Count("live_websocket_histories", 1)
	}

	// ---- offline oracle
	table, err := snap.TakeHeaders(e.st.DB)
	if err != nil {
		r.Violate("harness|snapshot", err.Error(), caseID, nil)
		return
	}
	type key struct{ ch, hash string }
	got := map[key][]eventJSON{}
	lateOnNonBlocked := map[string]int{}
	syncKinds := map[string]bool{}
	violated := map[string]bool{}
	violate := func(sig, what string, extra map[string]any) {
		if violated[sig] {
			return
		}
		violated[sig] = true
		r.Violate(sig, what, caseID, detail(extra))
	}
	for phase, log := range [][]delivery{phase1, phase2} {
		for _, d := range log {
			k := kind[d.Channel]
			if d.Sync {
				syncKinds[k] = true
			}
			evj, err := parseEvent(d.Payload)
			if err != nil {
				violate("payload|unparsable", fmt.Sprintf("channel %s delivered %s: %v", d.Channel, clip(string(d.Payload)), err), nil)
				continue
			}
			if d.Channel == chWS && d.Extra != "headers" {
				violate("websocket|wrong-channel-name", "published to websocket channel "+d.Extra, nil)
			}
			if (d.Channel == chHookOK || d.Channel == chHookFail || d.Channel == chHookOK2 || d.Channel == chHookOK3) && d.Extra != http.MethodPost {
				violate("webhook|method", "webhook called with "+d.Extra, nil)
			}
			if phase == 1 && kind[d.Channel] != "recording:"+bBlocked {
				lateOnNonBlocked[d.Channel]++
			}
			got[key{d.Channel, evj.Header.Hash}] = append(got[key{d.Channel, evj.Header.Hash}], evj)
			r.Count("deliveries_"+strings.TrimPrefix(k, "recording:"), 1)
		}
	}
	// a non-blocked channel that only completed after the release was held up by the blocked one
	if len(lateOnNonBlocked) > 0 {
		late := map[string]string{}
		for ch, n := range lateOnNonBlocked {
			late[ch+" ("+kind[ch]+")"] = fmt.Sprint(n)
		}
		violate("held-up-by-blocked-channel", fmt.Sprintf("deliveries on non-blocked channels happened only after the blocked channel was released: %v", late), map[string]any{"late_deliveries": late})
	}
	if len(syncKinds) > 0 {
		var ks []string
		for k := range syncKinds {
			ks = append(ks, k)
		}
		sort.Strings(ks)
		violate("sync-delivery", "events were delivered on the goroutine executing Chains.Add (a slow or blocking channel would stall ingestion); channels: "+strings.Join(ks, ", "), map[string]any{"channels": ks})
	}
	channels := append([]string{chWS, chHookOK, chHookOK2, chHookOK3}, e.names...)
	if e.live != nil {
		channels = append(channels, chWSClient)
	}
	// exactly once per stored header, field equality
	type miss struct{ want, got int }
	for hash, reported := range stored {
		// a header is stored once, however many submissions of it were answered "stored"
		want := 1
		if reported > 1 {
			violate("stored-reported-more-than-once", fmt.Sprintf("%d submissions of header %s were all answered as stored (one row)", reported, hash), map[string]any{"hash": hash})
		}
		perCh := map[string]miss{}
		for _, ch := range channels {
			evs := got[key{ch, hash}]
			if len(evs) != want {
				perCh[ch] = miss{want, len(evs)}
			}
			for _, evj := range evs {
				if bad := e.checkFields(evj, rows[hash], table); len(bad) > 0 {
					violate("field|"+strings.Join(bad, "+"), fmt.Sprintf("event for stored header %s on channel %s differs from the stored header in %v", hash, ch, bad),
						map[string]any{"hash": hash, "event": fmt.Sprintf("%+v", *evj.Header), "row": table[hash].String(), "state_after_add": rows[hash].StateAfter})
				}
				r.Count("events_compared_with_stored_header", 1)
			}
		}
		if fn := got[key{chHookFail, hash}]; len(fn) > want {
			violate("count|failing-webhook|more-than-one", fmt.Sprintf("the failing webhook was called %d times for stored header %s", len(fn), hash), nil)
		}
		if len(perCh) == 0 {
			continue
		}
		chs := make([]string, 0, len(perCh))
		cls := map[string]bool{}
		for ch, m := range perCh {
			chs = append(chs, kind[ch])
			c := "0"
			if m.got > m.want {
				c = "2+"
			} else if m.got > 0 {
				c = "fewer"
			}
			cls[c] = true
		}
		sort.Strings(chs)
		where := "some"
		if len(perCh) == len(channels) {
			where = "all"
		}
		var cl []string
		for c := range cls {
			cl = append(cl, c)
		}
		sort.Strings(cl)
		others := "none"
		if len(blockedNames) > 0 {
			others = "blocked"
		}
		violate(fmt.Sprintf("count|stored|channels=%s|got=%s", where, strings.Join(cl, ",")),
			fmt.Sprintf("stored header %s: number of ADD events per channel {want got} differs on %v (other channel behaviour present: %s): %v", hash, chs, others, perCh), map[string]any{"hash": hash, "channels": chs})
	}
	// nothing for submissions that were not stored
	for k, evs := range got {
		if stored[k.hash] > 0 {
			continue
		}
		sit, ok := notStored[k.hash]
		if !ok {
			sit = "never-submitted"
		}
		violate("event-for-nonstored|"+sit, fmt.Sprintf("%d ADD events on channel %s for %s, a %s submission", len(evs), k.ch, k.hash, sit), map[string]any{"hash": k.hash})
	}
	for h, sit := range notStored {
		if stored[h] == 0 {
			r.Count("nonstored_hashes_checked_for_silence_"+sit, 1)
		}
	}
	if n := b.misaddressed.Swap(0); n > 0 {
		violate("webhook|posted-to-a-url-nobody-registered", fmt.Sprintf("%d webhook POSTs went to a URL that differs from every registered one (path case, trailing slash and query are part of the URL)", n), nil)
	}
	r.Count("histories", 1)
	r.Count("websocket_publish_failures_injected", b.wsFail.Swap(0))
	r.Count("hiccups_of_a_healthy_webhook", b.flakyFailures.Swap(0))
	sig, forks, orphans, dups := gen.Signature(rig.Genesis(), hist)
	nt := len(notStored) > 0 || forks > 0 || orphans > 0 || dups > 0
	var bs []string
	for _, n := range e.names {
		bs = append(bs, beh[n])
	}
	r.Case(strings.Join(bs, ",")+"|"+sig, nt)
	if r.WantSample() && len(hist.Hdrs) <= 14 && len(notStored) > 0 && len(blockedNames) > 0 {
		r.Sample(map[string]any{"case": caseID, "history_hex": hist.Hex(), "behaviours": beh, "stored": nStored, "not_stored": len(notStored), "deliveries": len(phase1) + len(phase2)})
	}
}

// checkFields compares one event with the stored header (table row; state right after Add).
func (e *env) checkFields(evj eventJSON, s submission, table snap.Headers) []string {
	var bad []string
	row, ok := table[s.Hash]
	if !ok {
		return []string{"row-missing"}
	}
	h := evj.Header
	if evj.Operation != "ADD" {
		bad = append(bad, "operation")
	}
	if h.Hash != row.Hash {
		bad = append(bad, "hash")
	}
	if h.Height.String() != fmt.Sprint(row.Height) {
		bad = append(bad, "height")
	}
	if h.Version.String() != fmt.Sprint(row.Version) {
		bad = append(bad, "version")
	}
	if h.MerkleRoot != row.Merkle {
		bad = append(bad, "merkleRoot")
	}
	if h.Prev != row.Prev {
		bad = append(bad, "prevBlockHash")
	}
	if h.Nonce.String() != fmt.Sprint(row.Nonce) {
		bad = append(bad, "nonce")
	}
	if t, err := time.Parse(time.RFC3339Nano, h.Timestamp); err != nil || t.Unix() != row.TimeUnix || int64(t.Nanosecond()) != row.TimeNanos {
		bad = append(bad, "creationTimestamp")
	}
	if h.Work.String() != row.CumWork {
		bad = append(bad, "work")
	}
	if h.State != s.StateAfter || (s.RetState != "" && h.State != s.RetState) {
		bad = append(bad, "state")
	}
	return bad
}

func clip(s string) string {
	if len(s) > 300 {
		return s[:300]
	}
	return s
}

func body(r *ev.Run) {
	if tz := os.Getenv("TZ"); tz != "" {
		r.Count("worker_processes_in_time_zone_"+tz, 1)
	}
	r.Rule("a third of the worker processes run in the time zone Asia/Kolkata, a third in America/St_Johns (the event's block time is compared with the stored one to the nanosecond). histories = seeded random histories of the C01 generator (forks, orphans, late parents, duplicates, forbidden hashes, all work classes) with store failures injected at repository.Headers.AddHeaderToDatabase (and UpdateState in every 6th history) with probability {0, 0.05, 0.15} per submission; channel set on the real Notifier = 3 recording channels whose behaviours per history are 3 of {ok, error, slow, blocked until released after ingestion} in random order + real websocket channel over a recording publisher that fails every n-th publish (n in {never,2,3}) + real WebhooksService over the SQL repository with three healthy (registered with bearer, custom-header and no authorisation; one of them answering 500 to every third call, never twice in a row) and an always-failing webhook (URLs with upper-case letters, a trailing slash and a query: a POST to any other URL is reported); pairs of webhooks whose URLs differ by a trailing slash, one of them revoked (the other keeps getting its events); 500 / 501 webhooks registered at once (exactly one event each); a webhook whose endpoint never answers next to a healthy one on the same host (8-12 headers: the healthy one gets each once); re-registration cases: a webhook is switched off by max_tries failures, its receiver recovers, it is registered again and must get exactly one event for every header stored afterwards; a share of the histories runs with the production webhook client (transports/http/client) posting to real HTTP servers, the failing one answering 500 / dropping the connection after reading the request / answering 503 in turn; bursts of 300-500 headers while the websocket publisher is blocked; every 6th fault-free submission is made by two goroutines at once (two peers delivering the same header; the first duplicate look-up waits up to 1.5 ms for the second to arrive). evaluations = histories; distinct = distinct (behaviour assignment, history shape); non-trivial = history with a fork, orphan, duplicate or a non-stored submission.")
	r.Assume("'stored' = Chains.Add returned without error", "the stored header = its headers row (immutable columns at the end of the history, header_state right after Add returned)",
		"logical quiescence = goroutine count back at the pre-history baseline plus the deliveries parked in blocked channels (or, if some unrelated long-lived goroutine appeared, every expected delivery recorded and a stable goroutine count)",
		"the always-failing webhook may be deactivated by the service: only 'at most one call per stored header, none otherwise' is required of it", "SQLite only; built with -race")
	r.Require("stored_headers", 1000)
	r.Require("submissions_duplicate", 20)
	r.Require("concurrent_double_submissions", 100)
	r.Require("submissions_forbidden", 5)
	r.Require("submissions_store-failed", 20)
	r.Require("histories_with_a_blocked_channel", 10)
	r.Require("adds_returned_while_a_delivery_was_parked", 100)
	r.Require("deliveries_slow", 100)
	r.Require("deliveries_websocket", 1000)
	r.Require("deliveries_webhook", 1000)
	r.Require("websocket_publish_failures_injected", 50)
	r.Require("deliveries_"+chWSClient, 100)
	r.Require("production_client_histories", 10)
	r.Require("histories_with_a_blocked_websocket_publisher", 2)
	r.Require("hiccups_of_a_healthy_webhook", 100)
	if r.Workers >= 4 {
		r.Require("environments_with_max_tries_zero", 1)
	}
	r.Require("webhook_connections_dropped_after_the_request_was_read", 20)
	mb.ForbiddenHeaders()
	var e, le *env
	defer func() {
		if e != nil {
			e.close()
		}
		if le != nil {
			le.close()
		}
	}()
	histFor := func(caseID string, maxN int) (*rand.Rand, gen.History, float64) {
		rng := r.Rand(caseID)
		o := gen.Opts{
			N:          10 + rng.Intn(maxN),
			PDup:       []float64{0.03, 0.1, 0.2}[rng.Intn(3)],
			PUnknown:   []float64{0, 0.03, 0.1}[rng.Intn(3)],
			PLate:      []float64{0, 0.05, 0.2}[rng.Intn(3)],
			PFork:      []float64{0.05, 0.2, 0.5}[rng.Intn(3)],
			Classes:    []string{"M", "MH", "MHL", "MHLZ", "MHLZNTUX", "MMMMHLR"}[rng.Intn(6)],
			Forbidden:  mb.ForbiddenHeaders(),
			PForbidden: []float64{0, 0.03}[rng.Intn(2)],
		}
		hist := gen.Random(rng, rig.Genesis(), o)
		return rng, hist, []float64{0, 0.05, 0.15}[rng.Intn(3)]
	}
	n := r.Pick(150, 3000)
	for i := 0; i < n; i++ {
		caseID := fmt.Sprintf("h/%d", i)
		r.Do(caseID, func() {
			if e == nil {
				var err error
				if e, err = newEnv(r, false); err != nil {
					e = nil
					r.Violate("harness|rig", err.Error(), caseID, nil)
					return
				}
			}
			rng, hist, pFail := histFor(caseID, r.Pick(110, 160))
			e.runHistory(caseID, rng, hist, pFail, i%6 == 5)
		})
	}
	// a burst of 300+ stored headers while the websocket publisher is blocked (released after ingestion): every event
	// still arrives
	for i := 0; i < r.Pick(2, 12); i++ {
		caseID := fmt.Sprintf("burst/%d", i)
		r.Do(caseID, func() {
			if e == nil {
				var err error
				if e, err = newEnv(r, false); err != nil {
					e = nil
					r.Violate("harness|rig", err.Error(), caseID, nil)
					return
				}
			}
			rng := r.Rand(caseID)
			hist := gen.Random(rng, rig.Genesis(), gen.Opts{N: 300 + rng.Intn(200), PDup: 0.02, PFork: 0.05, Classes: "MH"})
			e.wsBlockNext = true
			e.runHistory(caseID, rng, hist, 0, false)
		})
	}
	// the same with the production webhook client (transports/http/client) calling real HTTP servers
	var pe *env
	defer func() {
		if pe != nil {
			pe.close()
		}
	}()
	nProd := r.Pick(16, 320)
	for i := 0; i < nProd; i++ {
		caseID := fmt.Sprintf("prod/%d", i)
		r.Do(caseID, func() {
			if pe == nil {
				var err error
				if pe, err = newEnv(r, false, true); err != nil {
					pe = nil
					r.Inconclusive(caseID, "webhook servers could not be set up: "+err.Error())
					return
				}
			}
			rng, hist, pFail := histFor(caseID, 60)
			pe.runHistory(caseID, rng, hist, pFail, false)
			r.Count("production_client_histories", 1)
		})
	}
	// a webhook that was switched off after max_tries failures and is registered again is a registered channel again
	for i := 0; i < r.Pick(4, 40); i++ {
		caseID := fmt.Sprintf("rereg/%d", i)
		r.Do(caseID, func() { reRegistered(r, caseID, i) })
	}
	for i := 0; i < r.Pick(6, 30); i++ {
		caseID := fmt.Sprintf("twins/%d", i)
		r.Do(caseID, func() { slashTwins(r, caseID, i) })
	}
	for i := 0; i < r.Pick(3, 15); i++ {
		caseID := fmt.Sprintf("hang/%d", i)
		r.Do(caseID, func() { hangAndHealthy(r, caseID, i) })
	}
	for _, n := range []int{500, 501, 1000}[:r.Pick(2, 3)] {
		caseID := fmt.Sprintf("many/%d", n)
		r.Do(caseID, func() { manyWebhooks(r, caseID, n) })
	}
	// the same with a live websocket node and a real centrifuge client subscribed to "headers"
	nLive := r.Pick(16, 320)
	for i := 0; i < nLive; i++ {
		caseID := fmt.Sprintf("live/%d", i)
		r.Do(caseID, func() {
			if le == nil {
				var err error
				if le, err = newEnv(r, true); err != nil {
					le = nil
					r.Inconclusive(caseID, "live websocket node could not be set up: "+err.Error())
					return
				}
			}
			rng, hist, pFail := histFor(caseID, 60)
			le.runHistory(caseID, rng, hist, pFail, false)
		})
	}
}
