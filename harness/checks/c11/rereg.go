package c11

import (
	"fmt"
	"io"
	"net/http"
	"net/http/httptest"
	"runtime"
	"sync"
	"sync/atomic"
	"time"

	"github.com/bitcoin-sv/block-headers-service/config"
	"github.com/bitcoin-sv/block-headers-service/service"
	"github.com/bitcoin-sv/block-headers-service/verifharness/ev"
	"github.com/bitcoin-sv/block-headers-service/verifharness/gen"
	"github.com/bitcoin-sv/block-headers-service/verifharness/refmodel"
	"github.com/bitcoin-sv/block-headers-service/verifharness/rig"
)

// reRegistered: "every registered notification channel" includes a webhook that was switched off after max_tries consecutive
// failures and has been registered again. Real SQL repository, real WebhooksService on the real Notifier, production HTTP
// client, one receiver that fails until told otherwise. Verdicts at logical quiescence (no delivery goroutine left).
func reRegistered(r *ev.Run, caseID string, i int) {
	rng := r.Rand(caseID)
	maxTries := 1 + i%3
	var healthy atomic.Bool
	var mu sync.Mutex
	posts := map[string]int{} // event hash -> POSTs received while healthy
	failures := 0
	path := []string{"/Hooks/ReReg?Key=Ab", "/hooks/rereg/", "/hooks/rereg"}[i%3]
	srv := httptest.NewUnstartedServer(http.HandlerFunc(func(w http.ResponseWriter, q *http.Request) {
		body, _ := io.ReadAll(q.Body)
		if q.URL.RequestURI() != path {
			http.Error(w, "no such receiver", http.StatusNotFound)
			return
		}
		if !healthy.Load() {
			mu.Lock()
			failures++
			mu.Unlock()
			http.Error(w, "down", http.StatusServiceUnavailable)
			return
		}
		if evj, err := parseEvent(body); err == nil && evj.Header != nil {
			mu.Lock()
			posts[evj.Header.Hash]++
			mu.Unlock()
		}
		w.WriteHeader(http.StatusOK)
	}))
	srv.Config.SetKeepAlivesEnabled(false)
	srv.Start()
	defer srv.Close()
	st, err := rig.New(rig.Options{Dir: r.Scratch, Name: "c11-rereg.db", NoHTTP: true,
		Config:   func(c *config.AppConfig) { c.Webhook.MaxTries = maxTries },
		AfterSvc: func(sv *service.Services, _ *config.AppConfig) { sv.Notifier.AddChannel(sv.Webhooks) }})
	if err != nil {
		r.Violate("harness|rig", err.Error(), caseID, nil)
		return
	}
	defer st.Destroy()
	url := srv.URL + path
	auth := [][3]string{{"BEARER", "", "c11-rereg"}, {"CUSTOM_HEADER", "X-Verif-Key", "k"}, {"", "", ""}}[(i/3)%3]
	if _, err := st.Svc.Webhooks.CreateWebhook(auth[0], auth[1], auth[2], url); err != nil {
		r.Violate("harness|create-webhook", err.Error(), caseID, nil)
		return
	}
	detail := map[string]any{"max_tries": maxTries, "url_path": path, "auth": auth[0]}
	// deliveries run on their own goroutines (and so do the HTTP connections they use, keep-alives are off): at rest when the
	// goroutine count has been back at the level measured before the first submission for several polls in a row
	base := restingGoroutines()
	settle := func() bool {
		quiet := 0
		for k := 0; k < 300000; k++ {
			g := runtime.NumGoroutine()
			if g < base {
				base = g
			}
			if g <= base {
				quiet++
				if quiet >= 5 {
					return true
				}
			} else {
				quiet = 0
			}
			time.Sleep(100 * time.Microsecond)
		}
		return false
	}
	counter := 0
	prev := rig.Genesis().HashOf()
	add := func() (string, bool) {
		counter++
		h := refmodel.Hdr{Prev: prev, Bits: gen.BitsNormal}
		gen.Fields(rng, &h, false, counter)
		res := st.Add(h)
		if res.Code() != "stored" {
			return "", false
		}
		prev = h.HashOf()
		return h.HashOf().String(), settle()
	}
	state := func() (active bool, errs int, ok bool) {
		row := struct {
			Active bool `db:"is_active"`
			Errs   int  `db:"errors_count"`
		}{}
		if err := st.DB.Get(&row, `SELECT is_active, errors_count FROM webhooks WHERE url = ?`, url); err != nil {
			return false, 0, false
		}
		return row.Active, row.Errs, true
	}
	for k := 0; k < maxTries+1; k++ {
		if _, ok := add(); !ok {
			r.Inconclusive(caseID, "a header was not stored or its deliveries did not come to rest")
			return
		}
	}
	if active, _, ok := state(); !ok || active {
		// C12 decides when a webhook is switched off; without that there is nothing to re-register
		r.Count("rereg_cases_skipped_webhook_still_active", 1)
		return
	}
	healthy.Store(true)
	w, err := st.Svc.Webhooks.CreateWebhook(auth[0], auth[1], auth[2], url)
	if err != nil || w == nil || !w.Active {
		r.Violate("rereg|re-registration-of-an-inactive-webhook-refused", fmt.Sprintf("registering the switched-off webhook again: %v, webhook %+v", err, w), caseID, detail)
		return
	}
	nAfter := 2 + rng.Intn(3)
	var hashes []string
	for k := 0; k < nAfter; k++ {
		h, ok := add()
		if !ok {
			r.Inconclusive(caseID, "a header was not stored or its deliveries did not come to rest")
			return
		}
		awaitPost(func() bool { mu.Lock(); defer mu.Unlock(); return posts[h] >= 1 })
		if !settle() {
			r.Inconclusive(caseID, "deliveries did not come to rest")
			return
		}
		hashes = append(hashes, h)
	}
	mu.Lock()
	defer mu.Unlock()
	for k, h := range hashes {
		if posts[h] != 1 {
			active, errs, _ := state()
			detail["stored_row_active"], detail["stored_row_errors_count"] = active, errs
			r.Violate(fmt.Sprintf("rereg|events-after-re-registration|got=%d", posts[h]),
				fmt.Sprintf("a webhook switched off after %d failures was registered again (answer: active) and its receiver is healthy; header %d of %d stored afterwards (%s) produced %d POSTs to it, expected 1", maxTries, k+1, nAfter, h, posts[h]), caseID, detail)
			return
		}
	}
	r.Count("re_registered_webhooks_that_got_every_later_event", 1)
	r.Count("events_after_re_registration", int64(nAfter))
	r.Case(fmt.Sprintf("rereg|max_tries=%d|auth=%s", maxTries, auth[0]), true)
}

var _ = ev.Spec{}

// restingGoroutines: the goroutine count once it has stopped changing for 20 ms (goroutines of the case before - closing
// connections, a stack being torn down - may still be winding down when a case starts; a baseline read too early is too
// high, and "back at the baseline" would then be reached while deliveries are still in flight).
func restingGoroutines() int {
	last, same := runtime.NumGoroutine(), 0
	for k := 0; k < 3000 && same < 20; k++ {
		time.Sleep(time.Millisecond)
		if g := runtime.NumGoroutine(); g == last {
			same++
		} else {
			last, same = g, 0
		}
	}
	return last
}

// awaitPost waits (5 s at most) until got() reports the expected POST: a delivery that is going to happen has then been
// seen, whatever the goroutine count said; one that never comes is still missing after 5 s.
func awaitPost(got func() bool) {
	for k := 0; k < 5000 && !got(); k++ {
		time.Sleep(time.Millisecond)
	}
}

// slashTwins: two webhooks whose URLs differ by a trailing slash are two webhooks. One is revoked; the other is still
// registered and gets exactly one event for every header stored afterwards.
func slashTwins(r *ev.Run, caseID string, i int) {
	rng := r.Rand(caseID)
	var mu sync.Mutex
	posts := map[string]int{} // request URI + "|" + event hash
	srv := httptest.NewUnstartedServer(http.HandlerFunc(func(w http.ResponseWriter, q *http.Request) {
		body, _ := io.ReadAll(q.Body)
		if evj, err := parseEvent(body); err == nil && evj.Header != nil {
			mu.Lock()
			posts[q.URL.RequestURI()+"|"+evj.Header.Hash]++
			mu.Unlock()
		}
		w.WriteHeader(http.StatusOK)
	}))
	srv.Config.SetKeepAlivesEnabled(false)
	srv.Start()
	defer srv.Close()
	st, err := rig.New(rig.Options{Dir: r.Scratch, Name: "c11-twins.db", NoHTTP: true,
		AfterSvc: func(sv *service.Services, _ *config.AppConfig) { sv.Notifier.AddChannel(sv.Webhooks) }})
	if err != nil {
		r.Violate("harness|rig", err.Error(), caseID, nil)
		return
	}
	defer st.Destroy()
	base := []string{"/hooks/twin", "/Hooks/Twin/v2", "/t"}[i%3]
	keep, drop := base+"/", base
	if i%2 == 1 {
		keep, drop = base, base+"/"
	}
	for _, p := range []string{keep, drop} {
		if _, err := st.Svc.Webhooks.CreateWebhook("BEARER", "", "c11-twins", srv.URL+p); err != nil {
			r.Violate("harness|create-webhook", err.Error(), caseID, nil)
			return
		}
	}
	if err := st.Svc.Webhooks.DeleteWebhook(srv.URL + drop); err != nil {
		r.Count("twin_cases_skipped_revocation_refused", 1)
		return
	}
	base0 := restingGoroutines()
	settle := func() bool {
		quiet := 0
		for k := 0; k < 300000; k++ {
			g := runtime.NumGoroutine()
			if g < base0 {
				base0 = g
			}
			if g <= base0 {
				quiet++
				if quiet >= 5 {
					return true
				}
			} else {
				quiet = 0
			}
			time.Sleep(100 * time.Microsecond)
		}
		return false
	}
	prev := rig.Genesis().HashOf()
	for k := 0; k < 2+rng.Intn(3); k++ {
		h := refmodel.Hdr{Prev: prev, Bits: gen.BitsNormal}
		gen.Fields(rng, &h, false, k+1)
		if res := st.Add(h); res.Code() != "stored" || !settle() {
			r.Inconclusive(caseID, "a header was not stored or its deliveries did not come to rest")
			return
		}
		prev = h.HashOf()
		awaitPost(func() bool { mu.Lock(); defer mu.Unlock(); return posts[keep+"|"+h.HashOf().String()] >= 1 })
		if !settle() {
			r.Inconclusive(caseID, "deliveries did not come to rest")
			return
		}
		mu.Lock()
		gotKeep, gotDrop := posts[keep+"|"+h.HashOf().String()], posts[drop+"|"+h.HashOf().String()]
		mu.Unlock()
		if gotKeep != 1 || gotDrop != 0 {
			r.Violate(fmt.Sprintf("twins|registered=%d|revoked=%d", gotKeep, gotDrop),
				fmt.Sprintf("webhooks %q and %q were registered, %q was revoked; for the next stored header the still registered one got %d POSTs (expected 1) and the revoked one %d (expected 0)", keep, drop, drop, gotKeep, gotDrop), caseID,
				map[string]any{"registered": keep, "revoked": drop})
			return
		}
	}
	r.Count("webhook_pairs_differing_by_a_trailing_slash", 1)
	r.Case("twins|"+base, true)
}

// manyWebhooks: 500 and more registered webhooks (the sizes at which lists get paged): every one of them gets exactly one
// event per stored header.
func manyWebhooks(r *ev.Run, caseID string, n int) {
	rng := r.Rand(caseID)
	var mu sync.Mutex
	posts := map[string]int{}
	srv := httptest.NewUnstartedServer(http.HandlerFunc(func(w http.ResponseWriter, q *http.Request) {
		body, _ := io.ReadAll(q.Body)
		if evj, err := parseEvent(body); err == nil && evj.Header != nil {
			mu.Lock()
			posts[q.URL.RequestURI()+"|"+evj.Header.Hash]++
			mu.Unlock()
		}
		w.WriteHeader(http.StatusOK)
	}))
	srv.Start()
	defer srv.Close()
	st, err := rig.New(rig.Options{Dir: r.Scratch, Name: "c11-many.db", NoHTTP: true,
		AfterSvc: func(sv *service.Services, _ *config.AppConfig) { sv.Notifier.AddChannel(sv.Webhooks) }})
	if err != nil {
		r.Violate("harness|rig", err.Error(), caseID, nil)
		return
	}
	defer st.Destroy()
	var paths []string
	for k := 0; k < n; k++ {
		p := fmt.Sprintf("/many/%04d", (k*7919)%n) // registration order differs from URL order
		paths = append(paths, p)
		if _, err := st.Svc.Webhooks.CreateWebhook("", "", "", srv.URL+p); err != nil {
			r.Violate("harness|create-webhook", err.Error(), caseID, nil)
			return
		}
	}
	prev := rig.Genesis().HashOf()
	for k := 0; k < 2; k++ {
		h := refmodel.Hdr{Prev: prev, Bits: gen.BitsNormal}
		gen.Fields(rng, &h, false, k+1)
		if res := st.Add(h); res.Code() != "stored" {
			r.Inconclusive(caseID, "a header was not stored")
			return
		}
		prev = h.HashOf()
		hs := h.HashOf().String()
		// the deliveries of one event are made one after the other by one goroutine: wait until the last registered
		// webhook has been served (bounded), then give stragglers the time of another full round
		done := func() bool {
			mu.Lock()
			defer mu.Unlock()
			c := 0
			for _, p := range paths {
				if posts[p+"|"+hs] > 0 {
					c++
				}
			}
			return c == len(paths)
		}
		for w := 0; w < 600 && !done(); w++ {
			time.Sleep(50 * time.Millisecond)
		}
		time.Sleep(300 * time.Millisecond)
		mu.Lock()
		wrong, first := 0, ""
		for _, p := range paths {
			if c := posts[p+"|"+hs]; c != 1 {
				wrong++
				if first == "" {
					first = fmt.Sprintf("%s got %d", p, c)
				}
			}
		}
		mu.Unlock()
		if wrong > 0 {
			r.Violate(fmt.Sprintf("many-webhooks|n=%d|not-exactly-one", n), fmt.Sprintf("%d webhooks are registered; for one stored header %d of them did not get exactly one POST (first: %s)", n, wrong, first), caseID, map[string]any{"webhooks": n})
			return
		}
	}
	r.Count("stores_with_500_or_more_webhooks", 1)
	r.Count("events_delivered_to_many_webhooks", int64(2*n))
	r.Case(fmt.Sprintf("many-webhooks|n=%d", n), true)
}

// hangAndHealthy: two webhooks on one host. The endpoint of one accepts every delivery and does not answer (until the end
// of the case); the other answers at once and comes first in the list. "A failing or slow channel neither blocks ingestion nor
// suppresses delivery on the other channels": the healthy one gets one event for every stored header, however many
// deliveries to its neighbour are hanging.
func hangAndHealthy(r *ev.Run, caseID string, i int) {
	rng := r.Rand(caseID)
	var mu sync.Mutex
	okPosts := map[string]int{}
	var hanging atomic.Int64
	release := make(chan struct{})
	srv := httptest.NewUnstartedServer(http.HandlerFunc(func(w http.ResponseWriter, q *http.Request) {
		body, _ := io.ReadAll(q.Body)
		if q.URL.Path == "/z-hang" {
			hanging.Add(1)
			<-release
			w.WriteHeader(http.StatusOK)
			return
		}
		if evj, err := parseEvent(body); err == nil && evj.Header != nil {
			mu.Lock()
			okPosts[evj.Header.Hash]++
			mu.Unlock()
		}
		w.WriteHeader(http.StatusOK)
	}))
	srv.Start()
	defer srv.Close()
	defer close(release)
	st, err := rig.New(rig.Options{Dir: r.Scratch, Name: "c11-hang.db", NoHTTP: true,
		AfterSvc: func(sv *service.Services, _ *config.AppConfig) { sv.Notifier.AddChannel(sv.Webhooks) }})
	if err != nil {
		r.Violate("harness|rig", err.Error(), caseID, nil)
		return
	}
	defer st.Destroy()
	for _, p := range []string{"/a-ok", "/z-hang"} { // the healthy one is registered (and listed) first
		if _, err := st.Svc.Webhooks.CreateWebhook("BEARER", "", "c11-hang", srv.URL+p); err != nil {
			r.Violate("harness|create-webhook", err.Error(), caseID, nil)
			return
		}
	}
	n := 8 + i%5
	prev := rig.Genesis().HashOf()
	var hashes []string
	for k := 0; k < n; k++ {
		h := refmodel.Hdr{Prev: prev, Bits: gen.BitsNormal}
		gen.Fields(rng, &h, false, k+1)
		if res := st.Add(h); res.Code() != "stored" {
			r.Inconclusive(caseID, "a header was not stored")
			return
		}
		prev = h.HashOf()
		hashes = append(hashes, h.HashOf().String())
	}
	// the healthy webhook is served before its neighbour in every delivery: wait (bounded) until it has been called for the
	// last header, or until as many deliveries hang as headers were stored (then nothing more can arrive)
	got := func() int {
		mu.Lock()
		defer mu.Unlock()
		c := 0
		for _, h := range hashes {
			if okPosts[h] > 0 {
				c++
			}
		}
		return c
	}
	for w := 0; w < 400 && got() < n; w++ {
		time.Sleep(50 * time.Millisecond)
	}
	mu.Lock()
	wrong := 0
	for _, h := range hashes {
		if okPosts[h] != 1 {
			wrong++
		}
	}
	mu.Unlock()
	r.Count("headers_stored_next_to_a_hanging_webhook", int64(n))
	if wrong > 0 {
		r.Violate("hanging-webhook|healthy-neighbour-starved", fmt.Sprintf("two webhooks on one host, the first answers at once, the second never: of %d stored headers %d did not reach the first exactly once (%d deliveries to the second are hanging)", n, wrong, hanging.Load()), caseID,
			map[string]any{"stored_headers": n, "hanging_deliveries": hanging.Load()})
		return
	}
	r.Case("hang-and-healthy", true)
}
