package c14

import (
	"bytes"
	"math/rand"
	"net"
	"sort"
	"time"
	"unsafe"

	"github.com/bitcoin-sv/block-headers-service/internal/chaincfg/chainhash"
	"github.com/bitcoin-sv/block-headers-service/internal/wire"
)

// ---------------------------------------------------------------------------
// Command catalogue (written from the protocol / the command constants, not
// derived from makeEmptyMessage): the 16 kinds of the statement plus every
// other command the decoder's table knows.

type kind struct {
	cmd    string
	listed bool                // one of the 16 kinds of the statement
	fresh  func() wire.Message // empty instance: declared payload limit + expected concrete type
	// minPver: the kind exists at pver >= minPver (0 = always). Built from the
	// exported version constants.
	minPver uint32
	// gamma: pre-allocation (bytes) the kind's declared count / size limits allow
	// for a single message regardless of how short the payload is.
	gamma func(t *tables) uint64
	// amp: decoded-size / wire-size factor of the bound (4 by the design; 16 for
	// tx-bearing kinds whose script free list hands out 512-byte buffers per script).
	amp uint64
	// countLimit / countOffset: the main count field (0/-1 when there is none).
	countLimit  uint64
	countOffset int
}

type tables struct {
	kinds   []*kind
	byCmd   map[string]*kind
	listed  []*kind
	maxMsg  uint64 // the package's global message payload limit under the production setting
	pvers   []uint32
	bounds  []uint32 // sorted version boundaries for signatures
	netList []wire.BitcoinNet
}

const (
	szSmall = iota
	szZero
	szOne
	szMaxMinus1
	szMax
	szMedium
)

var szNames = []string{"small", "count0", "count1", "max-1", "max", "medium"}

func sizeofHeader() uint64  { return uint64(unsafe.Sizeof(wire.BlockHeader{})) }
func sizeofInv() uint64     { return uint64(unsafe.Sizeof(wire.InvVect{})) }
func sizeofNetAddr() uint64 { return uint64(unsafe.Sizeof(wire.NetAddress{})) }
func sizeofTxIn() uint64    { return uint64(unsafe.Sizeof(wire.TxIn{})) }
func sizeofTxOut() uint64   { return uint64(unsafe.Sizeof(wire.TxOut{})) }

const ptr = 8

func newTables() *tables {
	t := &tables{byCmd: map[string]*kind{}}
	// The global limit is what a `reject` (>= RejectVersion) may carry: maxMessagePayload().
	t.maxMsg = uint64((&wire.MsgReject{}).MaxPayloadLength(wire.ProtocolVersion))
	zero := func(*tables) uint64 { return 0 }
	invGamma := func(*tables) uint64 { return wire.MaxInvPerMsg * (sizeofInv() + ptr) }
	locGamma := func(*tables) uint64 { return wire.MaxBlockLocatorsPerMsg * (chainhash.HashSize + ptr) }
	// tx: count limits are "what fits into a message": inputs >= 41 bytes, outputs >= 9 bytes,
	// transactions >= 10 bytes (protocol minimum sizes).
	txGamma := func(t *tables) uint64 {
		return (t.maxMsg/41+1)*(sizeofTxIn()+ptr) + (t.maxMsg/9+1)*(sizeofTxOut()+ptr) + 2*t.maxMsg
	}
	maxBlock := func() uint64 { return uint64(wire.MaxBlockPayload()) }
	add := func(k *kind) {
		if k.gamma == nil {
			k.gamma = zero
		}
		if k.amp == 0 {
			k.amp = 4
		}
		if k.countLimit == 0 && k.countOffset == 0 {
			k.countOffset = -1
		}
		t.kinds = append(t.kinds, k)
		t.byCmd[k.cmd] = k
		if k.listed {
			t.listed = append(t.listed, k)
		}
	}
	// --- the 16 listed kinds
	add(&kind{cmd: wire.CmdVersion, listed: true, fresh: func() wire.Message { return &wire.MsgVersion{} },
		// the version message declares a payload limit of a few hundred bytes (MaxUserAgentLen for the
		// user agent): announcing a longer user agent must not make the decoder allocate for it
		gamma: func(t *tables) uint64 { return wire.MaxUserAgentLen }, countLimit: wire.MaxUserAgentLen, countOffset: 80})
	add(&kind{cmd: wire.CmdVerAck, listed: true, fresh: func() wire.Message { return &wire.MsgVerAck{} }})
	add(&kind{cmd: wire.CmdGetAddr, listed: true, fresh: func() wire.Message { return &wire.MsgGetAddr{} }})
	add(&kind{cmd: wire.CmdAddr, listed: true, fresh: func() wire.Message { return &wire.MsgAddr{} },
		gamma:      func(*tables) uint64 { return wire.MaxAddrPerMsg * (sizeofNetAddr() + ptr + 16) },
		countLimit: wire.MaxAddrPerMsg})
	add(&kind{cmd: wire.CmdGetHeaders, listed: true, fresh: func() wire.Message { return &wire.MsgGetHeaders{} },
		gamma: locGamma, countLimit: wire.MaxBlockLocatorsPerMsg, countOffset: 4})
	add(&kind{cmd: wire.CmdGetBlocks, listed: true, fresh: func() wire.Message { return &wire.MsgGetBlocks{} },
		gamma: locGamma, countLimit: wire.MaxBlockLocatorsPerMsg, countOffset: 4})
	add(&kind{cmd: wire.CmdHeaders, listed: true, fresh: func() wire.Message { return &wire.MsgHeaders{} },
		gamma:      func(*tables) uint64 { return wire.MaxBlockHeadersPerMsg * (sizeofHeader() + ptr) },
		countLimit: wire.MaxBlockHeadersPerMsg})
	add(&kind{cmd: wire.CmdInv, listed: true, fresh: func() wire.Message { return &wire.MsgInv{} }, gamma: invGamma, countLimit: wire.MaxInvPerMsg})
	add(&kind{cmd: wire.CmdGetData, listed: true, fresh: func() wire.Message { return &wire.MsgGetData{} }, gamma: invGamma, countLimit: wire.MaxInvPerMsg})
	add(&kind{cmd: wire.CmdNotFound, listed: true, fresh: func() wire.Message { return &wire.MsgNotFound{} }, gamma: invGamma, countLimit: wire.MaxInvPerMsg})
	add(&kind{cmd: wire.CmdPing, listed: true, fresh: func() wire.Message { return &wire.MsgPing{} }})
	add(&kind{cmd: wire.CmdPong, listed: true, fresh: func() wire.Message { return &wire.MsgPong{} }, minPver: wire.BIP0031Version + 1})
	add(&kind{cmd: wire.CmdReject, listed: true, fresh: func() wire.Message { return &wire.MsgReject{} }, minPver: wire.RejectVersion,
		// two var strings, each guarded by the global message limit
		gamma: func(t *tables) uint64 { return 2 * t.maxMsg }})
	add(&kind{cmd: wire.CmdSendHeaders, listed: true, fresh: func() wire.Message { return &wire.MsgSendHeaders{} }, minPver: wire.SendHeadersVersion})
	add(&kind{cmd: wire.CmdFeeFilter, listed: true, fresh: func() wire.Message { return &wire.MsgFeeFilter{} }, minPver: wire.FeeFilterVersion})
	add(&kind{cmd: wire.CmdMemPool, listed: true, fresh: func() wire.Message { return &wire.MsgMemPool{} }, minPver: wire.BIP0035Version})
	// --- the rest of the decoder's table (hostile inputs only)
	add(&kind{cmd: wire.CmdTx, fresh: func() wire.Message { return &wire.MsgTx{} }, gamma: txGamma, amp: 16, countOffset: 4})
	add(&kind{cmd: wire.CmdBlock, fresh: func() wire.Message { return &wire.MsgBlock{} }, amp: 16, countOffset: 80,
		gamma: func(t *tables) uint64 { return (maxBlock()/10+1)*ptr + txGamma(t) }})
	add(&kind{cmd: wire.CmdMerkleBlock, fresh: func() wire.Message { return &wire.MsgMerkleBlock{} }, minPver: wire.BIP0037Version, countOffset: 84,
		gamma: func(t *tables) uint64 { n := maxBlock()/10 + 1; return n*(chainhash.HashSize+ptr) + n/8 }})
	add(&kind{cmd: wire.CmdFilterAdd, fresh: func() wire.Message { return &wire.MsgFilterAdd{} }, minPver: wire.BIP0037Version,
		gamma: func(*tables) uint64 { return wire.MaxFilterAddDataSize }, countLimit: wire.MaxFilterAddDataSize})
	add(&kind{cmd: wire.CmdFilterClear, fresh: func() wire.Message { return &wire.MsgFilterClear{} }, minPver: wire.BIP0037Version})
	add(&kind{cmd: wire.CmdFilterLoad, fresh: func() wire.Message { return &wire.MsgFilterLoad{} }, minPver: wire.BIP0037Version,
		gamma: func(*tables) uint64 { return wire.MaxFilterLoadFilterSize }, countLimit: wire.MaxFilterLoadFilterSize})
	add(&kind{cmd: wire.CmdGetCFilters, fresh: func() wire.Message { return &wire.MsgGetCFilters{} }})
	add(&kind{cmd: wire.CmdGetCFHeaders, fresh: func() wire.Message { return &wire.MsgGetCFHeaders{} }})
	add(&kind{cmd: wire.CmdGetCFCheckpt, fresh: func() wire.Message { return &wire.MsgGetCFCheckpt{} }})
	add(&kind{cmd: wire.CmdCFilter, fresh: func() wire.Message { return &wire.MsgCFilter{} },
		gamma: func(*tables) uint64 { return wire.MaxCFilterDataSize }, countLimit: wire.MaxCFilterDataSize, countOffset: 33})
	add(&kind{cmd: wire.CmdCFHeaders, fresh: func() wire.Message { return &wire.MsgCFHeaders{} },
		gamma: func(*tables) uint64 { return wire.MaxCFHeadersPerMsg * (chainhash.HashSize + 2*ptr) }, countLimit: wire.MaxCFHeadersPerMsg, countOffset: 65})
	add(&kind{cmd: wire.CmdCFCheckpt, fresh: func() wire.Message { return &wire.MsgCFCheckpt{} },
		// "maxCFHeadersLen = 100000" is unexported; the cfcheckpt limit as documented in msgcfcheckpt.go
		gamma: func(*tables) uint64 { return 100000 * (chainhash.HashSize + 2*ptr) }, countLimit: 100000, countOffset: 33})
	add(&kind{cmd: wire.CmdProtoconf, fresh: func() wire.Message { return &wire.MsgProtoconf{} }, minPver: wire.ProtoconfVerisosn})
	add(&kind{cmd: wire.CmdAuthch, fresh: func() wire.Message { return &wire.MsgProtoconf{} }, minPver: wire.ProtoconfVerisosn})

	set := map[uint32]bool{}
	for _, v := range []uint32{
		wire.MultipleAddressVersion, wire.NetAddressTimeVersion - 1, wire.NetAddressTimeVersion,
		wire.BIP0031Version, wire.BIP0031Version + 1, wire.BIP0035Version, wire.BIP0037Version,
		wire.RejectVersion, wire.BIP0111Version, wire.SendHeadersVersion, wire.FeeFilterVersion, wire.ProtocolVersion,
	} {
		set[v] = true
	}
	for v := range set {
		t.pvers = append(t.pvers, v)
	}
	sort.Slice(t.pvers, func(i, j int) bool { return t.pvers[i] < t.pvers[j] })
	bset := map[uint32]bool{}
	for _, v := range []uint32{
		wire.MultipleAddressVersion, wire.NetAddressTimeVersion, wire.BIP0031Version + 1, wire.BIP0035Version,
		wire.BIP0037Version, wire.RejectVersion, wire.BIP0111Version, wire.SendHeadersVersion, wire.FeeFilterVersion,
	} {
		bset[v] = true
	}
	for v := range bset {
		t.bounds = append(t.bounds, v)
	}
	sort.Slice(t.bounds, func(i, j int) bool { return t.bounds[i] < t.bounds[j] })
	t.netList = []wire.BitcoinNet{wire.MainNet, wire.TestNet, wire.TestNet3, wire.SimNet}
	return t
}

// pverClass names the interval between two version boundaries that contains pver.
func (t *tables) pverClass(pver uint32) string {
	lo := uint32(0)
	hi := uint32(0)
	for i, b := range t.bounds {
		if pver >= b {
			lo = b
			if i+1 < len(t.bounds) {
				hi = t.bounds[i+1] - 1
			} else {
				hi = 0
			}
		}
	}
	if pver < t.bounds[0] {
		return "pver<" + utoa(uint64(t.bounds[0]))
	}
	if hi == 0 {
		return "pver>=" + utoa(uint64(lo))
	}
	if lo == hi {
		return "pver=" + utoa(uint64(lo))
	}
	return "pver=" + utoa(uint64(lo)) + ".." + utoa(uint64(hi))
}

func utoa(v uint64) string {
	if v == 0 {
		return "0"
	}
	var b [20]byte
	i := len(b)
	for v > 0 {
		i--
		b[i] = byte('0' + v%10)
		v /= 10
	}
	return string(b[i:])
}

// pickPver: bulk at the three newest versions, the rest over the boundary list
// and over everything the service can negotiate (MultipleAddressVersion … ProtocolVersion).
func (t *tables) pickPver(rng *rand.Rand) uint32 {
	x := rng.Intn(100)
	switch {
	case x < 55:
		return []uint32{wire.BIP0111Version, wire.SendHeadersVersion, wire.FeeFilterVersion}[rng.Intn(3)]
	case x < 90:
		return t.pvers[rng.Intn(len(t.pvers))]
	default:
		return wire.MultipleAddressVersion + uint32(rng.Int63n(int64(wire.ProtocolVersion-wire.MultipleAddressVersion+1)))
	}
}

// pverTag: the version itself for the boundary list, "other" for the uniformly drawn ones.
func (t *tables) pverTag(pver uint32) string {
	for _, v := range t.pvers {
		if v == pver {
			return utoa(uint64(v))
		}
	}
	return "other"
}

func (k *kind) exists(pver uint32) bool { return pver >= k.minPver }

// ---------------------------------------------------------------------------
// field generators

func rHash(rng *rand.Rand) chainhash.Hash {
	var h chainhash.Hash
	switch rng.Intn(12) {
	case 0: // zero hash
	case 1:
		for i := range h {
			h[i] = 0xff
		}
	default:
		_, _ = rng.Read(h[:])
	}
	return h
}

func rU32(rng *rand.Rand) uint32 {
	switch rng.Intn(8) {
	case 0:
		return 0
	case 1:
		return 0xffffffff
	case 2:
		return 0x7fffffff
	case 3:
		return 0x80000000
	case 4:
		return uint32(rng.Intn(256))
	}
	return rng.Uint32()
}

func rU64(rng *rand.Rand) uint64 {
	switch rng.Intn(8) {
	case 0:
		return 0
	case 1:
		return ^uint64(0)
	case 2:
		return 1 << 63
	case 3:
		return uint64(rng.Intn(256))
	}
	return rng.Uint64()
}

// rTime32: a timestamp the 32-bit field carries, at one-second precision.
func rTime32(rng *rand.Rand) time.Time {
	var s int64
	switch rng.Intn(8) {
	case 0:
		s = 0
	case 1:
		s = 1
	case 2:
		s = 0x7fffffff
	case 3:
		s = 0x80000000
	case 4:
		s = 0xffffffff
	case 5:
		s = int64(rng.Uint32())
	default:
		s = 1231006505 + rng.Int63n(700000000)
	}
	return time.Unix(s, 0)
}

// rTime64: a timestamp for the 64-bit field of `version`, at one-second precision.
func rTime64(rng *rand.Rand) time.Time {
	var s int64
	switch rng.Intn(8) {
	case 0:
		s = 0
	case 1:
		s = 1 << 32
	case 2:
		s = 1<<32 + rng.Int63n(1<<32)
	case 3:
		s = 1<<35 - 1
	default:
		s = 1231006505 + rng.Int63n(700000000)
	}
	return time.Unix(s, 0)
}

func rIP(rng *rand.Rand) net.IP {
	switch rng.Intn(10) {
	case 0:
		return nil // unspecified: the format carries 16 zero bytes
	case 1:
		return net.IPv4(byte(rng.Intn(256)), byte(rng.Intn(256)), byte(rng.Intn(256)), byte(rng.Intn(256))).To4() // 4-byte form
	case 2, 3, 4:
		return net.IPv4(byte(rng.Intn(256)), byte(rng.Intn(256)), byte(rng.Intn(256)), byte(rng.Intn(256))) // 16-byte mapped form
	case 5:
		return net.IPv6loopback
	case 6:
		return net.IPv6zero
	}
	ip := make(net.IP, 16)
	_, _ = rng.Read(ip)
	return ip
}

func rServices(rng *rand.Rand) wire.ServiceFlag {
	switch rng.Intn(4) {
	case 0:
		return 0
	case 1:
		return wire.SFNodeNetwork | wire.SFNodeBitcoinCash
	case 2:
		return wire.ServiceFlag(1) << uint(rng.Intn(64))
	}
	return wire.ServiceFlag(rng.Uint64())
}

func rNetAddr(rng *rand.Rand) wire.NetAddress {
	return wire.NetAddress{Timestamp: rTime32(rng), Services: rServices(rng), IP: rIP(rng), Port: uint16(rng.Intn(65536))}
}

func rString(rng *rand.Rand, n int) string {
	b := make([]byte, n)
	mode := rng.Intn(4)
	for i := range b {
		switch mode {
		case 0:
			b[i] = byte(rng.Intn(256)) // arbitrary bytes: a var_str is a byte string
		default:
			b[i] = byte(0x20 + rng.Intn(0x5f))
		}
	}
	return string(b)
}

func rHeader(rng *rand.Rand) *wire.BlockHeader {
	return &wire.BlockHeader{
		Version: int32(rU32(rng)), PrevBlock: rHash(rng), MerkleRoot: rHash(rng),
		Timestamp: rTime32(rng), Bits: rU32(rng), Nonce: rU32(rng),
	}
}

func count(rng *rand.Rand, sz int, max int) int {
	switch sz {
	case szZero:
		return 0
	case szOne:
		return 1
	case szMaxMinus1:
		return max - 1
	case szMax:
		return max
	case szMedium:
		n := 13 + rng.Intn(600)
		if n > max {
			n = max
		}
		return n
	}
	return rng.Intn(13)
}

var rejectCodes = []wire.RejectCode{
	wire.RejectMalformed, wire.RejectInvalid, wire.RejectObsolete, wire.RejectDuplicate,
	wire.RejectNonstandard, wire.RejectDust, wire.RejectInsufficientFee, wire.RejectCheckpoint,
}

// genMsg produces a message of the kind with every field inside the protocol limits.
func genMsg(rng *rand.Rand, cmd string, sz int) wire.Message {
	switch cmd {
	case wire.CmdVersion:
		ual := []int{0, 1, len(wire.DefaultUserAgent), wire.MaxUserAgentLen - 1, wire.MaxUserAgentLen}
		var n int
		switch sz {
		case szZero:
			n = 0
		case szOne:
			n = 1
		case szMaxMinus1:
			n = wire.MaxUserAgentLen - 1
		case szMax:
			n = wire.MaxUserAgentLen
		case szMedium:
			n = rng.Intn(wire.MaxUserAgentLen + 1)
		default:
			n = ual[rng.Intn(len(ual))]
			if rng.Intn(2) == 0 {
				n = rng.Intn(40)
			}
		}
		return &wire.MsgVersion{
			ProtocolVersion: int32(rU32(rng)), Services: rServices(rng), Timestamp: rTime64(rng),
			AddrYou: rNetAddr(rng), AddrMe: rNetAddr(rng), Nonce: rU64(rng), UserAgent: rString(rng, n),
			LastBlock: int32(rU32(rng)), DisableRelayTx: rng.Intn(2) == 0,
		}
	case wire.CmdVerAck:
		return &wire.MsgVerAck{}
	case wire.CmdGetAddr:
		return &wire.MsgGetAddr{}
	case wire.CmdSendHeaders:
		return &wire.MsgSendHeaders{}
	case wire.CmdMemPool:
		return &wire.MsgMemPool{}
	case wire.CmdAddr:
		n := count(rng, sz, wire.MaxAddrPerMsg)
		m := &wire.MsgAddr{AddrList: make([]*wire.NetAddress, 0, n)}
		for i := 0; i < n; i++ {
			na := rNetAddr(rng)
			m.AddrList = append(m.AddrList, &na)
		}
		return m
	case wire.CmdGetHeaders, wire.CmdGetBlocks:
		n := count(rng, sz, wire.MaxBlockLocatorsPerMsg)
		loc := make([]*chainhash.Hash, 0, n)
		for i := 0; i < n; i++ {
			h := rHash(rng)
			loc = append(loc, &h)
		}
		if cmd == wire.CmdGetHeaders {
			return &wire.MsgGetHeaders{ProtocolVersion: rU32(rng), BlockLocatorHashes: loc, HashStop: rHash(rng)}
		}
		return &wire.MsgGetBlocks{ProtocolVersion: rU32(rng), BlockLocatorHashes: loc, HashStop: rHash(rng)}
	case wire.CmdHeaders:
		n := count(rng, sz, wire.MaxBlockHeadersPerMsg)
		m := &wire.MsgHeaders{Headers: make([]*wire.BlockHeader, 0, n)}
		for i := 0; i < n; i++ {
			m.Headers = append(m.Headers, rHeader(rng))
		}
		return m
	case wire.CmdInv, wire.CmdGetData, wire.CmdNotFound:
		n := count(rng, sz, wire.MaxInvPerMsg)
		l := make([]*wire.InvVect, 0, n)
		for i := 0; i < n; i++ {
			var ty wire.InvType
			switch rng.Intn(6) {
			case 0:
				ty = wire.InvType(rng.Uint32())
			default:
				ty = wire.InvType(rng.Intn(4))
			}
			l = append(l, &wire.InvVect{Type: ty, Hash: rHash(rng)})
		}
		switch cmd {
		case wire.CmdInv:
			return &wire.MsgInv{InvList: l}
		case wire.CmdGetData:
			return &wire.MsgGetData{InvList: l}
		}
		return &wire.MsgNotFound{InvList: l}
	case wire.CmdPing:
		return &wire.MsgPing{Nonce: rU64(rng)}
	case wire.CmdPong:
		return &wire.MsgPong{Nonce: rU64(rng)}
	case wire.CmdFeeFilter:
		return &wire.MsgFeeFilter{MinFee: int64(rU64(rng))}
	case wire.CmdReject:
		cmds := []string{wire.CmdTx, wire.CmdBlock, wire.CmdVersion, wire.CmdHeaders, "", "TX", "blockx"}
		c := cmds[rng.Intn(len(cmds))]
		if rng.Intn(5) == 0 {
			c = rString(rng, rng.Intn(13))
		}
		code := rejectCodes[rng.Intn(len(rejectCodes))]
		if rng.Intn(5) == 0 {
			code = wire.RejectCode(rng.Intn(256))
		}
		var n int
		switch sz {
		case szZero:
			n = 0
		case szOne:
			n = 1
		case szMaxMinus1:
			n = 252 // last single-byte length
		case szMax:
			n = 70000 // forces the 0xfe length form
		case szMedium:
			n = 253 + rng.Intn(800) // 0xfd length form
		default:
			n = rng.Intn(112)
		}
		return &wire.MsgReject{Cmd: c, Code: code, Reason: rString(rng, n), Hash: rHash(rng)}
	}
	panic("genMsg: unknown kind " + cmd)
}

// ---------------------------------------------------------------------------
// norm / comparison, written from the protocol: diff compares exactly the
// fields the wire format carries for the kind at pver, and returns the name of the
// first field that differs ("" = equal). Times at one-second precision; IP
// addresses in their 16-byte form (an unspecified address is 16 zero bytes).

func ip16(ip net.IP) [16]byte {
	var out [16]byte
	if ip == nil {
		return out
	}
	if v := ip.To16(); v != nil {
		copy(out[:], v)
	}
	return out
}

func diffNetAddr(a, b *wire.NetAddress, withTime bool) string {
	if withTime && a.Timestamp.Unix() != b.Timestamp.Unix() {
		return "Timestamp"
	}
	if a.Services != b.Services {
		return "Services"
	}
	if ip16(a.IP) != ip16(b.IP) {
		return "IP"
	}
	if a.Port != b.Port {
		return "Port"
	}
	return ""
}

func diffHashes(a, b []*chainhash.Hash, name string) string {
	if len(a) != len(b) {
		return name + ".count"
	}
	for i := range a {
		if a[i] == nil || b[i] == nil || *a[i] != *b[i] {
			return name
		}
	}
	return ""
}

func diffInv(a, b []*wire.InvVect) string {
	if len(a) != len(b) {
		return "InvList.count"
	}
	for i := range a {
		if a[i] == nil || b[i] == nil {
			return "InvList"
		}
		if a[i].Type != b[i].Type {
			return "InvList.Type"
		}
		if a[i].Hash != b[i].Hash {
			return "InvList.Hash"
		}
	}
	return ""
}

// diff(want, got, pver): want is the generated message, got the decoded one.
func diff(want, got wire.Message, pver uint32) string {
	switch w := want.(type) {
	case *wire.MsgVersion:
		g, ok := got.(*wire.MsgVersion)
		if !ok {
			return "type"
		}
		switch {
		case w.ProtocolVersion != g.ProtocolVersion:
			return "ProtocolVersion"
		case w.Services != g.Services:
			return "Services"
		case w.Timestamp.Unix() != g.Timestamp.Unix():
			return "Timestamp"
		case w.Nonce != g.Nonce:
			return "Nonce"
		case w.UserAgent != g.UserAgent:
			return "UserAgent"
		case w.LastBlock != g.LastBlock:
			return "LastBlock"
		}
		// embedded addresses are carried without a timestamp
		if d := diffNetAddr(&w.AddrYou, &g.AddrYou, false); d != "" {
			return "AddrYou." + d
		}
		if d := diffNetAddr(&w.AddrMe, &g.AddrMe, false); d != "" {
			return "AddrMe." + d
		}
		// the relay flag exists from BIP0037Version
		if pver >= wire.BIP0037Version && w.DisableRelayTx != g.DisableRelayTx {
			return "DisableRelayTx"
		}
		return ""
	case *wire.MsgVerAck:
		if _, ok := got.(*wire.MsgVerAck); !ok {
			return "type"
		}
		return ""
	case *wire.MsgGetAddr:
		if _, ok := got.(*wire.MsgGetAddr); !ok {
			return "type"
		}
		return ""
	case *wire.MsgSendHeaders:
		if _, ok := got.(*wire.MsgSendHeaders); !ok {
			return "type"
		}
		return ""
	case *wire.MsgMemPool:
		if _, ok := got.(*wire.MsgMemPool); !ok {
			return "type"
		}
		return ""
	case *wire.MsgAddr:
		g, ok := got.(*wire.MsgAddr)
		if !ok {
			return "type"
		}
		if len(w.AddrList) != len(g.AddrList) {
			return "AddrList.count"
		}
		for i := range w.AddrList {
			if g.AddrList[i] == nil {
				return "AddrList"
			}
			// entries carry a timestamp from NetAddressTimeVersion
			if d := diffNetAddr(w.AddrList[i], g.AddrList[i], pver >= wire.NetAddressTimeVersion); d != "" {
				return "AddrList." + d
			}
		}
		return ""
	case *wire.MsgGetHeaders:
		g, ok := got.(*wire.MsgGetHeaders)
		if !ok {
			return "type"
		}
		if w.ProtocolVersion != g.ProtocolVersion {
			return "ProtocolVersion"
		}
		if d := diffHashes(w.BlockLocatorHashes, g.BlockLocatorHashes, "BlockLocatorHashes"); d != "" {
			return d
		}
		if w.HashStop != g.HashStop {
			return "HashStop"
		}
		return ""
	case *wire.MsgGetBlocks:
		g, ok := got.(*wire.MsgGetBlocks)
		if !ok {
			return "type"
		}
		if w.ProtocolVersion != g.ProtocolVersion {
			return "ProtocolVersion"
		}
		if d := diffHashes(w.BlockLocatorHashes, g.BlockLocatorHashes, "BlockLocatorHashes"); d != "" {
			return d
		}
		if w.HashStop != g.HashStop {
			return "HashStop"
		}
		return ""
	case *wire.MsgHeaders:
		g, ok := got.(*wire.MsgHeaders)
		if !ok {
			return "type"
		}
		if len(w.Headers) != len(g.Headers) {
			return "Headers.count"
		}
		for i, a := range w.Headers {
			b := g.Headers[i]
			switch {
			case b == nil:
				return "Headers"
			case a.Version != b.Version:
				return "Headers.Version"
			case a.PrevBlock != b.PrevBlock:
				return "Headers.PrevBlock"
			case a.MerkleRoot != b.MerkleRoot:
				return "Headers.MerkleRoot"
			case a.Timestamp.Unix() != b.Timestamp.Unix():
				return "Headers.Timestamp"
			case a.Bits != b.Bits:
				return "Headers.Bits"
			case a.Nonce != b.Nonce:
				return "Headers.Nonce"
			}
		}
		return ""
	case *wire.MsgInv:
		g, ok := got.(*wire.MsgInv)
		if !ok {
			return "type"
		}
		return diffInv(w.InvList, g.InvList)
	case *wire.MsgGetData:
		g, ok := got.(*wire.MsgGetData)
		if !ok {
			return "type"
		}
		return diffInv(w.InvList, g.InvList)
	case *wire.MsgNotFound:
		g, ok := got.(*wire.MsgNotFound)
		if !ok {
			return "type"
		}
		return diffInv(w.InvList, g.InvList)
	case *wire.MsgPing:
		g, ok := got.(*wire.MsgPing)
		if !ok {
			return "type"
		}
		// the nonce exists after BIP0031Version
		if pver > wire.BIP0031Version && w.Nonce != g.Nonce {
			return "Nonce"
		}
		return ""
	case *wire.MsgPong:
		g, ok := got.(*wire.MsgPong)
		if !ok {
			return "type"
		}
		if w.Nonce != g.Nonce {
			return "Nonce"
		}
		return ""
	case *wire.MsgFeeFilter:
		g, ok := got.(*wire.MsgFeeFilter)
		if !ok {
			return "type"
		}
		if w.MinFee != g.MinFee {
			return "MinFee"
		}
		return ""
	case *wire.MsgReject:
		g, ok := got.(*wire.MsgReject)
		if !ok {
			return "type"
		}
		switch {
		case w.Cmd != g.Cmd:
			return "Cmd"
		case w.Code != g.Code:
			return "Code"
		case w.Reason != g.Reason:
			return "Reason"
		}
		// the hash is carried only for rejected tx / block
		if (w.Cmd == wire.CmdTx || w.Cmd == wire.CmdBlock) && w.Hash != g.Hash {
			return "Hash"
		}
		return ""
	}
	return "type"
}

// ---------------------------------------------------------------------------
// base messages for the commands outside the 16 kinds (hostile phase only)

func rBytes(rng *rand.Rand, n int) []byte {
	b := make([]byte, n)
	_, _ = rng.Read(b)
	return b
}

func rTx(rng *rand.Rand) *wire.MsgTx {
	tx := wire.NewMsgTx(int32(rU32(rng)))
	for i, n := 0, rng.Intn(4); i < n; i++ {
		h := rHash(rng)
		ti := wire.NewTxIn(wire.NewOutPoint(&h, rU32(rng)), rBytes(rng, rng.Intn(120)))
		ti.Sequence = rU32(rng)
		tx.AddTxIn(ti)
	}
	for i, n := 0, rng.Intn(4); i < n; i++ {
		tx.AddTxOut(wire.NewTxOut(int64(rng.Int63()), rBytes(rng, rng.Intn(40))))
	}
	tx.LockTime = rU32(rng)
	return tx
}

// genOther returns a valid message for a non-listed command, or (nil, payload)
// when the payload has to be framed by hand (authch has no encoder).
func genOther(rng *rand.Rand, cmd string) (wire.Message, []byte) {
	switch cmd {
	case wire.CmdTx:
		return rTx(rng), nil
	case wire.CmdBlock:
		b := wire.NewMsgBlock(rHeader(rng))
		for i, n := 0, rng.Intn(4); i < n; i++ {
			_ = b.AddTransaction(rTx(rng))
		}
		return b, nil
	case wire.CmdMerkleBlock:
		m := wire.NewMsgMerkleBlock(rHeader(rng))
		m.Transactions = rU32(rng)
		for i, n := 0, rng.Intn(8); i < n; i++ {
			h := rHash(rng)
			_ = m.AddTxHash(&h)
		}
		m.Flags = rBytes(rng, rng.Intn(6))
		return m, nil
	case wire.CmdFilterAdd:
		return wire.NewMsgFilterAdd(rBytes(rng, rng.Intn(60))), nil
	case wire.CmdFilterClear:
		return wire.NewMsgFilterClear(), nil
	case wire.CmdFilterLoad:
		return wire.NewMsgFilterLoad(rBytes(rng, rng.Intn(100)), uint32(rng.Intn(wire.MaxFilterLoadHashFuncs+1)), rU32(rng), wire.BloomUpdateType(rng.Intn(3))), nil
	case wire.CmdGetCFilters:
		h := rHash(rng)
		return wire.NewMsgGetCFilters(wire.GCSFilterRegular, rU32(rng), &h), nil
	case wire.CmdGetCFHeaders:
		h := rHash(rng)
		return wire.NewMsgGetCFHeaders(wire.GCSFilterRegular, rU32(rng), &h), nil
	case wire.CmdGetCFCheckpt:
		h := rHash(rng)
		return wire.NewMsgGetCFCheckpt(wire.GCSFilterRegular, &h), nil
	case wire.CmdCFilter:
		h := rHash(rng)
		return wire.NewMsgCFilter(wire.GCSFilterRegular, &h, rBytes(rng, rng.Intn(80))), nil
	case wire.CmdCFHeaders:
		m := wire.NewMsgCFHeaders()
		m.StopHash, m.PrevFilterHeader = rHash(rng), rHash(rng)
		for i, n := 0, rng.Intn(8); i < n; i++ {
			h := rHash(rng)
			_ = m.AddCFHash(&h)
		}
		return m, nil
	case wire.CmdCFCheckpt:
		h := rHash(rng)
		n := rng.Intn(8)
		m := wire.NewMsgCFCheckpt(wire.GCSFilterRegular, &h, n)
		for i := 0; i < n; i++ {
			x := rHash(rng)
			_ = m.AddCFHeader(&x)
		}
		return m, nil
	case wire.CmdProtoconf:
		return wire.NewMsgProtoconf(rU32(rng)), nil
	case wire.CmdAuthch:
		// BSV authch: version(4) + message length(4) + challenge(32); the service ignores the payload
		var b bytes.Buffer
		b.Write([]byte{1, 0, 0, 0, 32, 0, 0, 0})
		b.Write(rBytes(rng, 32))
		return nil, b.Bytes()
	}
	panic("genOther: " + cmd)
}
