// Package c14: wire codec — decode(encode(m)) = m for the message kinds the service
// sends or acts upon, encode(decode(bytes)) = bytes, and hostile byte streams are
// refused without panic, hang or allocation beyond the declared limits.
//
// The oracle observes the REAL codec (internal/wire: WriteMessageWithEncodingN /
// ReadMessageWithEncodingN on in-memory buffers) under the production limits
// (wire.SetLimits(config.ExcessiveBlockSize), as cmd/main.go does at start-up).
package c14

import (
	"bytes"
	"encoding/binary"
	"errors"
	"fmt"
	"github.com/bitcoin-sv/block-headers-service/internal/chaincfg/chainhash"
	"math/rand"
	"net"
	"os"
	"reflect"
	"runtime"
	"runtime/debug"
	"strconv"
	"strings"
	"sync"
	"sync/atomic"
	"syscall"
	"time"

	"github.com/bitcoin-sv/block-headers-service/config"
	"github.com/bitcoin-sv/block-headers-service/internal/wire"
	"github.com/bitcoin-sv/block-headers-service/verifharness/ev"
)

// Spec registers the check.
func Spec() ev.Spec {
	return ev.Spec{Prop: "C14", Level: "exploration", Workers: -1, Body: body}
}

func declare(r *ev.Run, t *tables) {
	r.Rule("(1b) 16 goroutines encode and decode addr messages of 400 addresses each at once (values only that goroutine uses); (1) round trips: seeded structured generators for the 16 kinds (counts 0, 1, max-1, max, small, medium; second-precision times incl. 0 / 2^31 / 2^32-1; nil, 4-byte, mapped and native IPv6 addresses; user-agent lengths 0..MaxUserAgentLen; known and unknown reject codes; reject reasons through all three var-int length forms) x protocol versions {every version boundary constant of internal/wire/protocol.go and its predecessor, bulk at 70011..70013, plus uniform 209..70013} x {BaseEncoding, LatestEncoding} x {MainNet, TestNet, TestNet3, SimNet}; one evaluation = one (message, pver, encoding) with law 1, law 2 and the version gate. (2) hostile inputs: for EVERY command of the decoder's table (30, incl. protoconf/authch and the kinds the service ignores) valid frames from the real encoder are mutated by class: bit flips raw / with recomputed checksum, truncation at every offset raw / with consistent header, length-field inflation, consistent limit+1 payloads, count/length var-int inflation at every leading payload offset (0xfd/0xfe/0xff forms, limit-1, limit, limit+1, global limit, 2^32-1, 2^63, 2^64-1; with and without the rest of the payload), non-canonical var-ints, splicing with frames of other commands, magic / checksum / command corruption, random payloads under a valid header; plus raw random bytes with and without a valid magic. Every input is decoded at a drawn protocol version. distinct = distinct (command, mutation class, version interval, outcome, required verdict); every hostile input and every round trip of a non-empty message is non-trivial.")
	r.Assume(
		"norm(m, pver) is written from the protocol: ping has no nonce at pver <= BIP0031Version; addr entries carry a timestamp from NetAddressTimeVersion; version carries the relay flag from BIP0037Version and its embedded addresses carry no timestamp; reject carries its hash only for tx/block; IP addresses are compared in 16-byte form, times at one-second precision",
		"law 2 is asserted for frames produced by the encoder from generated messages (hostile frames that happen to decode need not re-encode identically: the decoder tolerates short version messages and ignores protoconf/authch payloads)",
		"declared limits are read from the package at run time: Message.MaxPayloadLength(pver) per command, MaxInvPerMsg / MaxBlockHeadersPerMsg / MaxAddrPerMsg / MaxBlockLocatorsPerMsg …, and the global message limit under wire.SetLimits(config.ExcessiveBlockSize)",
		"allocation bound per decode = amp x min(max(input length, announced length), MaxPayloadLength(cmd)) + gamma(cmd) + 64 KiB with amp = 4 (16 for tx/block: 512-byte script free-list buffers); gamma(cmd) = declared count limit x in-memory element size; for version/reject gamma is the global message limit because ReadVarString's declared guard is that limit (weakest reading of 'declared payload limit'); frames refused at the header: 64 KiB",
		"allocation = runtime.MemStats.TotalAlloc delta measured inside the single decoding goroutine of a child process while all other goroutines are parked; RLIMIT_AS and debug.SetMemoryLimit cap each child",
		"hang watchdog: 10 s per input, confirmed by a solitary re-run with 30 s (in-memory readers never block, so any timeout is a decoder loop)",
	)
	for _, k := range t.listed {
		r.Require("roundtrips|"+k.cmd, 1000)
	}
	for _, v := range t.pvers {
		r.Require("roundtrips_pver|"+utoa(uint64(v)), 500)
	}
	for _, k := range t.kinds {
		r.Require("hostile|"+k.cmd, 2000)
	}
	for _, c := range perCmdClasses {
		r.Require("class|"+c.name, 30)
	}
	r.Require("class|"+clRandomRaw, 1000)
	r.Require("class|"+clRandomMagic, 1000)
	for _, why := range []string{"bad-magic", "bad-checksum", "unknown-command", "oversize-length", "truncated", "short-header"} {
		r.Require("rejected_as_required|"+why, 500)
	}
	r.Require("hostile_decoded", 1000)
	r.Require("gate_refusals", 100)
	r.Require("roundtrips_at_max_count", 16)
	r.Require("count_field_at_declared_limit_frames", 30)
}

// capMemory: a runaway allocation must kill this child quickly instead of the machine.
func capMemory() {
	debug.SetMemoryLimit(3 << 30)
	vm := uint64(0)
	if b, err := os.ReadFile("/proc/self/statm"); err == nil {
		if f := strings.Fields(string(b)); len(f) > 0 {
			if pages, err := strconv.ParseUint(f[0], 10, 64); err == nil {
				vm = pages * uint64(os.Getpagesize())
			}
		}
	}
	lim := vm + 8<<30
	var cur syscall.Rlimit
	if err := syscall.Getrlimit(syscall.RLIMIT_AS, &cur); err == nil {
		if cur.Cur < lim {
			return
		}
		cur.Cur = lim
		_ = syscall.Setrlimit(syscall.RLIMIT_AS, &cur)
	}
}

func body(r *ev.Run) {
	// production setting of cmd/main.go
	wire.SetLimits(config.ExcessiveBlockSize)
	t := newTables()
	declare(r, t)
	inChild := os.Getenv("VCHECK_CHILD") != ""
	if inChild {
		capMemory()
	}
	// the decoder prints read errors of its discard path with fmt.Println; keep them out of the logs
	if devnull, err := os.OpenFile(os.DevNull, os.O_WRONLY, 0); err == nil {
		old := os.Stdout
		os.Stdout = devnull
		defer func() { os.Stdout = old; devnull.Close() }()
	}
	r.Count("global_message_limit_bytes", 0)
	if r.Worker == 0 {
		r.Count("global_message_limit_bytes", int64(t.maxMsg))
	}

	roundTrips(r, t)
	concurrentRoundTrips(r, t)
	hostile(r, t)
}

// ---------------------------------------------------------------------------
// phase 1: round-trip laws

type rtCtx struct {
	r   *ev.Run
	t   *tables
	cnt map[string]int64
	sig map[string]struct{}
	mu  *sync.Mutex // only for the concurrent phase
}

func (c *rtCtx) count(k string, n int64) {
	if c.mu != nil {
		c.mu.Lock()
		defer c.mu.Unlock()
	}
	c.cnt[k] += n
}

func (c *rtCtx) flush() {
	for k, v := range c.cnt {
		c.r.Count(k, v)
		delete(c.cnt, k)
	}
}

func msgDump(m wire.Message) string { return trunc(fmt.Sprintf("%T %+v", m, m), 1500) }

// evalRT: one (message, pver, encoding, network) evaluation of gate, law 1 and law 2.
func (c *rtCtx) evalRT(k *kind, m wire.Message, sz int, pver uint32, enc wire.MessageEncoding, encName string, net wire.BitcoinNet, id string) {
	r, t := c.r, c.t
	pc := t.pverClass(pver)
	detail := func(extra map[string]any) map[string]any {
		d := map[string]any{"kind": k.cmd, "pver": pver, "encoding": uint32(enc), "net": uint32(net), "size_class": szNames[sz], "message": msgDump(m)}
		for a, b := range extra {
			d[a] = b
		}
		return d
	}
	var buf bytes.Buffer
	n, err := wire.WriteMessageWithEncodingN(&buf, m, pver, net, enc)
	if !k.exists(pver) {
		// the kind does not exist at this version: the encoder must refuse
		c.count("gate_refusals_checked", 1)
		if err == nil {
			r.Violate("gate|"+k.cmd+"|"+pc, "encoder produced a frame for a message kind that does not exist at this protocol version", id, detail(map[string]any{"frame_hex": hexHead(buf.Bytes(), 256)}))
		} else {
			c.count("gate_refusals", 1)
			c.count("gate_refusals|"+k.cmd, 1)
		}
		return
	}
	r.Cases(1)
	c.count("roundtrips|"+k.cmd, 1)
	c.count("roundtrips_pver|"+t.pverTag(pver), 1)
	c.count("roundtrips_encoding|"+encName, 1)
	if sz == szMax {
		c.count("roundtrips_at_max_count", 1)
	}
	sg := k.cmd + "|" + pc + "|" + encName + "|" + szNames[sz]
	if c.mu != nil {
		c.mu.Lock()
	}
	if _, ok := c.sig[sg]; !ok {
		c.sig[sg] = struct{}{}
		r.Distinct("rt|" + sg)
	}
	if c.mu != nil {
		c.mu.Unlock()
	}
	if err != nil {
		r.Violate("roundtrip1|"+k.cmd+"|encode-error|"+pc, "encoder refused a message whose fields are within the protocol limits: "+trunc(err.Error(), 200), id, detail(nil))
		return
	}
	b := buf.Bytes()
	if n != len(b) {
		r.Violate("roundtrip1|"+k.cmd+"|bytes-written|"+pc, "encoder reported a byte count different from what it wrote", id, detail(map[string]any{"reported": n, "written": len(b)}))
	}
	rn, got, payload, err := wire.ReadMessageWithEncodingN(bytes.NewReader(b), pver, net, enc)
	if err != nil {
		r.Violate("roundtrip1|"+k.cmd+"|decode-error|"+pc, "decoder refused the encoder's own frame: "+trunc(err.Error(), 200), id, detail(map[string]any{"frame_hex": hexHead(b, 512)}))
		return
	}
	if got == nil {
		r.Violate("roundtrip1|"+k.cmd+"|nil-message|"+pc, "decoder returned neither error nor message", id, detail(nil))
		return
	}
	if reflect.TypeOf(got) != reflect.TypeOf(m) {
		r.Violate("roundtrip1|"+k.cmd+"|type|"+pc, fmt.Sprintf("decoded into %T instead of %T", got, m), id, detail(nil))
		return
	}
	if rn != len(b) || !bytes.Equal(payload, b[hdrSize:]) {
		r.Violate("roundtrip1|"+k.cmd+"|consumed|"+pc, "decoder consumed / returned other bytes than the frame", id, detail(map[string]any{"consumed": rn, "frame_len": len(b)}))
	}
	if f := diff(m, got, pver); f != "" {
		r.Violate("roundtrip1|"+k.cmd+"|"+f+"|"+pc, "decode(encode(m)) differs from m in field "+f, id, detail(map[string]any{"decoded": msgDump(got), "frame_hex": hexHead(b, 512)}))
		return
	}
	// law 2: re-encoding the decoded message reproduces the bytes
	var buf2 bytes.Buffer
	if _, err := wire.WriteMessageWithEncodingN(&buf2, got, pver, net, enc); err != nil {
		r.Violate("roundtrip2|"+k.cmd+"|encode-error|"+pc, "re-encoding the decoded message failed: "+trunc(err.Error(), 200), id, detail(map[string]any{"decoded": msgDump(got)}))
		return
	}
	if !bytes.Equal(buf2.Bytes(), b) {
		r.Violate("roundtrip2|"+k.cmd+"|"+pc, "encode(decode(bytes)) differs from bytes", id, detail(map[string]any{"frame_hex": hexHead(b, 512), "reencoded_hex": hexHead(buf2.Bytes(), 512), "decoded": msgDump(got)}))
		return
	}
	if r.WantSample() && sz == szSmall && len(b) > hdrSize && len(b) < 200 {
		r.Sample(map[string]any{"case": id, "kind": k.cmd, "pver": pver, "frame_hex": fmt.Sprintf("%x", b), "law1": "ok", "law2": "ok"})
	}
}

// rtBatch: n generated messages of one kind, each evaluated at two (pver, encoding) points.
func (c *rtCtx) rtBatch(k *kind, rng *rand.Rand, id string, n int, boundary bool) {
	t := c.t
	for i := 0; i < n; i++ {
		sz := szSmall
		switch {
		case i < 5 && boundary:
			sz = []int{szZero, szOne, szMaxMinus1, szMax, szMedium}[i]
		case i < 2:
			sz = []int{szZero, szOne}[i]
		case rng.Intn(25) == 0:
			sz = szMedium
		}
		m := genMsg(rng, k.cmd, sz)
		sub := id + "/" + utoa(uint64(i))
		net := wire.MainNet
		if rng.Intn(5) == 0 {
			net = t.netList[rng.Intn(len(t.netList))]
		}
		// two evaluations per message: a drawn version with BaseEncoding, another with LatestEncoding;
		// the first five messages of a batch (the count classes) walk the boundary list instead
		p1, p2 := t.pickPver(rng), t.pickPver(rng)
		if i < 5 && boundary {
			p1 = wire.ProtocolVersion
			p2 = t.pvers[rng.Intn(len(t.pvers))]
		}
		// replay filter after every random draw, so that skipped messages consume the stream too
		if c.r.Only != "" && c.r.Only != id && c.r.Only != sub {
			continue
		}
		c.evalRT(k, m, sz, p1, wire.BaseEncoding, "BaseEncoding", net, sub)
		c.evalRT(k, m, sz, p2, wire.LatestEncoding, "LatestEncoding", net, sub)
	}
}

func roundTrips(r *ev.Run, t *tables) {
	batches := r.Pick(75, 250)
	per := r.Pick(250, 1250) // messages per batch; two evaluations each
	c := &rtCtx{r: r, t: t, cnt: map[string]int64{}, sig: map[string]struct{}{}}
	for _, k := range t.listed {
		for b := 0; b < batches; b++ {
			id := fmt.Sprintf("rt/%s/%d", k.cmd, b)
			r.Do(id, func() { defer timing(id)(); c.rtBatch(k, r.Rand(id), id, per, b%5 == 0) })
		}
	}
	c.flush()
}

// concurrentRoundTrips: the same laws with several encoders/decoders running in
// parallel inside one process (the package shares free lists between all peers).
func concurrentRoundTrips(r *ev.Run, t *tables) {
	cases := r.Pick(16, 64)
	per := r.Pick(150, 1500)
	c := &rtCtx{r: r, t: t, cnt: map[string]int64{}, sig: map[string]struct{}{}, mu: &sync.Mutex{}}
	for b := 0; b < cases; b++ {
		id := fmt.Sprintf("rtc/%d", b)
		r.Do(id, func() {
			var wg sync.WaitGroup
			for g := 0; g < 6; g++ {
				wg.Add(1)
				gid := fmt.Sprintf("%s/g%d", id, g)
				go func() {
					defer wg.Done()
					defer func() {
						if p := recover(); p != nil {
							r.Violate("panic|concurrent-roundtrip", fmt.Sprintf("panic in concurrent round trip: %v", p), gid, map[string]any{"stack": string(debug.Stack())})
						}
					}()
					rng := r.Rand(gid)
					for i := 0; i < per; i++ {
						k := t.listed[rng.Intn(len(t.listed))]
						m := genMsg(rng, k.cmd, szSmall)
						c.evalRT(k, m, szSmall, t.pickPver(rng), wire.BaseEncoding, "BaseEncoding", wire.MainNet, gid)
						c.count("concurrent_roundtrips", 1)
					}
				}()
			}
			wg.Wait()
		})
	}
	c.flush()
	// many encoders at once on the codec's shared scratch buffers: addr messages are almost nothing but 8-byte and
	// 4-byte fields written one by one; every goroutine uses values only it uses
	r.Do("rtc/hammer", func() {
		var wg sync.WaitGroup
		var bad atomic.Value
		n := r.Pick(120, 1200)
		// a hostile peer is at it meanwhile: frames with a correct header and checksum whose payload stops right where a count
		// or a field is expected (rejected with an error, as they must be) - before the encoders start and while they run
		var stopHostile atomic.Bool
		var hostileFrames atomic.Int64
		truncated := func() {
			for _, cmd := range []string{"inv", "headers", "addr", "getheaders", "version", "ping", "reject"} {
				for _, payload := range [][]byte{{}, {0xfd}, {0xfd, 0x01}, {0xfe, 1, 2}, {0x01}} {
					var hdr [24]byte
					binary.LittleEndian.PutUint32(hdr[0:4], uint32(wire.MainNet))
					copy(hdr[4:16], cmd)
					binary.LittleEndian.PutUint32(hdr[16:20], uint32(len(payload)))
					sum := chainhash.DoubleHashB(payload)
					copy(hdr[20:24], sum[:4])
					_, _, _, err := wire.ReadMessageWithEncodingN(bytes.NewReader(append(hdr[:], payload...)), wire.ProtocolVersion, wire.MainNet, wire.BaseEncoding)
					if err != nil {
						hostileFrames.Add(1)
					}
				}
			}
			_, _ = wire.ReadVarInt(bytes.NewReader(nil), wire.ProtocolVersion)
			// ... and a connection that goes away in the middle of a frame the service is writing: the 24-byte header gets
			// through, the payload does not
			am := wire.NewMsgAddr()
			for a := 0; a < 30; a++ {
				_ = am.AddAddress(wire.NewNetAddressIPPort(net.IPv4(172, 16, 9, byte(a)), 9999, wire.SFNodeNetwork))
			}
			for _, cut := range []int{24, 25, 60} {
				if _, err := wire.WriteMessageWithEncodingN(&cutWriter{left: cut}, am, wire.ProtocolVersion, wire.MainNet, wire.BaseEncoding); err != nil {
					hostileFrames.Add(1)
				}
			}
		}
		for k := 0; k < 8; k++ {
			truncated()
		}
		var hostileDone sync.WaitGroup
		hostileDone.Add(1)
		go func() {
			defer hostileDone.Done()
			defer func() { _ = recover() }()
			for !stopHostile.Load() {
				truncated()
			}
		}()
		defer func() {
			stopHostile.Store(true)
			hostileDone.Wait()
			r.Count("truncated_frames_rejected_next_to_the_concurrent_encoders", hostileFrames.Load())
		}()
		for g := 0; g < 16; g++ {
			g := g
			wg.Add(1)
			go func() {
				defer wg.Done()
				defer func() {
					if p := recover(); p != nil {
						bad.CompareAndSwap(nil, fmt.Sprintf("panic: %v", p))
					}
				}()
				for i := 0; i < n && bad.Load() == nil; i++ {
					m := wire.NewMsgAddr()
					for a := 0; a < 400; a++ {
						sv := wire.ServiceFlag(uint64(g+1)<<56 | uint64(i)<<24 | uint64(a))
						na := wire.NewNetAddressIPPort(net.IPv4(10, byte(g), byte(a>>8), byte(a)), uint16(1000+g), sv)
						na.Timestamp = time.Unix(int64(1600000000+g*1000000+a), 0)
						_ = m.AddAddress(na)
					}
					var buf bytes.Buffer
					if _, err := wire.WriteMessageWithEncodingN(&buf, m, wire.ProtocolVersion, wire.MainNet, wire.BaseEncoding); err != nil {
						bad.CompareAndSwap(nil, "encode: "+err.Error())
						return
					}
					_, got, _, err := wire.ReadMessageWithEncodingN(bytes.NewReader(buf.Bytes()), wire.ProtocolVersion, wire.MainNet, wire.BaseEncoding)
					if err != nil {
						bad.CompareAndSwap(nil, "decode of the encoder's own frame: "+err.Error())
						return
					}
					ga, ok := got.(*wire.MsgAddr)
					if !ok || len(ga.AddrList) != len(m.AddrList) {
						bad.CompareAndSwap(nil, "decoded message has another shape")
						return
					}
					for a := range m.AddrList {
						w, x := m.AddrList[a], ga.AddrList[a]
						if w.Services != x.Services || w.Port != x.Port || !w.IP.Equal(x.IP) || w.Timestamp.Unix() != x.Timestamp.Unix() {
							bad.CompareAndSwap(nil, fmt.Sprintf("goroutine %d, message %d, address %d: encoded services=%#x port=%d time=%d, decoded services=%#x port=%d time=%d", g, i, a, uint64(w.Services), w.Port, w.Timestamp.Unix(), uint64(x.Services), x.Port, x.Timestamp.Unix()))
							return
						}
					}
					c.count("concurrent_roundtrips", 1)
				}
			}()
		}
		wg.Wait()
		if b := bad.Load(); b != nil {
			r.Violate("roundtrip-concurrent|addr|field-of-another-encoder", "with 16 encoders at once decode(encode(m)) differs from m: "+b.(string), "rtc/hammer", nil)
		}
		r.Count("concurrent_encoder_hammer_runs", 1)
	})
	c.flush()
}

// ---------------------------------------------------------------------------
// phase 2: hostile inputs

func hostile(r *ev.Run, t *tables) {
	scale := r.Pick(5, 100)
	// ReadMemStats stops the world: keep the world of this (single-decoder) process small
	defer runtime.GOMAXPROCS(runtime.GOMAXPROCS(2))
	h := &hz{r: r, t: t, dec: newDecoder(r.Scratch), cnt: map[string]int64{}, sig: map[string]struct{}{}}
	for _, k := range t.kinds {
		for _, cl := range perCmdClasses {
			cases := cl.cases
			sc := 1
			if cl.frames > 0 {
				cases *= scale // fixed-size classes scale by the number of cases
			} else {
				sc = scale // enumerating classes scale their own budgets
				if sc > 4 {
					cases *= sc / 4
					sc = 4
				}
			}
			for b := 0; b < cases; b++ {
				id := fmt.Sprintf("hz/%s/%s/%d", k.cmd, cl.name, b)
				r.Do(id, func() {
					defer timing(id)()
					h.caseID = id
					h.runCase(k.cmd, cl.name, sc, cl.frames)
					h.flush()
				})
			}
		}
	}
	for _, cl := range []string{clRandomRaw, clRandomMagic} {
		for b := 0; b < 10*scale; b++ {
			id := fmt.Sprintf("hz/-/%s/%d", cl, b)
			r.Do(id, func() {
				h.caseID = id
				h.runCase("", cl, 1, 1000)
				h.flush()
			})
		}
	}
	if h.maxRatioDen > 0 {
		r.Extra(fmt.Sprintf("max_alloc_over_bound_w%02d", r.Worker), map[string]any{
			"ratio": float64(int(1000*float64(h.maxRatioNum)/float64(h.maxRatioDen))) / 1000, "case": h.maxRatioWhat,
		})
	}
}

// timing: developer aid (C14_TIMING=<file>): per-case CPU cost; not used by any oracle.
func timing(id string) func() {
	path := os.Getenv("C14_TIMING")
	if path == "" {
		return func() {}
	}
	t0 := time.Now()
	return func() {
		if f, err := os.OpenFile(path, os.O_APPEND|os.O_CREATE|os.O_WRONLY, 0o644); err == nil {
			fmt.Fprintf(f, "%8.1f ms %s\n", float64(time.Since(t0).Microseconds())/1000, id)
			f.Close()
		}
	}
}

// cutWriter accepts `left` bytes and fails from then on (a connection lost in the middle of a frame).
type cutWriter struct{ left int }

func (w *cutWriter) Write(p []byte) (int, error) {
	if len(p) <= w.left {
		w.left -= len(p)
		return len(p), nil
	}
	n := w.left
	w.left = 0
	return n, errors.New("verif: connection lost")
}
