package c14

import (
	"bytes"
	"crypto/sha256"
	"encoding/binary"
	"fmt"
	"os"
	"path/filepath"
	"runtime"
	"runtime/debug"
	"strings"
	"time"
	"unicode/utf8"

	"github.com/bitcoin-sv/block-headers-service/internal/wire"
)

// ---------------------------------------------------------------------------
// independent frame construction / header parsing (own double SHA-256, own layout)

const hdrSize = 24

func sha256d4(p []byte) [4]byte {
	a := sha256.Sum256(p)
	b := sha256.Sum256(a[:])
	return [4]byte{b[0], b[1], b[2], b[3]}
}

// frame builds magic | command (NUL padded to 12) | length | checksum | payload.
func frame(net wire.BitcoinNet, cmd string, payload []byte) []byte {
	out := make([]byte, hdrSize+len(payload))
	binary.LittleEndian.PutUint32(out[0:4], uint32(net))
	copy(out[4:16], cmd)
	binary.LittleEndian.PutUint32(out[16:20], uint32(len(payload)))
	c := sha256d4(payload)
	copy(out[20:24], c[:])
	copy(out[hdrSize:], payload)
	return out
}

// resum rewrites length and checksum of a frame so that they match its payload.
func resum(f []byte) {
	if len(f) < hdrSize {
		return
	}
	binary.LittleEndian.PutUint32(f[16:20], uint32(len(f)-hdrSize))
	c := sha256d4(f[hdrSize:])
	copy(f[20:24], c[:])
}

// expectation: what the statement demands for this input, from an independent parse.
type expectation struct {
	mustReject string // "" or the first reason in a fixed order
	headerOnly bool   // the frame has to be refused before any payload is looked at
	cmd        string // command field (NULs trimmed); "" when there is no full header
	k          *kind  // nil for unknown commands
	hdrLen     uint64
	mpl        uint64
}

func (t *tables) classify(in []byte, pver uint32, net wire.BitcoinNet) expectation {
	var e expectation
	if len(in) < hdrSize {
		e.mustReject, e.headerOnly = "short-header", true
		return e
	}
	magic := binary.LittleEndian.Uint32(in[0:4])
	cmd := string(bytes.TrimRight(in[4:16], "\x00"))
	e.cmd = cmd
	e.hdrLen = uint64(binary.LittleEndian.Uint32(in[16:20]))
	if utf8.ValidString(cmd) {
		e.k = t.byCmd[cmd]
	}
	if e.k != nil {
		e.mpl = uint64(e.k.fresh().MaxPayloadLength(pver))
	}
	switch {
	case magic != uint32(net):
		e.mustReject, e.headerOnly = "bad-magic", true
	case e.k == nil:
		e.mustReject, e.headerOnly = "unknown-command", true
	case e.hdrLen > t.maxMsg || e.hdrLen > e.mpl:
		e.mustReject, e.headerOnly = "oversize-length", true
	case uint64(len(in)-hdrSize) < e.hdrLen:
		e.mustReject = "truncated"
	default:
		c := sha256d4(in[hdrSize : hdrSize+int(e.hdrLen)])
		if !bytes.Equal(c[:], in[20:24]) {
			e.mustReject = "bad-checksum"
		}
	}
	return e
}

const slack = 64 << 10

// allocBound is the allocation a single decode of this input may cause.
func (t *tables) allocBound(e *expectation, inputLen int) uint64 {
	if e.headerOnly {
		// refused at the header: nothing but the (chunked, 10 KiB) discard buffers
		return slack
	}
	n := uint64(inputLen)
	if e.hdrLen > n {
		n = e.hdrLen // the payload buffer of the announced (and admissible) length
	}
	if n > e.mpl {
		n = e.mpl
	}
	return e.k.amp*n + e.k.gamma(t) + slack
}

// ---------------------------------------------------------------------------
// the monitored decoder: one persistent goroutine per worker process; the caller
// waits with a deadline (hang watchdog); allocation = TotalAlloc delta measured
// inside the decoding goroutine while every other goroutine of the process is parked.

type job struct {
	in   []byte
	pver uint32
	net  wire.BitcoinNet
	enc  wire.MessageEncoding
}

type outcome struct {
	n        int
	msg      wire.Message
	payload  []byte
	err      error
	panicked any
	stack    string
	alloc    uint64
	timeout  bool
}

type decoder struct {
	in        chan job
	out       chan outcome
	timer     *time.Timer
	tainted   bool // a confirmed hang left a runaway goroutine behind: allocation figures are no longer attributable
	cur       *os.File
	abandoned []chan outcome
}

const (
	deadline1 = 10 * time.Second
	deadline2 = 30 * time.Second
)

func newDecoder(scratch string) *decoder {
	d := &decoder{timer: time.NewTimer(time.Hour)}
	d.timer.Stop()
	if scratch != "" {
		if f, err := os.OpenFile(filepath.Join(scratch, "c14-current-input.bin"), os.O_CREATE|os.O_RDWR, 0o644); err == nil {
			d.cur = f
		}
	}
	d.spawn()
	return d
}

func (d *decoder) spawn() {
	d.in = make(chan job)
	d.out = make(chan outcome, 1)
	in, out := d.in, d.out
	go func() {
		var ms0, ms1 runtime.MemStats
		for j := range in {
			out <- decodeOnce(j, &ms0, &ms1)
		}
	}()
}

func decodeOnce(j job, ms0, ms1 *runtime.MemStats) (o outcome) {
	defer func() {
		if p := recover(); p != nil {
			o.panicked = p
			o.stack = string(debug.Stack())
		}
	}()
	rd := bytes.NewReader(j.in)
	runtime.ReadMemStats(ms0)
	n, msg, payload, err := wire.ReadMessageWithEncodingN(rd, j.pver, j.net, j.enc)
	runtime.ReadMemStats(ms1)
	o.n, o.msg, o.payload, o.err = n, msg, payload, err
	o.alloc = ms1.TotalAlloc - ms0.TotalAlloc
	return o
}

// persist writes the input to the scratch file before it is decoded, so that a fatal
// runtime error (out of memory, makeslice, checkptr) can be attributed to its input.
func (d *decoder) persist(in []byte) {
	if d.cur == nil {
		return
	}
	var l [4]byte
	binary.LittleEndian.PutUint32(l[:], uint32(len(in)))
	_, _ = d.cur.WriteAt(l[:], 0)
	_, _ = d.cur.WriteAt(in, 4)
}

func (d *decoder) run(j job, limit time.Duration) outcome {
	d.in <- j
	d.timer.Reset(limit)
	select {
	case o := <-d.out:
		d.timer.Stop()
		return o
	case <-d.timer.C:
		// abandon the goroutine (it cannot be killed) and start a fresh one
		d.abandoned = append(d.abandoned, d.out)
		d.spawn()
		return outcome{timeout: true}
	}
}

// decode runs the input under all monitors. hung = both the first run and the
// solitary re-run exceeded their deadline.
func (d *decoder) decode(j job) (o outcome, hung bool, rerun bool) {
	d.persist(j.in)
	o = d.run(j, deadline1)
	if !o.timeout {
		return o, false, false
	}
	o = d.run(j, deadline2)
	if o.timeout {
		d.tainted = true
		return o, true, true
	}
	// the re-run finished: the abandoned first run must finish too before allocation
	// figures of later inputs can be attributed again
	for _, ch := range d.abandoned {
		d.timer.Reset(deadline2)
		select {
		case <-ch:
			d.timer.Stop()
		case <-d.timer.C:
			d.tainted = true
		}
	}
	d.abandoned = nil
	return o, false, true
}

// panicSite: innermost function of the repository in a stack trace.
func panicSite(st string) string {
	seen := false
	for _, l := range strings.Split(st, "\n") {
		if strings.HasPrefix(l, "panic(") {
			seen = true
			continue
		}
		if !seen || strings.HasPrefix(l, "\t") {
			continue
		}
		if i := strings.Index(l, "block-headers-service/"); i >= 0 && !strings.Contains(l, "verifharness") {
			l = l[i+len("block-headers-service/"):]
			if j := strings.LastIndex(l, "("); j > 0 {
				l = l[:j]
			}
			return l
		}
	}
	return "?"
}

func hexHead(b []byte, n int) string {
	if len(b) <= n {
		return fmt.Sprintf("%x", b)
	}
	return fmt.Sprintf("%x…(+%d bytes)", b[:n], len(b)-n)
}

// ratioBucket: histogram bucket of observed allocation / bound.
func ratioBucket(alloc, bound uint64) string {
	switch {
	case alloc > bound:
		return "alloc_ratio|>100%"
	case alloc*2 > bound:
		return "alloc_ratio|50-100%"
	case alloc*4 > bound:
		return "alloc_ratio|25-50%"
	case alloc*10 > bound:
		return "alloc_ratio|10-25%"
	case alloc*100 > bound:
		return "alloc_ratio|1-10%"
	}
	return "alloc_ratio|<1%"
}

// ampBucket: histogram bucket of allocation / input length (amplification).
func ampBucket(alloc uint64, inputLen int) string {
	n := uint64(inputLen)
	if n == 0 {
		n = 1
	}
	switch x := alloc / n; {
	case x >= 1<<20:
		return "alloc_per_input_byte|>=2^20"
	case x >= 1<<10:
		return "alloc_per_input_byte|2^10..2^20"
	case x >= 64:
		return "alloc_per_input_byte|64..1024"
	case x >= 4:
		return "alloc_per_input_byte|4..64"
	}
	return "alloc_per_input_byte|<4"
}
